(* C17/Lemmas.v — proofs about the model of Model.v. *)
From Common Require Import Prelude.
From C17 Require Import Model Player.
Open Scope Z_scope.

(* ------------------------------------------------------------------------------------------ *)
(* outputs: classification and counting                                                       *)
Definition is_ev (o : out) : bool := match o with OEv _ _ => true | _ => false end.
Definition is_evc (c : Z) (o : out) : bool := match o with OEv c' _ => c' =? c | _ => false end.
Definition cnt (c : Z) (os : list out) : nat := length (filter (is_evc c) os).
Definition no_light_ops (os : list out) : Prop := forallb is_ev os = true.

Lemma cnt_app c a b : cnt c (a ++ b) = (cnt c a + cnt c b)%nat.
Proof. unfold cnt. rewrite filter_app, app_length. reflexivity. Qed.

Lemma step_outs_no_ev st start c : cnt c (step_outs st start) = 0%nat.
Proof.
  unfold step_outs, cnt. induction (s_acts st) as [|a l IH]; cbn; [reflexivity|].
  unfold act_out at 1. destruct (snd a =? 0); [|destruct (snd a =? 6); [|destruct (snd a =? 7)]]; cbn; exact IH.
Qed.

(* ------------------------------------------------------------------------------------------ *)
(* what _run_next_step can do                                                                  *)
Definition step_time (r : rs) (i : Z) : Z := ttn (s_dur (nth_step r i)) (r_speed4 r).

Inductive rn_result (post : list out) (pa : bool) (r r' : rs) (os : list out) : Prop :=
| RnComplete :
    r_stopped r' = true -> r_timer r' = None -> r_steps r' = r_steps r ->
    os = OClear :: OEv 4 0 :: post ++ [OEv 3 0] ->
    rn_result post pa r r' os
| RnStep (i : Z) (lp : list out) :
    r_stopped r' = false ->
    os = step_outs (nth_step r i) (r_nst r) ++ [OEv 0 i] ++ post ++ lp ->
    (lp = [] \/ lp = [OEv 2 0]) ->
    0 <= i < total r ->
    i = (let i0 := if r_idx r <? 0 then r_idx r mod total r else r_idx r in if i0 >=? total r then 0 else i0) ->
    r_idx r' = i + 1 ->
    r_steps r' = r_steps r -> r_speed4 r' = r_speed4 r -> r_manual r' = r_manual r ->
    r_running r' = r_running r ->
    ((r_timer r' = r_timer r /\ r_nst r' = r_nst r /\
      (r_manual r = true \/ step_time r i <= 0 \/ pa = true)) \/
     (r_timer r' = Some (r_nst r + step_time r i, false) /\ r_nst r' = r_nst r + step_time r i /\
      0 < step_time r i /\ r_manual r = false /\ pa = false)) ->
    rn_result post pa r r' os.

Lemma run_next_cases post pa r :
  r_stopped r = false -> r_steps r <> [] ->
  rn_result post pa r (fst (run_next post pa r)) (snd (run_next post pa r)).
Proof.
  intros Hs Hne.
  assert (Hn : 0 < total r).
  { unfold total. destruct (r_steps r); [congruence|]. cbn [length]. lia. }
  unfold run_next.
  set (n := total r) in *.
  set (i0 := if r_idx r <? 0 then r_idx r mod n else r_idx r).
  assert (Hi0 : 0 <= i0).
  { unfold i0. destruct (r_idx r <? 0) eqn:E.
    - apply Z.mod_pos_bound. exact Hn.
    - apply Z.ltb_ge in E. exact E. }
  destruct ((i0 >=? n) && (r_loops r =? 0)) eqn:Eend.
  - (* complete *)
    unfold do_stop, set_idx. cbn [r_stopped]. rewrite Hs. cbn [fst snd].
    apply RnComplete; cbn; try reflexivity.
  - cbn [fst snd].
    set (wrap := i0 >=? n).
    set (i1 := if wrap then 0 else i0).
    assert (Hi1 : 0 <= i1 < n).
    { unfold i1, wrap. destruct (i0 >=? n) eqn:E; [lia|]. rewrite Z.geb_leb in E. apply Z.leb_gt in E. lia. }
    set (st := nth_step r i1).
    set (t := ttn (s_dur st) (r_speed4 r)).
    destruct (negb (r_manual r) && (0 <? t) && negb pa) eqn:Esched.
    + apply RnStep with (i := i1) (lp := if wrap then [OEv 2 0] else []); cbn; try reflexivity; try assumption.
      * fold st. destruct wrap; cbn; rewrite ?app_nil_r; reflexivity.
      * destruct wrap; auto.
      * right. apply andb_true_iff in Esched as [E1 E3]. apply andb_true_iff in E1 as [E1 E2].
        apply Z.ltb_lt in E2. unfold step_time. fold st t.
        repeat split; try reflexivity; try assumption.
        -- destruct (r_manual r); [discriminate|reflexivity].
        -- destruct pa; [discriminate|reflexivity].
    + apply RnStep with (i := i1) (lp := if wrap then [OEv 2 0] else []); cbn; try reflexivity; try assumption.
      * fold st. destruct wrap; cbn; rewrite ?app_nil_r; reflexivity.
      * destruct wrap; auto.
      * left. repeat split; try reflexivity.
        unfold step_time. fold st t.
        destruct (r_manual r); [left; reflexivity|].
        destruct (0 <? t) eqn:E2; [|right; left; apply Z.ltb_ge in E2; exact E2].
        destruct pa; [right; right; reflexivity|discriminate].
Qed.


(* ------------------------------------------------------------------------------------------ *)
(* invariants of a running show under every request                                            *)
Definition b2n (b : bool) : nat := if b then 1%nat else 0%nat.
Definition is_start (r : rs) : bool := match r_timer r with Some (_, true) => true | _ => false end.
Definition is_fire (o : op) : bool := match o with Fire => true | _ => false end.

Definition wf (r : rs) : Prop :=
  r_steps r <> [] /\
  (r_stopped r = true -> r_timer r = None) /\
  (forall d b, r_timer r = Some (d, b) -> d = r_nst r).

Lemma rn_counts post pa r r' os :
  rn_result post pa r r' os ->
  cnt 4 os = (cnt 4 post + b2n (r_stopped r'))%nat /\
  cnt 3 os = (cnt 3 post + b2n (r_stopped r'))%nat /\
  cnt 1 os = cnt 1 post.
Proof.
  intros [Hst Ht _ Hos | i lp Hst Hos Hlp _ _ _ _ _ _ _ _]; subst os; rewrite Hst.
  - change (OClear :: OEv 4 0 :: post ++ [OEv 3 0]) with ([OClear; OEv 4 0] ++ post ++ [OEv 3 0]).
    rewrite !cnt_app. cbn. repeat split; lia.
  - rewrite !cnt_app, !step_outs_no_ev. destruct Hlp; subst lp; cbn; repeat split; lia.
Qed.

Lemma rn_wf post pa r r' os :
  r_steps r <> [] -> r_timer r = None -> rn_result post pa r r' os -> wf r' /\ is_start r' = false.
Proof.
  intros Hne Hnone [Hst Htm Hsteps Hos | i lp Hst Hos Hlp _ _ _ Hsteps _ _ _ Hsch].
  - split; [|unfold is_start; rewrite Htm; reflexivity].
    unfold wf. rewrite Htm, Hsteps. repeat split; try assumption; intros; discriminate.
  - destruct Hsch as [(Ht & Hn & _) | (Ht & Hn & _)].
    + rewrite Hnone in Ht. split; [|unfold is_start; rewrite Ht; reflexivity].
      unfold wf. rewrite Ht, Hsteps. repeat split; try assumption; intros; try discriminate; try congruence.
    + split; [|unfold is_start; rewrite Ht; reflexivity].
      unfold wf. rewrite Ht, Hsteps, Hst. repeat split; try assumption; intros; try discriminate.
      inversion H; subst. symmetry. exact Hn.
Qed.

Lemma rn_op_spec post pa r1 :
  r_stopped r1 = false -> r_steps r1 <> [] -> r_timer r1 = None ->
  cnt 4 post = 0%nat -> cnt 3 post = 0%nat ->
  let r' := fst (run_next post pa r1) in
  let os := snd (run_next post pa r1) in
  wf r' /\ b2n (r_stopped r') = cnt 4 os /\ (cnt 3 os <= cnt 4 os)%nat /\ cnt 1 os = cnt 1 post /\
  is_start r' = false.
Proof.
  intros Hs Hne Ht H4 H3 r' os.
  pose proof (run_next_cases post pa r1 Hs Hne) as Hc. fold r' os in Hc.
  destruct (rn_counts _ _ _ _ _ Hc) as (C4 & C3 & C1).
  destruct (rn_wf _ _ _ _ _ Hne Ht Hc) as (Hwf & Hst).
  split; [exact Hwf|]. split; [lia|]. split; [lia|]. split; assumption.
Qed.

Record op_spec (o : op) (r r' : rs) (os : list out) : Prop := mkOpSpec {
  os_wf : wf r';
  os_stop : b2n (r_stopped r') = (b2n (r_stopped r) + cnt 4 os)%nat;
  os_compl : (cnt 3 os <= cnt 4 os)%nat;
  os_played : cnt 1 os = b2n (is_start r && is_fire o);
  os_start : is_start r' = true -> is_start r = true /\ is_fire o = false;
  os_dead : r_stopped r = true ->
            r_stopped r' = true /\ no_light_ops os /\ cnt 0 os = 0%nat /\ r_timer r' = None
}.

Lemma is_start_none r : r_timer r = None -> is_start r = false.
Proof. unfold is_start. intros ->. reflexivity. Qed.

Lemma op_spec_intro o r r' os :
  r_stopped r = false -> wf r' -> b2n (r_stopped r') = cnt 4 os -> (cnt 3 os <= cnt 4 os)%nat ->
  cnt 1 os = b2n (is_start r && is_fire o) -> is_start r' = false -> op_spec o r r' os.
Proof.
  intros Es W S4 C3 C1 St. constructor; auto.
  - rewrite Es. cbn. exact S4.
  - rewrite St. discriminate.
  - rewrite Es. discriminate.
Qed.

Lemma apply_op_spec now o r :
  wf r -> op_spec o r (fst (apply_op now o r)) (snd (apply_op now o r)).
Proof.
  intros Hwf. pose proof Hwf as (Hne & Hst & Htm).
  destruct (r_stopped r) eqn:Es.
  - (* a stopped show ignores everything but update *)
    pose proof (Hst eq_refl) as Hnone.
    assert (Hid : op_spec o r r []).
    { constructor; cbn; rewrite ?Es; auto.
      - rewrite (is_start_none r Hnone). reflexivity.
      - rewrite (is_start_none r Hnone). discriminate. }
    destruct o; unfold apply_op, do_stop, do_update; rewrite ?Es, ?Hnone; cbn [fst snd]; try exact Hid.
    constructor; cbn; rewrite ?Es; auto.
    + unfold wf. cbn. repeat split; auto. intros; discriminate.
    + rewrite (is_start_none r Hnone). reflexivity.
    + unfold is_start. cbn. rewrite Hnone. discriminate.
  - destruct o; unfold apply_op, do_stop, do_update; rewrite ?Es; cbn [fst snd].
    + (* Stop *)
      apply op_spec_intro; auto; cbn; try lia.
      * unfold wf. cbn. repeat split; auto; intros; discriminate.
      * rewrite andb_false_r. reflexivity.
    + (* Pause *)
      apply op_spec_intro; auto; cbn; try lia.
      * unfold wf. cbn. rewrite Es. repeat split; auto; intros; discriminate.
      * rewrite Es. reflexivity.
      * rewrite andb_false_r. reflexivity.
    + (* Resume *)
      destruct (rn_op_spec [OEv 6 0] false (set_nst (set_timer r None) now)) as (W & S4 & C3 & C1 & St);
        [cbn; auto | cbn; auto | cbn; auto | cbn; auto | cbn; auto | ].
      apply op_spec_intro; auto. rewrite C1, andb_false_r. reflexivity.
    + (* Advance *)
      set (r1 := if n =? 1 then set_nst (set_timer r None) now
                 else set_idx (set_nst (set_timer r None) now) (r_idx (set_nst (set_timer r None) now) + n - 1)).
      destruct (rn_op_spec [OEv 7 0] false r1) as (W & S4 & C3 & C1 & St);
        try (unfold r1; destruct (n =? 1); cbn; auto; fail).
      apply op_spec_intro; auto. rewrite C1, andb_false_r. reflexivity.
    + (* StepBack *)
      match goal with |- op_spec _ _ (fst (run_next ?p ?pa ?x)) _ =>
        destruct (rn_op_spec p pa x) as (W & S4 & C3 & C1 & St); [cbn; auto | cbn; auto | cbn; auto | cbn; auto | cbn; auto | ] end.
      apply op_spec_intro; auto. rewrite C1, andb_false_r. reflexivity.
    + (* Update *)
      constructor; cbn; rewrite ?Es; auto; try discriminate; try (rewrite andb_false_r; reflexivity);
        try (unfold wf; cbn; rewrite ?Es; repeat split; auto; discriminate);
        try (unfold is_start; cbn; intros E; split; [exact E|reflexivity]).
    + (* Fire *)
      destruct (r_timer r) as [[d [|]]|] eqn:Et.
      * unfold start_now.
        destruct (rn_op_spec [OEv 1 0] (negb (r_running (set_timer r None))) (set_timer r None))
          as (W & S4 & C3 & C1 & St); [cbn; auto | cbn; auto | cbn; auto | cbn; auto | cbn; auto | ].
        apply op_spec_intro; auto. rewrite C1. unfold is_start. rewrite Et. reflexivity.
      * destruct (rn_op_spec [] false (set_timer r None)) as (W & S4 & C3 & C1 & St); [cbn; auto | cbn; auto | cbn; auto | cbn; auto | cbn; auto | ].
        apply op_spec_intro; auto. rewrite C1. unfold is_start. rewrite Et. reflexivity.
      * cbn [fst snd]. apply op_spec_intro; auto; cbn; try lia.
        -- rewrite Es. reflexivity.
        -- unfold is_start. rewrite Et. reflexivity.
        -- unfold is_start. rewrite Et. reflexivity.
Qed.

(* ------------------------------------------------------------------------------------------ *)
(* every history of requests                                                                   *)
Fixpoint run_hist (r : rs) (h : list (Z * op)) : rs * list out :=
  match h with
  | [] => (r, [])
  | (t, o) :: h' =>
      let r1 := fst (apply_op t o r) in
      let o1 := snd (apply_op t o r) in
      (fst (run_hist r1 h'), o1 ++ snd (run_hist r1 h'))
  end.

Definition hist_inv (r : rs) (acc : list out) : Prop :=
  wf r /\ cnt 4 acc = b2n (r_stopped r) /\ (cnt 3 acc <= cnt 4 acc)%nat /\
  (cnt 1 acc + b2n (is_start r) <= 1)%nat.

Lemma hist_inv_step t o r acc :
  hist_inv r acc -> hist_inv (fst (apply_op t o r)) (acc ++ snd (apply_op t o r)).
Proof.
  intros (W & S4 & C3 & P).
  destruct (apply_op_spec t o r W) as [W' S4' C3' P' St' _].
  unfold hist_inv. rewrite !cnt_app. split; [exact W'|]. split; [lia|]. split; [lia|].
  rewrite P'.
  destruct (is_start (fst (apply_op t o r))) eqn:E.
  - destruct (St' eq_refl) as (E1 & E2). rewrite E1, E2 in *. cbn in *. lia.
  - destruct (is_start r && is_fire o) eqn:E2; cbn.
    + apply andb_true_iff in E2 as [E2 _]. rewrite E2 in P. cbn in P. lia.
    + destruct (is_start r); cbn in *; lia.
Qed.

Lemma hist_inv_run h : forall r acc,
  hist_inv r acc -> hist_inv (fst (run_hist r h)) (acc ++ snd (run_hist r h)).
Proof.
  induction h as [|[t o] h IH]; intros r acc H; cbn [run_hist fst snd].
  - rewrite app_nil_r. exact H.
  - rewrite app_assoc. apply IH. apply hist_inv_step. exact H.
Qed.

Lemma play_inv c now : c_steps c <> [] -> hist_inv (fst (play_rs c now)) (snd (play_rs c now)).
Proof.
  intros Hne. unfold play_rs.
  set (idx := if c_start c >? 0 then c_start c - 1
              else if c_start c <? 0 then c_start c mod Z.of_nat (length (c_steps c)) else 0).
  destruct (c_sync c =? 0).
  - unfold start_now.
    match goal with |- hist_inv (fst (run_next ?p ?pa ?x)) _ =>
      destruct (rn_op_spec p pa x) as (W & S4 & C3 & C1 & St); [cbn; auto | cbn; auto | cbn; auto | cbn; auto | cbn; auto | ] end.
    unfold hist_inv. rewrite St, C1. change (cnt 1 [OEv 1 0]) with 1%nat. change (b2n false) with 0%nat.
    split; [exact W|]. split; [lia|]. split; lia.
  - cbn [fst snd]. unfold hist_inv, wf, is_start. cbn. repeat split; auto; try discriminate.
    intros d b E. inversion E. reflexivity.
Qed.

(* events_once, for every request history *)
Lemma events_once_l c t0 h :
  c_steps c <> [] ->
  let r0 := fst (play_rs c t0) in
  let all := snd (play_rs c t0) ++ snd (run_hist r0 h) in
  let r := fst (run_hist r0 h) in
  (cnt 1 all <= 1)%nat /\ (cnt 4 all <= 1)%nat /\ (cnt 3 all <= cnt 4 all)%nat /\
  cnt 4 all = b2n (r_stopped r).
Proof.
  intros Hne r0 all r.
  destruct (hist_inv_run h r0 _ (play_inv c t0 Hne)) as (W & S4 & C3 & P).
  fold all r in S4, C3, P |- *.
  repeat split; try lia. rewrite S4. destruct (r_stopped r); cbn; lia.
Qed.

(* a stopped show does nothing more, whatever is requested *)
Lemma stopped_is_final_l h : forall r,
  wf r -> r_stopped r = true ->
  let r' := fst (run_hist r h) in
  let os := snd (run_hist r h) in
  r_stopped r' = true /\ r_timer r' = None /\ no_light_ops os /\ cnt 0 os = 0%nat /\
  cnt 1 os = 0%nat /\ cnt 3 os = 0%nat /\ cnt 4 os = 0%nat.
Proof.
  induction h as [|[t o] h IH]; intros r W Hs; cbn [run_hist fst snd].
  - destruct W as (_ & Hn & _). repeat split; auto.
  - destruct (apply_op_spec t o r W) as [W' S4' C3' P' _ D'].
    destruct (D' Hs) as (Hs' & Hl & H0 & Ht).
    destruct (IH _ W' Hs') as (A & B & C & D & E & F & G).
    rewrite Hs, Hs' in S4'. cbn in S4'.
    assert (Hst : is_start r = false).
    { destruct W as (_ & Hn & _). apply is_start_none. auto. }
    rewrite Hst in P'. cbn in P'.
    unfold no_light_ops in *. rewrite forallb_app, !cnt_app.
    repeat split; auto; try lia. rewrite Hl, C. reflexivity.
Qed.

(* ------------------------------------------------------------------------------------------ *)
(* a free-running show: only its own timer acts                                                *)
Definition marker_of (d : Z) (o : out) : list (Z * Z) :=
  match o with OEv c i => if c =? 0 then [(i, d)] else [] | _ => [] end.
Definition markers_at (d : Z) (os : list out) : list (Z * Z) := flat_map (marker_of d) os.

(* (step index, instant) of the steps executed by the next k timer expiries *)
Fixpoint free_steps (k : nat) (r : rs) : list (Z * Z) :=
  match k with
  | O => []
  | S k' =>
      match r_timer r with
      | Some (d, _) =>
          markers_at d (snd (apply_op d Fire r)) ++ free_steps k' (fst (apply_op d Fire r))
      | None => []
      end
  end.

Definition dur_of (steps : list step) (i : Z) : Z := s_dur (nth (Z.to_nat i) steps (mkStep 0 [])).

Fixpoint on_sched (steps : list step) (sp : Z) (t : Z) (l : list (Z * Z)) : Prop :=
  match l with
  | [] => True
  | (i, t') :: l' => t' = t /\ on_sched steps sp (t + ttn (dur_of steps i) sp) l'
  end.

(* consecutive executed steps follow each other cyclically *)
Fixpoint consec (n : Z) (l : list (Z * Z)) : Prop :=
  match l with
  | (i, _) :: (((i', _) :: _) as l') => i' = (i + 1) mod n /\ consec n l'
  | _ => True
  end.

Lemma markers_app d a b : markers_at d (a ++ b) = markers_at d a ++ markers_at d b.
Proof. unfold markers_at. apply flat_map_app. Qed.

Lemma markers_step_outs d st start : markers_at d (step_outs st start) = [].
Proof.
  unfold markers_at, step_outs. induction (s_acts st) as [|a l IH]; cbn; [reflexivity|].
  unfold act_out at 1. destruct (snd a =? 0); [|destruct (snd a =? 6); [|destruct (snd a =? 7)]]; cbn; exact IH.
Qed.

Lemma free_steps_none k r : r_timer r = None -> free_steps k r = [].
Proof. destruct k; cbn; [reflexivity|]. intros ->. reflexivity. Qed.

Definition no_markers (post : list out) : Prop := forall d, markers_at d post = [].

(* one _run_next_step of a free-running show, followed by whatever its timers do next *)
Lemma rn_on_sched post pa r1 k :
  r_stopped r1 = false -> r_steps r1 <> [] -> r_timer r1 = None -> no_markers post ->
  (forall r', wf r' -> r_steps r' = r_steps r1 -> r_speed4 r' = r_speed4 r1 ->
              on_sched (r_steps r1) (r_speed4 r1) (r_nst r') (free_steps k r')) ->
  on_sched (r_steps r1) (r_speed4 r1) (r_nst r1)
           (markers_at (r_nst r1) (snd (run_next post pa r1)) ++ free_steps k (fst (run_next post pa r1))).
Proof.
  intros Hs Hne Ht Hpost IH.
  pose proof (run_next_cases post pa r1 Hs Hne) as Hc.
  destruct (rn_wf _ _ _ _ _ Hne Ht Hc) as (W' & _).
  destruct Hc as [Hst Htm Hsteps Hos | i lp Hst Hos Hlp Hi Hidef Hidx Hsteps Hsp _ _ Hsch].
  - rewrite Hos, (free_steps_none _ _ Htm).
    change (OClear :: OEv 4 0 :: post ++ [OEv 3 0]) with ([OClear; OEv 4 0] ++ post ++ [OEv 3 0]).
    rewrite !markers_app, Hpost. cbn. exact I.
  - rewrite Hos, !markers_app, markers_step_outs, Hpost.
    assert (Hlp0 : markers_at (r_nst r1) lp = []) by (destruct Hlp; subst lp; reflexivity).
    rewrite Hlp0. cbn. split; [reflexivity|].
    destruct Hsch as [(Htm & Hn & _) | (Htm & Hn & _)].
    + rewrite Ht in Htm. rewrite (free_steps_none _ _ Htm). exact I.
    + unfold step_time, nth_step in Hn. unfold dur_of. rewrite <- Hn. apply IH; assumption.
Qed.

Lemma free_on_sched k : forall r,
  wf r -> on_sched (r_steps r) (r_speed4 r) (r_nst r) (free_steps k r).
Proof.
  induction k as [|k IH]; intros r W; cbn [free_steps]; [exact I|].
  destruct (r_timer r) as [[d b]|] eqn:Et; [|exact I].
  pose proof W as (Hne & Hst & Htm).
  assert (Hd : d = r_nst r) by (eapply Htm; eassumption). subst d.
  assert (Hs : r_stopped r = false).
  { destruct (r_stopped r) eqn:E; [|reflexivity]. rewrite (Hst eq_refl) in Et. discriminate. }
  unfold apply_op. rewrite Et.
  assert (IH' : forall r', wf r' -> r_steps r' = r_steps (set_timer r None) ->
                           r_speed4 r' = r_speed4 (set_timer r None) ->
                           on_sched (r_steps (set_timer r None)) (r_speed4 (set_timer r None)) (r_nst r')
                                    (free_steps k r')).
  { intros r' W' E1 E2. rewrite <- E1, <- E2. apply IH. exact W'. }
  destruct b.
  - unfold start_now.
    apply (rn_on_sched [OEv 1 0] (negb (r_running (set_timer r None))) (set_timer r None) k); auto.
    intros d. reflexivity.
  - apply (rn_on_sched [] false (set_timer r None) k); auto.
    intros d. reflexivity.
Qed.

(* the steps a show executes from play() on, with no request but its own timers *)
Definition start_time (c : cfg) (t0 : Z) : Z :=
  if c_sync c =? 0 then t0 else t0 + c_sync c - t0 mod c_sync c.
Definition executed (c : cfg) (t0 : Z) (k : nat) : list (Z * Z) :=
  markers_at t0 (snd (play_rs c t0)) ++ free_steps k (fst (play_rs c t0)).

Lemma executed_on_sched c t0 k :
  c_steps c <> [] ->
  on_sched (c_steps c) (c_speed4 c) (start_time c t0) (executed c t0 k).
Proof.
  intros Hne. unfold executed, start_time, play_rs.
  set (idx := if c_start c >? 0 then c_start c - 1
              else if c_start c <? 0 then c_start c mod Z.of_nat (length (c_steps c)) else 0).
  destruct (c_sync c =? 0).
  - unfold start_now.
    match goal with |- on_sched _ _ _ (markers_at _ (snd (run_next ?p ?pa ?x)) ++ _) =>
      apply (rn_on_sched p pa x k); auto end.
    + intros d. reflexivity.
    + intros r' W' E1 E2. cbn [r_steps r_speed4] in *. rewrite <- E1, <- E2. apply free_on_sched. exact W'.
  - cbn [fst snd markers_at flat_map app].
    match goal with |- on_sched _ _ ?t (free_steps k ?r) =>
      change (on_sched (r_steps r) (r_speed4 r) (r_nst r) (free_steps k r)) end.
    apply free_on_sched. unfold wf. cbn. repeat split; auto; try discriminate.
    intros d b E. inversion E. reflexivity.
Qed.

(* closed form: the j-th executed step happens at start + sum of the preceding steps' duration/speed *)
Definition sum_before (steps : list step) (sp : Z) (l : list (Z * Z)) (j : nat) : Z :=
  sumZ (map (fun p => ttn (dur_of steps (fst p)) sp) (firstn j l)).
Definition dur_before (steps : list step) (l : list (Z * Z)) (j : nat) : Z :=
  sumZ (map (fun p => dur_of steps (fst p)) (firstn j l)).

Lemma on_sched_nth steps sp : forall l t j i tj,
  on_sched steps sp t l -> nth_error l j = Some (i, tj) -> tj = t + sum_before steps sp l j.
Proof.
  induction l as [|[i0 t0] l IH]; intros t j i tj H E.
  - destruct j; discriminate.
  - destruct H as (H1 & H2). destruct j as [|j]; cbn in E.
    + inversion E; subst. unfold sum_before. cbn. lia.
    + rewrite (IH _ _ _ _ H2 E). unfold sum_before. cbn [firstn map sumZ fold_right fst].
      fold (sumZ (map (fun p => ttn (dur_of steps (fst p)) sp) (firstn j l))). lia.
Qed.

Lemma ttn_exact d sp : 0 < sp -> (sp | 4 * d) -> sp * ttn d sp = 4 * d.
Proof.
  intros Hsp [q Hq]. unfold ttn. replace (d * 4) with (q * sp) by lia.
  rewrite Z.div_mul by lia. lia.
Qed.

Lemma sumZ_scale {A} (f g : A -> Z) (a b : Z) (l : list A) :
  (forall x, a * f x = b * g x) -> a * sumZ (map f l) = b * sumZ (map g l).
Proof.
  intros H. induction l as [|x l IH]; cbn; [lia|].
  unfold sumZ in IH. rewrite !Z.mul_add_distr_l, H, IH. reflexivity.
Qed.

Lemma sum_before_exact steps sp l : 0 < sp ->
  (forall i, (sp | 4 * dur_of steps i)) ->
  forall j, sp * sum_before steps sp l j = 4 * dur_before steps l j.
Proof.
  intros Hsp Hdiv j. unfold sum_before, dur_before.
  apply sumZ_scale. intros p. apply ttn_exact; auto.
Qed.

Lemma step_time_exact_l c t0 k j i tj :
  c_steps c <> [] ->
  nth_error (executed c t0 k) j = Some (i, tj) ->
  tj = start_time c t0 + sum_before (c_steps c) (c_speed4 c) (executed c t0 k) j.
Proof.
  intros Hne E. eapply on_sched_nth; [apply executed_on_sched; exact Hne|exact E].
Qed.

Lemma no_drift_l c t0 k j i tj :
  c_steps c <> [] -> 0 < c_speed4 c ->
  (forall m, (c_speed4 c | 4 * dur_of (c_steps c) m)) ->
  nth_error (executed c t0 k) j = Some (i, tj) ->
  c_speed4 c * (tj - start_time c t0) = 4 * dur_before (c_steps c) (executed c t0 k) j.
Proof.
  intros Hne Hsp Hdiv E.
  rewrite (step_time_exact_l c t0 k j i tj Hne E).
  rewrite <- (sum_before_exact _ _ (executed c t0 k) Hsp Hdiv j). lia.
Qed.

(* ------------------------------------------------------------------------------------------ *)
(* light stacks: ownership and fade-out                                                        *)
(* what key [sid] has on a light: its stack entries and its pending removal delay *)
Definition lproj (sid : Z) (L : light) : list (Z * Z) * list (Z * Z) :=
  (proj sid (l_stack L), proj sid (l_timers L)).
Definition others (sid : Z) (ls : lights) : list (list (Z * Z) * list (Z * Z)) := map (lproj sid) ls.
(* nothing at all of the key on any stack *)
Definition clean (sid : Z) (ls : lights) : Prop := Forall (fun L => proj sid (l_stack L) = []) ls.
(* no entry of the key that is not a fade-out *)
Definition no_live (sid : Z) (ls : lights) : Prop := Forall (fun L => owns sid L = false) ls.
(* a fade-out entry of the key has its removal delay pending *)
Definition timed (sid : Z) (L : light) : Prop := fading sid L = true -> proj sid (l_timers L) <> [].

Lemma proj_rem_same sid s : proj sid (rem_key sid s) = [].
Proof.
  unfold proj, rem_key. induction s as [|e s IH]; cbn; [reflexivity|].
  destruct (fst e =? sid) eqn:E; cbn; [exact IH|]. rewrite E. exact IH.
Qed.

Lemma proj_rem_other sid sid' s : sid' <> sid -> proj sid' (rem_key sid s) = proj sid' s.
Proof.
  intros Hd. unfold proj, rem_key. induction s as [|e s IH]; cbn; [reflexivity|].
  destruct (fst e =? sid) eqn:E; cbn.
  - apply Z.eqb_eq in E. destruct (fst e =? sid') eqn:E'; [apply Z.eqb_eq in E'; congruence|exact IH].
  - destruct (fst e =? sid'); [f_equal|]; exact IH.
Qed.

Lemma proj_ins_other sid sid' c s : sid' <> sid -> proj sid' (ins_key sid c s) = proj sid' s.
Proof.
  intros Hd. unfold proj. induction s as [|e s IH]; cbn.
  - destruct (sid =? sid') eqn:E; [apply Z.eqb_eq in E; congruence|reflexivity].
  - destruct (sid <? fst e); cbn.
    + destruct (sid =? sid') eqn:E; [apply Z.eqb_eq in E; congruence|reflexivity].
    + destruct (fst e =? sid'); [f_equal|]; exact IH.
Qed.

Lemma proj_set_other sid sid' c s : sid' <> sid -> proj sid' (set_key sid c s) = proj sid' s.
Proof. intros Hd. unfold set_key. rewrite proj_ins_other, proj_rem_other; auto. Qed.

Lemma proj_ins_same sid c s : proj sid s = [] -> proj sid (ins_key sid c s) = [(sid, c)].
Proof.
  unfold proj. induction s as [|e s IH]; cbn; intros H.
  - rewrite Z.eqb_refl. reflexivity.
  - destruct (fst e =? sid) eqn:E; [discriminate|].
    destruct (sid <? fst e); cbn.
    + rewrite Z.eqb_refl, E, H. reflexivity.
    + rewrite E. apply IH. exact H.
Qed.

Lemma proj_set_same sid c s : proj sid (set_key sid c s) = [(sid, c)].
Proof. unfold set_key. apply proj_ins_same. apply proj_rem_same. Qed.

Lemma proj_fire_same sid s :
  proj sid (filter (fun e => negb ((fst e =? sid) && is_fading e)) s) =
  filter (fun e => negb (is_fading e)) (proj sid s).
Proof.
  unfold proj. induction s as [|e s IH]; cbn; [reflexivity|].
  destruct (fst e =? sid) eqn:E; cbn.
  - destruct (is_fading e); cbn; [exact IH|]. rewrite E. f_equal. exact IH.
  - rewrite E. exact IH.
Qed.

Lemma proj_fire_other sid sid' s : sid' <> sid ->
  proj sid' (filter (fun e => negb ((fst e =? sid) && is_fading e)) s) = proj sid' s.
Proof.
  intros Hd. unfold proj. induction s as [|e s IH]; cbn; [reflexivity|].
  destruct (fst e =? sid) eqn:E; cbn.
  - apply Z.eqb_eq in E.
    assert (E' : fst e =? sid' = false) by (apply Z.eqb_neq; congruence).
    destruct (is_fading e); cbn; rewrite E'; exact IH.
  - destruct (fst e =? sid'); [f_equal|]; exact IH.
Qed.

Lemma in_proj sid d (tm : list (Z * Z)) : In (sid, d) tm -> proj sid tm <> [].
Proof.
  intros Hin E. assert (H : In (sid, d) (proj sid tm)).
  { unfold proj. apply filter_In. split; [exact Hin|]. cbn. apply Z.eqb_refl. }
  rewrite E in H. exact H.
Qed.

(* ---- the three things that happen to key [sid] on one light ---- *)
Lemma set_light_same sid c L : 0 < c ->
  proj sid (l_stack (set_light sid c L)) = [(sid, c)] /\ l_timers (set_light sid c L) = l_timers L.
Proof. intros _. unfold set_light. cbn [l_stack l_timers l_fade]. split; [apply proj_set_same|reflexivity]. Qed.

Lemma set_light_other sid sid' c L : sid' <> sid -> lproj sid' (set_light sid c L) = lproj sid' L.
Proof. intros Hd. unfold lproj, set_light. cbn [l_stack l_timers l_fade]. rewrite proj_set_other by exact Hd. reflexivity. Qed.

Lemma rem_fade_same sid now f L :
  let L' := rem_fade sid now f L in
  (proj sid (l_stack L') = [] /\ l_timers L' = l_timers L) \/
  (exists d, proj sid (l_stack L') = [(sid, -1)] /\ proj sid (l_timers L') = [(sid, d)]).
Proof.
  cbv zeta. unfold rem_fade.
  destruct (has_key sid (l_stack L)) eqn:Hk.
  - destruct (owns sid L && (0 <? (if f <? 0 then l_fade L else f))); cbn [l_stack l_timers l_fade].
    + right. eexists. split; apply proj_set_same.
    + left. split; [apply proj_rem_same|reflexivity].
  - left. split; [|reflexivity]. unfold has_key in Hk. destruct (proj sid (l_stack L)); [reflexivity|discriminate].
Qed.

Lemma rem_fade_other sid sid' now f L : sid' <> sid -> lproj sid' (rem_fade sid now f L) = lproj sid' L.
Proof.
  intros Hd. unfold rem_fade, lproj.
  destruct (has_key sid (l_stack L)); [|reflexivity].
  destruct (owns sid L && (0 <? (if f <? 0 then l_fade L else f))); cbn [l_stack l_timers l_fade].
  - rewrite !proj_set_other by exact Hd. reflexivity.
  - rewrite proj_rem_other by exact Hd. reflexivity.
Qed.

Lemma fire_rem_same sid L :
  proj sid (l_stack (fire_rem sid L)) = filter (fun e => negb (is_fading e)) (proj sid (l_stack L)) /\
  proj sid (l_timers (fire_rem sid L)) = [].
Proof. unfold fire_rem. cbn [l_stack l_timers l_fade]. split; [apply proj_fire_same|apply proj_rem_same]. Qed.

Lemma fire_rem_other sid sid' L : sid' <> sid -> lproj sid' (fire_rem sid L) = lproj sid' L.
Proof.
  intros Hd. unfold lproj, fire_rem. cbn [l_stack l_timers l_fade]. rewrite proj_fire_other, proj_rem_other by exact Hd. reflexivity.
Qed.

Lemma existsb_filter_same {A} (p : A -> bool) l : existsb p (filter p l) = existsb p l.
Proof. induction l as [|x l IH]; cbn; [reflexivity|]. destruct (p x) eqn:E; cbn; rewrite ?E; cbn; auto. Qed.

Lemma existsb_filter_neg {A} (p : A -> bool) l : existsb p (filter (fun x => negb (p x)) l) = false.
Proof. induction l as [|x l IH]; cbn; [reflexivity|]. destruct (p x) eqn:E; cbn; rewrite ?E; cbn; auto. Qed.

(* the removal delay of the key expires: its fade-out entry is gone, the delay is gone, whether the key
   owns a (new) live entry is unchanged *)
Lemma fire_rem_spec sid L :
  fading sid (fire_rem sid L) = false /\ owns sid (fire_rem sid L) = owns sid L /\
  proj sid (l_timers (fire_rem sid L)) = [].
Proof.
  destruct (fire_rem_same sid L) as (E1 & E2). unfold fading, owns. rewrite E1.
  split; [apply existsb_filter_neg|]. split; [|exact E2].
  apply (existsb_filter_same (fun e => negb (is_fading e))).
Qed.

Lemma rem_fade_spec sid now f L :
  owns sid (rem_fade sid now f L) = false /\ (timed sid L -> timed sid (rem_fade sid now f L)).
Proof.
  destruct (rem_fade_same sid now f L) as [(E1 & E2) | (d & E1 & E2)]; unfold owns, timed, fading; rewrite E1.
  - split; [reflexivity|]. cbn. intros _ H. discriminate.
  - split; [reflexivity|]. intros _ _. rewrite E2. discriminate.
Qed.

Lemma set_light_spec sid c L : 0 < c -> timed sid (set_light sid c L).
Proof.
  intros Hc. destruct (set_light_same sid c L Hc) as (E1 & _). unfold timed, fading. rewrite E1. cbn.
  unfold is_fading. cbn. destruct (c =? -1) eqn:E; [apply Z.eqb_eq in E; lia|]. discriminate.
Qed.

(* whatever depends only on what the key has on the light is preserved by a change that leaves that alone *)
Lemma owns_lproj sid L L' : lproj sid L' = lproj sid L -> owns sid L' = owns sid L.
Proof. unfold lproj, owns. intros E. inversion E as [[E1 E2]]. rewrite E1. reflexivity. Qed.

Lemma timed_lproj sid L L' : lproj sid L' = lproj sid L -> timed sid L -> timed sid L'.
Proof. unfold lproj, timed, fading. intros E. inversion E as [[E1 E2]]. rewrite E1, E2. auto. Qed.

Lemma clean_lproj sid L L' : lproj sid L' = lproj sid L ->
  proj sid (l_stack L) = [] -> proj sid (l_stack L') = [].
Proof. unfold lproj. intros E. inversion E as [[E1 E2]]. rewrite E1. auto. Qed.

Lemma Forall_others (P : light -> Prop) sid :
  (forall L L', lproj sid L' = lproj sid L -> P L -> P L') ->
  forall ls ls', others sid ls' = others sid ls -> Forall P ls -> Forall P ls'.
Proof.
  intros HP. unfold others. induction ls as [|L ls IH]; intros [|L' ls'] E H; cbn in E; try discriminate.
  - constructor.
  - pose proof (f_equal (@hd _ (lproj sid L)) E) as E1. pose proof (f_equal (@tl _) E) as E2. cbn in E1, E2.
    inversion H; subst. constructor; [eapply HP; eauto|]. apply IH; assumption.
Qed.

Lemma no_live_others sid ls ls' : others sid ls' = others sid ls -> no_live sid ls -> no_live sid ls'.
Proof.
  apply Forall_others. intros L L' E H. rewrite (owns_lproj _ _ _ E). exact H.
Qed.

Lemma timed_others sid ls ls' : others sid ls' = others sid ls -> Forall (timed sid) ls -> Forall (timed sid) ls'.
Proof. apply Forall_others. intros L L' E H. eapply timed_lproj; eauto. Qed.

Lemma clean_others sid ls ls' : others sid ls' = others sid ls -> clean sid ls -> clean sid ls'.
Proof. apply (Forall_others (fun L => proj sid (l_stack L) = [])). intros L L' E H. eapply clean_lproj; eauto. Qed.

Lemma map_upd_nth_inv {A B} (g : A -> B) (f : A -> A) : (forall x, g (f x) = g x) ->
  forall n l, map g (upd_nth n f l) = map g l.
Proof.
  intros H n. induction n as [|n IH]; intros [|x l]; cbn; try reflexivity.
  - rewrite H. reflexivity.
  - rewrite IH. reflexivity.
Qed.

Lemma Forall_upd_nth {A} (P : A -> Prop) (f : A -> A) : (forall x, P x -> P (f x)) ->
  forall n l, Forall P l -> Forall P (upd_nth n f l).
Proof.
  intros H n. induction n as [|n IH]; intros [|x l] HF; cbn; try constructor; inversion HF; subst; auto.
Qed.

Definition clear_light (sid now : Z) (L : light) : light :=
  if owns sid L then rem_fade sid now (-1) L else L.

Lemma clear_light_other sid sid' now L : sid' <> sid -> lproj sid' (clear_light sid now L) = lproj sid' L.
Proof. intros Hd. unfold clear_light. destruct (owns sid L); [apply rem_fade_other; exact Hd|reflexivity]. Qed.

Lemma clear_light_own sid now L :
  owns sid (clear_light sid now L) = false /\ (timed sid L -> timed sid (clear_light sid now L)).
Proof.
  unfold clear_light. destruct (owns sid L) eqn:E; [apply rem_fade_spec|]. split; [exact E|auto].
Qed.

Lemma apply_out_frame sid sid' now ls o :
  sid' <> sid -> others sid' (fst (apply_out sid now ls o)) = others sid' ls.
Proof.
  intros Hd. unfold others. destruct o as [code arg | l color st | l f | ]; cbn [apply_out fst].
  - reflexivity.
  - destruct (color <=? 0); cbn [fst]; [reflexivity|].
    apply map_upd_nth_inv. intros L. apply set_light_other. exact Hd.
  - apply map_upd_nth_inv. intros L. apply rem_fade_other. exact Hd.
  - rewrite map_map. apply map_ext. intros L. apply (clear_light_other sid sid' now L Hd).
Qed.

(* the key's own invariant: a fade-out entry always has its removal delay pending *)
Lemma apply_out_timed sid now ls o :
  Forall (timed sid) ls -> Forall (timed sid) (fst (apply_out sid now ls o)).
Proof.
  intros H. destruct o as [code arg | l color st | l f | ]; cbn [apply_out fst].
  - exact H.
  - destruct (color <=? 0) eqn:E; cbn [fst]; [exact H|]. apply Z.leb_gt in E.
    apply Forall_upd_nth; [|exact H]. intros L _. apply set_light_spec. exact E.
  - apply Forall_upd_nth; [|exact H]. intros L HL. apply rem_fade_spec. exact HL.
  - apply Forall_forall. intros L' Hin. apply in_map_iff in Hin as (L & <- & Hin).
    apply (clear_light_own sid now L). rewrite Forall_forall in H. apply H. exact Hin.
Qed.

Lemma apply_outs_fst sid now os : forall ls,
  fst (apply_outs sid now ls os) =
  fold_left (fun l o => fst (apply_out sid now l o)) os ls.
Proof.
  induction os as [|o os IH]; intros ls; cbn [apply_outs fold_left]; [reflexivity|].
  destruct (apply_out sid now ls o) as [ls1 r1] eqn:E1.
  specialize (IH ls1). destruct (apply_outs sid now ls1 os) as [ls2 r2]. cbn [fst] in *. exact IH.
Qed.

Lemma apply_outs_frame sid sid' now os : sid' <> sid -> forall ls,
  others sid' (fst (apply_outs sid now ls os)) = others sid' ls.
Proof.
  intros Hd ls. rewrite apply_outs_fst. revert ls.
  induction os as [|o os IH]; intros ls; cbn [fold_left]; [reflexivity|].
  rewrite IH. apply apply_out_frame. exact Hd.
Qed.

Lemma apply_outs_timed sid now os : forall ls,
  Forall (timed sid) ls -> Forall (timed sid) (fst (apply_outs sid now ls os)).
Proof.
  intros ls. rewrite apply_outs_fst. revert ls.
  induction os as [|o os IH]; intros ls H; cbn [fold_left]; [exact H|].
  apply IH. apply apply_out_timed. exact H.
Qed.

Lemma apply_outs_evs sid now os : forallb is_ev os = true -> forall ls,
  fst (apply_outs sid now ls os) = ls.
Proof.
  intros H ls. rewrite apply_outs_fst. revert ls H.
  induction os as [|o os IH]; intros ls H; cbn [fold_left]; [reflexivity|].
  cbn in H. apply andb_true_iff in H as [H1 H2]. destruct o; try discriminate. cbn [apply_out fst].
  apply IH. exact H2.
Qed.

(* clear_context: afterwards the context owns no live entry on any light (what is left is fading out) *)
Lemma apply_outs_clear sid now evs ls : forallb is_ev evs = true ->
  fst (apply_outs sid now ls (OClear :: evs)) = map (clear_light sid now) ls /\
  no_live sid (fst (apply_outs sid now ls (OClear :: evs))).
Proof.
  intros H. rewrite apply_outs_fst. cbn [fold_left apply_out fst].
  rewrite <- apply_outs_fst, apply_outs_evs by exact H.
  split; [reflexivity|].
  unfold no_live. apply Forall_forall. intros L' Hin. apply in_map_iff in Hin as (L & <- & _).
  apply (clear_light_own sid now L).
Qed.

(* when a request stops a show, the first thing it does is clear its context; only events follow *)
Lemma apply_op_stops now o r :
  r_steps r <> [] -> r_stopped r = false -> r_stopped (fst (apply_op now o r)) = true ->
  exists evs, snd (apply_op now o r) = OClear :: evs /\ forallb is_ev evs = true.
Proof.
  intros Hne Hs.
  assert (Hrn : forall post pa r1, r_stopped r1 = false -> r_steps r1 <> [] -> forallb is_ev post = true ->
            r_stopped (fst (run_next post pa r1)) = true ->
            exists evs, snd (run_next post pa r1) = OClear :: evs /\ forallb is_ev evs = true).
  { intros post pa r1 H1 H2 Hp H3.
    destruct (run_next_cases post pa r1 H1 H2) as [_ _ _ Hos | i lp Hst _ _ _ _ _ _ _ _ _ _]; [|congruence].
    eexists. split; [exact Hos|]. cbn. rewrite forallb_app, Hp. reflexivity. }
  destruct o; unfold apply_op, do_stop, do_update; rewrite ?Hs; cbn [fst snd].
  - intros _. eexists. split; reflexivity.
  - cbn. congruence.
  - apply Hrn; cbn; auto.
  - apply Hrn; destruct (n =? 1); cbn; auto.
  - apply Hrn; cbn; auto.
  - cbn. congruence.
  - destruct (r_timer r) as [[d [|]]|]; cbn [fst snd]; try congruence.
    + unfold start_now. apply Hrn; cbn; auto.
    + apply Hrn; cbn; auto.
Qed.

Lemma play_stops c now :
  c_steps c <> [] -> r_stopped (fst (play_rs c now)) = true ->
  exists evs, snd (play_rs c now) = OClear :: evs /\ forallb is_ev evs = true.
Proof.
  intros Hne. unfold play_rs.
  destruct (c_sync c =? 0); [|cbn; congruence].
  unfold start_now. intros H3.
  match type of H3 with r_stopped (fst (run_next ?p ?pa ?x)) = true =>
    destruct (run_next_cases p pa x) as [_ _ _ Hos | i lp Hst _ _ _ _ _ _ _ _ _ _];
      [reflexivity | exact Hne | | congruence] end.
  eexists. split; [exact Hos|]. reflexivity.
Qed.

(* ------------------------------------------------------------------------------------------ *)
(* several shows on shared lights                                                              *)
Lemma nth_upd_same {A} (f : A -> A) d : forall n l, (n < length l)%nat ->
  nth n (upd_nth n f l) d = f (nth n l d).
Proof.
  induction n as [|n IH]; intros [|x l] H; cbn in *; try lia; [reflexivity|]. apply IH. lia.
Qed.

Lemma nth_upd_other {A} (f : A -> A) d : forall n m l, n <> m ->
  nth m (upd_nth n f l) d = nth m l d.
Proof.
  induction n as [|n IH]; intros [|m] [|x l] H; cbn; try reflexivity; try congruence.
  apply IH. congruence.
Qed.

(* a stopped show (and a slot never played) owns no live entry; every fade-out entry of every key has its
   removal delay pending *)
Definition show_inv (w : world) (sid : Z) : Prop :=
  match get_show w sid with
  | Some r => wf r /\ (r_stopped r = true -> no_live sid (w_lights w))
  | None => no_live sid (w_lights w)
  end.
Definition world_inv (w : world) : Prop :=
  (forall sid, 0 <= sid -> show_inv w sid) /\ (forall key, Forall (timed key) (w_lights w)).

Lemma world_op_eq now sid o w r :
  get_show w sid = Some r ->
  world_op now sid o w =
  mkW (upd_nth (Z.to_nat sid) (fun _ => Some (fst (apply_op now o r))) (w_shows w))
      (fst (apply_outs sid now (w_lights w) (snd (apply_op now o r))))
      (w_trace w ++ snd (apply_outs sid now (w_lights w) (snd (apply_op now o r)))).
Proof.
  intros E. unfold world_op. rewrite E.
  destruct (apply_op now o r) as [r' os]. cbn [fst snd].
  destruct (apply_outs sid now (w_lights w) os) as [ls rows]. reflexivity.
Qed.

Lemma world_play_eq now sid c w :
  world_play now sid c w =
  mkW (upd_nth (Z.to_nat sid) (fun _ => Some (fst (play_rs c now))) (w_shows w))
      (fst (apply_outs sid now (w_lights w) (snd (play_rs c now))))
      (w_trace w ++ snd (apply_outs sid now (w_lights w) (snd (play_rs c now)))).
Proof.
  unfold world_play. destruct (play_rs c now) as [r' os]. cbn [fst snd].
  destruct (apply_outs sid now (w_lights w) os) as [ls rows]. reflexivity.
Qed.

(* frame: a request for one show leaves what every other show has on the lights (entries and pending
   fade-out removals) exactly as it was *)
Lemma world_op_frame now sid o w sid' :
  sid' <> sid -> others sid' (w_lights (world_op now sid o w)) = others sid' (w_lights w).
Proof.
  intros Hd. destruct (get_show w sid) as [r|] eqn:E.
  - rewrite (world_op_eq _ _ _ _ _ E). cbn [w_lights]. apply apply_outs_frame. exact Hd.
  - unfold world_op. rewrite E. reflexivity.
Qed.

Lemma world_play_frame now sid c w sid' :
  sid' <> sid -> others sid' (w_lights (world_play now sid c w)) = others sid' (w_lights w).
Proof. intros Hd. rewrite world_play_eq. cbn [w_lights]. apply apply_outs_frame. exact Hd. Qed.

(* ... and so does the end of another key's fade-out *)
Lemma world_fire_frame d k key w sid' :
  sid' <> key -> others sid' (w_lights (world_fire d k key w)) = others sid' (w_lights w).
Proof.
  intros Hd. unfold world_fire, others. cbn [w_lights].
  apply map_upd_nth_inv. intros L. apply fire_rem_other. exact Hd.
Qed.

Lemma get_show_some_lt w sid r : get_show w sid = Some r -> (Z.to_nat sid < length (w_shows w))%nat.
Proof.
  unfold get_show. intros E. destruct (Nat.lt_ge_cases (Z.to_nat sid) (length (w_shows w))); [assumption|].
  rewrite nth_overflow in E by assumption. discriminate.
Qed.

Lemma update_show_inv (w : world) sid (r' : rs) (os : list out) now :
  world_inv w -> 0 <= sid -> (Z.to_nat sid < length (w_shows w))%nat ->
  wf r' ->
  (r_stopped r' = true ->
     (forallb is_ev os = true /\ no_live sid (w_lights w)) \/
     (exists evs, os = OClear :: evs /\ forallb is_ev evs = true)) ->
  world_inv (mkW (upd_nth (Z.to_nat sid) (fun _ => Some r') (w_shows w))
                 (fst (apply_outs sid now (w_lights w) os))
                 (w_trace w ++ snd (apply_outs sid now (w_lights w) os))).
Proof.
  intros (Hinv & Htm) Hsid Hlt W' Hstop. split.
  - intros sid' Hsid'. unfold show_inv, get_show. cbn [w_shows w_lights].
    destruct (Z.eq_dec sid' sid) as [->|Hd].
    + rewrite nth_upd_same by exact Hlt. split; [exact W'|].
      intros Hs. destruct (Hstop Hs) as [(Hev & Hc) | (evs & -> & Hev)].
      * rewrite apply_outs_evs by exact Hev. exact Hc.
      * apply apply_outs_clear. exact Hev.
    + rewrite nth_upd_other by (intros E; apply Hd; apply Z2Nat.inj in E; lia).
      specialize (Hinv sid' Hsid'). unfold show_inv, get_show in Hinv.
      assert (Hfr : others sid' (fst (apply_outs sid now (w_lights w) os)) = others sid' (w_lights w))
        by (apply apply_outs_frame; exact Hd).
      destruct (nth (Z.to_nat sid') (w_shows w) None) as [r0|].
      * destruct Hinv as (W0 & C0). split; [exact W0|]. intros Hs. eapply no_live_others; [exact Hfr|auto].
      * eapply no_live_others; [exact Hfr|exact Hinv].
  - intros key. cbn [w_lights]. destruct (Z.eq_dec key sid) as [->|Hd].
    + apply apply_outs_timed. apply Htm.
    + eapply timed_others; [apply apply_outs_frame; exact Hd|apply Htm].
Qed.

Lemma world_op_inv now sid o w : world_inv w -> 0 <= sid -> world_inv (world_op now sid o w).
Proof.
  intros Hinv Hsid. destruct (get_show w sid) as [r|] eqn:E.
  - rewrite (world_op_eq _ _ _ _ _ E).
    pose proof (proj1 Hinv sid Hsid) as Hs. unfold show_inv in Hs. rewrite E in Hs. destruct Hs as (W & Hc).
    destruct (apply_op_spec now o r W) as [W' _ _ _ _ D'].
    apply update_show_inv; auto.
    + eapply get_show_some_lt; eassumption.
    + intros Hs'. destruct (r_stopped r) eqn:Es.
      * left. destruct (D' eq_refl) as (_ & Hl & _). split; [exact Hl|auto].
      * right. apply apply_op_stops; auto. apply W.
  - unfold world_op. rewrite E. exact Hinv.
Qed.

Lemma world_play_inv now sid c w :
  world_inv w -> 0 <= sid -> (Z.to_nat sid < length (w_shows w))%nat -> get_show w sid = None ->
  c_steps c <> [] -> world_inv (world_play now sid c w).
Proof.
  intros Hinv Hsid Hlt E Hne. rewrite world_play_eq.
  destruct (play_inv c now Hne) as (W' & _).
  apply update_show_inv; auto.
  intros Hs'. right. apply play_stops; auto.
Qed.

Lemma world_fire_inv d k key w : world_inv w -> world_inv (world_fire d k key w).
Proof.
  intros (Hinv & Htm). split.
  - intros sid Hsid. specialize (Hinv sid Hsid). unfold show_inv, get_show in *. cbn [world_fire w_shows w_lights].
    assert (Hnl : no_live sid (w_lights w) -> no_live sid (upd_nth (Z.to_nat k) (fire_rem key) (w_lights w))).
    { intros H. apply Forall_upd_nth; [|exact H]. intros L HL.
      destruct (Z.eq_dec sid key) as [->|Hd].
      - destruct (fire_rem_spec key L) as (_ & E & _). rewrite E. exact HL.
      - rewrite (owns_lproj sid L (fire_rem key L)); [exact HL|]. apply fire_rem_other. exact Hd. }
    destruct (nth (Z.to_nat sid) (w_shows w) None) as [r|].
    + destruct Hinv as (W & C). split; [exact W|]. intros Hs. apply Hnl. auto.
    + apply Hnl. exact Hinv.
  - intros key'. cbn [world_fire w_lights]. apply Forall_upd_nth; [|apply Htm]. intros L HL.
    destruct (Z.eq_dec key' key) as [->|Hd].
    + destruct (fire_rem_spec key L) as (E & _). unfold timed. rewrite E. discriminate.
    + eapply timed_lproj; [apply fire_rem_other; exact Hd|exact HL].
Qed.

(* histories of the world: lights with any default fades, shows are played into free slots, any request
   (timer expiries included) for any show and the expiry of any light's removal delay may follow, at any
   instants *)
Inductive reach : world -> Prop :=
| R0 (n : nat) (fades : list Z) : reach (mkW (repeat None n) (map (fun f => mkLight f [] []) fades) [])
| RPlay w now sid c : reach w -> 0 <= sid -> (Z.to_nat sid < length (w_shows w))%nat ->
                      get_show w sid = None -> c_steps c <> [] -> reach (world_play now sid c w)
| ROp w now sid o : reach w -> 0 <= sid -> reach (world_op now sid o w)
| RFire w d k key : reach w -> reach (world_fire d k key w).

Lemma reach_inv w : reach w -> world_inv w.
Proof.
  induction 1 as [n fades | w now sid c _ IH Hsid Hlt E Hne | w now sid o _ IH Hsid | w d k key _ IH].
  - split.
    + intros sid Hsid. unfold show_inv, get_show. cbn [w_shows w_lights].
      assert (Hn : nth (Z.to_nat sid) (repeat (@None rs) n) None = None).
      { generalize (Z.to_nat sid). induction n as [|n IHn]; intros [|k]; cbn; auto. }
      rewrite Hn. unfold no_live. apply Forall_forall. intros L Hin. apply in_map_iff in Hin as (f & <- & _).
      reflexivity.
    + intros key. cbn [w_lights]. apply Forall_forall. intros L Hin. apply in_map_iff in Hin as (f & <- & _).
      unfold timed, fading. cbn. discriminate.
  - apply world_play_inv; assumption.
  - apply world_op_inv; assumption.
  - apply world_fire_inv; assumption.
Qed.

(* a stopped show owns no live entry on any light: all that can be left of it is the fade-out of an entry,
   and every fade-out has its removal pending *)
Lemma stop_clears_context_l w sid r :
  reach w -> 0 <= sid -> get_show w sid = Some r -> r_stopped r = true ->
  no_live sid (w_lights w) /\ Forall (timed sid) (w_lights w).
Proof.
  intros Hr Hsid E Hs. destruct (reach_inv w Hr) as (H & Ht). specialize (H sid Hsid).
  unfold show_inv in H. rewrite E in H. split; [apply H; exact Hs|apply Ht].
Qed.

Lemma no_live_timed_clean sid ls :
  no_live sid ls -> Forall (timed sid) ls -> Forall (fun L => proj sid (l_timers L) = []) ls -> clean sid ls.
Proof.
  unfold no_live, clean. rewrite !Forall_forall. intros H1 H2 H3 L Hin.
  specialize (H1 L Hin). specialize (H2 L Hin). specialize (H3 L Hin).
  unfold owns in H1. unfold timed, fading in H2.
  destruct (proj sid (l_stack L)) as [|e s] eqn:E; [reflexivity|]. exfalso.
  destruct (existsb is_fading (e :: s)) eqn:Ef; [apply H2; auto|].
  cbn in H1, Ef. apply orb_false_iff in H1 as [H1 _]. apply orb_false_iff in Ef as [Ef _].
  rewrite Ef in H1. discriminate.
Qed.

(* ... so once the removal delays of the stopped show have expired nothing of it is left on any stack *)
Lemma stopped_and_faded_clean_l w sid r :
  reach w -> 0 <= sid -> get_show w sid = Some r -> r_stopped r = true ->
  Forall (fun L => proj sid (l_timers L) = []) (w_lights w) -> clean sid (w_lights w).
Proof.
  intros Hr Hsid E Hs Hno. destruct (stop_clears_context_l w sid r Hr Hsid E Hs) as (H1 & H2).
  apply no_live_timed_clean; assumption.
Qed.

Lemma get_show_after_op w now sid o r :
  get_show w sid = Some r -> get_show (world_op now sid o w) sid = Some (fst (apply_op now o r)).
Proof.
  intros E. pose proof (get_show_some_lt _ _ _ E) as Hlt.
  rewrite (world_op_eq _ _ _ _ _ E). unfold get_show. cbn [w_shows]. rewrite nth_upd_same by exact Hlt. reflexivity.
Qed.

Lemma stop_request_clears_l w now sid r :
  reach w -> 0 <= sid -> get_show w sid = Some r -> no_live sid (w_lights (world_op now sid Stop w)).
Proof.
  intros Hr Hsid E.
  assert (Hr' : reach (world_op now sid Stop w)) by (constructor; assumption).
  eapply stop_clears_context_l with (r := fst (apply_op now Stop r)); [exact Hr'|exact Hsid| |].
  - apply get_show_after_op. exact E.
  - cbn. unfold do_stop. destruct (r_stopped r) eqn:Es; cbn; auto.
Qed.

(* what stop() of a live show does to the lights: clear_context on every light *)
Lemma stop_fades_out_l w now sid r :
  get_show w sid = Some r -> r_stopped r = false ->
  w_lights (world_op now sid Stop w) = map (clear_light sid now) (w_lights w).
Proof.
  intros E Hs. rewrite (world_op_eq _ _ _ _ _ E). cbn [w_lights apply_op]. unfold do_stop. rewrite Hs. cbn [snd].
  apply (apply_outs_clear sid now [OEv 4 0] (w_lights w)). reflexivity.
Qed.

(* ... on one light: a live entry of the show becomes a fade-out whose removal is due exactly
   default-fade later (or is removed at once when the light has no default fade); a light on which the show
   owns nothing live is not touched *)
Lemma clear_light_spec_l sid now L :
  (owns sid L = true -> 0 < l_fade L ->
     proj sid (l_stack (clear_light sid now L)) = [(sid, -1)] /\
     proj sid (l_timers (clear_light sid now L)) = [(sid, now + l_fade L)]) /\
  (owns sid L = true -> l_fade L <= 0 ->
     proj sid (l_stack (clear_light sid now L)) = [] /\ l_timers (clear_light sid now L) = l_timers L) /\
  (owns sid L = false -> clear_light sid now L = L).
Proof.
  unfold clear_light.
  assert (Hk : owns sid L = true -> has_key sid (l_stack L) = true).
  { unfold owns, has_key. destruct (proj sid (l_stack L)); [discriminate|reflexivity]. }
  split; [|split].
  - intros Ho Hf. rewrite Ho. unfold rem_fade. rewrite (Hk Ho), Ho. cbn [Z.ltb Z.compare].
    change (-1 <? 0) with true. cbv iota.
    destruct (0 <? l_fade L) eqn:E; [|apply Z.ltb_ge in E; lia]. cbn.
    split; apply proj_set_same.
  - intros Ho Hf. rewrite Ho. unfold rem_fade. rewrite (Hk Ho), Ho.
    change (-1 <? 0) with true. cbv iota.
    destruct (0 <? l_fade L) eqn:E; [apply Z.ltb_lt in E; lia|]. cbn.
    split; [apply proj_rem_same|reflexivity].
  - intros Ho. rewrite Ho. reflexivity.
Qed.

Lemma all_stopped_all_dark_l w :
  reach w ->
  (forall sid r, 0 <= sid -> get_show w sid = Some r -> r_stopped r = true) ->
  forall sid, 0 <= sid ->
    no_live sid (w_lights w) /\
    (Forall (fun L => proj sid (l_timers L) = []) (w_lights w) -> clean sid (w_lights w)).
Proof.
  intros Hr Hall sid Hsid. destruct (reach_inv w Hr) as (H & Ht). specialize (H sid Hsid). unfold show_inv in H.
  assert (Hnl : no_live sid (w_lights w)).
  { destruct (get_show w sid) as [r|] eqn:E; [|exact H]. apply H. eapply Hall; eauto. }
  split; [exact Hnl|]. intros Hno. apply no_live_timed_clean; auto.
Qed.

(* the clock: when nothing is due at or before t, every pending removal delay lies after t *)
Lemma min_timer_some t tm b : min_timer t tm (Some b) <> None.
Proof.
  revert b. induction tm as [|[s d] tm IH]; intros b; cbn; [discriminate|].
  destruct (d <=? t); [|apply IH]. destruct b as [bs bd]. destruct (d <? bd); apply IH.
Qed.

Lemma min_timer_none t tm : min_timer t tm None = None -> forall s d, In (s, d) tm -> t < d.
Proof.
  induction tm as [|[s0 d0] tm IH]; cbn; intros H s d Hin; [contradiction|].
  destruct (d0 <=? t) eqn:E.
  - exfalso. exact (min_timer_some _ _ _ H).
  - destruct Hin as [Hin|Hin]; [inversion Hin; subst; apply Z.leb_gt in E; exact E|]. eapply IH; eauto.
Qed.

Lemma next_due_light_some t ls : forall k b, next_due_light t k ls (Some b) <> None.
Proof.
  induction ls as [|L ls IH]; intros k b; cbn; [discriminate|].
  destruct (min_timer t (l_timers L) None) as [[s d]|]; [|apply IH].
  destruct b as [[bk bs] bd]. destruct (d <? bd); apply IH.
Qed.

Lemma next_due_light_none t ls : forall k,
  next_due_light t k ls None = None ->
  forall L s d, In L ls -> In (s, d) (l_timers L) -> t < d.
Proof.
  induction ls as [|L0 ls IH]; intros k H L s d HL Hin; cbn in *; [contradiction|].
  destruct (min_timer t (l_timers L0) None) as [[s0 d0]|] eqn:E.
  - exfalso. exact (next_due_light_some _ _ _ _ H).
  - destruct HL as [<-|HL]; [eapply min_timer_none; eauto|]. eapply IH; eauto.
Qed.

(* after stop plus the fade-out time: when every removal delay of the stopped show was due by t and the
   clock has nothing left that is due by t, nothing of the show is left on any stack *)
Lemma stop_then_fade_clean_l w sid r t :
  reach w -> 0 <= sid -> get_show w sid = Some r -> r_stopped r = true ->
  (forall L d, In L (w_lights w) -> In (sid, d) (l_timers L) -> d <= t) ->
  next_due_light t 0 (w_lights w) None = None ->
  clean sid (w_lights w).
Proof.
  intros Hr Hsid E Hs Hdue Hnone. eapply stopped_and_faded_clean_l; eauto.
  apply Forall_forall. intros L HL.
  destruct (proj sid (l_timers L)) as [|[s d] tm] eqn:Ep; [reflexivity|]. exfalso.
  assert (Hin : In (s, d) (proj sid (l_timers L))) by (rewrite Ep; left; reflexivity).
  unfold proj in Hin. apply filter_In in Hin as (Hin & Es). cbn in Es. apply Z.eqb_eq in Es. subst s.
  pose proof (Hdue L d HL Hin). pose proof (next_due_light_none t _ 0 Hnone L sid d HL Hin). lia.
Qed.

(* ------------------------------------------------------------------------------------------ *)
(* control requests                                                                            *)
Definition norm_idx (r : rs) (j : Z) : Z :=
  let i0 := if j <? 0 then j mod total r else j in if i0 >=? total r then 0 else i0.

Definition target (o : op) (r : rs) : Z :=
  match o with
  | Advance n => if n =? 1 then r_idx r else r_idx r + n - 1
  | StepBack n => r_idx r - (n + 1)
  | _ => r_idx r
  end.

Definition is_control (o : op) : bool :=
  match o with Resume | Advance _ | StepBack _ => true | _ => false end.

Definition set_starts_at (now : Z) (o : out) : Prop :=
  match o with OSet _ _ st => st = now | _ => True end.

Lemma step_outs_start st now : Forall (set_starts_at now) (step_outs st now).
Proof.
  unfold step_outs. apply Forall_forall. intros o Hin. apply in_map_iff in Hin as (a & <- & _).
  unfold act_out. destruct (snd a =? 0); [|destruct (snd a =? 6); [|destruct (snd a =? 7)]]; cbn; auto.
Qed.

(* resume / advance / step_back on a live show: the pending timer is dropped, the step
   norm_idx(target) runs NOW (its light effects carry start_time = now) and the next deadline is
   now + duration/speed of that step; or the show completes *)
Lemma control_reanchors_l now o r :
  is_control o = true -> r_stopped r = false -> r_steps r <> [] ->
  let r' := fst (apply_op now o r) in
  let os := snd (apply_op now o r) in
  Forall (set_starts_at now) os /\
  ((r_stopped r' = true /\ r_timer r' = None) \/
   (r_stopped r' = false /\
    let i := norm_idx r (target o r) in
    In (OEv 0 i) os /\ r_idx r' = i + 1 /\
    (r_timer r' = None \/
     (r_timer r' = Some (now + step_time r i, false) /\ r_nst r' = now + step_time r i /\ 0 < step_time r i)))).
Proof.
  intros Hc Hs Hne.
  assert (Hrn : forall post r1, r_stopped r1 = false -> r_steps r1 = r_steps r -> r_speed4 r1 = r_speed4 r ->
            r_timer r1 = None -> r_nst r1 = now -> Forall (set_starts_at now) post ->
            let r' := fst (run_next post false r1) in
            let os := snd (run_next post false r1) in
            Forall (set_starts_at now) os /\
            ((r_stopped r' = true /\ r_timer r' = None) \/
             (r_stopped r' = false /\
              let i := norm_idx r (r_idx r1) in
              In (OEv 0 i) os /\ r_idx r' = i + 1 /\
              (r_timer r' = None \/
               (r_timer r' = Some (now + step_time r i, false) /\ r_nst r' = now + step_time r i /\
                0 < step_time r i))))).
  { intros post r1 H1 H2 H2' H3 H4 Hp r' os.
    assert (Hne1 : r_steps r1 <> []) by (rewrite H2; exact Hne).
    subst r' os.
    destruct (run_next_cases post false r1 H1 Hne1) as [Hst Htm _ Hos | i lp Hst Hos Hlp Hi Hidef Hidx _ _ _ _ Hsch].
    - split.
      + rewrite Hos. repeat constructor. apply Forall_app. split; [exact Hp|repeat constructor].
      + left. split; assumption.
    - assert (Hieq : i = norm_idx r (r_idx r1)).
      { rewrite Hidef. unfold norm_idx, total. rewrite H2. reflexivity. }
      assert (Hste : step_time r1 i = step_time r i).
      { unfold step_time, nth_step. rewrite H2, H2'. reflexivity. }
      split.
      + rewrite Hos, H4. apply Forall_app. split; [apply step_outs_start|].
        constructor; [exact I|]. apply Forall_app. split; [exact Hp|].
        destruct Hlp; subst lp; repeat constructor.
      + right. split; [exact Hst|]. cbv zeta. rewrite <- Hieq. split.
        * rewrite Hos. apply in_or_app. right. left. reflexivity.
        * split; [exact Hidx|].
          destruct Hsch as [(Htm & _) | (Htm & Hn & Hpos & _)].
          -- left. rewrite Htm. exact H3.
          -- right. rewrite <- Hste, <- H4. repeat split; assumption. }
  destruct o; try discriminate; unfold apply_op; rewrite Hs.
  - apply (Hrn [OEv 6 0] (set_nst (set_timer r None) now)); cbn; auto. repeat constructor.
  - unfold target. destruct (n =? 1).
    + apply (Hrn [OEv 7 0] (set_nst (set_timer r None) now)); cbn; auto. repeat constructor.
    + apply (Hrn [OEv 7 0] (set_idx (set_nst (set_timer r None) now) (r_idx (set_nst (set_timer r None) now) + n - 1)));
        cbn; auto. repeat constructor.
  - apply (Hrn [OEv 8 0] (set_idx (set_nst (set_timer r None) now) (r_idx (set_nst (set_timer r None) now) - (n + 1))));
      cbn; auto. repeat constructor.
Qed.

(* pause: the timer is dropped, nothing else changes, and nothing runs until the next request *)
Lemma pause_holds_l now r k :
  r_stopped r = false ->
  apply_op now Pause r = (set_timer r None, [OEv 5 0]) /\ free_steps k (set_timer r None) = [].
Proof.
  intros Hs. unfold apply_op. rewrite Hs. split; [reflexivity|]. apply free_steps_none. reflexivity.
Qed.

(* ------------------------------------------------------------------------------------------ *)
(* the full "played exactly once when the show runs" is false of the code: recorded finding     *)
Definition wit_cfg : cfg :=
  mkCfg [mkStep 500000 [(0, 1)]] 4 (-1) 1 500000 false true.
Definition wit_hist : list (Z * op) := [(250000, Pause); (375000, Resume)].

Lemma played_once_refuted_l :
  exists c t0 h,
    c_steps c <> [] /\
    let all := snd (play_rs c t0) ++ snd (run_hist (fst (play_rs c t0)) h) in
    (1 <= cnt 0 all)%nat /\ cnt 1 all = 0%nat.
Proof.
  exists wit_cfg, 125000, wit_hist. split; [discriminate|]. vm_compute. split; [lia|reflexivity].
Qed.

(* ------------------------------------------------------------------------------------------ *)
(* order of the steps of a free-running show                                                    *)
Fixpoint consec_from (n i : Z) (l : list (Z * Z)) : Prop :=
  match l with
  | [] => True
  | (i', _) :: l' => i' = (i + 1) mod n /\ consec_from n i' l'
  end.
Definition consec_steps (n : Z) (l : list (Z * Z)) : Prop :=
  match l with [] => True | (i, _) :: l' => 0 <= i < n /\ consec_from n i l' end.

Lemma rn_markers post pa r1 k d :
  r_stopped r1 = false -> r_steps r1 <> [] -> r_timer r1 = None -> no_markers post ->
  (markers_at d (snd (run_next post pa r1)) ++ free_steps k (fst (run_next post pa r1)) = []) \/
  (exists i, let r' := fst (run_next post pa r1) in
     markers_at d (snd (run_next post pa r1)) ++ free_steps k r' = (i, d) :: free_steps k r' /\
     i = norm_idx r1 (r_idx r1) /\ 0 <= i < total r1 /\ r_idx r' = i + 1 /\ wf r' /\ is_start r' = false /\
     r_steps r' = r_steps r1).
Proof.
  intros Hs Hne Ht Hpost.
  pose proof (run_next_cases post pa r1 Hs Hne) as Hc.
  destruct (rn_wf _ _ _ _ _ Hne Ht Hc) as (W' & St').
  destruct Hc as [Hst Htm Hsteps Hos | i lp Hst Hos Hlp Hi Hidef Hidx Hsteps _ _ _ Hsch].
  - left. rewrite Hos, (free_steps_none _ _ Htm).
    change (OClear :: OEv 4 0 :: post ++ [OEv 3 0]) with ([OClear; OEv 4 0] ++ post ++ [OEv 3 0]).
    rewrite !markers_app, Hpost. reflexivity.
  - right. exists i. cbv zeta. rewrite Hos, !markers_app, markers_step_outs, Hpost.
    assert (Hlp0 : markers_at d lp = []) by (destruct Hlp; subst lp; reflexivity).
    rewrite Hlp0. repeat split; auto; try apply Hi; try apply W'.
Qed.

Lemma norm_next n i : 0 <= i < n ->
  (let i0 := if i + 1 <? 0 then (i + 1) mod n else i + 1 in if i0 >=? n then 0 else i0) = (i + 1) mod n.
Proof.
  intros H. cbv zeta. destruct (i + 1 <? 0) eqn:E; [apply Z.ltb_lt in E; lia|].
  destruct (i + 1 >=? n) eqn:E2; rewrite Z.geb_leb in E2.
  - apply Z.leb_le in E2. assert (i + 1 = n) by lia. rewrite H0. symmetry. apply Z_mod_same_full.
  - apply Z.leb_gt in E2. symmetry. apply Z.mod_small. lia.
Qed.

Lemma free_consec_from k : forall r i,
  wf r -> r_idx r = i + 1 -> 0 <= i < total r -> is_start r = false ->
  consec_from (total r) i (free_steps k r).
Proof.
  induction k as [|k IH]; intros r i W Hidx Hi Hst; cbn [free_steps]; [exact I|].
  destruct (r_timer r) as [[d b]|] eqn:Et; [|exact I].
  assert (b = false) by (unfold is_start in Hst; rewrite Et in Hst; destruct b; [discriminate|reflexivity]). subst b.
  pose proof W as (Hne & Hstp & Htm).
  assert (Hs : r_stopped r = false).
  { destruct (r_stopped r) eqn:E; [|reflexivity]. rewrite (Hstp eq_refl) in Et. discriminate. }
  unfold apply_op. rewrite Et.
  destruct (rn_markers [] false (set_timer r None) k d) as [E | (i' & E & Hi' & Hr' & Hidx' & W' & St' & Hsteps')];
    cbn; auto.
  - intros ?. reflexivity.
  - rewrite E. exact I.
  - cbv zeta in E. rewrite E. cbn [consec_from]. split.
    + rewrite Hi'. unfold norm_idx, total. cbn [r_idx r_steps set_timer]. rewrite Hidx.
      apply (norm_next (Z.of_nat (length (r_steps r))) i). exact Hi.
    + assert (Ht : total (fst (run_next [] false (set_timer r None))) = total r)
        by (unfold total; rewrite Hsteps'; reflexivity).
      rewrite <- Ht. apply IH; auto. rewrite Ht. exact Hr'.
Qed.

Lemma free_consec k r : wf r -> consec_steps (total r) (free_steps k r).
Proof.
  intros W. destruct k as [|k]; cbn [free_steps]; [exact I|].
  destruct (r_timer r) as [[d b]|] eqn:Et; [|exact I].
  pose proof W as (Hne & Hstp & Htm).
  assert (Hs : r_stopped r = false).
  { destruct (r_stopped r) eqn:E; [|reflexivity]. rewrite (Hstp eq_refl) in Et. discriminate. }
  unfold apply_op. rewrite Et.
  assert (G : forall post pa, no_markers post ->
            consec_steps (total r) (markers_at d (snd (run_next post pa (set_timer r None))) ++
                                    free_steps k (fst (run_next post pa (set_timer r None))))).
  { intros post pa Hp.
    destruct (rn_markers post pa (set_timer r None) k d) as [E | (i' & E & Hi' & Hr' & Hidx' & W' & St' & Hsteps')];
      cbn; auto.
    - rewrite E. exact I.
    - cbv zeta in E. rewrite E. cbn [consec_steps]. split; [exact Hr'|].
      assert (Ht : total (fst (run_next post pa (set_timer r None))) = total r)
        by (unfold total; rewrite Hsteps'; reflexivity).
      rewrite <- Ht. apply free_consec_from; auto. rewrite Ht. exact Hr'. }
  destruct b; [unfold start_now|]; apply G; intros ?; reflexivity.
Qed.

Lemma step_order_l c t0 k :
  c_steps c <> [] -> consec_steps (Z.of_nat (length (c_steps c))) (executed c t0 k).
Proof.
  intros Hne. unfold executed, play_rs.
  set (idx := if c_start c >? 0 then c_start c - 1
              else if c_start c <? 0 then c_start c mod Z.of_nat (length (c_steps c)) else 0).
  destruct (c_sync c =? 0).
  - unfold start_now.
    match goal with |- consec_steps _ (markers_at _ (snd (run_next ?p ?pa ?x)) ++ _) =>
      destruct (rn_markers p pa x k t0) as [E | (i' & E & Hi' & Hr' & Hidx' & W' & St' & Hsteps')];
        [reflexivity | exact Hne | reflexivity | intros ?; reflexivity | | ] end.
    + rewrite E. exact I.
    + cbv zeta in E. rewrite E. cbn [consec_steps]. split; [exact Hr'|].
      match goal with |- consec_from _ _ (free_steps k ?r') =>
        assert (Ht : total r' = Z.of_nat (length (c_steps c))) by (unfold total; rewrite Hsteps'; reflexivity) end.
      rewrite <- Ht. apply free_consec_from; auto. rewrite Ht. exact Hr'.
  - cbn [fst snd markers_at flat_map app].
    match goal with |- consec_steps _ (free_steps k ?r) =>
      change (consec_steps (total r) (free_steps k r)) end.
    apply free_consec. unfold wf. cbn. repeat split; auto; try discriminate.
    intros d b E. inversion E. reflexivity.
Qed.

(* ------------------------------------------------------------------------------------------ *)
(* loop count: a free-running show with loops = L >= 0 executes exactly (L+1)*n - i0 steps (i0 = index of its
   first step), posts looped exactly L times, then stops and completes                          *)
Fixpoint free_run (k : nat) (r : rs) : rs * list out :=
  match k with
  | O => (r, [])
  | S k' =>
      match r_timer r with
      | Some (d, _) =>
          let r1 := fst (apply_op d Fire r) in
          (fst (free_run k' r1), snd (apply_op d Fire r) ++ snd (free_run k' r1))
      | None => (r, [])
      end
  end.

Lemma free_run_none k r : r_timer r = None -> free_run k r = (r, []).
Proof. destruct k; cbn; [reflexivity|]. intros ->. reflexivity. Qed.

Definition pos_steps (r : rs) : Prop := forall i, 0 <= i < total r -> 0 < step_time r i.

Lemma run_next_plain post r :
  r_stopped r = false -> r_manual r = false -> 0 <= r_idx r < total r -> 0 < step_time r (r_idx r) ->
  run_next post false r =
  (mkRs (r_steps r) (r_speed4 r) false (r_running r) (r_idx r + 1) (r_nst r + step_time r (r_idx r))
        (r_loops r) false (Some (r_nst r + step_time r (r_idx r), false)),
   step_outs (nth_step r (r_idx r)) (r_nst r) ++ [OEv 0 (r_idx r)] ++ post).
Proof.
  intros Hs Hm Hi Hp.
  assert (E1 : (r_idx r <? 0) = false) by (apply Z.ltb_ge; lia).
  assert (E2 : (r_idx r >=? total r) = false) by (rewrite Z.geb_leb; apply Z.leb_gt; lia).
  assert (E3 : (0 <? step_time r (r_idx r)) = true) by (apply Z.ltb_lt; exact Hp).
  unfold run_next. cbv zeta. rewrite E1, E2. cbn [andb]. unfold step_time in E3 |- *.
  rewrite Hm, E3, Hs. cbn [negb andb]. reflexivity.
Qed.

Lemma run_next_wrap post r :
  r_stopped r = false -> r_manual r = false -> r_idx r = total r -> 0 < total r -> 0 < r_loops r ->
  0 < step_time r 0 ->
  run_next post false r =
  (mkRs (r_steps r) (r_speed4 r) false (r_running r) 1 (r_nst r + step_time r 0)
        (r_loops r - 1) false (Some (r_nst r + step_time r 0, false)),
   step_outs (nth_step r 0) (r_nst r) ++ [OEv 0 0] ++ post ++ [OEv 2 0]).
Proof.
  intros Hs Hm Hi Hn Hl Hp.
  assert (E1 : (r_idx r <? 0) = false) by (apply Z.ltb_ge; lia).
  assert (E2 : (r_idx r >=? total r) = true) by (rewrite Z.geb_leb; apply Z.leb_le; lia).
  assert (E3 : (0 <? step_time r 0) = true) by (apply Z.ltb_lt; exact Hp).
  assert (E4 : (r_loops r =? 0) = false) by (apply Z.eqb_neq; lia).
  assert (E5 : (r_loops r >? 0) = true) by (rewrite Z.gtb_ltb; apply Z.ltb_lt; lia).
  unfold run_next. cbv zeta. rewrite E1, E2, E4, E5. cbn [andb]. unfold step_time in E3 |- *.
  rewrite Hm, E3, Hs. cbn [negb andb]. reflexivity.
Qed.

Lemma run_next_end post r :
  r_stopped r = false -> r_idx r = total r -> 0 < total r -> r_loops r = 0 ->
  run_next post false r =
  (mkRs (r_steps r) (r_speed4 r) (r_manual r) (r_running r) (r_idx r) (r_nst r) 0 true None,
   [OClear; OEv 4 0] ++ post ++ [OEv 3 0]).
Proof.
  intros Hs Hi Hn Hl.
  assert (E1 : (r_idx r <? 0) = false) by (apply Z.ltb_ge; lia).
  assert (E2 : (r_idx r >=? total r) = true) by (rewrite Z.geb_leb; apply Z.leb_le; lia).
  unfold run_next. cbv zeta. rewrite E1, E2, Hl. cbn [andb Z.eqb]. unfold do_stop, set_idx. cbn [r_stopped].
  rewrite Hs. cbn. rewrite Hl. reflexivity.
Qed.

Record live (steps : list step) (sp : Z) (r : rs) : Prop := mkLive {
  lv_steps : r_steps r = steps;
  lv_speed : r_speed4 r = sp;
  lv_stopped : r_stopped r = false;
  lv_manual : r_manual r = false;
  lv_timer : exists d, r_timer r = Some (d, false);
  lv_idx : 1 <= r_idx r <= total r;
  lv_loops : 0 <= r_loops r
}.

Lemma pos_steps_eq r r' : r_steps r' = r_steps r -> r_speed4 r' = r_speed4 r -> pos_steps r -> pos_steps r'.
Proof.
  intros E1 E2 H i Hi. unfold step_time, nth_step, total in *. rewrite E1, E2 in *. apply H. exact Hi.
Qed.

Ltac eval_cnt :=
  repeat match goal with
  | |- context [cnt ?c (?x :: ?l)] =>
      let v := eval vm_compute in (cnt c (x :: l)) in change (cnt c (x :: l)) with v
  | |- context [cnt ?c []] => change (cnt c []) with 0%nat
  end.

Lemma free_run_counts : forall k r,
  live (r_steps r) (r_speed4 r) r -> pos_steps r ->
  r_loops r * total r + (total r - r_idx r) < Z.of_nat k ->
  r_stopped (fst (free_run k r)) = true /\
  Z.of_nat (cnt 0 (snd (free_run k r))) = r_loops r * total r + (total r - r_idx r) /\
  Z.of_nat (cnt 2 (snd (free_run k r))) = r_loops r /\
  cnt 3 (snd (free_run k r)) = 1%nat /\ cnt 4 (snd (free_run k r)) = 1%nat /\ cnt 1 (snd (free_run k r)) = 0%nat.
Proof.
  induction k as [|k IH]; intros r L P Hk.
  - destruct L as [_ _ _ _ _ Hi Hl]. cbn in Hk. nia.
  - pose proof L as [_ _ Hs Hm (d & Ht) Hi Hl].
    assert (Hn : 0 < total r) by lia.
    rewrite Nat2Z.inj_succ in Hk.
    cbn [free_run]. rewrite Ht. unfold apply_op. rewrite Ht.
    set (r1 := set_timer r None).
    assert (Hs1 : r_stopped r1 = false) by exact Hs.
    assert (Hm1 : r_manual r1 = false) by exact Hm.
    destruct (Z.eq_dec (r_idx r) (total r)) as [Ee|Ene].
    + destruct (Z.eq_dec (r_loops r) 0) as [El|Enl].
      * (* the end *)
        rewrite (run_next_end [] r1 Hs1 Ee Hn El). cbn [fst snd].
        rewrite free_run_none by reflexivity. cbn [fst snd]. rewrite app_nil_r, El, Ee.
        cbn. repeat split; lia.
      * (* wrap: a loop *)
        assert (Hp0 : 0 < step_time r1 0) by (apply (P 0); lia).
        assert (Hl1 : 0 < r_loops r1) by (cbn; lia).
        rewrite (run_next_wrap [] r1 Hs1 Hm1 Ee Hn Hl1 Hp0). cbn [fst snd].
        match goal with |- context [free_run k ?x] => set (r2 := x) end.
        assert (L2 : live (r_steps r2) (r_speed4 r2) r2).
        { constructor; cbn; auto; try lia. eexists; reflexivity. unfold total. cbn. fold (total r). lia. }
        assert (P2 : pos_steps r2) by (apply (pos_steps_eq r r2); auto).
        assert (T2 : total r2 = total r) by reflexivity.
        destruct (IH r2 L2 P2) as (A & B & C & D & E & F).
        { rewrite T2. cbn [r2 r_loops r_idx]. change (r_loops r1) with (r_loops r). nia. }
        rewrite !cnt_app, !step_outs_no_ev. rewrite T2 in B. cbn [r2 r_loops r_idx] in B, C.
        change (r_loops r1) with (r_loops r) in B, C.
        eval_cnt.
        repeat split; auto; try lia; nia.
    + (* the next step *)
      assert (Hi1 : 0 <= r_idx r1 < total r1) by (cbn; fold (total r); unfold total in *; cbn; lia).
      assert (Hp1 : 0 < step_time r1 (r_idx r1)) by (apply (P (r_idx r)); lia).
      rewrite (run_next_plain [] r1 Hs1 Hm1 Hi1 Hp1). cbn [fst snd].
      match goal with |- context [free_run k ?x] => set (r2 := x) end.
      assert (L2 : live (r_steps r2) (r_speed4 r2) r2).
      { constructor; cbn; auto; try lia. eexists; reflexivity. unfold total. cbn. fold (total r). lia. }
      assert (P2 : pos_steps r2) by (apply (pos_steps_eq r r2); auto).
      assert (T2 : total r2 = total r) by reflexivity.
      destruct (IH r2 L2 P2) as (A & B & C & D & E & F).
      { rewrite T2. cbn [r2 r_loops r_idx r1 set_timer]. nia. }
      rewrite !cnt_app, !step_outs_no_ev. rewrite T2 in B. cbn [r2 r_loops r_idx r1 set_timer] in B, C.
      eval_cnt.
      repeat split; auto; try lia.
Qed.

Definition start_idx (c : cfg) : Z :=
  if c_start c >? 0 then c_start c - 1
  else if c_start c <? 0 then c_start c mod Z.of_nat (length (c_steps c)) else 0.

Lemma loops_exact_l c t0 k :
  let n := Z.of_nat (length (c_steps c)) in
  c_steps c <> [] -> c_manual c = false -> c_running c = true -> 0 <= c_loops c ->
  (forall i, 0 <= i < n -> 0 < ttn (dur_of (c_steps c) i) (c_speed4 c)) ->
  start_idx c < n ->
  let T := (c_loops c + 1) * n - start_idx c in
  T < Z.of_nat k ->
  let r0 := fst (play_rs c t0) in
  let all := snd (play_rs c t0) ++ snd (free_run k r0) in
  r_stopped (fst (free_run k r0)) = true /\ Z.of_nat (cnt 0 all) = T /\ Z.of_nat (cnt 2 all) = c_loops c /\
  cnt 3 all = 1%nat /\ cnt 4 all = 1%nat /\ cnt 1 all = 1%nat.
Proof.
  intros n Hne Hman Hrun Hl Hpos Hstart T Hk.
  assert (Hn : 0 < n).
  { unfold n. destruct (c_steps c); [congruence|]. cbn [length]. lia. }
  assert (Hi0 : 0 <= start_idx c).
  { unfold start_idx. destruct (c_start c >? 0) eqn:E1.
    - rewrite Z.gtb_ltb in E1. apply Z.ltb_lt in E1. lia.
    - destruct (c_start c <? 0); [|lia]. apply Z.mod_pos_bound. exact Hn. }
  (* the first step, run by _start_now *)
  assert (First : forall r1, r_steps r1 = c_steps c -> r_speed4 r1 = c_speed4 c -> r_manual r1 = false ->
            r_running r1 = true -> r_stopped r1 = false -> r_idx r1 = start_idx c -> r_loops r1 = c_loops c ->
            forall k', T - 1 < Z.of_nat k' ->
            let r2 := fst (start_now r1) in
            let os := snd (start_now r1) ++ snd (free_run k' r2) in
            r_stopped (fst (free_run k' r2)) = true /\ Z.of_nat (cnt 0 os) = T /\ Z.of_nat (cnt 2 os) = c_loops c /\
            cnt 3 os = 1%nat /\ cnt 4 os = 1%nat /\ cnt 1 os = 1%nat).
  { intros r1 E1 E2 E3 E4 E5 E6 E7 k' Hk'.
    assert (Tot : total r1 = n) by (unfold total; rewrite E1; reflexivity).
    assert (P1 : pos_steps r1).
    { intros i Hi. unfold step_time, nth_step. rewrite E1, E2. apply Hpos. rewrite <- Tot. exact Hi. }
    unfold start_now. rewrite E4. cbn [negb].
    rewrite (run_next_plain [OEv 1 0] r1 E5 E3); [|rewrite Tot, E6; lia|apply P1; rewrite Tot, E6; lia].
    cbn [fst snd].
    match goal with |- context [free_run k' ?x] => set (r2 := x) end.
    assert (L2 : live (r_steps r2) (r_speed4 r2) r2).
    { constructor; cbn; auto; try lia. eexists; reflexivity. unfold total. cbn. fold (total r1). lia. }
    assert (P2 : pos_steps r2) by (apply (pos_steps_eq r1 r2); auto).
    assert (T2 : total r2 = n) by exact Tot.
    destruct (free_run_counts k' r2 L2 P2) as (A & B & C & D & E & F).
    { rewrite T2. cbn [r2 r_loops r_idx]. rewrite E6, E7. unfold T in Hk'. nia. }
    rewrite T2 in B. cbn [r2 r_loops r_idx] in B, C. rewrite E6, E7 in B. rewrite E7 in C.
    rewrite !cnt_app, !step_outs_no_ev. eval_cnt. unfold T.
    repeat split; auto; try lia; nia. }
  cbv zeta. unfold play_rs. fold n. fold (start_idx c).
  destruct (c_sync c =? 0).
  - apply First; auto. lia.
  - cbn [fst snd app]. destruct k as [|k]; [cbn in Hk; lia|].
    rewrite Nat2Z.inj_succ in Hk.
    cbn [free_run set_timer set_nst r_timer]. unfold apply_op. cbn [set_timer set_nst r_timer].
    apply First; auto. lia.
Qed.

(* ------------------------------------------------------------------------------------------ *)
(* show_player: the instance dictionary                                                        *)
Lemma ckey_eqb_eq a b : ckey_eqb a b = true <-> a = b.
Proof.
  unfold ckey_eqb. destruct a as [a1 a2], b as [b1 b2]. cbn. rewrite andb_true_iff, !Z.eqb_eq.
  split; [intros [-> ->]; reflexivity|intros E; inversion E; auto].
Qed.

Lemma ckey_eqb_refl a : ckey_eqb a a = true.
Proof. apply ckey_eqb_eq. reflexivity. Qed.

Lemma lookup_unbind_same k inst : lookup k (unbind k inst) = None.
Proof.
  induction inst as [|[k' v] inst IH]; cbn; [reflexivity|].
  destruct (ckey_eqb k k') eqn:E; cbn; [exact IH|]. rewrite E. exact IH.
Qed.

Lemma lookup_unbind_other k k' inst : k' <> k -> lookup k' (unbind k inst) = lookup k' inst.
Proof.
  intros Hd. induction inst as [|[k0 v] inst IH]; cbn; [reflexivity|].
  destruct (ckey_eqb k k0) eqn:E; cbn.
  - apply ckey_eqb_eq in E. subst k0.
    destruct (ckey_eqb k' k) eqn:E'; [apply ckey_eqb_eq in E'; congruence|exact IH].
  - destruct (ckey_eqb k' k0); [reflexivity|exact IH].
Qed.

Lemma get_show_op_other now sid o w sid' :
  0 <= sid -> 0 <= sid' -> sid' <> sid -> get_show (world_op now sid o w) sid' = get_show w sid'.
Proof.
  intros H1 H2 Hd. destruct (get_show w sid) as [r|] eqn:E.
  - rewrite (world_op_eq _ _ _ _ _ E). unfold get_show. cbn [w_shows].
    apply nth_upd_other. intros Eq. apply Hd. apply Z2Nat.inj in Eq; lia.
  - unfold world_op. rewrite E. reflexivity.
Qed.

Lemma get_show_play_other now slot c w sid' :
  0 <= slot -> 0 <= sid' -> sid' <> slot -> get_show (world_play now slot c w) sid' = get_show w sid'.
Proof.
  intros H1 H2 Hd. rewrite world_play_eq. unfold get_show. cbn [w_shows].
  apply nth_upd_other. intros Eq. apply Hd. apply Z2Nat.inj in Eq; lia.
Qed.

Lemma get_show_play_same now slot c w :
  (Z.to_nat slot < length (w_shows w))%nat ->
  get_show (world_play now slot c w) slot = Some (fst (play_rs c now)).
Proof. intros Hlt. rewrite world_play_eq. unfold get_show. cbn [w_shows]. apply nth_upd_same. exact Hlt. Qed.

Lemma world_op_length now sid o w : length (w_shows (world_op now sid o w)) = length (w_shows w).
Proof.
  assert (L : forall A (f : A -> A) n l, length (upd_nth n f l) = length l).
  { intros A f n. induction n as [|n IH]; intros [|x l]; cbn; auto. }
  destruct (get_show w sid) as [r|] eqn:E.
  - rewrite (world_op_eq _ _ _ _ _ E). cbn [w_shows]. apply L.
  - unfold world_op. rewrite E. reflexivity.
Qed.

(* a stopped show stays a stopped show of the world, whatever is requested of any show *)
Lemma stopped_stays now sid o w s r :
  reach w -> 0 <= sid -> 0 <= s -> get_show w s = Some r -> r_stopped r = true ->
  exists r', get_show (world_op now sid o w) s = Some r' /\ r_stopped r' = true.
Proof.
  intros Hr Hsid Hs E St. destruct (Z.eq_dec s sid) as [->|Hd].
  - rewrite (get_show_after_op _ _ _ _ _ E). eexists. split; [reflexivity|].
    destruct (reach_inv w Hr) as (Hinv & _). specialize (Hinv sid Hsid). unfold show_inv in Hinv. rewrite E in Hinv.
    destruct (apply_op_spec now o r (proj1 Hinv)) as [_ _ _ _ _ D]. apply D. exact St.
  - rewrite get_show_op_other by auto. eauto.
Qed.

Lemma some_stays now sid o w s :
  0 <= sid -> 0 <= s -> get_show w s <> None -> get_show (world_op now sid o w) s <> None.
Proof.
  intros Hsid Hs H. destruct (Z.eq_dec s sid) as [->|Hd].
  - destruct (get_show w sid) as [r|] eqn:E; [|congruence]. rewrite (get_show_after_op _ _ _ _ _ E). discriminate.
  - rewrite get_show_op_other by auto. exact H.
Qed.

Lemma stop_stops now sid w r :
  get_show w sid = Some r ->
  exists r', get_show (world_op now sid Stop w) sid = Some r' /\ r_stopped r' = true.
Proof.
  intros E. rewrite (get_show_after_op _ _ _ _ _ E). eexists. split; [reflexivity|].
  cbn. unfold do_stop. destruct (r_stopped r) eqn:Es; cbn; auto.
Qed.

Lemma lookup_in k v inst : lookup k inst = Some v -> In (k, v) inst.
Proof.
  induction inst as [|[k' v'] inst IH]; cbn; [discriminate|].
  destruct (ckey_eqb k k') eqn:E; [|auto]. apply ckey_eqb_eq in E. subst k'. intros Es. inversion Es. auto.
Qed.

Lemma in_unbind k e inst : In e (unbind k inst) -> In e inst.
Proof. unfold unbind. intros H. apply filter_In in H. apply H. Qed.

Record pinv (p : pstate) : Prop := mkPinv {
  pi_reach : reach (p_w p);
  pi_some : forall sid k, In (sid, k) (p_hist p) -> 0 <= sid /\ get_show (p_w p) sid <> None;
  pi_fun : forall sid k1 k2, In (sid, k1) (p_hist p) -> In (sid, k2) (p_hist p) -> k1 = k2;
  pi_bound : forall k sid, In (k, sid) (p_inst p) -> In (sid, k) (p_hist p);
  pi_live : forall sid k r, In (sid, k) (p_hist p) -> get_show (p_w p) sid = Some r -> r_stopped r = false ->
                            lookup k (p_inst p) = Some sid
}.

(* a request (or a timer expiry) for one show that leaves the dictionary alone *)
Lemma pinv_world_op now sid o p :
  pinv p -> 0 <= sid -> pinv (mkP (world_op now sid o (p_w p)) (p_inst p) (p_hist p)).
Proof.
  intros [R S F B L] Hsid. constructor; cbn [p_w p_inst p_hist]; auto.
  - constructor; assumption.
  - intros s k Hin. destruct (S s k Hin) as (H0 & Hn). split; [exact H0|]. apply some_stays; auto.
  - intros s k r Hin E Hlive. destruct (S s k Hin) as (H0 & Hn).
    destruct (get_show (p_w p) s) as [r0|] eqn:E0; [|congruence].
    destruct (r_stopped r0) eqn:St.
    + destruct (stopped_stays now sid o (p_w p) s r0 R Hsid H0 E0 St) as (r' & E' & St'). congruence.
    + eapply L; eauto.
Qed.

Lemma pinv_fire d k key p : pinv p -> pinv (p_fade d k key p).
Proof.
  intros [R S F B L]. unfold p_fade. constructor; cbn [p_w p_inst p_hist]; auto.
  constructor. exact R.
Qed.

Definition act_ok (a : pact) (p : pstate) : Prop :=
  match a with
  | APlay slot c => 0 <= slot /\ (Z.to_nat slot < length (w_shows (p_w p)))%nat /\
                    get_show (p_w p) slot = None /\ c_steps c <> []
  | _ => True
  end.

Lemma pinv_deliver now k o p : pinv p -> pinv (deliver now k o p).
Proof.
  intros H. unfold deliver. destruct (lookup k (p_inst p)) as [sid|] eqn:E; [|exact H].
  apply pinv_world_op; [exact H|]. destruct H as [R S F B L]. apply (S sid k). apply B. apply lookup_in. exact E.
Qed.

Lemma pinv_act now k a p : pinv p -> act_ok a p -> pinv (p_act now k a p).
Proof.
  intros H Hok. destruct a; cbn [p_act]; try (apply pinv_deliver; exact H).
  - (* play *)
    destruct Hok as (Hslot & Hlt & Hfree & Hne).
    set (w1 := match lookup k (p_inst p) with Some old => world_op now old Stop (p_w p) | None => p_w p end).
    assert (H1 : pinv (mkP w1 (p_inst p) (p_hist p)) /\ get_show w1 slot = None /\
                 length (w_shows w1) = length (w_shows (p_w p)) /\
                 (forall old, lookup k (p_inst p) = Some old ->
                    exists r', get_show w1 old = Some r' /\ r_stopped r' = true)).
    { unfold w1. destruct (lookup k (p_inst p)) as [old|] eqn:E.
      - pose proof H as [R S F B L].
        destruct (S old k (B _ _ (lookup_in _ _ _ E))) as (H0 & Hn).
        assert (Hd : slot <> old) by (intros ->; congruence).
        split; [apply pinv_world_op; auto|]. split; [rewrite get_show_op_other; auto|].
        split; [apply world_op_length|].
        intros old' Eo. inversion Eo; subst old'.
        destruct (get_show (p_w p) old) as [r0|] eqn:E0; [|congruence]. eapply stop_stops; eauto.
      - split; [destruct p; exact H|]. split; [exact Hfree|]. split; [reflexivity|]. intros old Eo. discriminate. }
    destruct H1 as ([R S F B L] & Hfree1 & Hlen & Hold). cbn [p_w p_inst p_hist] in *.
    assert (Hnot : forall k', ~ In (slot, k') (p_hist p)).
    { intros k' Hin. destruct (S slot k' Hin) as (_ & Hn). congruence. }
    constructor; cbn [p_w p_inst p_hist].
    + constructor; auto. rewrite Hlen. exact Hlt.
    + intros s k' [Hin|Hin].
      * inversion Hin; subst. split; [exact Hslot|]. rewrite get_show_play_same by (rewrite Hlen; exact Hlt). discriminate.
      * destruct (S s k' Hin) as (H0 & Hn). split; [exact H0|].
        rewrite get_show_play_other; auto. intros ->. exact (Hnot _ Hin).
    + intros s k1 k2 [H1|H1] [H2|H2].
      * congruence.
      * inversion H1; subst. exfalso. exact (Hnot _ H2).
      * inversion H2; subst. exfalso. exact (Hnot _ H1).
      * eapply F; eauto.
    + intros k' s. unfold bind. intros [Es|Es].
      * inversion Es; subst. left. reflexivity.
      * right. apply B. eapply in_unbind; eauto.
    + intros s k' r [Hin|Hin] Es Hlive.
      * inversion Hin; subst. unfold bind. cbn [lookup]. rewrite ckey_eqb_refl. reflexivity.
      * assert (Hs : s <> slot) by (intros ->; exact (Hnot _ Hin)).
        destruct (S s k' Hin) as (H0 & _).
        rewrite get_show_play_other in Es by auto.
        pose proof (L s k' r Hin Es Hlive) as Hb.
        unfold bind. cbn [lookup]. destruct (ckey_eqb k' k) eqn:E.
        -- apply ckey_eqb_eq in E. subst k'. destruct (Hold s Hb) as (r' & E' & St'). congruence.
        -- rewrite lookup_unbind_other; [exact Hb|]. intros ->. rewrite ckey_eqb_refl in E. discriminate.
  - (* stop *)
    destruct (lookup k (p_inst p)) as [sid|] eqn:E; [|exact H].
    pose proof H as [R S F B L]. destruct (S sid k (B _ _ (lookup_in _ _ _ E))) as (H0 & Hn).
    destruct (pinv_world_op now sid Stop p H H0) as [R' S' F' B' L']. cbn [p_w p_inst p_hist] in *.
    constructor; cbn [p_w p_inst p_hist]; auto.
    + intros k' s Es. apply B'. eapply in_unbind; eauto.
    + intros s k' r Hin Es Hlive.
      pose proof (L' s k' r Hin Es Hlive) as Hb.
      destruct (ckey_eqb k' k) eqn:Ek.
      * apply ckey_eqb_eq in Ek. subst k'. assert (s = sid) by congruence. subst s.
        destruct (get_show (p_w p) sid) as [r0|] eqn:E0; [|congruence].
        destruct (stop_stops now sid (p_w p) r0 E0) as (r' & E' & St'). congruence.
      * rewrite lookup_unbind_other; [exact Hb|]. intros ->. rewrite ckey_eqb_refl in Ek. discriminate.
Qed.

(* clear_context of the show player (a mode stops) *)
Lemma stop_all_spec now ctx : forall inst w,
  reach w -> (forall k sid, In (k, sid) inst -> 0 <= sid /\ get_show w sid <> None) ->
  let w' := stop_all now ctx inst w in
  reach w' /\
  (forall s, 0 <= s -> get_show w s <> None -> get_show w' s <> None) /\
  (forall s r, 0 <= s -> get_show w s = Some r -> r_stopped r = true ->
               exists r', get_show w' s = Some r' /\ r_stopped r' = true) /\
  (forall k sid, In (k, sid) inst -> fst k = ctx -> exists r', get_show w' sid = Some r' /\ r_stopped r' = true).
Proof.
  induction inst as [|[k0 sid0] inst IH]; intros w Hr Hin; cbv zeta; cbn [stop_all].
  - repeat split; auto. intros s r _ E St. eauto. intros k sid [].
  - destruct (Hin k0 sid0 (or_introl eq_refl)) as (H0 & Hn0).
    set (w1 := if fst k0 =? ctx then world_op now sid0 Stop w else w).
    assert (Hr1 : reach w1) by (unfold w1; destruct (fst k0 =? ctx); [constructor; auto|exact Hr]).
    assert (Hs1 : forall s, 0 <= s -> get_show w s <> None -> get_show w1 s <> None).
    { unfold w1. destruct (fst k0 =? ctx); [intros; apply some_stays; auto|auto]. }
    assert (Hst1 : forall s r, 0 <= s -> get_show w s = Some r -> r_stopped r = true ->
                     exists r', get_show w1 s = Some r' /\ r_stopped r' = true).
    { unfold w1. destruct (fst k0 =? ctx); [intros; eapply stopped_stays; eauto|eauto]. }
    destruct (IH w1 Hr1) as (A & B & C & D).
    { intros k sid Hi. destruct (Hin k sid (or_intror Hi)) as (H1 & H2). split; auto. }
    cbv zeta in A, B, C, D. split; [exact A|]. split; [auto|]. split.
    + intros s r Hs E St. destruct (Hst1 s r Hs E St) as (r1 & E1 & St1). eapply C; eauto.
    + intros k sid [Hi|Hi] Hc.
      * inversion Hi; subst k0 sid0. unfold w1 in *. rewrite (proj2 (Z.eqb_eq _ _) Hc) in *.
        destruct (get_show w sid) as [r0|] eqn:E0; [|congruence].
        destruct (stop_stops now sid w r0 E0) as (r1 & E1 & St1). eapply C; eauto.
      * eapply D; eauto.
Qed.

Lemma lookup_filter_ctx ctx k inst :
  lookup k (filter (fun e => negb (fst (fst e) =? ctx)) inst) =
  if fst k =? ctx then None else lookup k inst.
Proof.
  induction inst as [|[k' v'] inst IH]; cbn; [destruct (fst k =? ctx); reflexivity|].
  destruct (fst k' =? ctx) eqn:Ec; cbn.
  - rewrite IH. destruct (fst k =? ctx) eqn:Ek; [reflexivity|].
    destruct (ckey_eqb k k') eqn:E; [|reflexivity]. apply ckey_eqb_eq in E. subst k'. congruence.
  - destruct (ckey_eqb k k') eqn:E.
    + apply ckey_eqb_eq in E. subst k'. rewrite Ec. reflexivity.
    + exact IH.
Qed.

(* a mode stops: every show started under its context is stopped, owns no live light entry, and the context's
   dictionary is empty *)
Lemma p_clear_spec now ctx p :
  pinv p ->
  pinv (p_clear now ctx p) /\
  (forall sid key, In (sid, (ctx, key)) (p_hist p) ->
     (exists r', get_show (p_w (p_clear now ctx p)) sid = Some r' /\ r_stopped r' = true) /\
     no_live sid (w_lights (p_w (p_clear now ctx p))) /\
     lookup (ctx, key) (p_inst (p_clear now ctx p)) = None).
Proof.
  intros [R S F B L].
  assert (Hin : forall k sid, In (k, sid) (p_inst p) -> 0 <= sid /\ get_show (p_w p) sid <> None).
  { intros k sid Hi. apply (S sid k). apply B. exact Hi. }
  destruct (stop_all_spec now ctx (p_inst p) (p_w p) R Hin) as (A & Bs & C & D). cbv zeta in A, Bs, C, D.
  assert (Stopped : forall sid key, In (sid, (ctx, key)) (p_hist p) ->
            exists r', get_show (stop_all now ctx (p_inst p) (p_w p)) sid = Some r' /\ r_stopped r' = true).
  { intros sid key Hi. destruct (S sid _ Hi) as (H0 & Hn).
    destruct (get_show (p_w p) sid) as [r0|] eqn:E0; [|congruence].
    destruct (r_stopped r0) eqn:St; [eapply C; eauto|].
    pose proof (L sid _ r0 Hi E0 St) as Hb. apply lookup_in in Hb. eapply D; eauto. }
  split.
  - unfold p_clear. constructor; cbn [p_w p_inst p_hist]; auto.
    + intros sid k Hi. destruct (S sid k Hi) as (H0 & Hn). split; auto.
    + intros k sid Hi. apply filter_In in Hi. apply B. apply Hi.
    + intros sid k r Hi E Hlive. rewrite lookup_filter_ctx.
      destruct (S sid k Hi) as (H0 & Hn).
      destruct (get_show (p_w p) sid) as [r0|] eqn:E0; [|congruence].
      destruct (r_stopped r0) eqn:St.
      * destruct (C sid r0 H0 E0 St) as (r' & E' & St'). congruence.
      * destruct (fst k =? ctx) eqn:Ek.
        -- apply Z.eqb_eq in Ek. destruct k as [c key]. cbn in Ek. subst c.
           destruct (Stopped sid key Hi) as (r' & E' & St'). congruence.
        -- eapply L; eauto.
  - intros sid key Hi. destruct (Stopped sid key Hi) as (r' & E' & St'). unfold p_clear. cbn [p_w p_inst].
    split; [eauto|]. split.
    + destruct (S sid _ Hi) as (H0 & _). eapply stop_clears_context_l; eauto.
    + rewrite lookup_filter_ctx. cbn [fst]. rewrite Z.eqb_refl. reflexivity.
Qed.

(* histories of the player: any actions for any (context, key) at any instants, clear_context of any context,
   timer expiries of any show, removal-delay expiries of any light *)
Inductive preach : pstate -> Prop :=
| P0 w : reach w -> preach (mkP w [] [])
| PAct p now k a : preach p -> act_ok a p -> preach (p_act now k a p)
| PTick p d sid : preach p -> 0 <= sid -> preach (p_tick d sid p)
| PFade p d k key : preach p -> preach (p_fade d k key p)
| PClear p now ctx : preach p -> preach (p_clear now ctx p).

Lemma preach_inv p : preach p -> pinv p.
Proof.
  induction 1 as [w Hr | p now k a _ IH Hok | p d sid _ IH Hsid | p d k key _ IH | p now ctx _ IH].
  - constructor; cbn; auto; try contradiction; try discriminate.
  - apply pinv_act; assumption.
  - unfold p_tick. apply pinv_world_op; assumption.
  - apply pinv_fire. exact IH.
  - apply p_clear_spec. exact IH.
Qed.

(* at most one running show per (context, key): two shows started through the player under the same
   (context, key) that both have not stopped are the same show *)
Lemma one_show_per_key_l p k sid1 sid2 r1 r2 :
  preach p -> In (sid1, k) (p_hist p) -> In (sid2, k) (p_hist p) ->
  get_show (p_w p) sid1 = Some r1 -> get_show (p_w p) sid2 = Some r2 ->
  r_stopped r1 = false -> r_stopped r2 = false -> sid1 = sid2.
Proof.
  intros Hp H1 H2 E1 E2 L1 L2. destruct (preach_inv p Hp) as [R S F B L].
  pose proof (L _ _ _ H1 E1 L1). pose proof (L _ _ _ H2 E2 L2). congruence.
Qed.

(* the stop action for a key stops exactly the show bound to it: that show is stopped and owns no live light
   entry, the key is free, every other show is what it was *)
Lemma stop_by_key_l p now k sid :
  preach p -> lookup k (p_inst p) = Some sid ->
  let p' := p_act now k AStop p in
  (exists r', get_show (p_w p') sid = Some r' /\ r_stopped r' = true) /\
  no_live sid (w_lights (p_w p')) /\
  lookup k (p_inst p') = None /\
  (forall k', k' <> k -> lookup k' (p_inst p') = lookup k' (p_inst p)) /\
  (forall s, 0 <= s -> s <> sid -> get_show (p_w p') s = get_show (p_w p) s) /\
  (forall s, s <> sid -> others s (w_lights (p_w p')) = others s (w_lights (p_w p))).
Proof.
  intros Hp E. destruct (preach_inv p Hp) as [R S F B L].
  destruct (S sid k (B _ _ (lookup_in _ _ _ E))) as (H0 & Hn).
  destruct (get_show (p_w p) sid) as [r0|] eqn:E0; [|congruence].
  cbv zeta. cbn [p_act]. rewrite E. cbn [p_w p_inst].
  split; [eapply stop_stops; eauto|].
  split; [eapply stop_request_clears_l; eauto|].
  split; [apply lookup_unbind_same|].
  split; [intros k' Hd; apply lookup_unbind_other; exact Hd|].
  split; [intros s Hs Hd; apply get_show_op_other; auto|].
  intros s Hd. apply world_op_frame. exact Hd.
Qed.


Lemma mode_stop_clears_l p now ctx sid key :
  preach p -> In (sid, (ctx, key)) (p_hist p) ->
  (exists r', get_show (p_w (p_clear now ctx p)) sid = Some r' /\ r_stopped r' = true) /\
  no_live sid (w_lights (p_w (p_clear now ctx p))) /\
  lookup (ctx, key) (p_inst (p_clear now ctx p)) = None.
Proof. intros Hp Hi. apply (proj2 (p_clear_spec now ctx p (preach_inv p Hp))). exact Hi. Qed.
