(* C17/Lemmas.v — proofs about the model of Model.v. *)
From Common Require Import Prelude.
From C17 Require Import Model.
Open Scope Z_scope.

(* ------------------------------------------------------------------------------------------ *)
(* outputs: classification and counting                                                       *)
Definition is_ev (o : out) : bool := match o with OEv _ _ => true | _ => false end.
Definition is_evc (c : Z) (o : out) : bool := match o with OEv c' _ => c' =? c | _ => false end.
Definition cnt (c : Z) (os : list out) : nat := length (filter (is_evc c) os).
Definition no_light_ops (os : list out) : Prop := forallb is_ev os = true.

Lemma cnt_app c a b : cnt c (a ++ b) = (cnt c a + cnt c b)%nat.
Proof. unfold cnt. rewrite filter_app, app_length. reflexivity. Qed.

Lemma step_outs_no_ev st start c : cnt c (step_outs st start) = 0%nat.
Proof.
  unfold step_outs, cnt. induction (s_acts st) as [|a l IH]; cbn; [reflexivity|].
  destruct (snd a =? 0); cbn; exact IH.
Qed.

(* ------------------------------------------------------------------------------------------ *)
(* what _run_next_step can do                                                                  *)
Definition step_time (r : rs) (i : Z) : Z := ttn (s_dur (nth_step r i)) (r_speed4 r).

Inductive rn_result (post : list out) (pa : bool) (r r' : rs) (os : list out) : Prop :=
| RnComplete :
    r_stopped r' = true -> r_timer r' = None -> r_steps r' = r_steps r ->
    os = OClear :: OEv 4 0 :: post ++ [OEv 3 0] ->
    rn_result post pa r r' os
| RnStep (i : Z) (lp : list out) :
    r_stopped r' = false ->
    os = step_outs (nth_step r i) (r_nst r) ++ [OEv 0 i] ++ post ++ lp ->
    (lp = [] \/ lp = [OEv 2 0]) ->
    0 <= i ->
    r_idx r' = i + 1 ->
    r_steps r' = r_steps r -> r_speed4 r' = r_speed4 r -> r_manual r' = r_manual r ->
    r_running r' = r_running r ->
    ((r_timer r' = r_timer r /\ r_nst r' = r_nst r /\
      (r_manual r = true \/ step_time r i <= 0 \/ pa = true)) \/
     (r_timer r' = Some (r_nst r + step_time r i, false) /\ r_nst r' = r_nst r + step_time r i /\
      0 < step_time r i /\ r_manual r = false /\ pa = false)) ->
    rn_result post pa r r' os.

Lemma run_next_cases post pa r :
  r_stopped r = false -> r_steps r <> [] ->
  rn_result post pa r (fst (run_next post pa r)) (snd (run_next post pa r)).
Proof.
  intros Hs Hne.
  assert (Hn : 0 < total r).
  { unfold total. destruct (r_steps r); [congruence|]. cbn [length]. lia. }
  unfold run_next.
  set (n := total r) in *.
  set (i0 := if r_idx r <? 0 then r_idx r mod n else r_idx r).
  assert (Hi0 : 0 <= i0).
  { unfold i0. destruct (r_idx r <? 0) eqn:E.
    - apply Z.mod_pos_bound. exact Hn.
    - apply Z.ltb_ge in E. exact E. }
  destruct ((i0 >=? n) && (r_loops r =? 0)) eqn:Eend.
  - (* complete *)
    unfold do_stop, set_idx. cbn [r_stopped]. rewrite Hs. cbn [fst snd].
    apply RnComplete; cbn; try reflexivity.
  - cbn [fst snd].
    set (wrap := i0 >=? n).
    set (i1 := if wrap then 0 else i0).
    assert (Hi1 : 0 <= i1) by (unfold i1; destruct wrap; lia).
    set (st := nth_step r i1).
    set (t := ttn (s_dur st) (r_speed4 r)).
    destruct (negb (r_manual r) && (0 <? t) && negb pa) eqn:Esched.
    + apply RnStep with (i := i1) (lp := if wrap then [OEv 2 0] else []); cbn; try reflexivity; try assumption.
      * fold st. destruct wrap; cbn; rewrite ?app_nil_r; reflexivity.
      * destruct wrap; auto.
      * right. apply andb_true_iff in Esched as [E1 E3]. apply andb_true_iff in E1 as [E1 E2].
        apply Z.ltb_lt in E2. unfold step_time. fold st t.
        repeat split; try reflexivity; try assumption.
        -- destruct (r_manual r); [discriminate|reflexivity].
        -- destruct pa; [discriminate|reflexivity].
    + apply RnStep with (i := i1) (lp := if wrap then [OEv 2 0] else []); cbn; try reflexivity; try assumption.
      * fold st. destruct wrap; cbn; rewrite ?app_nil_r; reflexivity.
      * destruct wrap; auto.
      * left. repeat split; try reflexivity.
        unfold step_time. fold st t.
        destruct (r_manual r); [left; reflexivity|].
        destruct (0 <? t) eqn:E2; [|right; left; apply Z.ltb_ge in E2; exact E2].
        destruct pa; [right; right; reflexivity|discriminate].
Qed.


(* ------------------------------------------------------------------------------------------ *)
(* invariants of a running show under every request                                            *)
Definition b2n (b : bool) : nat := if b then 1%nat else 0%nat.
Definition is_start (r : rs) : bool := match r_timer r with Some (_, true) => true | _ => false end.
Definition is_fire (o : op) : bool := match o with Fire => true | _ => false end.

Definition wf (r : rs) : Prop :=
  r_steps r <> [] /\
  (r_stopped r = true -> r_timer r = None) /\
  (forall d b, r_timer r = Some (d, b) -> d = r_nst r).

Lemma rn_counts post pa r r' os :
  rn_result post pa r r' os ->
  cnt 4 os = (cnt 4 post + b2n (r_stopped r'))%nat /\
  cnt 3 os = (cnt 3 post + b2n (r_stopped r'))%nat /\
  cnt 1 os = cnt 1 post.
Proof.
  intros [Hst Ht _ Hos | i lp Hst Hos Hlp _ _ _ _ _ _ _]; subst os; rewrite Hst.
  - change (OClear :: OEv 4 0 :: post ++ [OEv 3 0]) with ([OClear; OEv 4 0] ++ post ++ [OEv 3 0]).
    rewrite !cnt_app. cbn. repeat split; lia.
  - rewrite !cnt_app, !step_outs_no_ev. destruct Hlp; subst lp; cbn; repeat split; lia.
Qed.

Lemma rn_wf post pa r r' os :
  r_steps r <> [] -> r_timer r = None -> rn_result post pa r r' os -> wf r' /\ is_start r' = false.
Proof.
  intros Hne Hnone [Hst Htm Hsteps Hos | i lp Hst Hos Hlp _ _ Hsteps _ _ _ Hsch].
  - split; [|unfold is_start; rewrite Htm; reflexivity].
    unfold wf. rewrite Htm, Hsteps. repeat split; try assumption; intros; discriminate.
  - destruct Hsch as [(Ht & Hn & _) | (Ht & Hn & _)].
    + rewrite Hnone in Ht. split; [|unfold is_start; rewrite Ht; reflexivity].
      unfold wf. rewrite Ht, Hsteps. repeat split; try assumption; intros; try discriminate; try congruence.
    + split; [|unfold is_start; rewrite Ht; reflexivity].
      unfold wf. rewrite Ht, Hsteps, Hst. repeat split; try assumption; intros; try discriminate.
      inversion H; subst. symmetry. exact Hn.
Qed.

Lemma rn_op_spec post pa r1 :
  r_stopped r1 = false -> r_steps r1 <> [] -> r_timer r1 = None ->
  cnt 4 post = 0%nat -> cnt 3 post = 0%nat ->
  let r' := fst (run_next post pa r1) in
  let os := snd (run_next post pa r1) in
  wf r' /\ b2n (r_stopped r') = cnt 4 os /\ (cnt 3 os <= cnt 4 os)%nat /\ cnt 1 os = cnt 1 post /\
  is_start r' = false.
Proof.
  intros Hs Hne Ht H4 H3 r' os.
  pose proof (run_next_cases post pa r1 Hs Hne) as Hc. fold r' os in Hc.
  destruct (rn_counts _ _ _ _ _ Hc) as (C4 & C3 & C1).
  destruct (rn_wf _ _ _ _ _ Hne Ht Hc) as (Hwf & Hst).
  split; [exact Hwf|]. split; [lia|]. split; [lia|]. split; assumption.
Qed.

Record op_spec (o : op) (r r' : rs) (os : list out) : Prop := mkOpSpec {
  os_wf : wf r';
  os_stop : b2n (r_stopped r') = (b2n (r_stopped r) + cnt 4 os)%nat;
  os_compl : (cnt 3 os <= cnt 4 os)%nat;
  os_played : cnt 1 os = b2n (is_start r && is_fire o);
  os_start : is_start r' = true -> is_start r = true /\ is_fire o = false;
  os_dead : r_stopped r = true ->
            r_stopped r' = true /\ no_light_ops os /\ cnt 0 os = 0%nat /\ r_timer r' = None
}.

Lemma is_start_none r : r_timer r = None -> is_start r = false.
Proof. unfold is_start. intros ->. reflexivity. Qed.

Lemma apply_op_spec now o r :
  wf r -> op_spec o r (fst (apply_op now o r)) (snd (apply_op now o r)).
Proof.
  intros Hwf. pose proof Hwf as (Hne & Hst & Htm).
  destruct (r_stopped r) eqn:Es.
  - (* a stopped show ignores everything but update *)
    pose proof (Hst eq_refl) as Hnone.
    destruct o; unfold apply_op, do_stop, do_update; rewrite ?Es, ?Hnone; cbn [fst snd];
      try (constructor; rewrite ?Es; cbn; rewrite ?(is_start_none r Hnone); auto;
           try (intros E; rewrite (is_start_none r Hnone) in E; discriminate)).
    constructor; cbn; rewrite ?Es, ?Hnone; cbn; auto.
    + unfold wf. cbn. rewrite Hnone. repeat split; auto; intros; discriminate.
    + rewrite (is_start_none r Hnone). reflexivity.
    + unfold is_start. cbn. rewrite Hnone. discriminate.
  - destruct o; unfold apply_op, do_stop, do_update; rewrite ?Es; cbn [fst snd].
    + (* Stop *)
      constructor; cbn; rewrite ?Es; auto; try discriminate.
      * unfold wf. cbn. repeat split; auto; intros; discriminate.
      * rewrite andb_false_r. reflexivity.
    + (* Pause *)
      constructor; cbn; rewrite ?Es; auto; try discriminate.
      * unfold wf. cbn. rewrite Es. repeat split; auto; intros; discriminate.
      * rewrite andb_false_r. reflexivity.
    + (* Resume *)
      destruct (rn_op_spec [OEv 6 0] false (set_nst (set_timer r None) now)) as (W & S4 & C3 & C1 & St);
        cbn; auto.
      constructor; cbn; auto; try discriminate; try lia.
      * rewrite C1, andb_false_r. reflexivity.
      * rewrite St. discriminate.
    + (* Advance *)
      set (r1 := if n =? 1 then set_nst (set_timer r None) now
                 else set_idx (set_nst (set_timer r None) now) (r_idx (set_nst (set_timer r None) now) + n - 1)).
      destruct (rn_op_spec [OEv 7 0] false r1) as (W & S4 & C3 & C1 & St);
        try (unfold r1; destruct (n =? 1); cbn; auto; fail).
      constructor; cbn; auto; try discriminate; try lia.
      * fold r1. rewrite C1, andb_false_r. reflexivity.
      * fold r1. rewrite St. discriminate.
    + (* StepBack *)
      destruct (rn_op_spec [OEv 8 0] false
                  (set_idx (set_nst (set_timer r None) now) (r_idx (set_nst (set_timer r None) now) - (n + 1))))
        as (W & S4 & C3 & C1 & St); cbn; auto.
      constructor; cbn; auto; try discriminate; try lia.
      * rewrite C1, andb_false_r. reflexivity.
      * rewrite St. discriminate.
    + (* Update *)
      constructor; cbn; rewrite ?Es; auto; try discriminate.
      * unfold wf. cbn. rewrite Es. repeat split; auto. discriminate.
      * rewrite andb_false_r. reflexivity.
    + (* Fire *)
      destruct (r_timer r) as [[d [|]]|] eqn:Et.
      * unfold start_now.
        destruct (rn_op_spec [OEv 1 0] (negb (r_running (set_timer r None))) (set_timer r None))
          as (W & S4 & C3 & C1 & St); cbn; auto.
        constructor; cbn; auto; try discriminate; try lia.
        -- unfold is_start. rewrite Et. cbn. rewrite C1. reflexivity.
        -- cbn in St. rewrite St. discriminate.
      * destruct (rn_op_spec [] false (set_timer r None)) as (W & S4 & C3 & C1 & St); cbn; auto.
        constructor; cbn; auto; try discriminate; try lia.
        -- unfold is_start. rewrite Et. cbn. rewrite C1. reflexivity.
        -- rewrite St. discriminate.
      * cbn. constructor; cbn; rewrite ?Es; auto; try discriminate.
        -- unfold is_start. rewrite Et. reflexivity.
        -- unfold is_start. rewrite Et. discriminate.
Qed.
