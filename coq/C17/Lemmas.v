(* C17/Lemmas.v — proofs about the model of Model.v. *)
From Common Require Import Prelude.
From C17 Require Import Model.
Open Scope Z_scope.

(* ------------------------------------------------------------------------------------------ *)
(* outputs: classification and counting                                                       *)
Definition is_ev (o : out) : bool := match o with OEv _ _ => true | _ => false end.
Definition is_evc (c : Z) (o : out) : bool := match o with OEv c' _ => c' =? c | _ => false end.
Definition cnt (c : Z) (os : list out) : nat := length (filter (is_evc c) os).
Definition no_light_ops (os : list out) : Prop := forallb is_ev os = true.

Lemma cnt_app c a b : cnt c (a ++ b) = (cnt c a + cnt c b)%nat.
Proof. unfold cnt. rewrite filter_app, app_length. reflexivity. Qed.

Lemma step_outs_no_ev st start c : cnt c (step_outs st start) = 0%nat.
Proof.
  unfold step_outs, cnt. induction (s_acts st) as [|a l IH]; cbn; [reflexivity|].
  destruct (snd a =? 0); cbn; exact IH.
Qed.

(* ------------------------------------------------------------------------------------------ *)
(* what _run_next_step can do                                                                  *)
Definition step_time (r : rs) (i : Z) : Z := ttn (s_dur (nth_step r i)) (r_speed4 r).

Inductive rn_result (post : list out) (pa : bool) (r r' : rs) (os : list out) : Prop :=
| RnComplete :
    r_stopped r' = true -> r_timer r' = None -> r_steps r' = r_steps r ->
    os = OClear :: OEv 4 0 :: post ++ [OEv 3 0] ->
    rn_result post pa r r' os
| RnStep (i : Z) (lp : list out) :
    r_stopped r' = false ->
    os = step_outs (nth_step r i) (r_nst r) ++ [OEv 0 i] ++ post ++ lp ->
    (lp = [] \/ lp = [OEv 2 0]) ->
    0 <= i < total r ->
    i = (let i0 := if r_idx r <? 0 then r_idx r mod total r else r_idx r in if i0 >=? total r then 0 else i0) ->
    r_idx r' = i + 1 ->
    r_steps r' = r_steps r -> r_speed4 r' = r_speed4 r -> r_manual r' = r_manual r ->
    r_running r' = r_running r ->
    ((r_timer r' = r_timer r /\ r_nst r' = r_nst r /\
      (r_manual r = true \/ step_time r i <= 0 \/ pa = true)) \/
     (r_timer r' = Some (r_nst r + step_time r i, false) /\ r_nst r' = r_nst r + step_time r i /\
      0 < step_time r i /\ r_manual r = false /\ pa = false)) ->
    rn_result post pa r r' os.

Lemma run_next_cases post pa r :
  r_stopped r = false -> r_steps r <> [] ->
  rn_result post pa r (fst (run_next post pa r)) (snd (run_next post pa r)).
Proof.
  intros Hs Hne.
  assert (Hn : 0 < total r).
  { unfold total. destruct (r_steps r); [congruence|]. cbn [length]. lia. }
  unfold run_next.
  set (n := total r) in *.
  set (i0 := if r_idx r <? 0 then r_idx r mod n else r_idx r).
  assert (Hi0 : 0 <= i0).
  { unfold i0. destruct (r_idx r <? 0) eqn:E.
    - apply Z.mod_pos_bound. exact Hn.
    - apply Z.ltb_ge in E. exact E. }
  destruct ((i0 >=? n) && (r_loops r =? 0)) eqn:Eend.
  - (* complete *)
    unfold do_stop, set_idx. cbn [r_stopped]. rewrite Hs. cbn [fst snd].
    apply RnComplete; cbn; try reflexivity.
  - cbn [fst snd].
    set (wrap := i0 >=? n).
    set (i1 := if wrap then 0 else i0).
    assert (Hi1 : 0 <= i1 < n).
    { unfold i1, wrap. destruct (i0 >=? n) eqn:E; [lia|]. rewrite Z.geb_leb in E. apply Z.leb_gt in E. lia. }
    set (st := nth_step r i1).
    set (t := ttn (s_dur st) (r_speed4 r)).
    destruct (negb (r_manual r) && (0 <? t) && negb pa) eqn:Esched.
    + apply RnStep with (i := i1) (lp := if wrap then [OEv 2 0] else []); cbn; try reflexivity; try assumption.
      * fold st. destruct wrap; cbn; rewrite ?app_nil_r; reflexivity.
      * destruct wrap; auto.
      * right. apply andb_true_iff in Esched as [E1 E3]. apply andb_true_iff in E1 as [E1 E2].
        apply Z.ltb_lt in E2. unfold step_time. fold st t.
        repeat split; try reflexivity; try assumption.
        -- destruct (r_manual r); [discriminate|reflexivity].
        -- destruct pa; [discriminate|reflexivity].
    + apply RnStep with (i := i1) (lp := if wrap then [OEv 2 0] else []); cbn; try reflexivity; try assumption.
      * fold st. destruct wrap; cbn; rewrite ?app_nil_r; reflexivity.
      * destruct wrap; auto.
      * left. repeat split; try reflexivity.
        unfold step_time. fold st t.
        destruct (r_manual r); [left; reflexivity|].
        destruct (0 <? t) eqn:E2; [|right; left; apply Z.ltb_ge in E2; exact E2].
        destruct pa; [right; right; reflexivity|discriminate].
Qed.


(* ------------------------------------------------------------------------------------------ *)
(* invariants of a running show under every request                                            *)
Definition b2n (b : bool) : nat := if b then 1%nat else 0%nat.
Definition is_start (r : rs) : bool := match r_timer r with Some (_, true) => true | _ => false end.
Definition is_fire (o : op) : bool := match o with Fire => true | _ => false end.

Definition wf (r : rs) : Prop :=
  r_steps r <> [] /\
  (r_stopped r = true -> r_timer r = None) /\
  (forall d b, r_timer r = Some (d, b) -> d = r_nst r).

Lemma rn_counts post pa r r' os :
  rn_result post pa r r' os ->
  cnt 4 os = (cnt 4 post + b2n (r_stopped r'))%nat /\
  cnt 3 os = (cnt 3 post + b2n (r_stopped r'))%nat /\
  cnt 1 os = cnt 1 post.
Proof.
  intros [Hst Ht _ Hos | i lp Hst Hos Hlp _ _ _ _ _ _ _ _]; subst os; rewrite Hst.
  - change (OClear :: OEv 4 0 :: post ++ [OEv 3 0]) with ([OClear; OEv 4 0] ++ post ++ [OEv 3 0]).
    rewrite !cnt_app. cbn. repeat split; lia.
  - rewrite !cnt_app, !step_outs_no_ev. destruct Hlp; subst lp; cbn; repeat split; lia.
Qed.

Lemma rn_wf post pa r r' os :
  r_steps r <> [] -> r_timer r = None -> rn_result post pa r r' os -> wf r' /\ is_start r' = false.
Proof.
  intros Hne Hnone [Hst Htm Hsteps Hos | i lp Hst Hos Hlp _ _ _ Hsteps _ _ _ Hsch].
  - split; [|unfold is_start; rewrite Htm; reflexivity].
    unfold wf. rewrite Htm, Hsteps. repeat split; try assumption; intros; discriminate.
  - destruct Hsch as [(Ht & Hn & _) | (Ht & Hn & _)].
    + rewrite Hnone in Ht. split; [|unfold is_start; rewrite Ht; reflexivity].
      unfold wf. rewrite Ht, Hsteps. repeat split; try assumption; intros; try discriminate; try congruence.
    + split; [|unfold is_start; rewrite Ht; reflexivity].
      unfold wf. rewrite Ht, Hsteps, Hst. repeat split; try assumption; intros; try discriminate.
      inversion H; subst. symmetry. exact Hn.
Qed.

Lemma rn_op_spec post pa r1 :
  r_stopped r1 = false -> r_steps r1 <> [] -> r_timer r1 = None ->
  cnt 4 post = 0%nat -> cnt 3 post = 0%nat ->
  let r' := fst (run_next post pa r1) in
  let os := snd (run_next post pa r1) in
  wf r' /\ b2n (r_stopped r') = cnt 4 os /\ (cnt 3 os <= cnt 4 os)%nat /\ cnt 1 os = cnt 1 post /\
  is_start r' = false.
Proof.
  intros Hs Hne Ht H4 H3 r' os.
  pose proof (run_next_cases post pa r1 Hs Hne) as Hc. fold r' os in Hc.
  destruct (rn_counts _ _ _ _ _ Hc) as (C4 & C3 & C1).
  destruct (rn_wf _ _ _ _ _ Hne Ht Hc) as (Hwf & Hst).
  split; [exact Hwf|]. split; [lia|]. split; [lia|]. split; assumption.
Qed.

Record op_spec (o : op) (r r' : rs) (os : list out) : Prop := mkOpSpec {
  os_wf : wf r';
  os_stop : b2n (r_stopped r') = (b2n (r_stopped r) + cnt 4 os)%nat;
  os_compl : (cnt 3 os <= cnt 4 os)%nat;
  os_played : cnt 1 os = b2n (is_start r && is_fire o);
  os_start : is_start r' = true -> is_start r = true /\ is_fire o = false;
  os_dead : r_stopped r = true ->
            r_stopped r' = true /\ no_light_ops os /\ cnt 0 os = 0%nat /\ r_timer r' = None
}.

Lemma is_start_none r : r_timer r = None -> is_start r = false.
Proof. unfold is_start. intros ->. reflexivity. Qed.

Lemma op_spec_intro o r r' os :
  r_stopped r = false -> wf r' -> b2n (r_stopped r') = cnt 4 os -> (cnt 3 os <= cnt 4 os)%nat ->
  cnt 1 os = b2n (is_start r && is_fire o) -> is_start r' = false -> op_spec o r r' os.
Proof.
  intros Es W S4 C3 C1 St. constructor; auto.
  - rewrite Es. cbn. exact S4.
  - rewrite St. discriminate.
  - rewrite Es. discriminate.
Qed.

Lemma apply_op_spec now o r :
  wf r -> op_spec o r (fst (apply_op now o r)) (snd (apply_op now o r)).
Proof.
  intros Hwf. pose proof Hwf as (Hne & Hst & Htm).
  destruct (r_stopped r) eqn:Es.
  - (* a stopped show ignores everything but update *)
    pose proof (Hst eq_refl) as Hnone.
    assert (Hid : op_spec o r r []).
    { constructor; cbn; rewrite ?Es; auto.
      - rewrite (is_start_none r Hnone). reflexivity.
      - rewrite (is_start_none r Hnone). discriminate. }
    destruct o; unfold apply_op, do_stop, do_update; rewrite ?Es, ?Hnone; cbn [fst snd]; try exact Hid.
    constructor; cbn; rewrite ?Es; auto.
    + unfold wf. cbn. repeat split; auto. intros; discriminate.
    + rewrite (is_start_none r Hnone). reflexivity.
    + unfold is_start. cbn. rewrite Hnone. discriminate.
  - destruct o; unfold apply_op, do_stop, do_update; rewrite ?Es; cbn [fst snd].
    + (* Stop *)
      apply op_spec_intro; auto; cbn; try lia.
      * unfold wf. cbn. repeat split; auto; intros; discriminate.
      * rewrite andb_false_r. reflexivity.
    + (* Pause *)
      apply op_spec_intro; auto; cbn; try lia.
      * unfold wf. cbn. rewrite Es. repeat split; auto; intros; discriminate.
      * rewrite Es. reflexivity.
      * rewrite andb_false_r. reflexivity.
    + (* Resume *)
      destruct (rn_op_spec [OEv 6 0] false (set_nst (set_timer r None) now)) as (W & S4 & C3 & C1 & St);
        [cbn; auto | cbn; auto | cbn; auto | cbn; auto | cbn; auto | ].
      apply op_spec_intro; auto. rewrite C1, andb_false_r. reflexivity.
    + (* Advance *)
      set (r1 := if n =? 1 then set_nst (set_timer r None) now
                 else set_idx (set_nst (set_timer r None) now) (r_idx (set_nst (set_timer r None) now) + n - 1)).
      destruct (rn_op_spec [OEv 7 0] false r1) as (W & S4 & C3 & C1 & St);
        try (unfold r1; destruct (n =? 1); cbn; auto; fail).
      apply op_spec_intro; auto. rewrite C1, andb_false_r. reflexivity.
    + (* StepBack *)
      match goal with |- op_spec _ _ (fst (run_next ?p ?pa ?x)) _ =>
        destruct (rn_op_spec p pa x) as (W & S4 & C3 & C1 & St); [cbn; auto | cbn; auto | cbn; auto | cbn; auto | cbn; auto | ] end.
      apply op_spec_intro; auto. rewrite C1, andb_false_r. reflexivity.
    + (* Update *)
      constructor; cbn; rewrite ?Es; auto; try discriminate; try (rewrite andb_false_r; reflexivity);
        try (unfold wf; cbn; rewrite ?Es; repeat split; auto; discriminate);
        try (unfold is_start; cbn; intros E; split; [exact E|reflexivity]).
    + (* Fire *)
      destruct (r_timer r) as [[d [|]]|] eqn:Et.
      * unfold start_now.
        destruct (rn_op_spec [OEv 1 0] (negb (r_running (set_timer r None))) (set_timer r None))
          as (W & S4 & C3 & C1 & St); [cbn; auto | cbn; auto | cbn; auto | cbn; auto | cbn; auto | ].
        apply op_spec_intro; auto. rewrite C1. unfold is_start. rewrite Et. reflexivity.
      * destruct (rn_op_spec [] false (set_timer r None)) as (W & S4 & C3 & C1 & St); [cbn; auto | cbn; auto | cbn; auto | cbn; auto | cbn; auto | ].
        apply op_spec_intro; auto. rewrite C1. unfold is_start. rewrite Et. reflexivity.
      * cbn [fst snd]. apply op_spec_intro; auto; cbn; try lia.
        -- rewrite Es. reflexivity.
        -- unfold is_start. rewrite Et. reflexivity.
        -- unfold is_start. rewrite Et. reflexivity.
Qed.

(* ------------------------------------------------------------------------------------------ *)
(* every history of requests                                                                   *)
Fixpoint run_hist (r : rs) (h : list (Z * op)) : rs * list out :=
  match h with
  | [] => (r, [])
  | (t, o) :: h' =>
      let r1 := fst (apply_op t o r) in
      let o1 := snd (apply_op t o r) in
      (fst (run_hist r1 h'), o1 ++ snd (run_hist r1 h'))
  end.

Definition hist_inv (r : rs) (acc : list out) : Prop :=
  wf r /\ cnt 4 acc = b2n (r_stopped r) /\ (cnt 3 acc <= cnt 4 acc)%nat /\
  (cnt 1 acc + b2n (is_start r) <= 1)%nat.

Lemma hist_inv_step t o r acc :
  hist_inv r acc -> hist_inv (fst (apply_op t o r)) (acc ++ snd (apply_op t o r)).
Proof.
  intros (W & S4 & C3 & P).
  destruct (apply_op_spec t o r W) as [W' S4' C3' P' St' _].
  unfold hist_inv. rewrite !cnt_app. split; [exact W'|]. split; [lia|]. split; [lia|].
  rewrite P'.
  destruct (is_start (fst (apply_op t o r))) eqn:E.
  - destruct (St' eq_refl) as (E1 & E2). rewrite E1, E2 in *. cbn in *. lia.
  - destruct (is_start r && is_fire o) eqn:E2; cbn.
    + apply andb_true_iff in E2 as [E2 _]. rewrite E2 in P. cbn in P. lia.
    + destruct (is_start r); cbn in *; lia.
Qed.

Lemma hist_inv_run h : forall r acc,
  hist_inv r acc -> hist_inv (fst (run_hist r h)) (acc ++ snd (run_hist r h)).
Proof.
  induction h as [|[t o] h IH]; intros r acc H; cbn [run_hist fst snd].
  - rewrite app_nil_r. exact H.
  - rewrite app_assoc. apply IH. apply hist_inv_step. exact H.
Qed.

Lemma play_inv c now : c_steps c <> [] -> hist_inv (fst (play_rs c now)) (snd (play_rs c now)).
Proof.
  intros Hne. unfold play_rs.
  set (idx := if c_start c >? 0 then c_start c - 1
              else if c_start c <? 0 then c_start c mod Z.of_nat (length (c_steps c)) else 0).
  destruct (c_sync c =? 0).
  - unfold start_now.
    match goal with |- hist_inv (fst (run_next ?p ?pa ?x)) _ =>
      destruct (rn_op_spec p pa x) as (W & S4 & C3 & C1 & St); [cbn; auto | cbn; auto | cbn; auto | cbn; auto | cbn; auto | ] end.
    unfold hist_inv. rewrite St, C1. change (cnt 1 [OEv 1 0]) with 1%nat. change (b2n false) with 0%nat.
    split; [exact W|]. split; [lia|]. split; lia.
  - cbn [fst snd]. unfold hist_inv, wf, is_start. cbn. repeat split; auto; try discriminate.
    intros d b E. inversion E. reflexivity.
Qed.

(* events_once, for every request history *)
Lemma events_once_l c t0 h :
  c_steps c <> [] ->
  let r0 := fst (play_rs c t0) in
  let all := snd (play_rs c t0) ++ snd (run_hist r0 h) in
  let r := fst (run_hist r0 h) in
  (cnt 1 all <= 1)%nat /\ (cnt 4 all <= 1)%nat /\ (cnt 3 all <= cnt 4 all)%nat /\
  cnt 4 all = b2n (r_stopped r).
Proof.
  intros Hne r0 all r.
  destruct (hist_inv_run h r0 _ (play_inv c t0 Hne)) as (W & S4 & C3 & P).
  fold all r in S4, C3, P |- *.
  repeat split; try lia. rewrite S4. destruct (r_stopped r); cbn; lia.
Qed.

(* a stopped show does nothing more, whatever is requested *)
Lemma stopped_is_final_l h : forall r,
  wf r -> r_stopped r = true ->
  let r' := fst (run_hist r h) in
  let os := snd (run_hist r h) in
  r_stopped r' = true /\ r_timer r' = None /\ no_light_ops os /\ cnt 0 os = 0%nat /\
  cnt 1 os = 0%nat /\ cnt 3 os = 0%nat /\ cnt 4 os = 0%nat.
Proof.
  induction h as [|[t o] h IH]; intros r W Hs; cbn [run_hist fst snd].
  - destruct W as (_ & Hn & _). repeat split; auto.
  - destruct (apply_op_spec t o r W) as [W' S4' C3' P' _ D'].
    destruct (D' Hs) as (Hs' & Hl & H0 & Ht).
    destruct (IH _ W' Hs') as (A & B & C & D & E & F & G).
    rewrite Hs, Hs' in S4'. cbn in S4'.
    assert (Hst : is_start r = false).
    { destruct W as (_ & Hn & _). apply is_start_none. auto. }
    rewrite Hst in P'. cbn in P'.
    unfold no_light_ops in *. rewrite forallb_app, !cnt_app.
    repeat split; auto; try lia. rewrite Hl, C. reflexivity.
Qed.

(* ------------------------------------------------------------------------------------------ *)
(* a free-running show: only its own timer acts                                                *)
Definition marker_of (d : Z) (o : out) : list (Z * Z) :=
  match o with OEv c i => if c =? 0 then [(i, d)] else [] | _ => [] end.
Definition markers_at (d : Z) (os : list out) : list (Z * Z) := flat_map (marker_of d) os.

(* (step index, instant) of the steps executed by the next k timer expiries *)
Fixpoint free_steps (k : nat) (r : rs) : list (Z * Z) :=
  match k with
  | O => []
  | S k' =>
      match r_timer r with
      | Some (d, _) =>
          markers_at d (snd (apply_op d Fire r)) ++ free_steps k' (fst (apply_op d Fire r))
      | None => []
      end
  end.

Definition dur_of (steps : list step) (i : Z) : Z := s_dur (nth (Z.to_nat i) steps (mkStep 0 [])).

Fixpoint on_sched (steps : list step) (sp : Z) (t : Z) (l : list (Z * Z)) : Prop :=
  match l with
  | [] => True
  | (i, t') :: l' => t' = t /\ on_sched steps sp (t + ttn (dur_of steps i) sp) l'
  end.

(* consecutive executed steps follow each other cyclically *)
Fixpoint consec (n : Z) (l : list (Z * Z)) : Prop :=
  match l with
  | (i, _) :: (((i', _) :: _) as l') => i' = (i + 1) mod n /\ consec n l'
  | _ => True
  end.

Lemma markers_app d a b : markers_at d (a ++ b) = markers_at d a ++ markers_at d b.
Proof. unfold markers_at. apply flat_map_app. Qed.

Lemma markers_step_outs d st start : markers_at d (step_outs st start) = [].
Proof.
  unfold markers_at, step_outs. induction (s_acts st) as [|a l IH]; cbn; [reflexivity|].
  destruct (snd a =? 0); cbn; exact IH.
Qed.

Lemma free_steps_none k r : r_timer r = None -> free_steps k r = [].
Proof. destruct k; cbn; [reflexivity|]. intros ->. reflexivity. Qed.

Definition no_markers (post : list out) : Prop := forall d, markers_at d post = [].

(* one _run_next_step of a free-running show, followed by whatever its timers do next *)
Lemma rn_on_sched post pa r1 k :
  r_stopped r1 = false -> r_steps r1 <> [] -> r_timer r1 = None -> no_markers post ->
  (forall r', wf r' -> r_steps r' = r_steps r1 -> r_speed4 r' = r_speed4 r1 ->
              on_sched (r_steps r1) (r_speed4 r1) (r_nst r') (free_steps k r')) ->
  on_sched (r_steps r1) (r_speed4 r1) (r_nst r1)
           (markers_at (r_nst r1) (snd (run_next post pa r1)) ++ free_steps k (fst (run_next post pa r1))).
Proof.
  intros Hs Hne Ht Hpost IH.
  pose proof (run_next_cases post pa r1 Hs Hne) as Hc.
  destruct (rn_wf _ _ _ _ _ Hne Ht Hc) as (W' & _).
  destruct Hc as [Hst Htm Hsteps Hos | i lp Hst Hos Hlp Hi Hidef Hidx Hsteps Hsp _ _ Hsch].
  - rewrite Hos, (free_steps_none _ _ Htm).
    change (OClear :: OEv 4 0 :: post ++ [OEv 3 0]) with ([OClear; OEv 4 0] ++ post ++ [OEv 3 0]).
    rewrite !markers_app, Hpost. cbn. exact I.
  - rewrite Hos, !markers_app, markers_step_outs, Hpost.
    assert (Hlp0 : markers_at (r_nst r1) lp = []) by (destruct Hlp; subst lp; reflexivity).
    rewrite Hlp0. cbn. split; [reflexivity|].
    destruct Hsch as [(Htm & Hn & _) | (Htm & Hn & _)].
    + rewrite Ht in Htm. rewrite (free_steps_none _ _ Htm). exact I.
    + unfold step_time, nth_step in Hn. unfold dur_of. rewrite <- Hn. apply IH; assumption.
Qed.

Lemma free_on_sched k : forall r,
  wf r -> on_sched (r_steps r) (r_speed4 r) (r_nst r) (free_steps k r).
Proof.
  induction k as [|k IH]; intros r W; cbn [free_steps]; [exact I|].
  destruct (r_timer r) as [[d b]|] eqn:Et; [|exact I].
  pose proof W as (Hne & Hst & Htm).
  assert (Hd : d = r_nst r) by (eapply Htm; eassumption). subst d.
  assert (Hs : r_stopped r = false).
  { destruct (r_stopped r) eqn:E; [|reflexivity]. rewrite (Hst eq_refl) in Et. discriminate. }
  unfold apply_op. rewrite Et.
  assert (IH' : forall r', wf r' -> r_steps r' = r_steps (set_timer r None) ->
                           r_speed4 r' = r_speed4 (set_timer r None) ->
                           on_sched (r_steps (set_timer r None)) (r_speed4 (set_timer r None)) (r_nst r')
                                    (free_steps k r')).
  { intros r' W' E1 E2. rewrite <- E1, <- E2. apply IH. exact W'. }
  destruct b.
  - unfold start_now.
    apply (rn_on_sched [OEv 1 0] (negb (r_running (set_timer r None))) (set_timer r None) k); auto.
    intros d. reflexivity.
  - apply (rn_on_sched [] false (set_timer r None) k); auto.
    intros d. reflexivity.
Qed.

(* the steps a show executes from play() on, with no request but its own timers *)
Definition start_time (c : cfg) (t0 : Z) : Z :=
  if c_sync c =? 0 then t0 else t0 + c_sync c - t0 mod c_sync c.
Definition executed (c : cfg) (t0 : Z) (k : nat) : list (Z * Z) :=
  markers_at t0 (snd (play_rs c t0)) ++ free_steps k (fst (play_rs c t0)).

Lemma executed_on_sched c t0 k :
  c_steps c <> [] ->
  on_sched (c_steps c) (c_speed4 c) (start_time c t0) (executed c t0 k).
Proof.
  intros Hne. unfold executed, start_time, play_rs.
  set (idx := if c_start c >? 0 then c_start c - 1
              else if c_start c <? 0 then c_start c mod Z.of_nat (length (c_steps c)) else 0).
  destruct (c_sync c =? 0).
  - unfold start_now.
    match goal with |- on_sched _ _ _ (markers_at _ (snd (run_next ?p ?pa ?x)) ++ _) =>
      apply (rn_on_sched p pa x k); auto end.
    + intros d. reflexivity.
    + intros r' W' E1 E2. cbn [r_steps r_speed4] in *. rewrite <- E1, <- E2. apply free_on_sched. exact W'.
  - cbn [fst snd markers_at flat_map app].
    match goal with |- on_sched _ _ ?t (free_steps k ?r) =>
      change (on_sched (r_steps r) (r_speed4 r) (r_nst r) (free_steps k r)) end.
    apply free_on_sched. unfold wf. cbn. repeat split; auto; try discriminate.
    intros d b E. inversion E. reflexivity.
Qed.

(* closed form: the j-th executed step happens at start + sum of the preceding steps' duration/speed *)
Definition sum_before (steps : list step) (sp : Z) (l : list (Z * Z)) (j : nat) : Z :=
  sumZ (map (fun p => ttn (dur_of steps (fst p)) sp) (firstn j l)).
Definition dur_before (steps : list step) (l : list (Z * Z)) (j : nat) : Z :=
  sumZ (map (fun p => dur_of steps (fst p)) (firstn j l)).

Lemma on_sched_nth steps sp : forall l t j i tj,
  on_sched steps sp t l -> nth_error l j = Some (i, tj) -> tj = t + sum_before steps sp l j.
Proof.
  induction l as [|[i0 t0] l IH]; intros t j i tj H E.
  - destruct j; discriminate.
  - destruct H as (H1 & H2). destruct j as [|j]; cbn in E.
    + inversion E; subst. unfold sum_before. cbn. lia.
    + rewrite (IH _ _ _ _ H2 E). unfold sum_before. cbn [firstn map sumZ fold_right fst].
      fold (sumZ (map (fun p => ttn (dur_of steps (fst p)) sp) (firstn j l))). lia.
Qed.

Lemma ttn_exact d sp : 0 < sp -> (sp | 4 * d) -> sp * ttn d sp = 4 * d.
Proof.
  intros Hsp [q Hq]. unfold ttn. replace (d * 4) with (q * sp) by lia.
  rewrite Z.div_mul by lia. lia.
Qed.

Lemma sumZ_scale {A} (f g : A -> Z) (a b : Z) (l : list A) :
  (forall x, a * f x = b * g x) -> a * sumZ (map f l) = b * sumZ (map g l).
Proof.
  intros H. induction l as [|x l IH]; cbn; [lia|].
  unfold sumZ in IH. rewrite !Z.mul_add_distr_l, H, IH. reflexivity.
Qed.

Lemma sum_before_exact steps sp l : 0 < sp ->
  (forall i, (sp | 4 * dur_of steps i)) ->
  forall j, sp * sum_before steps sp l j = 4 * dur_before steps l j.
Proof.
  intros Hsp Hdiv j. unfold sum_before, dur_before.
  apply sumZ_scale. intros p. apply ttn_exact; auto.
Qed.

Lemma step_time_exact_l c t0 k j i tj :
  c_steps c <> [] ->
  nth_error (executed c t0 k) j = Some (i, tj) ->
  tj = start_time c t0 + sum_before (c_steps c) (c_speed4 c) (executed c t0 k) j.
Proof.
  intros Hne E. eapply on_sched_nth; [apply executed_on_sched; exact Hne|exact E].
Qed.

Lemma no_drift_l c t0 k j i tj :
  c_steps c <> [] -> 0 < c_speed4 c ->
  (forall m, (c_speed4 c | 4 * dur_of (c_steps c) m)) ->
  nth_error (executed c t0 k) j = Some (i, tj) ->
  c_speed4 c * (tj - start_time c t0) = 4 * dur_before (c_steps c) (executed c t0 k) j.
Proof.
  intros Hne Hsp Hdiv E.
  rewrite (step_time_exact_l c t0 k j i tj Hne E).
  rewrite <- (sum_before_exact _ _ (executed c t0 k) Hsp Hdiv j). lia.
Qed.

(* ------------------------------------------------------------------------------------------ *)
(* light stacks: ownership                                                                     *)
Definition proj (sid : Z) (s : stack) : stack := filter (fun e => fst e =? sid) s.
Definition others (sid : Z) (ls : lights) : list stack := map (proj sid) ls.
Definition clean (sid : Z) (ls : lights) : Prop := Forall (fun s => proj sid s = []) ls.

Lemma proj_rem_same sid s : proj sid (rem_key sid s) = [].
Proof.
  unfold proj, rem_key. induction s as [|e s IH]; cbn; [reflexivity|].
  destruct (fst e =? sid) eqn:E; cbn; [exact IH|]. rewrite E. exact IH.
Qed.

Lemma proj_rem_other sid sid' s : sid' <> sid -> proj sid' (rem_key sid s) = proj sid' s.
Proof.
  intros Hd. unfold proj, rem_key. induction s as [|e s IH]; cbn; [reflexivity|].
  destruct (fst e =? sid) eqn:E; cbn.
  - apply Z.eqb_eq in E. destruct (fst e =? sid') eqn:E'; [apply Z.eqb_eq in E'; congruence|exact IH].
  - destruct (fst e =? sid'); [f_equal|]; exact IH.
Qed.

Lemma proj_ins_other sid sid' c s : sid' <> sid -> proj sid' (ins_key sid c s) = proj sid' s.
Proof.
  intros Hd. unfold proj. induction s as [|e s IH]; cbn.
  - destruct (sid =? sid') eqn:E; [apply Z.eqb_eq in E; congruence|reflexivity].
  - destruct (sid <? fst e); cbn.
    + destruct (sid =? sid') eqn:E; [apply Z.eqb_eq in E; congruence|reflexivity].
    + destruct (fst e =? sid'); [f_equal|]; exact IH.
Qed.

Lemma proj_set_other sid sid' c s : sid' <> sid -> proj sid' (set_key sid c s) = proj sid' s.
Proof. intros Hd. unfold set_key. rewrite proj_ins_other, proj_rem_other; auto. Qed.

Lemma map_upd_nth_inv {A B} (g : A -> B) (f : A -> A) : (forall x, g (f x) = g x) ->
  forall n l, map g (upd_nth n f l) = map g l.
Proof.
  intros H n. induction n as [|n IH]; intros [|x l]; cbn; try reflexivity.
  - rewrite H. reflexivity.
  - rewrite IH. reflexivity.
Qed.

Lemma apply_out_frame sid sid' now ls o :
  sid' <> sid -> others sid' (fst (apply_out sid now ls o)) = others sid' ls.
Proof.
  intros Hd. unfold others. destruct o; cbn [apply_out fst].
  - reflexivity.
  - apply map_upd_nth_inv. intros s. apply proj_set_other. exact Hd.
  - apply map_upd_nth_inv. intros s. apply proj_rem_other. exact Hd.
  - rewrite map_map. apply map_ext. intros s. apply proj_rem_other. exact Hd.
Qed.

Lemma apply_outs_fst sid now os : forall ls,
  fst (apply_outs sid now ls os) =
  fold_left (fun l o => fst (apply_out sid now l o)) os ls.
Proof.
  induction os as [|o os IH]; intros ls; cbn [apply_outs fold_left]; [reflexivity|].
  destruct (apply_out sid now ls o) as [ls1 r1] eqn:E1.
  specialize (IH ls1). destruct (apply_outs sid now ls1 os) as [ls2 r2]. cbn [fst] in *. exact IH.
Qed.

Lemma apply_outs_frame sid sid' now os : sid' <> sid -> forall ls,
  others sid' (fst (apply_outs sid now ls os)) = others sid' ls.
Proof.
  intros Hd ls. rewrite apply_outs_fst. revert ls.
  induction os as [|o os IH]; intros ls; cbn [fold_left]; [reflexivity|].
  rewrite IH. apply apply_out_frame. exact Hd.
Qed.

Lemma apply_outs_evs sid now os : forallb is_ev os = true -> forall ls,
  fst (apply_outs sid now ls os) = ls.
Proof.
  intros H ls. rewrite apply_outs_fst. revert ls H.
  induction os as [|o os IH]; intros ls H; cbn [fold_left]; [reflexivity|].
  cbn in H. apply andb_true_iff in H as [H1 H2]. destruct o; try discriminate. cbn [apply_out fst].
  apply IH. exact H2.
Qed.

Lemma apply_outs_clear sid now evs ls : forallb is_ev evs = true ->
  clean sid (fst (apply_outs sid now ls (OClear :: evs))).
Proof.
  intros H. rewrite apply_outs_fst. cbn [fold_left apply_out fst].
  rewrite <- apply_outs_fst, apply_outs_evs by exact H.
  unfold clean. apply Forall_forall. intros s Hin. apply in_map_iff in Hin as (s0 & <- & _).
  apply proj_rem_same.
Qed.

Lemma clean_others sid ls ls' : others sid ls' = others sid ls -> clean sid ls -> clean sid ls'.
Proof.
  unfold others, clean. revert ls'. induction ls as [|s ls IH]; intros [|s' ls'] E H; cbn in E; try discriminate.
  - constructor.
  - inversion E. inversion H; subst. constructor; [congruence|]. apply IH; assumption.
Qed.

(* when a request stops a show, the first thing it does is clear its context; only events follow *)
Lemma apply_op_stops now o r :
  r_steps r <> [] -> r_stopped r = false -> r_stopped (fst (apply_op now o r)) = true ->
  exists evs, snd (apply_op now o r) = OClear :: evs /\ forallb is_ev evs = true.
Proof.
  intros Hne Hs.
  assert (Hrn : forall post pa r1, r_stopped r1 = false -> r_steps r1 <> [] -> forallb is_ev post = true ->
            r_stopped (fst (run_next post pa r1)) = true ->
            exists evs, snd (run_next post pa r1) = OClear :: evs /\ forallb is_ev evs = true).
  { intros post pa r1 H1 H2 Hp H3.
    destruct (run_next_cases post pa r1 H1 H2) as [_ _ _ Hos | i lp Hst _ _ _ _ _ _ _ _ _ _]; [|congruence].
    eexists. split; [exact Hos|]. cbn. rewrite forallb_app, Hp. reflexivity. }
  destruct o; unfold apply_op, do_stop, do_update; rewrite ?Hs; cbn [fst snd].
  - intros _. eexists. split; reflexivity.
  - cbn. congruence.
  - apply Hrn; cbn; auto.
  - apply Hrn; destruct (n =? 1); cbn; auto.
  - apply Hrn; cbn; auto.
  - cbn. congruence.
  - destruct (r_timer r) as [[d [|]]|]; cbn [fst snd]; try congruence.
    + unfold start_now. apply Hrn; cbn; auto.
    + apply Hrn; cbn; auto.
Qed.

Lemma play_stops c now :
  c_steps c <> [] -> r_stopped (fst (play_rs c now)) = true ->
  exists evs, snd (play_rs c now) = OClear :: evs /\ forallb is_ev evs = true.
Proof.
  intros Hne. unfold play_rs.
  destruct (c_sync c =? 0); [|cbn; congruence].
  unfold start_now. intros H3.
  match type of H3 with r_stopped (fst (run_next ?p ?pa ?x)) = true =>
    destruct (run_next_cases p pa x) as [_ _ _ Hos | i lp Hst _ _ _ _ _ _ _ _ _ _];
      [reflexivity | exact Hne | | congruence] end.
  eexists. split; [exact Hos|]. reflexivity.
Qed.

(* ------------------------------------------------------------------------------------------ *)
(* several shows on shared lights                                                              *)
Lemma nth_upd_same {A} (f : A -> A) d : forall n l, (n < length l)%nat ->
  nth n (upd_nth n f l) d = f (nth n l d).
Proof.
  induction n as [|n IH]; intros [|x l] H; cbn in *; try lia; [reflexivity|]. apply IH. lia.
Qed.

Lemma nth_upd_other {A} (f : A -> A) d : forall n m l, n <> m ->
  nth m (upd_nth n f l) d = nth m l d.
Proof.
  induction n as [|n IH]; intros [|m] [|x l] H; cbn; try reflexivity; try congruence.
  apply IH. congruence.
Qed.

Definition show_inv (w : world) (sid : Z) : Prop :=
  match get_show w sid with
  | Some r => wf r /\ (r_stopped r = true -> clean sid (w_lights w))
  | None => clean sid (w_lights w)
  end.
Definition world_inv (w : world) : Prop := forall sid, 0 <= sid -> show_inv w sid.

Lemma world_op_eq now sid o w r :
  get_show w sid = Some r ->
  world_op now sid o w =
  mkW (upd_nth (Z.to_nat sid) (fun _ => Some (fst (apply_op now o r))) (w_shows w))
      (fst (apply_outs sid now (w_lights w) (snd (apply_op now o r))))
      (w_trace w ++ snd (apply_outs sid now (w_lights w) (snd (apply_op now o r)))).
Proof.
  intros E. unfold world_op. rewrite E.
  destruct (apply_op now o r) as [r' os]. cbn [fst snd].
  destruct (apply_outs sid now (w_lights w) os) as [ls rows]. reflexivity.
Qed.

Lemma world_play_eq now sid c w :
  world_play now sid c w =
  mkW (upd_nth (Z.to_nat sid) (fun _ => Some (fst (play_rs c now))) (w_shows w))
      (fst (apply_outs sid now (w_lights w) (snd (play_rs c now))))
      (w_trace w ++ snd (apply_outs sid now (w_lights w) (snd (play_rs c now)))).
Proof.
  unfold world_play. destruct (play_rs c now) as [r' os]. cbn [fst snd].
  destruct (apply_outs sid now (w_lights w) os) as [ls rows]. reflexivity.
Qed.

(* frame: a request for one show leaves every other show's entries exactly as they were *)
Lemma world_op_frame now sid o w sid' :
  sid' <> sid -> others sid' (w_lights (world_op now sid o w)) = others sid' (w_lights w).
Proof.
  intros Hd. destruct (get_show w sid) as [r|] eqn:E.
  - rewrite (world_op_eq _ _ _ _ _ E). cbn [w_lights]. apply apply_outs_frame. exact Hd.
  - unfold world_op. rewrite E. reflexivity.
Qed.

Lemma world_play_frame now sid c w sid' :
  sid' <> sid -> others sid' (w_lights (world_play now sid c w)) = others sid' (w_lights w).
Proof. intros Hd. rewrite world_play_eq. cbn [w_lights]. apply apply_outs_frame. exact Hd. Qed.

Lemma get_show_some_lt w sid r : get_show w sid = Some r -> (Z.to_nat sid < length (w_shows w))%nat.
Proof.
  unfold get_show. intros E. destruct (Nat.lt_ge_cases (Z.to_nat sid) (length (w_shows w))); [assumption|].
  rewrite nth_overflow in E by assumption. discriminate.
Qed.

Lemma update_show_inv (w : world) sid (r' : rs) (os : list out) now :
  world_inv w -> 0 <= sid -> (Z.to_nat sid < length (w_shows w))%nat ->
  wf r' ->
  (r_stopped r' = true ->
     (forallb is_ev os = true /\ clean sid (w_lights w)) \/
     (exists evs, os = OClear :: evs /\ forallb is_ev evs = true)) ->
  world_inv (mkW (upd_nth (Z.to_nat sid) (fun _ => Some r') (w_shows w))
                 (fst (apply_outs sid now (w_lights w) os))
                 (w_trace w ++ snd (apply_outs sid now (w_lights w) os))).
Proof.
  intros Hinv Hsid Hlt W' Hstop sid' Hsid'. unfold show_inv, get_show. cbn [w_shows w_lights].
  destruct (Z.eq_dec sid' sid) as [->|Hd].
  - rewrite nth_upd_same by exact Hlt. split; [exact W'|].
    intros Hs. destruct (Hstop Hs) as [(Hev & Hc) | (evs & -> & Hev)].
    + rewrite apply_outs_evs by exact Hev. exact Hc.
    + apply apply_outs_clear. exact Hev.
  - rewrite nth_upd_other by (intros E; apply Hd; apply Z2Nat.inj in E; lia).
    specialize (Hinv sid' Hsid'). unfold show_inv, get_show in Hinv.
    assert (Hfr : others sid' (fst (apply_outs sid now (w_lights w) os)) = others sid' (w_lights w))
      by (apply apply_outs_frame; exact Hd).
    destruct (nth (Z.to_nat sid') (w_shows w) None) as [r0|].
    + destruct Hinv as (W0 & C0). split; [exact W0|]. intros Hs. eapply clean_others; [exact Hfr|auto].
    + eapply clean_others; [exact Hfr|exact Hinv].
Qed.

Lemma world_op_inv now sid o w : world_inv w -> 0 <= sid -> world_inv (world_op now sid o w).
Proof.
  intros Hinv Hsid. destruct (get_show w sid) as [r|] eqn:E.
  - rewrite (world_op_eq _ _ _ _ _ E).
    pose proof (Hinv sid Hsid) as Hs. unfold show_inv in Hs. rewrite E in Hs. destruct Hs as (W & Hc).
    destruct (apply_op_spec now o r W) as [W' _ _ _ _ D'].
    apply update_show_inv; auto.
    + eapply get_show_some_lt; eassumption.
    + intros Hs'. destruct (r_stopped r) eqn:Es.
      * left. destruct (D' eq_refl) as (_ & Hl & _). split; [exact Hl|auto].
      * right. apply apply_op_stops; auto. apply W.
  - unfold world_op. rewrite E. exact Hinv.
Qed.

Lemma world_play_inv now sid c w :
  world_inv w -> 0 <= sid -> (Z.to_nat sid < length (w_shows w))%nat -> get_show w sid = None ->
  c_steps c <> [] -> world_inv (world_play now sid c w).
Proof.
  intros Hinv Hsid Hlt E Hne. rewrite world_play_eq.
  destruct (play_inv c now Hne) as (W' & _).
  apply update_show_inv; auto.
  intros Hs'. right. apply play_stops; auto.
Qed.

(* histories of the world: shows are played into free slots, any request (timer expiries included) may follow *)
Inductive reach : world -> Prop :=
| R0 (n m : nat) : reach (mkW (repeat None n) (repeat [] m) [])
| RPlay w now sid c : reach w -> 0 <= sid -> (Z.to_nat sid < length (w_shows w))%nat ->
                      get_show w sid = None -> c_steps c <> [] -> reach (world_play now sid c w)
| ROp w now sid o : reach w -> 0 <= sid -> reach (world_op now sid o w).

Lemma reach_inv w : reach w -> world_inv w.
Proof.
  induction 1 as [n m | w now sid c _ IH Hsid Hlt E Hne | w now sid o _ IH Hsid].
  - intros sid Hsid. unfold show_inv, get_show. cbn [w_shows w_lights].
    assert (Hn : nth (Z.to_nat sid) (repeat (@None rs) n) None = None).
    { generalize (Z.to_nat sid). induction n as [|n IHn]; intros [|k]; cbn; auto. }
    rewrite Hn. unfold clean. apply Forall_forall. intros s Hin. apply repeat_spec in Hin. subst s. reflexivity.
  - apply world_play_inv; assumption.
  - apply world_op_inv; assumption.
Qed.

Lemma stop_clears_context_l w sid r :
  reach w -> 0 <= sid -> get_show w sid = Some r -> r_stopped r = true -> clean sid (w_lights w).
Proof.
  intros Hr Hsid E Hs. pose proof (reach_inv w Hr sid Hsid) as H. unfold show_inv in H. rewrite E in H.
  apply H. exact Hs.
Qed.

Lemma stop_request_clears_l w now sid r :
  reach w -> 0 <= sid -> get_show w sid = Some r -> clean sid (w_lights (world_op now sid Stop w)).
Proof.
  intros Hr Hsid E.
  assert (Hr' : reach (world_op now sid Stop w)) by (constructor; assumption).
  pose proof (get_show_some_lt _ _ _ E) as Hlt.
  eapply stop_clears_context_l with (r := fst (apply_op now Stop r)); [exact Hr'|exact Hsid| |].
  - rewrite (world_op_eq _ _ _ _ _ E). unfold get_show. cbn [w_shows]. rewrite nth_upd_same by exact Hlt. reflexivity.
  - cbn. unfold do_stop. destruct (r_stopped r) eqn:Es; cbn; auto.
Qed.

Lemma all_stopped_all_dark_l w :
  reach w ->
  (forall sid r, 0 <= sid -> get_show w sid = Some r -> r_stopped r = true) ->
  forall sid, 0 <= sid -> clean sid (w_lights w).
Proof.
  intros Hr Hall sid Hsid. pose proof (reach_inv w Hr sid Hsid) as H. unfold show_inv in H.
  destruct (get_show w sid) as [r|] eqn:E; [|exact H]. apply H. eapply Hall; eauto.
Qed.

(* ------------------------------------------------------------------------------------------ *)
(* control requests                                                                            *)
Definition norm_idx (r : rs) (j : Z) : Z :=
  let i0 := if j <? 0 then j mod total r else j in if i0 >=? total r then 0 else i0.

Definition target (o : op) (r : rs) : Z :=
  match o with
  | Advance n => if n =? 1 then r_idx r else r_idx r + n - 1
  | StepBack n => r_idx r - (n + 1)
  | _ => r_idx r
  end.

Definition is_control (o : op) : bool :=
  match o with Resume | Advance _ | StepBack _ => true | _ => false end.

Definition set_starts_at (now : Z) (o : out) : Prop :=
  match o with OSet _ _ st => st = now | _ => True end.

Lemma step_outs_start st now : Forall (set_starts_at now) (step_outs st now).
Proof.
  unfold step_outs. apply Forall_forall. intros o Hin. apply in_map_iff in Hin as (a & <- & _).
  destruct (snd a =? 0); cbn; auto.
Qed.

(* resume / advance / step_back on a live show: the pending timer is dropped, the step
   norm_idx(target) runs NOW (its light effects carry start_time = now) and the next deadline is
   now + duration/speed of that step; or the show completes *)
Lemma control_reanchors_l now o r :
  is_control o = true -> r_stopped r = false -> r_steps r <> [] ->
  let r' := fst (apply_op now o r) in
  let os := snd (apply_op now o r) in
  Forall (set_starts_at now) os /\
  ((r_stopped r' = true /\ r_timer r' = None) \/
   (r_stopped r' = false /\
    let i := norm_idx r (target o r) in
    In (OEv 0 i) os /\ r_idx r' = i + 1 /\
    (r_timer r' = None \/
     (r_timer r' = Some (now + step_time r i, false) /\ r_nst r' = now + step_time r i /\ 0 < step_time r i)))).
Proof.
  intros Hc Hs Hne.
  assert (Hrn : forall post r1, r_stopped r1 = false -> r_steps r1 = r_steps r -> r_speed4 r1 = r_speed4 r ->
            r_timer r1 = None -> r_nst r1 = now -> Forall (set_starts_at now) post ->
            let r' := fst (run_next post false r1) in
            let os := snd (run_next post false r1) in
            Forall (set_starts_at now) os /\
            ((r_stopped r' = true /\ r_timer r' = None) \/
             (r_stopped r' = false /\
              let i := norm_idx r (r_idx r1) in
              In (OEv 0 i) os /\ r_idx r' = i + 1 /\
              (r_timer r' = None \/
               (r_timer r' = Some (now + step_time r i, false) /\ r_nst r' = now + step_time r i /\
                0 < step_time r i))))).
  { intros post r1 H1 H2 H2' H3 H4 Hp r' os.
    assert (Hne1 : r_steps r1 <> []) by (rewrite H2; exact Hne).
    subst r' os.
    destruct (run_next_cases post false r1 H1 Hne1) as [Hst Htm _ Hos | i lp Hst Hos Hlp Hi Hidef Hidx _ _ _ _ Hsch].
    - split.
      + rewrite Hos. repeat constructor. apply Forall_app. split; [exact Hp|repeat constructor].
      + left. split; assumption.
    - assert (Hieq : i = norm_idx r (r_idx r1)).
      { rewrite Hidef. unfold norm_idx, total. rewrite H2. reflexivity. }
      assert (Hste : step_time r1 i = step_time r i).
      { unfold step_time, nth_step. rewrite H2, H2'. reflexivity. }
      split.
      + rewrite Hos, H4. apply Forall_app. split; [apply step_outs_start|].
        constructor; [exact I|]. apply Forall_app. split; [exact Hp|].
        destruct Hlp; subst lp; repeat constructor.
      + right. split; [exact Hst|]. cbv zeta. rewrite <- Hieq. split.
        * rewrite Hos. apply in_or_app. right. left. reflexivity.
        * split; [exact Hidx|].
          destruct Hsch as [(Htm & _) | (Htm & Hn & Hpos & _)].
          -- left. rewrite Htm. exact H3.
          -- right. rewrite <- Hste, <- H4. repeat split; assumption. }
  destruct o; try discriminate; unfold apply_op; rewrite Hs.
  - apply (Hrn [OEv 6 0] (set_nst (set_timer r None) now)); cbn; auto. repeat constructor.
  - unfold target. destruct (n =? 1).
    + apply (Hrn [OEv 7 0] (set_nst (set_timer r None) now)); cbn; auto. repeat constructor.
    + apply (Hrn [OEv 7 0] (set_idx (set_nst (set_timer r None) now) (r_idx (set_nst (set_timer r None) now) + n - 1)));
        cbn; auto. repeat constructor.
  - apply (Hrn [OEv 8 0] (set_idx (set_nst (set_timer r None) now) (r_idx (set_nst (set_timer r None) now) - (n + 1))));
      cbn; auto. repeat constructor.
Qed.

(* pause: the timer is dropped, nothing else changes, and nothing runs until the next request *)
Lemma pause_holds_l now r k :
  r_stopped r = false ->
  apply_op now Pause r = (set_timer r None, [OEv 5 0]) /\ free_steps k (set_timer r None) = [].
Proof.
  intros Hs. unfold apply_op. rewrite Hs. split; [reflexivity|]. apply free_steps_none. reflexivity.
Qed.

(* ------------------------------------------------------------------------------------------ *)
(* the full "played exactly once when the show runs" is false of the code: recorded finding     *)
Definition wit_cfg : cfg :=
  mkCfg [mkStep 500000 [(0, 1)]] 4 (-1) 1 500000 false true.
Definition wit_hist : list (Z * op) := [(250000, Pause); (375000, Resume)].

Lemma played_once_refuted_l :
  exists c t0 h,
    c_steps c <> [] /\
    let all := snd (play_rs c t0) ++ snd (run_hist (fst (play_rs c t0)) h) in
    (1 <= cnt 0 all)%nat /\ cnt 1 all = 0%nat.
Proof.
  exists wit_cfg, 125000, wit_hist. split; [discriminate|]. vm_compute. split; [lia|reflexivity].
Qed.

(* ------------------------------------------------------------------------------------------ *)
(* order of the steps of a free-running show                                                    *)
Fixpoint consec_from (n i : Z) (l : list (Z * Z)) : Prop :=
  match l with
  | [] => True
  | (i', _) :: l' => i' = (i + 1) mod n /\ consec_from n i' l'
  end.
Definition consec_steps (n : Z) (l : list (Z * Z)) : Prop :=
  match l with [] => True | (i, _) :: l' => 0 <= i < n /\ consec_from n i l' end.

Lemma rn_markers post pa r1 k d :
  r_stopped r1 = false -> r_steps r1 <> [] -> r_timer r1 = None -> no_markers post ->
  (markers_at d (snd (run_next post pa r1)) ++ free_steps k (fst (run_next post pa r1)) = []) \/
  (exists i, let r' := fst (run_next post pa r1) in
     markers_at d (snd (run_next post pa r1)) ++ free_steps k r' = (i, d) :: free_steps k r' /\
     i = norm_idx r1 (r_idx r1) /\ 0 <= i < total r1 /\ r_idx r' = i + 1 /\ wf r' /\ is_start r' = false /\
     r_steps r' = r_steps r1).
Proof.
  intros Hs Hne Ht Hpost.
  pose proof (run_next_cases post pa r1 Hs Hne) as Hc.
  destruct (rn_wf _ _ _ _ _ Hne Ht Hc) as (W' & St').
  destruct Hc as [Hst Htm Hsteps Hos | i lp Hst Hos Hlp Hi Hidef Hidx Hsteps _ _ _ Hsch].
  - left. rewrite Hos, (free_steps_none _ _ Htm).
    change (OClear :: OEv 4 0 :: post ++ [OEv 3 0]) with ([OClear; OEv 4 0] ++ post ++ [OEv 3 0]).
    rewrite !markers_app, Hpost. reflexivity.
  - right. exists i. cbv zeta. rewrite Hos, !markers_app, markers_step_outs, Hpost.
    assert (Hlp0 : markers_at d lp = []) by (destruct Hlp; subst lp; reflexivity).
    rewrite Hlp0. repeat split; auto; try apply Hi; try apply W'.
Qed.

Lemma norm_next n i : 0 <= i < n ->
  (let i0 := if i + 1 <? 0 then (i + 1) mod n else i + 1 in if i0 >=? n then 0 else i0) = (i + 1) mod n.
Proof.
  intros H. cbv zeta. destruct (i + 1 <? 0) eqn:E; [apply Z.ltb_lt in E; lia|].
  destruct (i + 1 >=? n) eqn:E2; rewrite Z.geb_leb in E2.
  - apply Z.leb_le in E2. assert (i + 1 = n) by lia. rewrite H0. symmetry. apply Z_mod_same_full.
  - apply Z.leb_gt in E2. symmetry. apply Z.mod_small. lia.
Qed.

Lemma free_consec_from k : forall r i,
  wf r -> r_idx r = i + 1 -> 0 <= i < total r -> is_start r = false ->
  consec_from (total r) i (free_steps k r).
Proof.
  induction k as [|k IH]; intros r i W Hidx Hi Hst; cbn [free_steps]; [exact I|].
  destruct (r_timer r) as [[d b]|] eqn:Et; [|exact I].
  assert (b = false) by (unfold is_start in Hst; rewrite Et in Hst; destruct b; [discriminate|reflexivity]). subst b.
  pose proof W as (Hne & Hstp & Htm).
  assert (Hs : r_stopped r = false).
  { destruct (r_stopped r) eqn:E; [|reflexivity]. rewrite (Hstp eq_refl) in Et. discriminate. }
  unfold apply_op. rewrite Et.
  destruct (rn_markers [] false (set_timer r None) k d) as [E | (i' & E & Hi' & Hr' & Hidx' & W' & St' & Hsteps')];
    cbn; auto.
  - intros ?. reflexivity.
  - rewrite E. exact I.
  - cbv zeta in E. rewrite E. cbn [consec_from]. split.
    + rewrite Hi'. unfold norm_idx, total. cbn [r_idx r_steps set_timer]. rewrite Hidx.
      apply (norm_next (Z.of_nat (length (r_steps r))) i). exact Hi.
    + assert (Ht : total (fst (run_next [] false (set_timer r None))) = total r)
        by (unfold total; rewrite Hsteps'; reflexivity).
      rewrite <- Ht. apply IH; auto. rewrite Ht. exact Hr'.
Qed.

Lemma free_consec k r : wf r -> consec_steps (total r) (free_steps k r).
Proof.
  intros W. destruct k as [|k]; cbn [free_steps]; [exact I|].
  destruct (r_timer r) as [[d b]|] eqn:Et; [|exact I].
  pose proof W as (Hne & Hstp & Htm).
  assert (Hs : r_stopped r = false).
  { destruct (r_stopped r) eqn:E; [|reflexivity]. rewrite (Hstp eq_refl) in Et. discriminate. }
  unfold apply_op. rewrite Et.
  assert (G : forall post pa, no_markers post ->
            consec_steps (total r) (markers_at d (snd (run_next post pa (set_timer r None))) ++
                                    free_steps k (fst (run_next post pa (set_timer r None))))).
  { intros post pa Hp.
    destruct (rn_markers post pa (set_timer r None) k d) as [E | (i' & E & Hi' & Hr' & Hidx' & W' & St' & Hsteps')];
      cbn; auto.
    - rewrite E. exact I.
    - cbv zeta in E. rewrite E. cbn [consec_steps]. split; [exact Hr'|].
      assert (Ht : total (fst (run_next post pa (set_timer r None))) = total r)
        by (unfold total; rewrite Hsteps'; reflexivity).
      rewrite <- Ht. apply free_consec_from; auto. rewrite Ht. exact Hr'. }
  destruct b; [unfold start_now|]; apply G; intros ?; reflexivity.
Qed.

Lemma step_order_l c t0 k :
  c_steps c <> [] -> consec_steps (Z.of_nat (length (c_steps c))) (executed c t0 k).
Proof.
  intros Hne. unfold executed, play_rs.
  set (idx := if c_start c >? 0 then c_start c - 1
              else if c_start c <? 0 then c_start c mod Z.of_nat (length (c_steps c)) else 0).
  destruct (c_sync c =? 0).
  - unfold start_now.
    match goal with |- consec_steps _ (markers_at _ (snd (run_next ?p ?pa ?x)) ++ _) =>
      destruct (rn_markers p pa x k t0) as [E | (i' & E & Hi' & Hr' & Hidx' & W' & St' & Hsteps')];
        [reflexivity | exact Hne | reflexivity | intros ?; reflexivity | | ] end.
    + rewrite E. exact I.
    + cbv zeta in E. rewrite E. cbn [consec_steps]. split; [exact Hr'|].
      match goal with |- consec_from _ _ (free_steps k ?r') =>
        assert (Ht : total r' = Z.of_nat (length (c_steps c))) by (unfold total; rewrite Hsteps'; reflexivity) end.
      rewrite <- Ht. apply free_consec_from; auto. rewrite Ht. exact Hr'.
  - cbn [fst snd markers_at flat_map app].
    match goal with |- consec_steps _ (free_steps k ?r) =>
      change (consec_steps (total r) (free_steps k r)) end.
    apply free_consec. unfold wf. cbn. repeat split; auto; try discriminate.
    intros d b E. inversion E. reflexivity.
Qed.
