(* C17/Replay.v — executable model, on top of the world of Model.v, of
     * token substitution and the per-token step cache of mpf/assets/show.py
       (Show.get_show_steps_with_token, _replace_token_values, _replace_token_keys);
     * show pools (mpf/core/assets.py AssetPool: `sequence` rotation; the member a `random` pool picked is
       part of the input) and ShowPool.play_with_config;
     * ShowController.replace_or_advance_show EXACTLY (all branches: dead or missing previous instance,
       stop callback / played / stopped events configured, config changed, already at the target step,
       one step behind -> advance, otherwise replace; replacement at once or in sync: the previous show's
       stop handed to the new show as start_callback);
     * the callbacks of RunningShow: start_callback (run by _start_now, or by stop() when the show never
       started) and the stop callback (`callback`, e.g. queue.clear of block_queue), incl. chains of them;
     * the show_player instance dictionary with repeated plays on one key (a completed show stays bound).
   Definitions only; proofs in ReplayLemmas.v. *)
From Common Require Import Prelude.
From C17 Require Import Model.
Open Scope Z_scope.

(* ---- tokens ------------------------------------------------------------------------------------------ *)
(* a place in a show's source steps: a literal, or the placeholder `(token i)` *)
Inductive ref := Lit (v : Z) | Tok (i : Z).
(* source step: duration, actions (light name, colour), both possibly placeholders.  The `events:` item of a
   step whose event name contains a placeholder is the pseudo action (Lit 100, Tok e): an effect of another
   player with a substituted parameter (light 100 does not exist: no stack is touched, the row is kept). *)
Record sstep := mkSS { ss_dur : Z; ss_acts : list (ref * ref) }.
(* show_tokens: token -> value, in insertion order, keys unique *)
Definition toks := list (Z * Z).

Fixpoint tlookup (i : Z) (tk : toks) : option Z :=
  match tk with
  | [] => None
  | (k, v) :: tk' => if k =? i then Some v else tlookup i tk'
  end.

Definition resolve (tk : toks) (r : ref) : Z :=
  match r with
  | Lit v => v
  | Tok i => match tlookup i tk with Some v => v | None => -1 end
  end.

Definition subst_step (tk : toks) (s : sstep) : step :=
  mkStep (ss_dur s) (map (fun a => (resolve tk (fst a), resolve tk (snd a))) (ss_acts s)).
Definition subst_steps (tk : toks) (src : list sstep) : list step := map (subst_step tk) src.

Definition is_tok (r : ref) : bool := match r with Tok _ => true | Lit _ => false end.
Definition step_has_tok (s : sstep) : bool := existsb (fun a => is_tok (fst a) || is_tok (snd a)) (ss_acts s).
Definition uses_tokens (src : list sstep) : bool := existsb step_has_tok src.

(* Show._step_cache: keyed by hash(str(show_tokens)) = the dict with its insertion order *)
Definition pair_eqb (x y : Z * Z) : bool := (fst x =? fst y) && (snd x =? snd y).
Definition toks_eqb (a b : toks) : bool := list_eqb pair_eqb a b.
Definition cache := list (toks * list step).
Fixpoint cfind (tk : toks) (c : cache) : option (list step) :=
  match c with
  | [] => None
  | (k, v) :: c' => if toks_eqb tk k then Some v else cfind tk c'
  end.

(* Show.get_show_steps_with_token *)
Definition get_steps (src : list sstep) (c : cache) (tk : toks) : cache * list step :=
  match tk with
  | [] => (c, subst_steps [] src)
  | _ => if uses_tokens src then
           match cfind tk c with
           | Some s => (c, s)
           | None => ((tk, subst_steps tk src) :: c, subst_steps tk src)
           end
         else (c, subst_steps [] src)
  end.

(* the cache after a history of plays *)
Fixpoint run_cache (src : list sstep) (hist : list toks) : cache :=
  match hist with
  | [] => []
  | tk :: h => fst (get_steps src (run_cache src h) tk)
  end.

(* a cache keyed by something coarser than the dict (e.g. the sorted values only): for refutation *)
Fixpoint insert_sorted (v : Z) (l : list Z) : list Z :=
  match l with [] => [v] | x :: l' => if v <=? x then v :: l else x :: insert_sorted v l' end.
Definition sorted_values (tk : toks) : list Z := fold_right insert_sorted [] (map snd tk).
Fixpoint cfind_by {K} (eqb : K -> K -> bool) (k : K) (c : list (K * list step)) : option (list step) :=
  match c with
  | [] => None
  | (k', v) :: c' => if eqb k k' then Some v else cfind_by eqb k c'
  end.
Definition get_steps_by_values (src : list sstep) (c : list (list Z * list step)) (tk : toks)
  : list (list Z * list step) * list step :=
  match cfind_by zs_eqb (sorted_values tk) c with
  | Some s => (c, s)
  | None => ((sorted_values tk, subst_steps tk src) :: c, subst_steps tk src)
  end.

(* ---- play requests of the show_player -------------------------------------------------------------- *)
Record pcfg := mkPC {
  pc_show : Z;          (* config.name: 0.. = show, 100+j = show pool j *)
  pc_pick : Z;          (* the member a `random` pool returned (observed); ignored otherwise *)
  pc_toks : toks;
  pc_prio : Z;
  pc_speed4 : Z;
  pc_loops : Z;
  pc_start : Z;         (* start_step as configured *)
  pc_sync : Z;
  pc_manual : bool;
  pc_running : bool;
  pc_ev : bool;         (* events_when_* configured (played / stopped among them) *)
  pc_bq : bool          (* block_queue: stop callback = queue.clear *)
}.

(* what the player / controller knows about an instance: its ShowConfig, the member that plays, the pending
   start_callback (= stop of that older show) and whether it has a stop callback *)
Record inst := mkInst { i_cfg : pcfg; i_member : Z; i_startcb : option Z; i_stopcb : bool }.

(* static: source steps of the shows, pools (type 0 = sequence, 1 = random; members) *)
Definition env := (list (list sstep) * list (Z * list Z))%type.

Record xstate := mkX {
  x_w : world;
  x_bind : list (Z * Z);              (* instance dict: key -> slot of the RunningShow *)
  x_insts : list (option inst);       (* by slot *)
  x_caches : list cache;              (* Show._step_cache, by show *)
  x_cnt : list Z;                     (* sequence position of every pool *)
  x_cb : list row                     (* callback rows: [slot; time; 14; 0;0;0] stop callback ran *)
}.

Definition set_w (x : xstate) (w : world) : xstate :=
  mkX w (x_bind x) (x_insts x) (x_caches x) (x_cnt x) (x_cb x).

Definition get_inst (x : xstate) (sid : Z) : option inst := nth (Z.to_nat sid) (x_insts x) None.
Definition startcb_of (x : xstate) (sid : Z) : option Z :=
  match get_inst x sid with Some i => i_startcb i | None => None end.
Definition has_stopcb (x : xstate) (sid : Z) : bool :=
  match get_inst x sid with Some i => i_stopcb i | None => false end.
Definition clear_startcb (sid : Z) (x : xstate) : xstate :=
  mkX (x_w x) (x_bind x)
      (upd_nth (Z.to_nat sid)
               (fun o => match o with Some i => Some (mkInst (i_cfg i) (i_member i) None (i_stopcb i)) | None => None end)
               (x_insts x))
      (x_caches x) (x_cnt x) (x_cb x).
Definition add_cb (r : row) (x : xstate) : xstate :=
  mkX (x_w x) (x_bind x) (x_insts x) (x_caches x) (x_cnt x) (x_cb x ++ [r]).

Definition is_stopped (w : world) (sid : Z) : bool :=
  match get_show w sid with Some r => r_stopped r | None => false end.

(* a request / timer expiry for show [sid] with the callbacks it causes.  _start_now runs the start callback;
   stop() runs it when the show never started, then the stop callback.  The start callback is the stop() of
   the replaced show, which may hold a start callback itself: the chain is followed ([fuel] >= its length). *)
Fixpoint x_op (fuel : nat) (now sid : Z) (o : op) (x : xstate) : xstate :=
  match get_show (x_w x) sid with
  | None => x
  | Some r =>
      let started := match o, r_timer r with Fire, Some (_, true) => true | _, _ => false end in
      let w' := world_op now sid o (x_w x) in
      let stopped_now := negb (r_stopped r) && is_stopped w' sid in
      let x1 := set_w x w' in
      let x2 := if stopped_now && has_stopcb x sid then add_cb [sid; now; 14; 0; 0; 0] x1 else x1 in
      if started || stopped_now then
        match startcb_of x sid with
        | Some old =>
            match fuel with
            | O => x2
            | S f => x_op f now old Stop (clear_startcb sid x2)
            end
        | None => x2
        end
      else x2
  end.

Definition CB : nat := 64.

(* the clock: as Model.advance_to, timers of shows through x_op *)
Fixpoint x_advance_to (fuel : nat) (t : Z) (x : xstate) : xstate :=
  match fuel with
  | O => x
  | S f =>
      match next_due_light t 0 (w_lights (x_w x)) None, next_due t 0 (w_shows (x_w x)) None with
      | Some (k, key, d), Some (sid, d2) =>
          if d <=? d2 then x_advance_to f t (set_w x (world_fire d k key (x_w x)))
          else x_advance_to f t (x_op CB d2 sid Fire x)
      | Some (k, key, d), None => x_advance_to f t (set_w x (world_fire d k key (x_w x)))
      | None, Some (sid, d2) => x_advance_to f t (x_op CB d2 sid Fire x)
      | None, None => x
      end
  end.

Fixpoint blookup (k : Z) (b : list (Z * Z)) : option Z :=
  match b with
  | [] => None
  | (k', v) :: b' => if k =? k' then Some v else blookup k b'
  end.
Definition bunbind (k : Z) (b : list (Z * Z)) : list (Z * Z) := filter (fun e => negb (fst e =? k)) b.
Definition bbind (k v : Z) (b : list (Z * Z)) : list (Z * Z) := (k, v) :: bunbind k b.

(* AssetPool.asset *)
Definition pick (e : env) (cnt : list Z) (c : pcfg) : Z * list Z :=
  if pc_show c <? 100 then (pc_show c, cnt)
  else
    let j := Z.to_nat (pc_show c - 100) in
    match nth_error (snd e) j with
    | Some (ty, ms) =>
        if ty =? 0 then
          (nth (Z.to_nat (nth j cnt 0 mod Z.of_nat (length ms))) ms 0, upd_nth j (Z.add 1) cnt)
        else (pc_pick c, cnt)
    | None => (pc_pick c, cnt)
    end.

(* show_obj.play_with_config(config, start_time = now, start_step or 1, stop_callback, start_callback) *)
Definition x_fresh (e : env) (now key slot : Z) (c : pcfg) (scb : option Z) (x : xstate) : xstate :=
  let '(m, cnt') := pick e (x_cnt x) c in
  let src := nth (Z.to_nat m) (fst e) [] in
  let '(cache', steps) := get_steps src (nth (Z.to_nat m) (x_caches x) []) (pc_toks c) in
  let cf := mkCfg steps (pc_speed4 c) (pc_loops c) (if pc_start c =? 0 then 1 else pc_start c) (pc_sync c)
                  (pc_manual c) (pc_running c) in
  let w' := world_play now slot cf (x_w x) in
  let x1 := mkX w' (bbind key slot (x_bind x))
                (upd_nth (Z.to_nat slot) (fun _ => Some (mkInst c m scb (pc_bq c))) (x_insts x))
                (upd_nth (Z.to_nat m) (fun _ => cache') (x_caches x)) cnt' (x_cb x) in
  (* a show that completes inside __init__ (no loops, start step beyond the end) runs its stop callback there *)
  if is_stopped w' slot && pc_bq c then add_cb [slot; now; 14; 0; 0; 0] x1 else x1.

Definition has_run (w : world) (sid : Z) : bool :=
  existsb (fun r => row_of sid r && (row_kind r =? 0)) (w_trace w).

Definition tok_sub (a b : toks) : bool :=
  forallb (fun kv => match tlookup (fst kv) b with Some v => v =? snd kv | None => false end) a.
(* ShowConfig equality (dict equality of show_tokens is order-insensitive); speed and manual_advance of the
   old instance are what update() left there *)
Definition cfg_same (i : inst) (r : rs) (c : pcfg) : bool :=
  let o := i_cfg i in
  (pc_show o =? pc_show c) && tok_sub (pc_toks o) (pc_toks c) && tok_sub (pc_toks c) (pc_toks o) &&
  (pc_prio o =? pc_prio c) && (r_speed4 r =? pc_speed4 c) && (pc_loops o =? pc_loops c) &&
  (pc_sync o =? pc_sync c) && Bool.eqb (r_manual r) (pc_manual c) && negb (pc_ev o) && negb (pc_ev c).

Inductive decision := DKeep | DAdvance | DReplace | DFresh.

(* replace_or_advance_show, the decision.  [old] = the previous instance of the key if it has not stopped;
   start_step is never None on the show_player route (the `start_step is None` branch is not reachable) *)
Definition roa (old : option (inst * rs * bool)) (c : pcfg) : decision :=
  match old with
  | None => DFresh
  | Some (i, r, ran) =>
      if pc_bq c || pc_ev c then DReplace
      else if negb (cfg_same i r c) then DReplace
      else if ran && (r_idx r - 1 + 1 =? pc_start c) then DKeep
      else if ran && (r_idx r - 1 + 2 =? pc_start c) then DAdvance
      else DReplace
  end.

Definition live_old (x : xstate) (key : Z) : option (Z * (inst * rs * bool)) :=
  match blookup key (x_bind x) with
  | Some o =>
      match get_show (x_w x) o, get_inst x o with
      | Some r, Some i => if r_stopped r then None else Some (o, (i, r, has_run (x_w x) o))
      | _, _ => None
      end
  | None => None
  end.

(* ShowPlayer._play for [key] at [now]; [slot] = the RunningShow a new instance becomes *)
Definition x_play (e : env) (now key slot : Z) (c : pcfg) (x : xstate) : xstate :=
  match live_old x key with
  | None => x_fresh e now key slot c None x
  | Some (o, d) =>
      match roa (Some d) c with
      | DKeep => x
      | DAdvance => x_op CB now o (Advance 1) x
      | _ =>
          if pc_sync c =? 0 then x_fresh e now key slot c None (x_op CB now o Stop x)
          else x_fresh e now key slot c (Some o) x
      end
  end.

Inductive xact :=
| XPlay (slot : Z) (c : pcfg)
| XStop | XPause | XResume | XAdvance | XStepBack
| XProbe.

Definition x_deliver (now key : Z) (o : op) (x : xstate) : xstate :=
  match blookup key (x_bind x) with
  | Some sid => x_op CB now sid o x
  | None => x
  end.

Definition x_act (e : env) (now key : Z) (a : xact) (x : xstate) : xstate :=
  match a with
  | XPlay slot c => x_play e now key slot c x
  | XStop =>
      match blookup key (x_bind x) with
      | Some sid =>
          let x1 := x_op CB now sid Stop x in
          mkX (x_w x1) (bunbind key (x_bind x1)) (x_insts x1) (x_caches x1) (x_cnt x1) (x_cb x1)
      | None => x
      end
  | XPause => x_deliver now key Pause x
  | XResume => x_deliver now key Resume x
  | XAdvance => x_deliver now key (Advance 1) x
  | XStepBack => x_deliver now key (StepBack 1) x
  | XProbe => x
  end.

(* ---- correspondence run --------------------------------------------------------------------------- *)
(* after every request: the stacks and, for every key, [slot of the bound instance | -1; stopped] and the
   stopped flag of every slot *)
Definition bind_snap (nkeys : nat) (x : xstate) : list (list Z) :=
  map (fun k => match blookup k (x_bind x) with
                | Some s => [s; if is_stopped (x_w x) s then 1 else 0]
                | None => [-1; 0]
                end) (zrange 0 nkeys)
  ++ [map (fun s => match s with Some r => if r_stopped r then 1 else 0 | None => -1 end) (w_shows (x_w x))].

Fixpoint x_run_ops (fuel : nat) (e : env) (nkeys : nat) (ops : list (Z * Z * xact)) (x : xstate)
         (snaps : list (list (list Z))) (bsnaps : list (list (list Z)))
  : xstate * list (list (list Z)) * list (list (list Z)) :=
  match ops with
  | [] => (x, snaps, bsnaps)
  | (t, key, a) :: ops' =>
      let x1 := x_advance_to fuel t x in
      let x2 := x_act e t key a x1 in
      x_run_ops fuel e nkeys ops' x2 (snaps ++ [snapshot (x_w x2)]) (bsnaps ++ [bind_snap nkeys x2])
  end.

(* an instance without events_when_* posts only what its steps post (the step markers) *)
Definition ev_of (x : xstate) (sid : Z) : bool :=
  match get_inst x sid with Some i => pc_ev (i_cfg i) | None => false end.

(* the light rows of one step come in the order of the step's (token-renamed) dict: compared as sorted by
   (time, light), stably: rows of one light keep their order *)
Definition rkey_le (a b : row) : bool :=
  (nth 1 a 0 <? nth 1 b 0) || ((nth 1 a 0 =? nth 1 b 0) && (nth 3 a 0 <=? nth 3 b 0)).
Fixpoint rins (r : row) (l : list row) : list row :=
  match l with
  | [] => [r]
  | x :: l' => if rkey_le x r then x :: rins r l' else r :: l
  end.
Definition sort_rows (rows : list row) : list row := fold_left (fun acc r => rins r acc) rows [].

(* input: shows, pools, default fades, number of keys, number of slots, requests, horizon, fuel *)
Definition xcase_in :=
  (list (list sstep) * list (Z * list Z) * list Z * Z * Z * list (Z * Z * xact) * Z * Z)%type.
(* output: as Model.case_out per slot, + binding snapshots, callback rows per slot, member of every slot *)
Definition xcase_out := (case_out * list (list (list Z)) * list (list row) * list Z)%type.

Definition xrun (i : xcase_in) : xcase_out :=
  let '(srcs, pools, fades, nkeys, nslots, ops, horizon, fuel) := i in
  let e := (srcs, pools) in
  let sl := zrange 0 (Z.to_nat nslots) in
  let w0 := mkW (map (fun _ => None) sl) (map (fun f => mkLight f [] []) fades) [] in
  let x0 := mkX w0 [] (map (fun _ => None) sl) (map (fun _ => []) srcs) (map (fun _ => 0) pools) [] in
  let '(x1, snaps, bsnaps) := x_run_ops (Z.to_nat fuel) e (Z.to_nat nkeys) ops x0 [] [] in
  let x2 := x_advance_to (Z.to_nat fuel) horizon x1 in
  let w2 := x_w x2 in
  ((map (fun sid => filter (fun r => row_of sid r && (row_kind r <? 10) && (ev_of x2 sid || (row_kind r =? 0)))
                            (w_trace w2)) sl,
    map (fun sid => sort_rows (filter (fun r => row_of sid r && is_light_row r) (w_trace w2))) sl,
    map (fun sid => quiet_fade_rows (filter (fun r => row_of sid r && is_light_row r) (w_trace w2))
                                    (filter (fun r => row_of sid r && is_fade_row r) (w_trace w2))) sl,
    snaps ++ [snapshot w2],
    map show_final (w_shows w2)),
   bsnaps ++ [bind_snap (Z.to_nat nkeys) x2],
   map (fun sid => filter (row_of sid) (x_cb x2)) sl,
   map (fun o => match o with Some i => i_member i | None => -1 end) (x_insts x2)).

Definition xout_eqb (a b : xcase_out) : bool :=
  let '(o1, b1, c1, m1) := a in
  let '(o2, b2, c2, m2) := b in
  out_eqb o1 o2 && list_eqb zss_eqb b1 b2 && list_eqb zss_eqb c1 c2 && zs_eqb m1 m2.
