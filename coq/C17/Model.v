(* C17/Model.v — executable model of mpf/assets/show.py::RunningShow (scheduler + control requests),
   of the part of the light player / light stack that records which show context owns which entry,
   and of the clock that fires the shows' timers.  Definitions only; proofs are in Lemmas.v.

   The model is of the code WITH fixes/C17-show-control-after-stop.patch applied:
     * pause/resume/advance/step_back are ignored once the show is stopped (the unpatched code re-plays
       a step under the dead context and leaves the lights on the stack for ever);
     * resume cancels a pending step timer first (the unpatched code leaves two timer chains running).
   Everything else is modelled as it is, oddities included (see NOTES.md).

   Time is exact: Z microseconds.  Speeds are carried as speed4 = 4*speed (an integer for the speeds
   0.25, 0.5, 1, 2, 4 used by the correspondence run); the time to the next step is
   duration*4/speed4, which is exact whenever speed4 divides 4*duration (always, on the 125 ms grid). *)
From Common Require Import Prelude.
Open Scope Z_scope.

(* ---- shows --------------------------------------------------------------------------------- *)
(* one show step: duration (us; negative = "hold": duration -1) and light actions (light index,
   colour code; code 0 is `color: stop` = remove this show's entry from that light) *)
Record step := mkStep { s_dur : Z; s_acts : list (Z * Z) }.

Record cfg := mkCfg {
  c_steps : list step;
  c_speed4 : Z;            (* 4 * speed *)
  c_loops : Z;             (* -1 = for ever *)
  c_start : Z;             (* start_step as given to play(): 1-based, 0, or negative *)
  c_sync : Z;              (* sync_ms in us; 0 = start at once *)
  c_manual : bool;         (* manual_advance *)
  c_running : bool         (* start_running *)
}.

(* RunningShow *)
Record rs := mkRs {
  r_steps : list step;
  r_speed4 : Z;
  r_manual : bool;
  r_running : bool;
  r_idx : Z;                       (* next_step_index *)
  r_nst : Z;                       (* next_step_time *)
  r_loops : Z;
  r_stopped : bool;
  r_timer : option (Z * bool)      (* _delay_handler: deadline, true = _start_now pending (sync) *)
}.

(* what a request makes the show do, in program order *)
Inductive out :=
| OEv (code arg : Z)               (* event posted: 0 step marker (arg = step index; the `events:` item of
                                      the step), 1 played, 2 looped, 3 completed, 4 stopped, 5 paused,
                                      6 resumed, 7 advanced, 8 stepped_back, 9 'updated' *)
| OSet (light color start : Z)     (* light.color(color, key=context, start_time=start) *)
| ORem (light fade : Z)            (* `color: stop` in a step; fade (us) as given: -1 = None (the light's default) *)
| OClear.                          (* show_stop_callback -> clear_context *)

Definition total (r : rs) : Z := Z.of_nat (length (r_steps r)).
Definition nth_step (r : rs) (i : Z) : step := nth (Z.to_nat i) (r_steps r) (mkStep 0 []).

Definition set_timer (r : rs) (t : option (Z * bool)) : rs :=
  mkRs (r_steps r) (r_speed4 r) (r_manual r) (r_running r) (r_idx r) (r_nst r) (r_loops r) (r_stopped r) t.
Definition set_nst (r : rs) (t : Z) : rs :=
  mkRs (r_steps r) (r_speed4 r) (r_manual r) (r_running r) (r_idx r) t (r_loops r) (r_stopped r) (r_timer r).
Definition set_idx (r : rs) (i : Z) : rs :=
  mkRs (r_steps r) (r_speed4 r) (r_manual r) (r_running r) i (r_nst r) (r_loops r) (r_stopped r) (r_timer r).

(* RunningShow.stop *)
Definition do_stop (r : rs) : rs * list out :=
  if r_stopped r then (r, [])
  else (mkRs (r_steps r) (r_speed4 r) (r_manual r) (r_running r) (r_idx r) (r_nst r) (r_loops r) true None,
        [OClear; OEv 4 0]).

(* one light action of a step: colour code 0 = `stop` (fade None), 6 = `stop-f250ms`, 7 = `stop-f0ms`,
   everything else a colour *)
Definition act_out (start : Z) (a : Z * Z) : out :=
  if snd a =? 0 then ORem (fst a) (-1)
  else if snd a =? 6 then ORem (fst a) 250000
  else if snd a =? 7 then ORem (fst a) 0
  else OSet (fst a) (snd a) start.
Definition step_outs (st : step) (start : Z) : list out := map (act_out start) (s_acts st).

Definition ttn (dur speed4 : Z) : Z := dur * 4 / speed4.

(* RunningShow._run_next_step(post_events, pause_after_step) *)
Definition run_next (post : list out) (pause_after : bool) (r : rs) : rs * list out :=
  let n := total r in
  let i0 := if r_idx r <? 0 then (r_idx r) mod n else r_idx r in
  if (i0 >=? n) && (r_loops r =? 0) then
    (* end of the show, no loops left: stop, then completed *)
    let '(r', so) := do_stop (set_idx r i0) in
    (r', so ++ post ++ [OEv 3 0])
  else
    let wrap := i0 >=? n in
    let i1 := if wrap then 0 else i0 in
    let loops1 := if wrap && (r_loops r >? 0) then r_loops r - 1 else r_loops r in
    let evs := if wrap then post ++ [OEv 2 0] else post in
    let st := nth_step r i1 in
    let t := ttn (s_dur st) (r_speed4 r) in
    let sched := negb (r_manual r) && (0 <? t) && negb pause_after in
    (mkRs (r_steps r) (r_speed4 r) (r_manual r) (r_running r) (i1 + 1)
          (if sched then r_nst r + t else r_nst r) loops1 (r_stopped r)
          (if sched then Some (r_nst r + t, false) else r_timer r),
     step_outs st (r_nst r) ++ [OEv 0 i1] ++ evs).

(* RunningShow._start_now *)
Definition start_now (r : rs) : rs * list out := run_next [OEv 1 0] (negb (r_running r)) r.

(* RunningShow.__init__ + _start_play at time [now] *)
Definition play_rs (c : cfg) (now : Z) : rs * list out :=
  let n := Z.of_nat (length (c_steps c)) in
  let idx := if c_start c >? 0 then c_start c - 1
             else if c_start c <? 0 then (c_start c) mod n else 0 in
  let r0 := mkRs (c_steps c) (c_speed4 c) (c_manual c) (c_running c) idx now (c_loops c) false None in
  if c_sync c =? 0 then start_now r0
  else
    let t := now + c_sync c - now mod (c_sync c) in
    (set_timer (set_nst r0 t) (Some (t, true)), []).

(* requests on a running show *)
Inductive op :=
| Stop | Pause | Resume
| Advance (n : Z)                  (* advance(steps=n) *)
| StepBack (n : Z)                 (* step_back(steps=n) *)
| Update (speed4 : Z) (man : Z)    (* update(speed=, manual_advance=): speed4 = 0 / man = 0 mean None;
                                      man = 1 True, 2 False *)
| Fire.                            (* the pending timer expires (issued by the clock, never by a user) *)

Definition do_update (sp man : Z) (r : rs) : rs * list out :=
  (mkRs (r_steps r) (if sp =? 0 then r_speed4 r else sp)
        (if man =? 1 then true else if man =? 2 then false else r_manual r)
        (r_running r) (r_idx r) (r_nst r) (r_loops r) (r_stopped r) (r_timer r),
   [OEv 9 0]).

Definition apply_op (now : Z) (o : op) (r : rs) : rs * list out :=
  match o with
  | Stop => do_stop r
  | Update sp man => do_update sp man r
  | Fire =>
      match r_timer r with
      | Some (_, true) => start_now (set_timer r None)
      | Some (_, false) => run_next [] false (set_timer r None)
      | None => (r, [])
      end
  | Pause => if r_stopped r then (r, []) else (set_timer r None, [OEv 5 0])
  | Resume =>
      if r_stopped r then (r, [])
      else run_next [OEv 6 0] false (set_nst (set_timer r None) now)
  | Advance n =>
      if r_stopped r then (r, [])
      else let r1 := set_nst (set_timer r None) now in
           run_next [OEv 7 0] false (if n =? 1 then r1 else set_idx r1 (r_idx r1 + n - 1))
  | StepBack n =>
      if r_stopped r then (r, [])
      else let r1 := set_nst (set_timer r None) now in
           run_next [OEv 8 0] false (set_idx r1 (r_idx r1 - (n + 1)))
  end.

(* ---- light stacks: who owns an entry (key = show id), its colour, and the fade-out of a removed key -- *)
(* mpf/devices/light.py: Light.stack, Light.color/_add_to_stack, remove_from_stack_by_key (with fade),
   the per-key delay "remove_fade_<key>", _remove_fade_out; mpf/config_players/light_player.py:
   _light_color / _light_remove / clear_context (its instance dict holds exactly the lights on which the
   context has an entry that is not a fade-out).
   An entry is (show id, colour code); colour -1 is a fade-out entry (dest_color None).  The list is kept
   sorted by show id (the priority order of the real stack is C09's subject). *)
Definition stack := list (Z * Z).

Definition proj (sid : Z) (s : list (Z * Z)) : list (Z * Z) := filter (fun e => fst e =? sid) s.

Definition rem_key (sid : Z) (s : stack) : stack := filter (fun e => negb (fst e =? sid)) s.

Fixpoint ins_key (sid c : Z) (s : stack) : stack :=
  match s with
  | [] => [(sid, c)]
  | e :: s' => if sid <? fst e then (sid, c) :: s else e :: ins_key sid c s'
  end.

Definition set_key (sid c : Z) (s : stack) : stack := ins_key sid c (rem_key sid s).

Definition has_key (sid : Z) (s : stack) : bool := match proj sid s with [] => false | _ => true end.

Definition is_fading (e : Z * Z) : bool := snd e =? -1.

(* a light: its default fade (us; Light.default_fade_ms), its stack, and the pending fade-out removal
   delays (key, deadline) of its DelayManager (one per key: delay.reset replaces a pending one) *)
Record light := mkLight { l_fade : Z; l_stack : stack; l_timers : list (Z * Z) }.

(* the key has an entry that is not a fade-out (= the light is in the light player's instance dict of
   that context) / has a fade-out entry *)
Definition owns (sid : Z) (L : light) : bool := existsb (fun e => negb (is_fading e)) (proj sid (l_stack L)).
Definition fading (sid : Z) (L : light) : bool := existsb is_fading (proj sid (l_stack L)).

(* Light.color(color, key=context) *)
Definition set_light (sid c : Z) (L : light) : light :=
  mkLight (l_fade L) (set_key sid c (l_stack L)) (l_timers L).

(* Light.remove_from_stack_by_key(key, fade_ms) at time [now]; fade < 0 = None = the light's default.
   Key not on the stack: nothing.  The entry already is a fade-out, or no fade: removed at once.
   Otherwise it is replaced by a fade-out entry and the removal delay of the key is (re)set to now+fade. *)
Definition rem_fade (sid now fade : Z) (L : light) : light :=
  let f := if fade <? 0 then l_fade L else fade in
  if has_key sid (l_stack L) then
    if owns sid L && (0 <? f) then
      mkLight (l_fade L) (set_key sid (-1) (l_stack L)) (set_key sid (now + f) (l_timers L))
    else mkLight (l_fade L) (rem_key sid (l_stack L)) (l_timers L)
  else L.

(* the removal delay of key [sid] expires: Light._remove_fade_out *)
Definition fire_rem (sid : Z) (L : light) : light :=
  mkLight (l_fade L) (filter (fun e => negb ((fst e =? sid) && is_fading e)) (l_stack L))
          (rem_key sid (l_timers L)).

Fixpoint upd_nth {A} (n : nat) (f : A -> A) (l : list A) : list A :=
  match l, n with
  | [], _ => []
  | x :: l', O => f x :: l'
  | x :: l', S n' => x :: upd_nth n' f l'
  end.

Definition lights := list light.

Fixpoint lights_with (sid : Z) (k : Z) (ls : lights) : list Z :=
  match ls with
  | [] => []
  | L :: ls' => (if owns sid L then [k] else []) ++ lights_with sid (k + 1) ls'
  end.

(* rows of the observable trace: [show; time; kind; a; b; c] *)
Definition row := list Z.

Definition apply_out (sid now : Z) (ls : lights) (o : out) : lights * list row :=
  match o with
  | OEv code arg => (ls, [[sid; now; code; arg; 0; 0]])
  | OSet l c st =>
      if c <=? 0 then (ls, [])          (* no such colour *)
      else (upd_nth (Z.to_nat l) (set_light sid c) ls, [[sid; now; 10; l; c; st]])
  | ORem l f => (upd_nth (Z.to_nat l) (rem_fade sid now f) ls, [[sid; now; 11; l; f; 0]])
  | OClear => (map (fun L => if owns sid L then rem_fade sid now (-1) L else L) ls,
               map (fun l => [sid; now; 12; l; 0; 0]) (lights_with sid 0 ls))
  end.

Fixpoint apply_outs (sid now : Z) (ls : lights) (os : list out) : lights * list row :=
  match os with
  | [] => (ls, [])
  | o :: os' =>
      let '(ls1, r1) := apply_out sid now ls o in
      let '(ls2, r2) := apply_outs sid now ls1 os' in
      (ls2, r1 ++ r2)
  end.

(* ---- the world: several shows, shared lights, one clock ------------------------------------- *)
Record world := mkW { w_shows : list (option rs); w_lights : lights; w_trace : list row }.

Definition get_show (w : world) (sid : Z) : option rs := nth (Z.to_nat sid) (w_shows w) None.

(* a request [o] for show [sid] at time [now]; requests for a show that was never played do nothing *)
Definition world_op (now sid : Z) (o : op) (w : world) : world :=
  match get_show w sid with
  | None => w
  | Some r =>
      let '(r', os) := apply_op now o r in
      let '(ls, rows) := apply_outs sid now (w_lights w) os in
      mkW (upd_nth (Z.to_nat sid) (fun _ => Some r') (w_shows w)) ls (w_trace w ++ rows)
  end.

Definition world_play (now sid : Z) (c : cfg) (w : world) : world :=
  let '(r', os) := play_rs c now in
  let '(ls, rows) := apply_outs sid now (w_lights w) os in
  mkW (upd_nth (Z.to_nat sid) (fun _ => Some r') (w_shows w)) ls (w_trace w ++ rows).

(* the removal delay of key [sid] on light [k] expires at time d *)
Definition world_fire (d k sid : Z) (w : world) : world :=
  mkW (w_shows w) (upd_nth (Z.to_nat k) (fire_rem sid) (w_lights w)) (w_trace w ++ [[sid; d; 13; k; 0; 0]]).

(* earliest pending timer with deadline <= t; ties: lowest show id (the observable per-show traces and
   the stacks do not depend on the order among different shows, see Lemmas: only key sid is touched) *)
Fixpoint next_due (t : Z) (k : Z) (ss : list (option rs)) (best : option (Z * Z)) : option (Z * Z) :=
  match ss with
  | [] => best
  | s :: ss' =>
      let best' :=
        match s with
        | Some r =>
            match r_timer r with
            | Some (d, _) =>
                if d <=? t then
                  match best with
                  | Some (_, bd) => if d <? bd then Some (k, d) else best
                  | None => Some (k, d)
                  end
                else best
            | None => best
            end
        | None => best
        end in
      next_due t (k + 1) ss' best'
  end.

(* earliest pending removal delay of a light with deadline <= t *)
Fixpoint min_timer (t : Z) (tm : list (Z * Z)) (best : option (Z * Z)) : option (Z * Z) :=
  match tm with
  | [] => best
  | (sid, d) :: tm' =>
      min_timer t tm'
        (if d <=? t then
           match best with
           | Some (_, bd) => if d <? bd then Some (sid, d) else best
           | None => Some (sid, d)
           end
         else best)
  end.

(* ... of all lights: (light, key, deadline); ties: lowest light index *)
Fixpoint next_due_light (t k : Z) (ls : lights) (best : option (Z * Z * Z)) : option (Z * Z * Z) :=
  match ls with
  | [] => best
  | L :: ls' =>
      let best' :=
        match min_timer t (l_timers L) None with
        | Some (sid, d) =>
            match best with
            | Some (_, _, bd) => if d <? bd then Some (k, sid, d) else best
            | None => Some (k, sid, d)
            end
        | None => best
        end in
      next_due_light t (k + 1) ls' best'
  end.

(* fire everything due at or before t in deadline order (at one instant: light delays first; the order at
   one instant does not matter for what is observed: a removal delay only removes fade-out entries of its
   key, a show only replaces / removes entries of its own key, and per-show rows are compared per kind) *)
Fixpoint advance_to (fuel : nat) (t : Z) (w : world) : world :=
  match fuel with
  | O => w
  | S f =>
      match next_due_light t 0 (w_lights w) None, next_due t 0 (w_shows w) None with
      | Some (k, key, d), Some (sid, d2) =>
          if d <=? d2 then advance_to f t (world_fire d k key w) else advance_to f t (world_op d2 sid Fire w)
      | Some (k, key, d), None => advance_to f t (world_fire d k key w)
      | None, Some (sid, d2) => advance_to f t (world_op d2 sid Fire w)
      | None, None => w
      end
  end.

(* user requests of a case: (time, show, request); UPlay plays the show's configuration; UProbe only looks *)
Inductive uop := UPlay | UOp (o : op) | UProbe.

Definition snapshot (w : world) : list (list Z) :=
  map (fun L => flat_map (fun e => [fst e; snd e]) (l_stack L)) (w_lights w).

Fixpoint run_ops (fuel : nat) (cfgs : list cfg) (ops : list (Z * Z * uop)) (w : world)
         (snaps : list (list (list Z))) : world * list (list (list Z)) :=
  match ops with
  | [] => (w, snaps)
  | (t, sid, u) :: ops' =>
      let w1 := advance_to fuel t w in
      let w2 := match u with
                | UPlay => match nth_error cfgs (Z.to_nat sid) with
                           | Some c => world_play t sid c w1
                           | None => w1
                           end
                | UOp o => world_op t sid o w1
                | UProbe => w1
                end in
      run_ops fuel cfgs ops' w2 (snaps ++ [snapshot w2])
  end.

Definition show_final (s : option rs) : list Z :=
  match s with
  | None => [0]
  | Some r => [1; if r_stopped r then 1 else 0; r_idx r; r_loops r; r_nst r;
               match r_timer r with Some (d, _) => d | None => -1 end]
  end.

(* input of a correspondence case: configurations, default fade of every light (us), requests (sorted by
   time), horizon, fuel *)
Definition case_in := (list cfg * list Z * list (Z * Z * uop) * Z * Z)%type.
(* output: per show event rows, per show light rows, per show fade-out-ended rows, stack snapshot after
   every request and at the horizon, final state of every show *)
Definition case_out :=
  (list (list row) * list (list row) * list (list row) * list (list (list Z)) * list (list Z))%type.

Definition row_kind (r : row) : Z := nth 2 r 0.
Definition is_light_row (r : row) : bool := (10 <=? row_kind r) && (row_kind r <=? 12).
Definition is_fade_row (r : row) : bool := row_kind r =? 13.
Definition row_of (sid : Z) (r : row) : bool := nth 0 r (-1) =? sid.

(* When a key's removal delay expires at the very instant at which its show sets / removes / clears the same
   light, whether the (then stale) delay still fires or was replaced first depends on the order of two timers
   with equal deadlines, which asyncio does not promise.  The stacks and pending delays afterwards are the
   same either way; the fade-out-ended rows at such coincidences are left out on both sides. *)
Definition quiet_fade_rows (lrows frows : list row) : list row :=
  filter (fun r => negb (existsb (fun q => (nth 1 q 0 =? nth 1 r 0) && (nth 3 q 0 =? nth 3 r 0)) lrows)) frows.

Fixpoint zrange (k : Z) (n : nat) : list Z :=
  match n with O => [] | S n' => k :: zrange (k + 1) n' end.

Definition run (i : case_in) : case_out :=
  let '(cfgs, fades, ops, horizon, fuel) := i in
  let w0 := mkW (map (fun _ => None) cfgs) (map (fun f => mkLight f [] []) fades) [] in
  let '(w1, snaps) := run_ops (Z.to_nat fuel) cfgs ops w0 [] in
  let w2 := advance_to (Z.to_nat fuel) horizon w1 in
  let sids := zrange 0 (length cfgs) in
  (map (fun sid => filter (fun r => row_of sid r && (row_kind r <? 10)) (w_trace w2)) sids,
   map (fun sid => filter (fun r => row_of sid r && is_light_row r) (w_trace w2)) sids,
   map (fun sid => quiet_fade_rows (filter (fun r => row_of sid r && is_light_row r) (w_trace w2))
                                   (filter (fun r => row_of sid r && is_fade_row r) (w_trace w2))) sids,
   snaps ++ [snapshot w2],
   map show_final (w_shows w2)).

Definition out_eqb (a b : case_out) : bool :=
  let '(e1, l1, d1, s1, f1) := a in
  let '(e2, l2, d2, s2, f2) := b in
  list_eqb zss_eqb e1 e2 && list_eqb zss_eqb l1 l2 && list_eqb zss_eqb d1 d2 && list_eqb zss_eqb s1 s2 &&
  zss_eqb f1 f2.
