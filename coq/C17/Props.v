(* C17/Props.v — property theorems only.  Each is closed by [exact] of a lemma from Lemmas.v and followed
   by Print Assumptions (parsed by the check: must be "Closed under the global context").

   Property C17: a show started at t with speed s executes its k-th step exactly at t plus the durations
   of the preceding steps divided by s, with no cumulative drift over any number of loops, honouring start
   step, loop count, sync, pause, resume, advance and step-back requests, and posts its played, looped,
   completed and stopped events once each at the right moments.  When a show stops or completes, every
   effect it set under its own context is removed, leaving devices as if the show had never run.

   The model is of mpf/assets/show.py WITH fixes/C17-show-control-after-stop.patch (without it
   [stopped_is_final] and [stop_clears_context] are false of the code: a stopped show that gets an
   advance/step_back/resume request plays a step under its dead context, and resume on a running show
   starts a second timer chain).  One part of the full statement stays false of the patched code:
   "played is posted exactly once by every show that runs steps" — see [played_once_refuted] (recorded
   finding played-missing-request-before-sync-start); [events_once] is the part that holds for all
   histories (at most once each; completed only with stopped; stopped iff the show is stopped). *)
From Common Require Import Prelude.
From C17 Require Import Model Player Lemmas.
Open Scope Z_scope.

(* ---- schedule ------------------------------------------------------------------------------- *)
(* [executed c t0 k]: (step index, instant) of the steps a show played at t0 executes up to its k-th timer
   expiry when nothing but its own timer acts on it; [start_time] is t0, or the next sync boundary. *)
Theorem step_time_exact :
  forall (c : cfg) (t0 : Z) (k j : nat) (i tj : Z),
    c_steps c <> [] ->
    nth_error (executed c t0 k) j = Some (i, tj) ->
    tj = start_time c t0 + sum_before (c_steps c) (c_speed4 c) (executed c t0 k) j.
Proof. exact step_time_exact_l. Qed.
Print Assumptions step_time_exact.

(* no drift: with speed = speed4/4 dividing the durations exactly (always on the 125 ms grid with the
   speeds 0.25..4), speed * (t_j - start) = sum of the durations of the j preceding executed steps,
   an exact equality for every j, hence for every number of loops *)
Theorem no_drift :
  forall (c : cfg) (t0 : Z) (k j : nat) (i tj : Z),
    c_steps c <> [] -> 0 < c_speed4 c ->
    (forall m, (c_speed4 c | 4 * dur_of (c_steps c) m)) ->
    nth_error (executed c t0 k) j = Some (i, tj) ->
    c_speed4 c * (tj - start_time c t0) = 4 * dur_before (c_steps c) (executed c t0 k) j.
Proof. exact no_drift_l. Qed.
Print Assumptions no_drift.

(* the executed steps follow each other cyclically (wrap = loop) and are valid step numbers *)
Theorem step_order :
  forall (c : cfg) (t0 : Z) (k : nat),
    c_steps c <> [] -> consec_steps (Z.of_nat (length (c_steps c))) (executed c t0 k).
Proof. exact step_order_l. Qed.
Print Assumptions step_order.

Definition ex_cfg : cfg :=
  mkCfg [mkStep 500000 [(0, 1)]; mkStep 250000 [(0, 2); (1, 3)]; mkStep 375000 [(1, 0)]] 8 1 2 0 false true.
Example step_time_exact_ex :
  executed ex_cfg 1000000 9 =
  [(1, 1000000); (2, 1125000); (0, 1312500); (1, 1562500); (2, 1687500)] /\
  (forall m, (c_speed4 ex_cfg | 4 * dur_of (c_steps ex_cfg) m)).
Proof.
  split; [vm_compute; reflexivity|].
  intros m. unfold dur_of. cbn [c_steps c_speed4 ex_cfg].
  destruct (Z.to_nat m) as [|[|[|[|n]]]]; cbn; [exists 250000|exists 125000|exists 187500|exists 0|exists 0]; reflexivity.
Qed.
Print Assumptions step_time_exact_ex.

(* ---- events ---------------------------------------------------------------------------------- *)
(* for EVERY history h of requests (stop, pause, resume, advance n, step_back n, update, timer expiry) at
   any instants: played, stopped, completed at most once; completed only together with stopped;
   stopped posted iff the show is stopped (cnt c = number of events of kind c; 1 played, 3 completed,
   4 stopped) *)
Theorem events_once :
  forall (c : cfg) (t0 : Z) (h : list (Z * op)),
    c_steps c <> [] ->
    let r0 := fst (play_rs c t0) in
    let all := snd (play_rs c t0) ++ snd (run_hist r0 h) in
    let r := fst (run_hist r0 h) in
    (cnt 1 all <= 1)%nat /\ (cnt 4 all <= 1)%nat /\ (cnt 3 all <= cnt 4 all)%nat /\
    cnt 4 all = b2n (r_stopped r).
Proof. exact events_once_l. Qed.
Print Assumptions events_once.

(* a stopped show stays stopped, has no timer and does nothing (no light effect, no step, no played /
   completed / stopped event) whatever is requested afterwards *)
Theorem stopped_is_final :
  forall (h : list (Z * op)) (r : rs),
    wf r -> r_stopped r = true ->
    let r' := fst (run_hist r h) in
    let os := snd (run_hist r h) in
    r_stopped r' = true /\ r_timer r' = None /\ no_light_ops os /\ cnt 0 os = 0%nat /\
    cnt 1 os = 0%nat /\ cnt 3 os = 0%nat /\ cnt 4 os = 0%nat.
Proof. exact stopped_is_final_l. Qed.
Print Assumptions stopped_is_final.

Example events_once_ex :
  let h := [(1500000, Fire); (1600000, Pause); (1700000, Advance 2); (2075000, Fire); (2100000, StepBack 1);
            (2200000, Stop); (2300000, Resume); (2400000, Advance 1)] in
  let all := snd (play_rs ex_cfg 1000000) ++ snd (run_hist (fst (play_rs ex_cfg 1000000)) h) in
  cnt 1 all = 1%nat /\ cnt 4 all = 1%nat /\ cnt 0 all = 5%nat /\
  wf (fst (play_rs ex_cfg 1000000)).
Proof. vm_compute. repeat split; try discriminate. intros d b E. inversion E. reflexivity. Qed.
Print Assumptions events_once_ex.

(* the full statement "a show that executes steps posts played exactly once" is FALSE of the code
   (pause before the synchronised start, then resume): recorded finding *)
Theorem played_once_refuted :
  exists c t0 h,
    c_steps c <> [] /\
    let all := snd (play_rs c t0) ++ snd (run_hist (fst (play_rs c t0)) h) in
    (1 <= cnt 0 all)%nat /\ cnt 1 all = 0%nat.
Proof. exact played_once_refuted_l. Qed.
Print Assumptions played_once_refuted.

(* ---- control requests ------------------------------------------------------------------------ *)
(* resume / advance n / step_back n on a live show drop the pending timer, run the step
   norm_idx(target) at once with start_time = now, and re-anchor the schedule at now: the next deadline is
   now + duration/speed of that step (or there is none: hold / manual); or the show completes *)
Theorem control_reanchors :
  forall (now : Z) (o : op) (r : rs),
    is_control o = true -> r_stopped r = false -> r_steps r <> [] ->
    let r' := fst (apply_op now o r) in
    let os := snd (apply_op now o r) in
    Forall (set_starts_at now) os /\
    ((r_stopped r' = true /\ r_timer r' = None) \/
     (r_stopped r' = false /\
      let i := norm_idx r (target o r) in
      In (OEv 0 i) os /\ r_idx r' = i + 1 /\
      (r_timer r' = None \/
       (r_timer r' = Some (now + step_time r i, false) /\ r_nst r' = now + step_time r i /\
        0 < step_time r i)))).
Proof. exact control_reanchors_l. Qed.
Print Assumptions control_reanchors.

Theorem pause_holds :
  forall (now : Z) (r : rs) (k : nat),
    r_stopped r = false ->
    apply_op now Pause r = (set_timer r None, [OEv 5 0]) /\ free_steps k (set_timer r None) = [].
Proof. exact pause_holds_l. Qed.
Print Assumptions pause_holds.

Example control_reanchors_ex :
  let r := fst (play_rs ex_cfg 1000000) in
  is_control (StepBack 1) = true /\ r_stopped r = false /\
  snd (apply_op 1062500 (StepBack 1) r) = [OSet 0 1 1062500; OEv 0 0; OEv 8 0] /\
  r_timer (fst (apply_op 1062500 (StepBack 1) r)) = Some (1312500, false).
Proof. vm_compute. repeat split; reflexivity. Qed.
Print Assumptions control_reanchors_ex.

(* ---- clean-up -------------------------------------------------------------------------------- *)
(* [reach]: every world obtained from empty stacks of lights with ANY default fades by playing shows into free
   slots, by any requests (timer expiries included) for any show and by the expiry of any light's fade-out
   removal delay, at any instants.
   In every such world a stopped show owns no live entry on any light stack ([no_live]: what can be left of
   it is only the fade-out of an entry, on a light with a default fade or after `stop-f...`), and every such
   fade-out has its removal delay pending ([timed]). *)
Theorem stop_clears_context :
  forall (w : world) (sid : Z) (r : rs),
    reach w -> 0 <= sid -> get_show w sid = Some r -> r_stopped r = true ->
    no_live sid (w_lights w) /\ Forall (timed sid) (w_lights w).
Proof. exact stop_clears_context_l. Qed.
Print Assumptions stop_clears_context.

(* ... so once its removal delays have expired, nothing of the stopped show is left on any stack *)
Theorem stopped_and_faded_clean :
  forall (w : world) (sid : Z) (r : rs),
    reach w -> 0 <= sid -> get_show w sid = Some r -> r_stopped r = true ->
    Forall (fun L => proj sid (l_timers L) = []) (w_lights w) -> clean sid (w_lights w).
Proof. exact stopped_and_faded_clean_l. Qed.
Print Assumptions stopped_and_faded_clean.

(* "after stop plus the fade-out time": if every removal delay of the stopped show is due by t and the clock
   has fired everything due by t ([next_due_light] finds nothing), nothing of the show is left *)
Theorem stop_then_fade_clean :
  forall (w : world) (sid : Z) (r : rs) (t : Z),
    reach w -> 0 <= sid -> get_show w sid = Some r -> r_stopped r = true ->
    (forall L d, In L (w_lights w) -> In (sid, d) (l_timers L) -> d <= t) ->
    next_due_light t 0 (w_lights w) None = None ->
    clean sid (w_lights w).
Proof. exact stop_then_fade_clean_l. Qed.
Print Assumptions stop_then_fade_clean.

Theorem stop_request_clears :
  forall (w : world) (now sid : Z) (r : rs),
    reach w -> 0 <= sid -> get_show w sid = Some r -> no_live sid (w_lights (world_op now sid Stop w)).
Proof. exact stop_request_clears_l. Qed.
Print Assumptions stop_request_clears.

(* what stop() of a live show does to the lights, exactly: [clear_light] on every light, which turns a live
   entry of the show into a fade-out whose removal is due at now + the light's default fade (removes it at
   once when the light has none) and does not touch a light on which the show owns nothing live *)
Theorem stop_fades_out :
  forall (w : world) (now sid : Z) (r : rs),
    get_show w sid = Some r -> r_stopped r = false ->
    w_lights (world_op now sid Stop w) = map (clear_light sid now) (w_lights w).
Proof. exact stop_fades_out_l. Qed.
Print Assumptions stop_fades_out.

Theorem clear_light_spec :
  forall (sid now : Z) (L : light),
    (owns sid L = true -> 0 < l_fade L ->
       proj sid (l_stack (clear_light sid now L)) = [(sid, -1)] /\
       proj sid (l_timers (clear_light sid now L)) = [(sid, now + l_fade L)]) /\
    (owns sid L = true -> l_fade L <= 0 ->
       proj sid (l_stack (clear_light sid now L)) = [] /\ l_timers (clear_light sid now L) = l_timers L) /\
    (owns sid L = false -> clear_light sid now L = L).
Proof. exact clear_light_spec_l. Qed.
Print Assumptions clear_light_spec.

(* the removal delay of a key expires: its fade-out entry and the delay are gone; a live entry the key has
   set meanwhile stays *)
Theorem fade_out_ends :
  forall (sid : Z) (L : light),
    fading sid (fire_rem sid L) = false /\ owns sid (fire_rem sid L) = owns sid L /\
    proj sid (l_timers (fire_rem sid L)) = [].
Proof. exact fire_rem_spec. Qed.
Print Assumptions fade_out_ends.

(* frame: whatever is requested of show sid (stop and completion included), what every other show has on
   every light (entries AND pending fade-out removals) is exactly what it was; the same for the end of
   another key's fade-out *)
Theorem other_shows_untouched :
  forall (now sid : Z) (o : op) (w : world) (sid' : Z),
    sid' <> sid -> others sid' (w_lights (world_op now sid o w)) = others sid' (w_lights w).
Proof. exact world_op_frame. Qed.
Print Assumptions other_shows_untouched.

Theorem fade_end_touches_own_key_only :
  forall (d k key : Z) (w : world) (sid' : Z),
    sid' <> key -> others sid' (w_lights (world_fire d k key w)) = others sid' (w_lights w).
Proof. exact world_fire_frame. Qed.
Print Assumptions fade_end_touches_own_key_only.

(* once every show is stopped no show owns a live entry, and when the fade-outs have ended the stacks hold
   nothing of any show: as if none had ever run *)
Theorem all_stopped_all_dark :
  forall (w : world),
    reach w ->
    (forall sid r, 0 <= sid -> get_show w sid = Some r -> r_stopped r = true) ->
    forall sid, 0 <= sid ->
      no_live sid (w_lights w) /\
      (Forall (fun L => proj sid (l_timers L) = []) (w_lights w) -> clean sid (w_lights w)).
Proof. exact all_stopped_all_dark_l. Qed.
Print Assumptions all_stopped_all_dark.

(* two shows share light 0 (default fade 500 ms) and light 2 (250 ms); show 0 is stopped at 1.2 s, show 1 at
   1.3 s: both fade out independently, each removal at its own stop + fade *)
Definition ex_cfg_b : cfg := mkCfg [mkStep 1000000 [(0, 3); (2, 3)]] 4 (-1) 1 0 false true.
Definition ex_w0 : world := mkW (repeat None 2) (map (fun f => mkLight f [] []) [500000; 0; 250000; 0]) [].
Definition ex_world1 : world :=
  world_op 1125000 0 Fire (world_play 1100000 1 ex_cfg_b (world_play 1000000 0 ex_cfg ex_w0)).
Definition ex_world : world := world_op 1300000 1 Stop (world_op 1200000 0 Stop ex_world1).
Example stop_clears_context_ex :
  reach ex_world /\
  (exists r, get_show ex_world 0 = Some r /\ r_stopped r = true) /\
  map l_stack (w_lights ex_world1) = [[(0, 2); (1, 3)]; []; [(1, 3)]; []] /\
  w_lights ex_world =
    [mkLight 500000 [(0, -1); (1, -1)] [(0, 1700000); (1, 1800000)]; mkLight 0 [] [];
     mkLight 250000 [(1, -1)] [(1, 1550000)]; mkLight 0 [] []] /\
  w_lights (advance_to 10 1700000 ex_world) =
    [mkLight 500000 [(1, -1)] [(1, 1800000)]; mkLight 0 [] []; mkLight 250000 [] []; mkLight 0 [] []] /\
  next_due_light 1800000 0 (w_lights (advance_to 10 1800000 ex_world)) None = None /\
  map l_stack (w_lights (advance_to 10 1800000 ex_world)) = [[]; []; []; []].
Proof.
  split.
  - unfold ex_world, ex_world1, ex_w0. repeat (first [apply ROp | apply RPlay | apply R0]); try lia; try discriminate;
      vm_compute; try reflexivity; try lia.
  - split; [eexists; split; vm_compute; reflexivity|]. repeat split; vm_compute; reflexivity.
Qed.
Print Assumptions stop_clears_context_ex.

(* ---- loop count ------------------------------------------------------------------------------ *)
(* A show with loops = L >= 0 whose steps all have a positive duration/speed, not manual_advance, played
   running from step index i0 < n (any start_step: positive, 0 or negative), left to its own timers
   ([free_run k]: its next k timer expiries): executes exactly (L+1)*n - i0 steps, posts looped exactly L
   times, played once, then stops and completes once -- for every L, n, i0, as soon as k exceeds that
   number of steps. *)
Theorem loops_exact :
  forall (c : cfg) (t0 : Z) (k : nat),
    let n := Z.of_nat (length (c_steps c)) in
    c_steps c <> [] -> c_manual c = false -> c_running c = true -> 0 <= c_loops c ->
    (forall i, 0 <= i < n -> 0 < ttn (dur_of (c_steps c) i) (c_speed4 c)) ->
    start_idx c < n ->
    let T := (c_loops c + 1) * n - start_idx c in
    T < Z.of_nat k ->
    let r0 := fst (play_rs c t0) in
    let all := snd (play_rs c t0) ++ snd (free_run k r0) in
    r_stopped (fst (free_run k r0)) = true /\ Z.of_nat (cnt 0 all) = T /\ Z.of_nat (cnt 2 all) = c_loops c /\
    cnt 3 all = 1%nat /\ cnt 4 all = 1%nat /\ cnt 1 all = 1%nat.
Proof. exact loops_exact_l. Qed.
Print Assumptions loops_exact.

Example loops_exact_ex :
  start_idx ex_cfg = 1 /\ c_loops ex_cfg = 1 /\
  (forall i, 0 <= i < 3 -> 0 < ttn (dur_of (c_steps ex_cfg) i) (c_speed4 ex_cfg)) /\
  let all := snd (play_rs ex_cfg 1000000) ++ snd (free_run 6 (fst (play_rs ex_cfg 1000000))) in
  cnt 0 all = 5%nat /\ cnt 2 all = 1%nat /\ cnt 3 all = 1%nat.
Proof.
  split; [reflexivity|]. split; [reflexivity|]. split; [|vm_compute; repeat split; reflexivity].
  intros i Hi. assert (H : i = 0 \/ i = 1 \/ i = 2) by lia. destruct H as [->|[->| ->]]; vm_compute; reflexivity.
Qed.
Print Assumptions loops_exact_ex.

(* ---- show_player: the instance dictionary (Player.v) ------------------------------------------- *)
(* [preach]: every state of the player obtained from any reachable world by any actions (play into a free show
   id, stop, pause, resume, advance, step_back, update) for any (context, key), clear_context of any context,
   timer expiries of any show and removal-delay expiries of any light, at any instants.
   At most one running show per (context, key): two shows started through the player under the same
   (context, key) that both have not stopped are the same show. *)
Theorem one_show_per_key :
  forall (p : pstate) (k : ckey) (sid1 sid2 : Z) (r1 r2 : rs),
    preach p -> In (sid1, k) (p_hist p) -> In (sid2, k) (p_hist p) ->
    get_show (p_w p) sid1 = Some r1 -> get_show (p_w p) sid2 = Some r2 ->
    r_stopped r1 = false -> r_stopped r2 = false -> sid1 = sid2.
Proof. exact one_show_per_key_l. Qed.
Print Assumptions one_show_per_key.

(* the stop action for a key stops exactly the show bound to it: that show is stopped and owns no live light
   entry, the key is free, every other binding, every other show and what the other shows have on the lights
   are what they were *)
Theorem stop_by_key :
  forall (p : pstate) (now : Z) (k : ckey) (sid : Z),
    preach p -> lookup k (p_inst p) = Some sid ->
    let p' := p_act now k AStop p in
    (exists r', get_show (p_w p') sid = Some r' /\ r_stopped r' = true) /\
    no_live sid (w_lights (p_w p')) /\
    lookup k (p_inst p') = None /\
    (forall k', k' <> k -> lookup k' (p_inst p') = lookup k' (p_inst p)) /\
    (forall s, 0 <= s -> s <> sid -> get_show (p_w p') s = get_show (p_w p) s) /\
    (forall s, s <> sid -> others s (w_lights (p_w p')) = others s (w_lights (p_w p))).
Proof. exact stop_by_key_l. Qed.
Print Assumptions stop_by_key.

(* a mode stops (clear_context): every show ever started under its context is stopped and owns no live light
   entry, and the context's dictionary ends empty *)
Theorem mode_stop_clears :
  forall (p : pstate) (now ctx sid key : Z),
    preach p -> In (sid, (ctx, key)) (p_hist p) ->
    (exists r', get_show (p_w (p_clear now ctx p)) sid = Some r' /\ r_stopped r' = true) /\
    no_live sid (w_lights (p_w (p_clear now ctx p))) /\
    lookup (ctx, key) (p_inst (p_clear now ctx p)) = None.
Proof. exact mode_stop_clears_l. Qed.
Print Assumptions mode_stop_clears.

(* key (7,1): show 0 played, then show 1 played on the same key (show 0 is replaced), key (7,2): show 2 *)
Definition ex_p : pstate :=
  p_act 1300000 (7, 2) (APlay 2 ex_cfg_b)
    (p_act 1200000 (7, 1) (APlay 1 ex_cfg_b)
       (p_act 1000000 (7, 1) (APlay 0 ex_cfg)
          (mkP (mkW (repeat None 3) (map (fun f => mkLight f [] []) [500000; 0; 250000; 0]) []) [] []))).
Example one_show_per_key_ex :
  preach ex_p /\
  p_inst ex_p = [((7, 2), 2); ((7, 1), 1)] /\ p_hist ex_p = [(2, (7, 2)); (1, (7, 1)); (0, (7, 1))] /\
  map show_final (w_shows (p_w ex_p)) =
    [[1; 1; 2; 1; 1125000; -1]; [1; 0; 1; -1; 2200000; 2200000]; [1; 0; 1; -1; 2300000; 2300000]] /\
  map show_final (w_shows (p_w (p_clear 1400000 7 ex_p))) =
    [[1; 1; 2; 1; 1125000; -1]; [1; 1; 1; -1; 2200000; -1]; [1; 1; 1; -1; 2300000; -1]] /\
  p_inst (p_clear 1400000 7 ex_p) = [].
Proof.
  split.
  - unfold ex_p. repeat (first [apply PAct | apply P0 | apply (R0 3 [500000; 0; 250000; 0])]);
      cbn [act_ok]; repeat split; try lia; try discriminate; vm_compute; try reflexivity; try lia.
  - repeat split; vm_compute; reflexivity.
Qed.
Print Assumptions one_show_per_key_ex.

(* ==================================================================================================== *)
(* Second pass: token substitution + the per-token cache, replace_or_advance_show, callbacks (Replay.v)   *)
From C17 Require Import Replay ReplayLemmas.

(* Token substitutions: whatever was played before (any token dicts, any number of times, in any order), a
   play gets the steps of ITS OWN token dict put into the show's source steps. *)
Theorem token_cache_transparent :
  forall (src : list sstep) (hist : list toks) (tk : toks),
    snd (get_steps src (run_cache src hist) tk) = subst_steps tk src.
Proof. exact token_cache_transparent_l. Qed.
Print Assumptions token_cache_transparent.

(* two colours swapped between two plays: different steps, both right, the cache holds both *)
Definition ex_src : list sstep := [mkSS 250000 [(Tok 0, Tok 2); (Tok 1, Tok 3); (Lit 100, Tok 4)]; mkSS 125000 [(Lit 3, Tok 2)]].
Definition ex_tk1 : toks := [(0, 0); (1, 1); (2, 1); (3, 2); (4, 1)].
Definition ex_tk2 : toks := [(0, 0); (1, 1); (2, 2); (3, 1); (4, 1)].
Example token_cache_ex :
  snd (get_steps ex_src (run_cache ex_src [ex_tk1; ex_tk2; ex_tk1]) ex_tk2) =
    [mkStep 250000 [(0, 2); (1, 1); (100, 1)]; mkStep 125000 [(3, 2)]] /\
  snd (get_steps ex_src (run_cache ex_src [ex_tk2]) ex_tk1) =
    [mkStep 250000 [(0, 1); (1, 2); (100, 1)]; mkStep 125000 [(3, 1)]] /\
  length (run_cache ex_src [ex_tk1; ex_tk2; ex_tk1]) = 2%nat.
Proof. repeat split; vm_compute; reflexivity. Qed.
Print Assumptions token_cache_ex.

(* a cache keyed by the sorted token VALUES only is wrong: swapped colours get the other play's steps *)
Theorem cache_by_values_refuted :
  exists src tk1 tk2,
    let c1 := fst (get_steps_by_values src [] tk1) in
    snd (get_steps_by_values src c1 tk2) <> subst_steps tk2 src.
Proof. exact cache_by_values_refuted_l. Qed.
Print Assumptions cache_by_values_refuted.

(* replace_or_advance_show: after a play request the key is bound to the new show, or to the previous one
   when that one has NOT stopped and the decision was keep / advance *)
Theorem play_binds_live :
  forall (e : env) (now key slot : Z) (c : pcfg) (x : xstate),
    blookup key (x_bind (x_play e now key slot c x)) = Some slot \/
    exists o d, live_old x key = Some (o, d) /\ blookup key (x_bind (x_play e now key slot c x)) = Some o /\
                (roa (Some d) c = DKeep \/ roa (Some d) c = DAdvance).
Proof. exact play_binds_live_l. Qed.
Print Assumptions play_binds_live.

Theorem live_old_is_live :
  forall (x : xstate) (key o : Z) d,
    live_old x key = Some (o, d) ->
    blookup key (x_bind x) = Some o /\ exists r, get_show (x_w x) o = Some r /\ r_stopped r = false.
Proof. exact live_old_live. Qed.
Print Assumptions live_old_is_live.

(* no previous instance, or one that has stopped (explicitly or by completing): the request is never
   dropped, it plays a new show ... *)
Theorem dead_instance_replaced :
  forall (e : env) (now key slot : Z) (c : pcfg) (x : xstate),
    live_old x key = None -> x_play e now key slot c x = x_fresh e now key slot c None x.
Proof. exact dead_instance_replaced_l. Qed.
Print Assumptions dead_instance_replaced.

(* ... which is the show of the requested configuration from the requested start step, with the steps of the
   request's own token dict *)
Theorem fresh_show_spec :
  forall (e : env) (now key slot : Z) (c : pcfg) (scb : option Z) (x : xstate),
    caches_ok e x -> (Z.to_nat slot < length (w_shows (x_w x)))%nat ->
    let m := fst (pick e (x_cnt x) c) in
    get_show (x_w (x_fresh e now key slot c scb x)) slot =
    Some (fst (play_rs (mkCfg (subst_steps (pc_toks c) (nth (Z.to_nat m) (fst e) []))
                              (pc_speed4 c) (pc_loops c) (if pc_start c =? 0 then 1 else pc_start c)
                              (pc_sync c) (pc_manual c) (pc_running c)) now)).
Proof. exact fresh_show_spec_l. Qed.
Print Assumptions fresh_show_spec.

(* a one-step show with loops = 0 played on key 0, completed by itself, then the identical request again:
   a new running show (slot 1) is bound; while it runs the identical request keeps it (slot 2 stays free) *)
Definition ex_env : env := ([[mkSS 250000 [(Lit 0, Lit 1)]]], [(0, [0; 0])]).
Definition ex_pc : pcfg := mkPC 0 0 [] 0 4 0 1 0 false true false false.
Definition ex_x0 : xstate :=
  mkX (mkW (repeat None 3) (map (fun f => mkLight f [] []) [0; 0; 0; 0]) []) [] (repeat None 3) [[]] [0] [].
Definition ex_x1 : xstate := x_advance_to 50 1000000 (x_play ex_env 31250 0 0 ex_pc ex_x0).
Definition ex_x2 : xstate := x_play ex_env 1000000 0 1 ex_pc ex_x1.
Definition ex_x3 : xstate := x_play ex_env 1031250 0 2 ex_pc ex_x2.
Example replay_after_completion_ex :
  caches_ok ex_env ex_x0 /\
  bind_snap 1 ex_x1 = [[0; 1]; [1; -1; -1]] /\ live_old ex_x1 0 = None /\
  bind_snap 1 ex_x2 = [[1; 0]; [1; 0; -1]] /\
  bind_snap 1 ex_x3 = [[1; 0]; [1; 0; -1]].
Proof.
  split.
  - intros m tk s. destruct m as [|[|m]]; cbn; discriminate.
  - repeat split; vm_compute; reflexivity.
Qed.
Print Assumptions replay_after_completion_ex.

(* Callbacks.  A show that replaces another one in sync holds that show's stop as its start callback: when
   its start timer expires the replaced show is stopped at that very instant ... *)
Theorem sync_start_stops_replaced :
  forall (f : nat) (now sid : Z) (x : xstate) (r : rs) (d old : Z) (ro : rs),
    get_show (x_w x) sid = Some r -> r_timer r = Some (d, true) ->
    startcb_of x sid = Some old -> Z.to_nat old <> Z.to_nat sid -> get_show (x_w x) old = Some ro ->
    is_stopped (x_w (x_op (S f) now sid Fire x)) old = true.
Proof. exact sync_start_stops_replaced_l. Qed.
Print Assumptions sync_start_stops_replaced.

(* ... and so it is when the new show is stopped before it ever started *)
Theorem stop_before_start_stops_replaced :
  forall (f : nat) (now sid : Z) (x : xstate) (r : rs) (old : Z) (ro : rs),
    get_show (x_w x) sid = Some r -> r_stopped r = false ->
    startcb_of x sid = Some old -> Z.to_nat old <> Z.to_nat sid -> get_show (x_w x) old = Some ro ->
    is_stopped (x_w (x_op (S f) now sid Stop x)) old = true.
Proof. exact stop_before_start_stops_replaced_l. Qed.
Print Assumptions stop_before_start_stops_replaced.

(* the stop callback (queue.clear of block_queue) runs when the show stops ... *)
Theorem stop_callback_at_stop :
  forall (fuel : nat) (now sid : Z) (o : op) (x : xstate) (r : rs),
    get_show (x_w x) sid = Some r -> r_stopped r = false -> has_stopcb x sid = true -> startcb_of x sid = None ->
    is_stopped (world_op now sid o (x_w x)) sid = true ->
    cb_count sid (x_op fuel now sid o x) = S (cb_count sid x).
Proof. exact stop_callback_at_stop_l. Qed.
Print Assumptions stop_callback_at_stop.

(* ... and never again: over every sequence of requests and timer expiries (for any shows, with all the
   callback chains they cause) after the show has stopped, it stays stopped and gets no further callback *)
Theorem stop_callback_not_again :
  forall (fuel : nat) (reqs : list (Z * Z * op)) (x : xstate) (s : Z),
    is_stopped (x_w x) s = true ->
    cb_count s (fold_left (fun y q => x_op fuel (fst (fst q)) (snd (fst q)) (snd q) y) reqs x) = cb_count s x /\
    is_stopped (x_w (fold_left (fun y q => x_op fuel (fst (fst q)) (snd (fst q)) (snd q) y) reqs x)) s = true.
Proof. exact stop_callback_not_again_l. Qed.
Print Assumptions stop_callback_not_again.

(* an endless show (slot 0) on key 0 replaced in sync (500 ms) by a pool show with block_queue (slot 1): the
   old show runs on until the boundary, is stopped there; the new one is stopped later: one callback row *)
Definition ex_pc_long : pcfg := mkPC 0 0 [] 0 4 (-1) 1 0 false true false false.
Definition ex_pc_sync : pcfg := mkPC 100 0 [] 0 4 (-1) 1 500000 false true false true.
Definition ex_y1 : xstate := x_play ex_env 1031250 0 1 ex_pc_sync (x_play ex_env 31250 0 0 ex_pc_long ex_x0).
Definition ex_y2 : xstate := x_advance_to 50 1500000 ex_y1.
Definition ex_y3 : xstate := x_act ex_env 1600000 0 XStop ex_y2.
Example sync_replacement_ex :
  startcb_of ex_y1 1 = Some 0 /\ bind_snap 1 ex_y1 = [[1; 0]; [0; 0; -1]] /\
  bind_snap 1 ex_y2 = [[1; 0]; [1; 0; -1]] /\ startcb_of ex_y2 1 = None /\ x_cb ex_y2 = [] /\
  bind_snap 1 ex_y3 = [[-1; 0]; [1; 1; -1]] /\ x_cb ex_y3 = [[1; 1600000; 14; 0; 0; 0]] /\
  cb_count 1 (x_op 5 1700000 1 (Advance 1) ex_y3) = 1%nat.
Proof. repeat split; vm_compute; reflexivity. Qed.
Print Assumptions sync_replacement_ex.
