(* C17/Props.v — property theorems only.  Each is closed by [exact] of a lemma from Lemmas.v and followed
   by Print Assumptions (parsed by the check: must be "Closed under the global context").

   Property C17: a show started at t with speed s executes its k-th step exactly at t plus the durations
   of the preceding steps divided by s, with no cumulative drift over any number of loops, honouring start
   step, loop count, sync, pause, resume, advance and step-back requests, and posts its played, looped,
   completed and stopped events once each at the right moments.  When a show stops or completes, every
   effect it set under its own context is removed, leaving devices as if the show had never run.

   The model is of mpf/assets/show.py WITH fixes/C17-show-control-after-stop.patch (without it
   [stopped_is_final] and [stop_clears_context] are false of the code: a stopped show that gets an
   advance/step_back/resume request plays a step under its dead context, and resume on a running show
   starts a second timer chain).  One part of the full statement stays false of the patched code:
   "played is posted exactly once by every show that runs steps" — see [played_once_refuted] (recorded
   finding played-missing-request-before-sync-start); [events_once] is the part that holds for all
   histories (at most once each; completed only with stopped; stopped iff the show is stopped). *)
From Common Require Import Prelude.
From C17 Require Import Model Lemmas.
Open Scope Z_scope.

(* ---- schedule ------------------------------------------------------------------------------- *)
(* [executed c t0 k]: (step index, instant) of the steps a show played at t0 executes up to its k-th timer
   expiry when nothing but its own timer acts on it; [start_time] is t0, or the next sync boundary. *)
Theorem step_time_exact :
  forall (c : cfg) (t0 : Z) (k j : nat) (i tj : Z),
    c_steps c <> [] ->
    nth_error (executed c t0 k) j = Some (i, tj) ->
    tj = start_time c t0 + sum_before (c_steps c) (c_speed4 c) (executed c t0 k) j.
Proof. exact step_time_exact_l. Qed.
Print Assumptions step_time_exact.

(* no drift: with speed = speed4/4 dividing the durations exactly (always on the 125 ms grid with the
   speeds 0.25..4), speed * (t_j - start) = sum of the durations of the j preceding executed steps,
   an exact equality for every j, hence for every number of loops *)
Theorem no_drift :
  forall (c : cfg) (t0 : Z) (k j : nat) (i tj : Z),
    c_steps c <> [] -> 0 < c_speed4 c ->
    (forall m, (c_speed4 c | 4 * dur_of (c_steps c) m)) ->
    nth_error (executed c t0 k) j = Some (i, tj) ->
    c_speed4 c * (tj - start_time c t0) = 4 * dur_before (c_steps c) (executed c t0 k) j.
Proof. exact no_drift_l. Qed.
Print Assumptions no_drift.

(* the executed steps follow each other cyclically (wrap = loop) and are valid step numbers *)
Theorem step_order :
  forall (c : cfg) (t0 : Z) (k : nat),
    c_steps c <> [] -> consec_steps (Z.of_nat (length (c_steps c))) (executed c t0 k).
Proof. exact step_order_l. Qed.
Print Assumptions step_order.

Definition ex_cfg : cfg :=
  mkCfg [mkStep 500000 [(0, 1)]; mkStep 250000 [(0, 2); (1, 3)]; mkStep 375000 [(1, 0)]] 8 1 2 0 false true.
Example step_time_exact_ex :
  executed ex_cfg 1000000 9 =
  [(1, 1000000); (2, 1125000); (0, 1312500); (1, 1562500); (2, 1687500)] /\
  (forall m, (c_speed4 ex_cfg | 4 * dur_of (c_steps ex_cfg) m)).
Proof.
  split; [vm_compute; reflexivity|].
  intros m. unfold dur_of. cbn [c_steps c_speed4 ex_cfg].
  destruct (Z.to_nat m) as [|[|[|[|n]]]]; cbn; [exists 250000|exists 125000|exists 187500|exists 0|exists 0]; reflexivity.
Qed.
Print Assumptions step_time_exact_ex.

(* ---- events ---------------------------------------------------------------------------------- *)
(* for EVERY history h of requests (stop, pause, resume, advance n, step_back n, update, timer expiry) at
   any instants: played, stopped, completed at most once; completed only together with stopped;
   stopped posted iff the show is stopped (cnt c = number of events of kind c; 1 played, 3 completed,
   4 stopped) *)
Theorem events_once :
  forall (c : cfg) (t0 : Z) (h : list (Z * op)),
    c_steps c <> [] ->
    let r0 := fst (play_rs c t0) in
    let all := snd (play_rs c t0) ++ snd (run_hist r0 h) in
    let r := fst (run_hist r0 h) in
    (cnt 1 all <= 1)%nat /\ (cnt 4 all <= 1)%nat /\ (cnt 3 all <= cnt 4 all)%nat /\
    cnt 4 all = b2n (r_stopped r).
Proof. exact events_once_l. Qed.
Print Assumptions events_once.

(* a stopped show stays stopped, has no timer and does nothing (no light effect, no step, no played /
   completed / stopped event) whatever is requested afterwards *)
Theorem stopped_is_final :
  forall (h : list (Z * op)) (r : rs),
    wf r -> r_stopped r = true ->
    let r' := fst (run_hist r h) in
    let os := snd (run_hist r h) in
    r_stopped r' = true /\ r_timer r' = None /\ no_light_ops os /\ cnt 0 os = 0%nat /\
    cnt 1 os = 0%nat /\ cnt 3 os = 0%nat /\ cnt 4 os = 0%nat.
Proof. exact stopped_is_final_l. Qed.
Print Assumptions stopped_is_final.

Example events_once_ex :
  let h := [(1500000, Fire); (1600000, Pause); (1700000, Advance 2); (2075000, Fire); (2100000, StepBack 1);
            (2200000, Stop); (2300000, Resume); (2400000, Advance 1)] in
  let all := snd (play_rs ex_cfg 1000000) ++ snd (run_hist (fst (play_rs ex_cfg 1000000)) h) in
  cnt 1 all = 1%nat /\ cnt 4 all = 1%nat /\ cnt 0 all = 5%nat /\
  wf (fst (play_rs ex_cfg 1000000)).
Proof. vm_compute. repeat split; try discriminate. intros d b E. inversion E. reflexivity. Qed.
Print Assumptions events_once_ex.

(* the full statement "a show that executes steps posts played exactly once" is FALSE of the code
   (pause before the synchronised start, then resume): recorded finding *)
Theorem played_once_refuted :
  exists c t0 h,
    c_steps c <> [] /\
    let all := snd (play_rs c t0) ++ snd (run_hist (fst (play_rs c t0)) h) in
    (1 <= cnt 0 all)%nat /\ cnt 1 all = 0%nat.
Proof. exact played_once_refuted_l. Qed.
Print Assumptions played_once_refuted.

(* ---- control requests ------------------------------------------------------------------------ *)
(* resume / advance n / step_back n on a live show drop the pending timer, run the step
   norm_idx(target) at once with start_time = now, and re-anchor the schedule at now: the next deadline is
   now + duration/speed of that step (or there is none: hold / manual); or the show completes *)
Theorem control_reanchors :
  forall (now : Z) (o : op) (r : rs),
    is_control o = true -> r_stopped r = false -> r_steps r <> [] ->
    let r' := fst (apply_op now o r) in
    let os := snd (apply_op now o r) in
    Forall (set_starts_at now) os /\
    ((r_stopped r' = true /\ r_timer r' = None) \/
     (r_stopped r' = false /\
      let i := norm_idx r (target o r) in
      In (OEv 0 i) os /\ r_idx r' = i + 1 /\
      (r_timer r' = None \/
       (r_timer r' = Some (now + step_time r i, false) /\ r_nst r' = now + step_time r i /\
        0 < step_time r i)))).
Proof. exact control_reanchors_l. Qed.
Print Assumptions control_reanchors.

Theorem pause_holds :
  forall (now : Z) (r : rs) (k : nat),
    r_stopped r = false ->
    apply_op now Pause r = (set_timer r None, [OEv 5 0]) /\ free_steps k (set_timer r None) = [].
Proof. exact pause_holds_l. Qed.
Print Assumptions pause_holds.

Example control_reanchors_ex :
  let r := fst (play_rs ex_cfg 1000000) in
  is_control (StepBack 1) = true /\ r_stopped r = false /\
  snd (apply_op 1062500 (StepBack 1) r) = [OSet 0 1 1062500; OEv 0 0; OEv 8 0] /\
  r_timer (fst (apply_op 1062500 (StepBack 1) r)) = Some (1312500, false).
Proof. vm_compute. repeat split; reflexivity. Qed.
Print Assumptions control_reanchors_ex.

(* ---- clean-up -------------------------------------------------------------------------------- *)
(* [reach]: every world obtained from empty stacks by playing shows into free slots and by any requests
   (timer expiries included) for any show at any instants.  In every such world a stopped show owns no
   entry on any light stack. *)
Theorem stop_clears_context :
  forall (w : world) (sid : Z) (r : rs),
    reach w -> 0 <= sid -> get_show w sid = Some r -> r_stopped r = true -> clean sid (w_lights w).
Proof. exact stop_clears_context_l. Qed.
Print Assumptions stop_clears_context.

Theorem stop_request_clears :
  forall (w : world) (now sid : Z) (r : rs),
    reach w -> 0 <= sid -> get_show w sid = Some r -> clean sid (w_lights (world_op now sid Stop w)).
Proof. exact stop_request_clears_l. Qed.
Print Assumptions stop_request_clears.

(* frame: whatever is requested of show sid (stop and completion included), the entries every other show
   owns on every light are exactly what they were *)
Theorem other_shows_untouched :
  forall (now sid : Z) (o : op) (w : world) (sid' : Z),
    sid' <> sid -> others sid' (w_lights (world_op now sid o w)) = others sid' (w_lights w).
Proof. exact world_op_frame. Qed.
Print Assumptions other_shows_untouched.

(* once every show is stopped the stacks hold nothing of any show: as if none had ever run *)
Theorem all_stopped_all_dark :
  forall (w : world),
    reach w ->
    (forall sid r, 0 <= sid -> get_show w sid = Some r -> r_stopped r = true) ->
    forall sid, 0 <= sid -> clean sid (w_lights w).
Proof. exact all_stopped_all_dark_l. Qed.
Print Assumptions all_stopped_all_dark.

Definition ex_cfg_b : cfg := mkCfg [mkStep 1000000 [(0, 3); (2, 3)]] 4 (-1) 1 0 false true.
Definition ex_world : world :=
  world_op 1200000 0 Stop
    (world_op 1125000 0 Fire
       (world_play 1100000 1 ex_cfg_b
          (world_play 1000000 0 ex_cfg (mkW (repeat None 2) (repeat [] 4) [])))).
Example stop_clears_context_ex :
  reach ex_world /\
  (exists r, get_show ex_world 0 = Some r /\ r_stopped r = true) /\
  w_lights ex_world = [[(1, 3)]; []; [(1, 3)]; []] /\
  w_lights (world_op 1125000 0 Fire (world_play 1100000 1 ex_cfg_b
             (world_play 1000000 0 ex_cfg (mkW (repeat None 2) (repeat [] 4) [])))) =
  [[(0, 2); (1, 3)]; []; [(1, 3)]; []].
Proof.
  split.
  - unfold ex_world. repeat (first [apply ROp | apply RPlay | apply R0]); try lia; try discriminate;
      vm_compute; try reflexivity; try lia.
  - split; [eexists; split; vm_compute; reflexivity|]. split; vm_compute; reflexivity.
Qed.
Print Assumptions stop_clears_context_ex.
