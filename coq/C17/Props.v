(* C17/Props.v — property theorems only.  Each is closed by [exact] of a lemma from Lemmas.v and followed
   by Print Assumptions (parsed by the check: must be "Closed under the global context").

   Property C17: a show started at t with speed s executes its k-th step exactly at t plus the durations
   of the preceding steps divided by s, with no cumulative drift over any number of loops, honouring start
   step, loop count, sync, pause, resume, advance and step-back requests, and posts its played, looped,
   completed and stopped events once each at the right moments.  When a show stops or completes, every
   effect it set under its own context is removed, leaving devices as if the show had never run.

   The model is of mpf/assets/show.py WITH fixes/C17-show-control-after-stop.patch (without it
   [stopped_is_final] and [stop_clears_context] are false of the code: a stopped show that gets an
   advance/step_back/resume request plays a step under its dead context, and resume on a running show
   starts a second timer chain).  One part of the full statement stays false of the patched code:
   "played is posted exactly once by every show that runs steps" — see [played_once_refuted] (recorded
   finding played-missing-request-before-sync-start); [events_once] is the part that holds for all
   histories (at most once each; completed only with stopped; stopped iff the show is stopped). *)
From Common Require Import Prelude.
From C17 Require Import Model Player Lemmas.
Open Scope Z_scope.

(* ---- schedule ------------------------------------------------------------------------------- *)
(* [executed c t0 k]: (step index, instant) of the steps a show played at t0 executes up to its k-th timer
   expiry when nothing but its own timer acts on it; [start_time] is t0, or the next sync boundary. *)
Theorem step_time_exact :
  forall (c : cfg) (t0 : Z) (k j : nat) (i tj : Z),
    c_steps c <> [] ->
    nth_error (executed c t0 k) j = Some (i, tj) ->
    tj = start_time c t0 + sum_before (c_steps c) (c_speed4 c) (executed c t0 k) j.
Proof. exact step_time_exact_l. Qed.
Print Assumptions step_time_exact.

(* no drift: with speed = speed4/4 dividing the durations exactly (always on the 125 ms grid with the
   speeds 0.25..4), speed * (t_j - start) = sum of the durations of the j preceding executed steps,
   an exact equality for every j, hence for every number of loops *)
Theorem no_drift :
  forall (c : cfg) (t0 : Z) (k j : nat) (i tj : Z),
    c_steps c <> [] -> 0 < c_speed4 c ->
    (forall m, (c_speed4 c | 4 * dur_of (c_steps c) m)) ->
    nth_error (executed c t0 k) j = Some (i, tj) ->
    c_speed4 c * (tj - start_time c t0) = 4 * dur_before (c_steps c) (executed c t0 k) j.
Proof. exact no_drift_l. Qed.
Print Assumptions no_drift.

(* the executed steps follow each other cyclically (wrap = loop) and are valid step numbers *)
Theorem step_order :
  forall (c : cfg) (t0 : Z) (k : nat),
    c_steps c <> [] -> consec_steps (Z.of_nat (length (c_steps c))) (executed c t0 k).
Proof. exact step_order_l. Qed.
Print Assumptions step_order.

Definition ex_cfg : cfg :=
  mkCfg [mkStep 500000 [(0, 1)]; mkStep 250000 [(0, 2); (1, 3)]; mkStep 375000 [(1, 0)]] 8 1 2 0 false true.
Example step_time_exact_ex :
  executed ex_cfg 1000000 9 =
  [(1, 1000000); (2, 1125000); (0, 1312500); (1, 1562500); (2, 1687500)] /\
  (forall m, (c_speed4 ex_cfg | 4 * dur_of (c_steps ex_cfg) m)).
Proof.
  split; [vm_compute; reflexivity|].
  intros m. unfold dur_of. cbn [c_steps c_speed4 ex_cfg].
  destruct (Z.to_nat m) as [|[|[|[|n]]]]; cbn; [exists 250000|exists 125000|exists 187500|exists 0|exists 0]; reflexivity.
Qed.
Print Assumptions step_time_exact_ex.

(* ---- events ---------------------------------------------------------------------------------- *)
(* for EVERY history h of requests (stop, pause, resume, advance n, step_back n, update, timer expiry) at
   any instants: played, stopped, completed at most once; completed only together with stopped;
   stopped posted iff the show is stopped (cnt c = number of events of kind c; 1 played, 3 completed,
   4 stopped) *)
Theorem events_once :
  forall (c : cfg) (t0 : Z) (h : list (Z * op)),
    c_steps c <> [] ->
    let r0 := fst (play_rs c t0) in
    let all := snd (play_rs c t0) ++ snd (run_hist r0 h) in
    let r := fst (run_hist r0 h) in
    (cnt 1 all <= 1)%nat /\ (cnt 4 all <= 1)%nat /\ (cnt 3 all <= cnt 4 all)%nat /\
    cnt 4 all = b2n (r_stopped r).
Proof. exact events_once_l. Qed.
Print Assumptions events_once.

(* a stopped show stays stopped, has no timer and does nothing (no light effect, no step, no played /
   completed / stopped event) whatever is requested afterwards *)
Theorem stopped_is_final :
  forall (h : list (Z * op)) (r : rs),
    wf r -> r_stopped r = true ->
    let r' := fst (run_hist r h) in
    let os := snd (run_hist r h) in
    r_stopped r' = true /\ r_timer r' = None /\ no_light_ops os /\ cnt 0 os = 0%nat /\
    cnt 1 os = 0%nat /\ cnt 3 os = 0%nat /\ cnt 4 os = 0%nat.
Proof. exact stopped_is_final_l. Qed.
Print Assumptions stopped_is_final.

Example events_once_ex :
  let h := [(1500000, Fire); (1600000, Pause); (1700000, Advance 2); (2075000, Fire); (2100000, StepBack 1);
            (2200000, Stop); (2300000, Resume); (2400000, Advance 1)] in
  let all := snd (play_rs ex_cfg 1000000) ++ snd (run_hist (fst (play_rs ex_cfg 1000000)) h) in
  cnt 1 all = 1%nat /\ cnt 4 all = 1%nat /\ cnt 0 all = 5%nat /\
  wf (fst (play_rs ex_cfg 1000000)).
Proof. vm_compute. repeat split; try discriminate. intros d b E. inversion E. reflexivity. Qed.
Print Assumptions events_once_ex.

(* the full statement "a show that executes steps posts played exactly once" is FALSE of the code
   (pause before the synchronised start, then resume): recorded finding *)
Theorem played_once_refuted :
  exists c t0 h,
    c_steps c <> [] /\
    let all := snd (play_rs c t0) ++ snd (run_hist (fst (play_rs c t0)) h) in
    (1 <= cnt 0 all)%nat /\ cnt 1 all = 0%nat.
Proof. exact played_once_refuted_l. Qed.
Print Assumptions played_once_refuted.

(* ---- control requests ------------------------------------------------------------------------ *)
(* resume / advance n / step_back n on a live show drop the pending timer, run the step
   norm_idx(target) at once with start_time = now, and re-anchor the schedule at now: the next deadline is
   now + duration/speed of that step (or there is none: hold / manual); or the show completes *)
Theorem control_reanchors :
  forall (now : Z) (o : op) (r : rs),
    is_control o = true -> r_stopped r = false -> r_steps r <> [] ->
    let r' := fst (apply_op now o r) in
    let os := snd (apply_op now o r) in
    Forall (set_starts_at now) os /\
    ((r_stopped r' = true /\ r_timer r' = None) \/
     (r_stopped r' = false /\
      let i := norm_idx r (target o r) in
      In (OEv 0 i) os /\ r_idx r' = i + 1 /\
      (r_timer r' = None \/
       (r_timer r' = Some (now + step_time r i, false) /\ r_nst r' = now + step_time r i /\
        0 < step_time r i)))).
Proof. exact control_reanchors_l. Qed.
Print Assumptions control_reanchors.

Theorem pause_holds :
  forall (now : Z) (r : rs) (k : nat),
    r_stopped r = false ->
    apply_op now Pause r = (set_timer r None, [OEv 5 0]) /\ free_steps k (set_timer r None) = [].
Proof. exact pause_holds_l. Qed.
Print Assumptions pause_holds.

Example control_reanchors_ex :
  let r := fst (play_rs ex_cfg 1000000) in
  is_control (StepBack 1) = true /\ r_stopped r = false /\
  snd (apply_op 1062500 (StepBack 1) r) = [OSet 0 1 1062500; OEv 0 0; OEv 8 0] /\
  r_timer (fst (apply_op 1062500 (StepBack 1) r)) = Some (1312500, false).
Proof. vm_compute. repeat split; reflexivity. Qed.
Print Assumptions control_reanchors_ex.

(* ---- clean-up -------------------------------------------------------------------------------- *)
(* [reach]: every world obtained from empty stacks of lights with ANY default fades by playing shows into free
   slots, by any requests (timer expiries included) for any show and by the expiry of any light's fade-out
   removal delay, at any instants.
   In every such world a stopped show owns no live entry on any light stack ([no_live]: what can be left of
   it is only the fade-out of an entry, on a light with a default fade or after `stop-f...`), and every such
   fade-out has its removal delay pending ([timed]). *)
Theorem stop_clears_context :
  forall (w : world) (sid : Z) (r : rs),
    reach w -> 0 <= sid -> get_show w sid = Some r -> r_stopped r = true ->
    no_live sid (w_lights w) /\ Forall (timed sid) (w_lights w).
Proof. exact stop_clears_context_l. Qed.
Print Assumptions stop_clears_context.

(* ... so once its removal delays have expired, nothing of the stopped show is left on any stack *)
Theorem stopped_and_faded_clean :
  forall (w : world) (sid : Z) (r : rs),
    reach w -> 0 <= sid -> get_show w sid = Some r -> r_stopped r = true ->
    Forall (fun L => proj sid (l_timers L) = []) (w_lights w) -> clean sid (w_lights w).
Proof. exact stopped_and_faded_clean_l. Qed.
Print Assumptions stopped_and_faded_clean.

(* "after stop plus the fade-out time": if every removal delay of the stopped show is due by t and the clock
   has fired everything due by t ([next_due_light] finds nothing), nothing of the show is left *)
Theorem stop_then_fade_clean :
  forall (w : world) (sid : Z) (r : rs) (t : Z),
    reach w -> 0 <= sid -> get_show w sid = Some r -> r_stopped r = true ->
    (forall L d, In L (w_lights w) -> In (sid, d) (l_timers L) -> d <= t) ->
    next_due_light t 0 (w_lights w) None = None ->
    clean sid (w_lights w).
Proof. exact stop_then_fade_clean_l. Qed.
Print Assumptions stop_then_fade_clean.

Theorem stop_request_clears :
  forall (w : world) (now sid : Z) (r : rs),
    reach w -> 0 <= sid -> get_show w sid = Some r -> no_live sid (w_lights (world_op now sid Stop w)).
Proof. exact stop_request_clears_l. Qed.
Print Assumptions stop_request_clears.

(* what stop() of a live show does to the lights, exactly: [clear_light] on every light, which turns a live
   entry of the show into a fade-out whose removal is due at now + the light's default fade (removes it at
   once when the light has none) and does not touch a light on which the show owns nothing live *)
Theorem stop_fades_out :
  forall (w : world) (now sid : Z) (r : rs),
    get_show w sid = Some r -> r_stopped r = false ->
    w_lights (world_op now sid Stop w) = map (clear_light sid now) (w_lights w).
Proof. exact stop_fades_out_l. Qed.
Print Assumptions stop_fades_out.

Theorem clear_light_spec :
  forall (sid now : Z) (L : light),
    (owns sid L = true -> 0 < l_fade L ->
       proj sid (l_stack (clear_light sid now L)) = [(sid, -1)] /\
       proj sid (l_timers (clear_light sid now L)) = [(sid, now + l_fade L)]) /\
    (owns sid L = true -> l_fade L <= 0 ->
       proj sid (l_stack (clear_light sid now L)) = [] /\ l_timers (clear_light sid now L) = l_timers L) /\
    (owns sid L = false -> clear_light sid now L = L).
Proof. exact clear_light_spec_l. Qed.
Print Assumptions clear_light_spec.

(* the removal delay of a key expires: its fade-out entry and the delay are gone; a live entry the key has
   set meanwhile stays *)
Theorem fade_out_ends :
  forall (sid : Z) (L : light),
    fading sid (fire_rem sid L) = false /\ owns sid (fire_rem sid L) = owns sid L /\
    proj sid (l_timers (fire_rem sid L)) = [].
Proof. exact fire_rem_spec. Qed.
Print Assumptions fade_out_ends.

(* frame: whatever is requested of show sid (stop and completion included), what every other show has on
   every light (entries AND pending fade-out removals) is exactly what it was; the same for the end of
   another key's fade-out *)
Theorem other_shows_untouched :
  forall (now sid : Z) (o : op) (w : world) (sid' : Z),
    sid' <> sid -> others sid' (w_lights (world_op now sid o w)) = others sid' (w_lights w).
Proof. exact world_op_frame. Qed.
Print Assumptions other_shows_untouched.

Theorem fade_end_touches_own_key_only :
  forall (d k key : Z) (w : world) (sid' : Z),
    sid' <> key -> others sid' (w_lights (world_fire d k key w)) = others sid' (w_lights w).
Proof. exact world_fire_frame. Qed.
Print Assumptions fade_end_touches_own_key_only.

(* once every show is stopped no show owns a live entry, and when the fade-outs have ended the stacks hold
   nothing of any show: as if none had ever run *)
Theorem all_stopped_all_dark :
  forall (w : world),
    reach w ->
    (forall sid r, 0 <= sid -> get_show w sid = Some r -> r_stopped r = true) ->
    forall sid, 0 <= sid ->
      no_live sid (w_lights w) /\
      (Forall (fun L => proj sid (l_timers L) = []) (w_lights w) -> clean sid (w_lights w)).
Proof. exact all_stopped_all_dark_l. Qed.
Print Assumptions all_stopped_all_dark.

(* two shows share light 0 (default fade 500 ms) and light 2 (250 ms); show 0 is stopped at 1.2 s, show 1 at
   1.3 s: both fade out independently, each removal at its own stop + fade *)
Definition ex_cfg_b : cfg := mkCfg [mkStep 1000000 [(0, 3); (2, 3)]] 4 (-1) 1 0 false true.
Definition ex_w0 : world := mkW (repeat None 2) (map (fun f => mkLight f [] []) [500000; 0; 250000; 0]) [].
Definition ex_world1 : world :=
  world_op 1125000 0 Fire (world_play 1100000 1 ex_cfg_b (world_play 1000000 0 ex_cfg ex_w0)).
Definition ex_world : world := world_op 1300000 1 Stop (world_op 1200000 0 Stop ex_world1).
Example stop_clears_context_ex :
  reach ex_world /\
  (exists r, get_show ex_world 0 = Some r /\ r_stopped r = true) /\
  map l_stack (w_lights ex_world1) = [[(0, 2); (1, 3)]; []; [(1, 3)]; []] /\
  w_lights ex_world =
    [mkLight 500000 [(0, -1); (1, -1)] [(0, 1700000); (1, 1800000)]; mkLight 0 [] [];
     mkLight 250000 [(1, -1)] [(1, 1550000)]; mkLight 0 [] []] /\
  w_lights (advance_to 10 1700000 ex_world) =
    [mkLight 500000 [(1, -1)] [(1, 1800000)]; mkLight 0 [] []; mkLight 250000 [] []; mkLight 0 [] []] /\
  next_due_light 1800000 0 (w_lights (advance_to 10 1800000 ex_world)) None = None /\
  map l_stack (w_lights (advance_to 10 1800000 ex_world)) = [[]; []; []; []].
Proof.
  split.
  - unfold ex_world, ex_world1, ex_w0. repeat (first [apply ROp | apply RPlay | apply R0]); try lia; try discriminate;
      vm_compute; try reflexivity; try lia.
  - split; [eexists; split; vm_compute; reflexivity|]. repeat split; vm_compute; reflexivity.
Qed.
Print Assumptions stop_clears_context_ex.

(* ---- loop count ------------------------------------------------------------------------------ *)
(* A show with loops = L >= 0 whose steps all have a positive duration/speed, not manual_advance, played
   running from step index i0 < n (any start_step: positive, 0 or negative), left to its own timers
   ([free_run k]: its next k timer expiries): executes exactly (L+1)*n - i0 steps, posts looped exactly L
   times, played once, then stops and completes once -- for every L, n, i0, as soon as k exceeds that
   number of steps. *)
Theorem loops_exact :
  forall (c : cfg) (t0 : Z) (k : nat),
    let n := Z.of_nat (length (c_steps c)) in
    c_steps c <> [] -> c_manual c = false -> c_running c = true -> 0 <= c_loops c ->
    (forall i, 0 <= i < n -> 0 < ttn (dur_of (c_steps c) i) (c_speed4 c)) ->
    start_idx c < n ->
    let T := (c_loops c + 1) * n - start_idx c in
    T < Z.of_nat k ->
    let r0 := fst (play_rs c t0) in
    let all := snd (play_rs c t0) ++ snd (free_run k r0) in
    r_stopped (fst (free_run k r0)) = true /\ Z.of_nat (cnt 0 all) = T /\ Z.of_nat (cnt 2 all) = c_loops c /\
    cnt 3 all = 1%nat /\ cnt 4 all = 1%nat /\ cnt 1 all = 1%nat.
Proof. exact loops_exact_l. Qed.
Print Assumptions loops_exact.

Example loops_exact_ex :
  start_idx ex_cfg = 1 /\ c_loops ex_cfg = 1 /\
  (forall i, 0 <= i < 3 -> 0 < ttn (dur_of (c_steps ex_cfg) i) (c_speed4 ex_cfg)) /\
  let all := snd (play_rs ex_cfg 1000000) ++ snd (free_run 6 (fst (play_rs ex_cfg 1000000))) in
  cnt 0 all = 5%nat /\ cnt 2 all = 1%nat /\ cnt 3 all = 1%nat.
Proof.
  split; [reflexivity|]. split; [reflexivity|]. split; [|vm_compute; repeat split; reflexivity].
  intros i Hi. assert (H : i = 0 \/ i = 1 \/ i = 2) by lia. destruct H as [->|[->| ->]]; vm_compute; reflexivity.
Qed.
Print Assumptions loops_exact_ex.

(* ---- show_player: the instance dictionary (Player.v) ------------------------------------------- *)
(* [preach]: every state of the player obtained from any reachable world by any actions (play into a free show
   id, stop, pause, resume, advance, step_back, update) for any (context, key), clear_context of any context,
   timer expiries of any show and removal-delay expiries of any light, at any instants.
   At most one running show per (context, key): two shows started through the player under the same
   (context, key) that both have not stopped are the same show. *)
Theorem one_show_per_key :
  forall (p : pstate) (k : ckey) (sid1 sid2 : Z) (r1 r2 : rs),
    preach p -> In (sid1, k) (p_hist p) -> In (sid2, k) (p_hist p) ->
    get_show (p_w p) sid1 = Some r1 -> get_show (p_w p) sid2 = Some r2 ->
    r_stopped r1 = false -> r_stopped r2 = false -> sid1 = sid2.
Proof. exact one_show_per_key_l. Qed.
Print Assumptions one_show_per_key.

(* the stop action for a key stops exactly the show bound to it: that show is stopped and owns no live light
   entry, the key is free, every other binding, every other show and what the other shows have on the lights
   are what they were *)
Theorem stop_by_key :
  forall (p : pstate) (now : Z) (k : ckey) (sid : Z),
    preach p -> lookup k (p_inst p) = Some sid ->
    let p' := p_act now k AStop p in
    (exists r', get_show (p_w p') sid = Some r' /\ r_stopped r' = true) /\
    no_live sid (w_lights (p_w p')) /\
    lookup k (p_inst p') = None /\
    (forall k', k' <> k -> lookup k' (p_inst p') = lookup k' (p_inst p)) /\
    (forall s, 0 <= s -> s <> sid -> get_show (p_w p') s = get_show (p_w p) s) /\
    (forall s, s <> sid -> others s (w_lights (p_w p')) = others s (w_lights (p_w p))).
Proof. exact stop_by_key_l. Qed.
Print Assumptions stop_by_key.

(* a mode stops (clear_context): every show ever started under its context is stopped and owns no live light
   entry, and the context's dictionary ends empty *)
Theorem mode_stop_clears :
  forall (p : pstate) (now ctx sid key : Z),
    preach p -> In (sid, (ctx, key)) (p_hist p) ->
    (exists r', get_show (p_w (p_clear now ctx p)) sid = Some r' /\ r_stopped r' = true) /\
    no_live sid (w_lights (p_w (p_clear now ctx p))) /\
    lookup (ctx, key) (p_inst (p_clear now ctx p)) = None.
Proof. exact mode_stop_clears_l. Qed.
Print Assumptions mode_stop_clears.

(* key (7,1): show 0 played, then show 1 played on the same key (show 0 is replaced), key (7,2): show 2 *)
Definition ex_p : pstate :=
  p_act 1300000 (7, 2) (APlay 2 ex_cfg_b)
    (p_act 1200000 (7, 1) (APlay 1 ex_cfg_b)
       (p_act 1000000 (7, 1) (APlay 0 ex_cfg)
          (mkP (mkW (repeat None 3) (map (fun f => mkLight f [] []) [500000; 0; 250000; 0]) []) [] []))).
Example one_show_per_key_ex :
  preach ex_p /\
  p_inst ex_p = [((7, 2), 2); ((7, 1), 1)] /\ p_hist ex_p = [(2, (7, 2)); (1, (7, 1)); (0, (7, 1))] /\
  map show_final (w_shows (p_w ex_p)) =
    [[1; 1; 2; 1; 1125000; -1]; [1; 0; 1; -1; 2200000; 2200000]; [1; 0; 1; -1; 2300000; 2300000]] /\
  map show_final (w_shows (p_w (p_clear 1400000 7 ex_p))) =
    [[1; 1; 2; 1; 1125000; -1]; [1; 1; 1; -1; 2200000; -1]; [1; 1; 1; -1; 2300000; -1]] /\
  p_inst (p_clear 1400000 7 ex_p) = [].
Proof.
  split.
  - unfold ex_p. repeat (first [apply PAct | apply P0 | apply (R0 3 [500000; 0; 250000; 0])]);
      cbn [act_ok]; repeat split; try lia; try discriminate; vm_compute; try reflexivity; try lia.
  - repeat split; vm_compute; reflexivity.
Qed.
Print Assumptions one_show_per_key_ex.
