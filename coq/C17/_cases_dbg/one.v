From Common Require Import Prelude.
From C17 Require Import Model.
Definition run := C17.Model.run.
Definition out_eqb := C17.Model.out_eqb.

Definition c := (([(mkCfg [(mkStep 1000000 [(2,5);(3,5)]);(mkStep 250000 [(1,4);(2,3)])] 1 2 1 500000 false false)], [(0,0,UPlay)], 500000, 27), ([[[0;500000;0;0;0;0];[0;500000;1;0;0;0]]], [[[0;500000;10;2;5;500000];[0;500000;10;3;5;500000]]], [[[];[];[];[]];[[];[];[0;5];[0;5]]], [[1;0;1;2;500000;500000]])).
Eval vm_compute in (run (fst c)).
