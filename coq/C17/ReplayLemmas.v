(* C17/ReplayLemmas.v — proofs about Replay.v: token cache, replace_or_advance_show, callbacks. *)
From Common Require Import Prelude.
From C17 Require Import Model Player Replay Lemmas.
Open Scope Z_scope.

(* ------------------------------------------------------------------------------------------ *)
(* token substitution and the per-token cache                                                  *)
Lemma pair_eqb_eq x y : pair_eqb x y = true <-> x = y.
Proof.
  unfold pair_eqb. destruct x as [a b], y as [c d]. cbn. rewrite andb_true_iff, !Z.eqb_eq.
  split; [intros [-> ->]; reflexivity | intros H; inversion H; auto].
Qed.

Lemma toks_eqb_eq a b : toks_eqb a b = true <-> a = b.
Proof. apply list_eqb_spec. apply pair_eqb_eq. Qed.

(* every entry of the cache is the substitution of its own key *)
Definition cache_ok (src : list sstep) (c : cache) : Prop :=
  forall tk s, cfind tk c = Some s -> s = subst_steps tk src.

Lemma resolve_lit tk tk' r : is_tok r = false -> resolve tk r = resolve tk' r.
Proof. destruct r; cbn; [reflexivity | discriminate]. Qed.

Lemma subst_no_tokens src tk tk' : uses_tokens src = false -> subst_steps tk src = subst_steps tk' src.
Proof.
  unfold uses_tokens, subst_steps. induction src as [|s src IH]; cbn; [reflexivity|].
  intros H. apply orb_false_iff in H. destruct H as [Hs Hr]. rewrite (IH Hr). f_equal.
  unfold subst_step. f_equal. unfold step_has_tok in Hs.
  induction (ss_acts s) as [|a l IHl]; cbn in *; [reflexivity|].
  apply orb_false_iff in Hs. destruct Hs as [Ha Hl]. apply orb_false_iff in Ha. destruct Ha as [H1 H2].
  rewrite (IHl Hl). f_equal. f_equal; apply resolve_lit; assumption.
Qed.

Lemma get_steps_spec src c tk :
  cache_ok src c ->
  snd (get_steps src c tk) = subst_steps tk src /\ cache_ok src (fst (get_steps src c tk)).
Proof.
  intros Hc. unfold get_steps. destruct tk as [|p tk'].
  - cbn. split; [reflexivity | exact Hc].
  - destruct (uses_tokens src) eqn:U.
    + destruct (cfind (p :: tk') c) as [s|] eqn:F; cbn [fst snd].
      * split; [apply Hc; exact F | exact Hc].
      * split; [reflexivity|]. intros tk s. cbn [cfind].
        destruct (toks_eqb tk (p :: tk')) eqn:E.
        -- apply toks_eqb_eq in E. subst tk. intros H. inversion H. reflexivity.
        -- apply Hc.
    + cbn [fst snd]. split; [apply subst_no_tokens; exact U | exact Hc].
Qed.

Lemma run_cache_ok src hist : cache_ok src (run_cache src hist).
Proof.
  induction hist as [|tk h IH]; cbn.
  - intros tk s H. discriminate.
  - apply get_steps_spec. exact IH.
Qed.

(* whatever was played before (any token dicts, in any order, any number of times), a play gets the steps
   of ITS token dict *)
Lemma token_cache_transparent_l src hist tk :
  snd (get_steps src (run_cache src hist) tk) = subst_steps tk src.
Proof. apply get_steps_spec. apply run_cache_ok. Qed.

(* a cache keyed by the sorted token values only does not have this property *)
Lemma cache_by_values_refuted_l :
  exists src tk1 tk2,
    let c1 := fst (get_steps_by_values src [] tk1) in
    snd (get_steps_by_values src c1 tk2) <> subst_steps tk2 src.
Proof.
  exists [mkSS 250000 [(Tok 0, Tok 2); (Tok 1, Tok 3)]].
  exists [(0, 0); (1, 1); (2, 1); (3, 2)].
  exists [(0, 0); (1, 1); (2, 2); (3, 1)].
  vm_compute. discriminate.
Qed.

(* ------------------------------------------------------------------------------------------ *)
(* replace_or_advance_show                                                                     *)
Lemma blookup_bbind_same k v b : blookup k (bbind k v b) = Some v.
Proof. unfold bbind. cbn. rewrite Z.eqb_refl. reflexivity. Qed.

Lemma x_fresh_bind e now key slot c scb x : blookup key (x_bind (x_fresh e now key slot c scb x)) = Some slot.
Proof.
  unfold x_fresh. destruct (pick e (x_cnt x) c) as [m cnt'].
  destruct (get_steps _ _ _) as [cache' steps].
  match goal with |- context [if ?b then _ else _] => destruct b end; cbn; rewrite Z.eqb_refl; reflexivity.
Qed.

(* the decision keeps / advances the previous instance only when there is one that has NOT stopped *)
Lemma roa_keeps_only_live old c : roa old c = DKeep \/ roa old c = DAdvance -> old <> None.
Proof. destruct old; cbn; [discriminate | intros [H|H]; discriminate]. Qed.

Lemma live_old_live x key o d :
  live_old x key = Some (o, d) ->
  blookup key (x_bind x) = Some o /\ exists r, get_show (x_w x) o = Some r /\ r_stopped r = false.
Proof.
  unfold live_old. destruct (blookup key (x_bind x)) as [o'|]; [|discriminate].
  destruct (get_show (x_w x) o') as [r|] eqn:E; [|discriminate].
  destruct (get_inst x o') as [i|]; [|discriminate].
  destruct (r_stopped r) eqn:S; [discriminate|]. intros H. inversion H. subst. split; [reflexivity|].
  exists r. split; [exact E | exact S].
Qed.

(* no (or a dead: stopped / completed) previous instance: the play request always creates a new show *)
Lemma dead_instance_replaced_l e now key slot c x :
  live_old x key = None -> x_play e now key slot c x = x_fresh e now key slot c None x.
Proof. intros H. unfold x_play. rewrite H. reflexivity. Qed.

Lemma x_op_bind : forall fuel now sid o x, x_bind (x_op fuel now sid o x) = x_bind x.
Proof.
  induction fuel as [|f IH]; intros now sid o x; cbn [x_op];
    destruct (get_show (x_w x) sid) as [r|]; try reflexivity.
  - repeat match goal with |- context [if ?b then _ else _] => destruct b end;
      try destruct (startcb_of x sid); reflexivity.
  - repeat match goal with |- context [if ?b then _ else _] => destruct b end;
      try destruct (startcb_of x sid); try rewrite IH; reflexivity.
Qed.

(* after a play request the key is bound: to the new show, or to the previous one which has not stopped *)
Lemma play_binds_live_l e now key slot c x :
  blookup key (x_bind (x_play e now key slot c x)) = Some slot \/
  exists o d, live_old x key = Some (o, d) /\ blookup key (x_bind (x_play e now key slot c x)) = Some o /\
              (roa (Some d) c = DKeep \/ roa (Some d) c = DAdvance).
Proof.
  unfold x_play. destruct (live_old x key) as [[o d]|] eqn:L.
  - destruct (live_old_live _ _ _ _ L) as (Hb & _).
    destruct (roa (Some d) c) eqn:R.
    + right. exists o, d. repeat split; auto.
    + right. exists o, d. repeat split; auto. rewrite x_op_bind. exact Hb.
    + left. destruct (pc_sync c =? 0); apply x_fresh_bind.
    + left. destruct (pc_sync c =? 0); apply x_fresh_bind.
  - left. apply x_fresh_bind.
Qed.

(* the new show is the show of the requested configuration, started at the requested step, with the steps of
   ITS token dict (given that the caches are what plays made them) *)
Definition caches_ok (e : env) (x : xstate) : Prop :=
  forall m, cache_ok (nth m (fst e) []) (nth m (x_caches x) []).

Lemma fresh_show_spec_l e now key slot c scb x :
  caches_ok e x -> (Z.to_nat slot < length (w_shows (x_w x)))%nat ->
  let m := fst (pick e (x_cnt x) c) in
  get_show (x_w (x_fresh e now key slot c scb x)) slot =
  Some (fst (play_rs (mkCfg (subst_steps (pc_toks c) (nth (Z.to_nat m) (fst e) []))
                            (pc_speed4 c) (pc_loops c) (if pc_start c =? 0 then 1 else pc_start c)
                            (pc_sync c) (pc_manual c) (pc_running c)) now)).
Proof.
  intros Hc Hlt. cbn zeta. unfold x_fresh. destruct (pick e (x_cnt x) c) as [m cnt']. cbn [fst].
  pose proof (get_steps_spec (nth (Z.to_nat m) (fst e) []) (nth (Z.to_nat m) (x_caches x) []) (pc_toks c)
                             (Hc (Z.to_nat m))) as [Hs _].
  destruct (get_steps _ _ _) as [cache' steps]. cbn [snd] in Hs. subst steps.
  match goal with |- context [if ?b then _ else _] => destruct b end; cbn [x_w add_cb];
    apply get_show_play_same; exact Hlt.
Qed.

(* ------------------------------------------------------------------------------------------ *)
(* callbacks                                                                                    *)
Definition stopped_at (w : world) (n : nat) : bool :=
  match nth n (w_shows w) None with Some r => r_stopped r | None => false end.

Lemma run_next_keeps_stopped post pa r : r_stopped r = true -> r_stopped (fst (run_next post pa r)) = true.
Proof.
  intros S. unfold run_next.
  match goal with |- context [if ?b then _ else _] => destruct b end.
  - unfold do_stop. cbn [r_stopped set_idx]. rewrite S. cbn. exact S.
  - cbn. exact S.
Qed.

Lemma apply_op_keeps_stopped now o r : r_stopped r = true -> r_stopped (fst (apply_op now o r)) = true.
Proof.
  intros S. destruct o; cbn [apply_op]; try (rewrite S; cbn; exact S).
  - unfold do_stop. rewrite S. exact S.
  - cbn. exact S.
  - destruct (r_timer r) as [[d [|]]|]; [| |exact S].
    + unfold start_now. apply run_next_keeps_stopped. exact S.
    + apply run_next_keeps_stopped. exact S.
Qed.

Lemma world_op_keeps_stopped now sid o w n :
  stopped_at w n = true -> stopped_at (world_op now sid o w) n = true.
Proof.
  intros H. destruct (get_show w sid) as [r|] eqn:E.
  - rewrite (world_op_eq _ _ _ _ _ E). unfold stopped_at in *. cbn [w_shows].
    destruct (Nat.eq_dec (Z.to_nat sid) n) as [<-|Hd].
    + pose proof (get_show_some_lt _ _ _ E) as Hlt. rewrite nth_upd_same by exact Hlt.
      unfold get_show in E. rewrite E in H. apply apply_op_keeps_stopped. exact H.
    + rewrite nth_upd_other by exact Hd. exact H.
  - unfold world_op. rewrite E. exact H.
Qed.

Lemma x_op_keeps_stopped : forall fuel now sid o x n,
  stopped_at (x_w x) n = true -> stopped_at (x_w (x_op fuel now sid o x)) n = true.
Proof.
  induction fuel as [|f IH]; intros now sid o x n H; cbn [x_op];
    destruct (get_show (x_w x) sid) as [r|]; try exact H.
  - repeat match goal with |- context [if ?b then _ else _] => destruct b end;
      try destruct (startcb_of x sid); cbn [x_w set_w add_cb]; apply world_op_keeps_stopped; exact H.
  - repeat match goal with |- context [if ?b then _ else _] => destruct b end;
      try destruct (startcb_of x sid); try apply IH; cbn [x_w set_w add_cb clear_startcb];
      apply world_op_keeps_stopped; exact H.
Qed.

Lemma is_stopped_at w sid : is_stopped w sid = stopped_at w (Z.to_nat sid).
Proof. reflexivity. Qed.

(* stop() of show [old] through x_op: afterwards it is stopped (whatever chain of callbacks follows) *)
Lemma x_op_stop_stops fuel now old x r :
  get_show (x_w x) old = Some r -> is_stopped (x_w (x_op fuel now old Stop x)) old = true.
Proof.
  intros E. rewrite is_stopped_at.
  assert (H1 : stopped_at (world_op now old Stop (x_w x)) (Z.to_nat old) = true).
  { destruct (stop_stops now old (x_w x) r E) as (r' & E' & S'). unfold stopped_at. unfold get_show in E'.
    rewrite E'. exact S'. }
  destruct fuel as [|f]; cbn [x_op]; rewrite E;
    repeat match goal with |- context [if ?b then _ else _] => destruct b end;
    try destruct (startcb_of x old); try apply x_op_keeps_stopped; cbn [x_w set_w add_cb clear_startcb]; exact H1.
Qed.

(* the synchronised start of a show that replaces another one (its start callback is that show's stop):
   when its start timer expires the replaced show is stopped, at that very request *)
Lemma sync_start_stops_replaced_l f now sid x r d old ro :
  get_show (x_w x) sid = Some r -> r_timer r = Some (d, true) ->
  startcb_of x sid = Some old -> Z.to_nat old <> Z.to_nat sid -> get_show (x_w x) old = Some ro ->
  is_stopped (x_w (x_op (S f) now sid Fire x)) old = true.
Proof.
  intros E T C Hd Eo. cbn [x_op]. rewrite E, T, C. cbn [orb].
  match goal with |- context [x_op f now old Stop ?y] => set (x3 := y) end.
  assert (E3 : get_show (x_w x3) old = Some ro).
  { subst x3. match goal with |- context [if ?b then _ else _] => destruct b end;
      cbn [x_w clear_startcb set_w add_cb]; rewrite (world_op_eq _ _ _ _ _ E); unfold get_show; cbn [w_shows];
      rewrite nth_upd_other by (intro Q; apply Hd; symmetry; exact Q); exact Eo. }
  eapply x_op_stop_stops. exact E3.
Qed.

(* ... and so it is when the new show is stopped before it ever started *)
Lemma stop_before_start_stops_replaced_l f now sid x r old ro :
  get_show (x_w x) sid = Some r -> r_stopped r = false ->
  startcb_of x sid = Some old -> Z.to_nat old <> Z.to_nat sid -> get_show (x_w x) old = Some ro ->
  is_stopped (x_w (x_op (S f) now sid Stop x)) old = true.
Proof.
  intros E S C Hd Eo. cbn [x_op]. rewrite E, C.
  assert (St : is_stopped (world_op now sid Stop (x_w x)) sid = true).
  { destruct (stop_stops now sid (x_w x) r E) as (r' & E' & S'). unfold is_stopped. rewrite E'. exact S'. }
  rewrite S, St. cbn [negb andb orb].
  match goal with |- context [x_op f now old Stop ?y] => set (x3 := y) end.
  assert (E3 : get_show (x_w x3) old = Some ro).
  { subst x3. match goal with |- context [if ?b then _ else _] => destruct b end;
      cbn [x_w clear_startcb set_w add_cb]; rewrite (world_op_eq _ _ _ _ _ E); unfold get_show; cbn [w_shows];
      rewrite nth_upd_other by (intro Q; apply Hd; symmetry; exact Q); exact Eo. }
  eapply x_op_stop_stops. exact E3.
Qed.

(* the stop callback: a request adds a callback row for show [sid] only when [sid] goes from running to
   stopped by it; a show that is stopped already never gets another one *)
Definition cb_count (sid : Z) (x : xstate) : nat := length (filter (row_of sid) (x_cb x)).

Lemma cb_count_add sid r x : cb_count sid (add_cb r x) = (cb_count sid x + (if row_of sid r then 1 else 0))%nat.
Proof. unfold cb_count, add_cb. cbn [x_cb]. rewrite filter_app, app_length. cbn. destruct (row_of sid r); reflexivity. Qed.

Lemma x_op_cb_stopped : forall fuel now sid o x s,
  is_stopped (x_w x) s = true -> cb_count s (x_op fuel now sid o x) = cb_count s x.
Proof.
  induction fuel as [|f IH]; intros now sid o x s St; cbn [x_op];
    destruct (get_show (x_w x) sid) as [r|] eqn:E; try reflexivity.
  all: set (x2 := if negb (r_stopped r) && is_stopped (world_op now sid o (x_w x)) sid && has_stopcb x sid
                  then add_cb [sid; now; 14; 0; 0; 0] (set_w x (world_op now sid o (x_w x)))
                  else set_w x (world_op now sid o (x_w x))).
  all: assert (Hbase : cb_count s x2 = cb_count s x).
  1,3: subst x2;
       destruct (negb (r_stopped r) && is_stopped (world_op now sid o (x_w x)) sid && has_stopcb x sid) eqn:B;
       [ rewrite cb_count_add;
         assert (Hrow : row_of s [sid; now; 14; 0; 0; 0] = false);
         [ unfold row_of; cbn; apply Z.eqb_neq; intros ->; unfold is_stopped in St; rewrite E in St;
           rewrite St in B; discriminate
         | rewrite Hrow; unfold cb_count; cbn; lia ]
       | reflexivity ].
  - repeat match goal with |- context [if ?b then _ else _] => destruct b end;
      try destruct (startcb_of x sid); exact Hbase.
  - match goal with |- context [if ?b then _ else _] => destruct b end; [|exact Hbase].
    destruct (startcb_of x sid) as [old|]; [|exact Hbase].
    rewrite IH; [exact Hbase|].
    cbn [x_w clear_startcb]. rewrite is_stopped_at. subst x2.
    match goal with |- context [if ?b then _ else _] => destruct b end; cbn [x_w add_cb set_w];
      apply world_op_keeps_stopped; rewrite <- is_stopped_at; exact St.
Qed.

(* ... so over any sequence of requests / timer expiries after the show has stopped the number of its stop
   callback rows never changes: the callback is not run a second time *)
Lemma stop_callback_not_again_l fuel : forall (reqs : list (Z * Z * op)) x s,
  is_stopped (x_w x) s = true ->
  cb_count s (fold_left (fun y q => x_op fuel (fst (fst q)) (snd (fst q)) (snd q) y) reqs x) = cb_count s x /\
  is_stopped (x_w (fold_left (fun y q => x_op fuel (fst (fst q)) (snd (fst q)) (snd q) y) reqs x)) s = true.
Proof.
  induction reqs as [|q reqs IH]; intros x s St; cbn [fold_left]; [split; [reflexivity | exact St]|].
  assert (St' : is_stopped (x_w (x_op fuel (fst (fst q)) (snd (fst q)) (snd q) x)) s = true).
  { rewrite is_stopped_at. apply x_op_keeps_stopped. rewrite <- is_stopped_at. exact St. }
  destruct (IH _ s St') as [H1 H2]. split; [|exact H2]. rewrite H1. apply x_op_cb_stopped. exact St.
Qed.

(* a running show with a stop callback that a request stops gets exactly one callback row by that request
   (no start callback pending: the common case of block_queue) *)
Lemma stop_callback_at_stop_l fuel now sid o x r :
  get_show (x_w x) sid = Some r -> r_stopped r = false -> has_stopcb x sid = true -> startcb_of x sid = None ->
  is_stopped (world_op now sid o (x_w x)) sid = true ->
  cb_count sid (x_op fuel now sid o x) = S (cb_count sid x).
Proof.
  intros E Sr H C St.
  assert (R : row_of sid [sid; now; 14; 0; 0; 0] = true) by (unfold row_of; cbn; apply Z.eqb_refl).
  destruct fuel; cbn [x_op]; rewrite E, Sr, St, H, C; cbn [negb andb];
    rewrite orb_true_r; rewrite cb_count_add, R; unfold cb_count; cbn [x_cb set_w]; lia.
Qed.
