(* C08/Hist.v — one coil over time: request histories with refused requests, PSU-deferred pulses/enables,
   runtime re-evaluation of the default_pulse_ms / default_timed_enable_ms placeholders, lights on the drivers
   platform, and the DelayManager of the Driver (the two named delays 'timed_disable' / 'enable_limit_reached'
   plus any number of anonymous delays carrying a deferred _pulse_now / _enable_now).

   The per-request decisions are those of Model.v ([handle], [pulse_now], [enable_now] over the GENERATED verify
   functions); this file adds the state they act on and the clock.  The answer of the power-supply unit
   (get_wait_time_for_pulse) is an input of every request ([wait], any integer): the theorems hold for every
   PSU behaviour.  Definitions only; proofs in HistLemmas.v. *)
From Common Require Import Prelude.
From Coq Require Import QArith Qround String.
From C08 Require Import Py Model.
From C08.gen Require Import Driver Sites.
Open Scope Z_scope.

(* a call waiting in an anonymous delay: delay.add(wait_ms, self._pulse_now / self._enable_now, **verified) *)
Inductive dcall := DPulseNow (ms p : pyval) | DEnableNow (ms pp hp : pyval).

(* milliseconds of a delay argument (ints, or the float max_hold_duration * 1000) *)
Definition zof (v : pyval) : Z :=
  match v with PInt z => z | PFloat (Fin q) => Qfloor q | _ => 0 end.

Definition mhd_ms (c : cfg) : Z := zof (hold_ms_limit c).

(* Driver.pulse / Driver.enable with the PSU's answer [w]: w > 0 defers the verified call *)
Definition hhandle (c : cfg) (r : req) (w : Z) : res (list eff * option dcall) :=
  match r with
  | RPulse ms p =>
      if 0 <? w then
        bind (get_and_verify_pulse_ms c ms) (fun pd =>
        bind (get_and_verify_pulse_power c p) (fun pp =>
        Ok ([], Some (DPulseNow pd pp))))
      else bind (pulse c ms p) (fun l => Ok (l, None))
  | REnable ms p h =>
      if 0 <? w then
        bind (get_and_verify_pulse_ms c ms) (fun pd =>
        bind (get_and_verify_pulse_power c p) (fun pp =>
        bind (get_and_verify_hold_power c h) (fun hp =>
        ifT (t_cmp Eq hp zero_f) (Err ELimits) (Ok ([], Some (DEnableNow pd pp hp))))))
      else bind (enable c ms p h) (fun l => Ok (l, None))
  | _ => bind (handle c r) (fun l => Ok (l, None))
  end.

Definition exec_dcall (c : cfg) (d : dcall) : res (list eff) :=
  match d with
  | DPulseNow ms p => pulse_now c ms p
  | DEnableNow ms pp hp => Ok (enable_now c ms pp hp)
  end.

Definition dcall_ok (c : cfg) (d : dcall) : bool :=
  match d with
  | DPulseNow ms p => dur_ok (cfg_max_pulse_ms c) ms && power_ok (cfg_max_pulse_power c) p
  | DEnableNow ms pp hp => pulse_part_ok c pp ms && hold_ok c hp
  end.

(* DriverLight.set_brightness (mpf/platforms/driver_light_platform.py) *)
Definition light_req (b : pyval) : res req :=
  ifT (t_cmp Le b (PInt 0)) (Ok RDisable) (Ok (REnable PNone PNone b)).

Inductive hreq :=
| HReq (r : req) (w : Z)            (* a request and the PSU's wait (0 = now; only pulse / enable look at it) *)
| HLight (b : pyval)                (* a light on the drivers platform set to brightness b *)
| HSetPulseMs (v : pyval)           (* _calculate_pulse_ms_placeholder: self._pulse_ms := v, unverified *)
| HSetTimedEnableMs (v : pyval)     (* _calculate_timed_enable_ms_placeholder *)
| HNop.

Inductive hev :=
| EReq (t : Z) (q : hreq)
| EFireTd                           (* 'timed_disable' expires *)
| EFireLim                          (* 'enable_limit_reached' expires *)
| EFireDefer (k : nat).             (* the k-th anonymous delay expires *)

Record hstate := {
  h_pms : pyval;                    (* self._pulse_ms *)
  h_tems : pyval;                   (* self._timed_enable_ms *)
  h_now : Z;
  h_on : bool;                      (* last of hw enable / hw disable was an enable *)
  h_td : option Z;
  h_lim : option Z;
  h_defer : list (Z * dcall);
  h_hold : bool;                    (* ghost: an accepted enable was executed since the coil was last switched off *)
  h_since : Z                       (* ghost: when the first of them was executed *)
}.

Definition with_defaults (c : cfg) (a b : pyval) : cfg :=
  {| cfg_allow_enable := cfg_allow_enable c; cfg_default_pulse_power := cfg_default_pulse_power c;
     cfg_default_hold_power := cfg_default_hold_power c; cfg_max_pulse_ms := cfg_max_pulse_ms c;
     cfg_max_pulse_power := cfg_max_pulse_power c; cfg_max_hold_power := cfg_max_hold_power c;
     cfg_max_hold_duration := cfg_max_hold_duration c; cfg_pulse_with_timed_enable := cfg_pulse_with_timed_enable c;
     st_pulse_ms := a; st_timed_enable_ms := b; plat_max_pulse := plat_max_pulse c |}.

Definition cur (c : cfg) (s : hstate) : cfg := with_defaults c (h_pms s) (h_tems s).

Definition hinit (c : cfg) : hstate :=
  {| h_pms := st_pulse_ms c; h_tems := st_timed_enable_ms c; h_now := 0; h_on := false; h_td := None; h_lim := None;
     h_defer := []; h_hold := false; h_since := 0 |}.

Definition upd (s : hstate) (now : Z) (on : bool) (td lim : option Z) (hold : bool) (since : Z) : hstate :=
  {| h_pms := h_pms s; h_tems := h_tems s; h_now := now; h_on := on; h_td := td; h_lim := lim;
     h_defer := h_defer s; h_hold := hold; h_since := since |}.

Definition set_defer (s : hstate) (l : list (Z * dcall)) : hstate :=
  {| h_pms := h_pms s; h_tems := h_tems s; h_now := h_now s; h_on := h_on s; h_td := h_td s; h_lim := h_lim s;
     h_defer := l; h_hold := h_hold s; h_since := h_since s |}.

Definition set_defaults (s : hstate) (a b : pyval) : hstate :=
  {| h_pms := a; h_tems := b; h_now := h_now s; h_on := h_on s; h_td := h_td s; h_lim := h_lim s;
     h_defer := h_defer s; h_hold := h_hold s; h_since := h_since s |}.

Definition set_now (s : hstate) (t : Z) : hstate :=
  upd s t (h_on s) (h_td s) (h_lim s) (h_hold s) (h_since s).

(* what one effect does to the coil and its DelayManager *)
Definition apply_eff (s : hstate) (e : eff) : hstate :=
  match e with
  | HwEnable _ _ _ => upd s (h_now s) true (h_td s) (h_lim s) (h_hold s) (h_since s)
  | HwDisable => upd s (h_now s) false (h_td s) (h_lim s) false (h_since s)
  | DelayReset ms => upd s (h_now s) (h_on s) (Some (h_now s + zof ms)) (h_lim s) (h_hold s) (h_since s)
  | DelayAddIfAbsent ms =>
      upd s (h_now s) (h_on s) (h_td s)
          (match h_lim s with None => Some (h_now s + zof ms) | l => l end) (h_hold s) (h_since s)
  | DelayRemoveLimit => upd s (h_now s) (h_on s) (h_td s) None (h_hold s) (h_since s)
  | HwPulse _ _ | HwTimedEnable _ _ _ _ | RuleSettings _ _ _ => s
  end.

Definition run_effs (s : hstate) (l : list eff) : hstate := fold_left apply_eff l s.

(* ghost bookkeeping after _enable_now ran *)
Definition mark_hold (s : hstate) : hstate :=
  if h_hold s then s else upd s (h_now s) (h_on s) (h_td s) (h_lim s) true (h_now s).

Fixpoint remove_nth {A} (k : nat) (l : list A) : list A :=
  match l, k with
  | [], _ => []
  | _ :: r, O => r
  | x :: r, S k' => x :: remove_nth k' r
  end.

Definition is_enable_req (r : req) : bool := match r with REnable _ _ _ => true | _ => false end.
Definition is_enable_call (d : dcall) : bool := match d with DEnableNow _ _ _ => true | _ => false end.

Definition do_req (c : cfg) (s : hstate) (r : req) (w : Z) : hstate * res (list eff) :=
  match hhandle (cur c s) r w with
  | Err e => (s, Err e)
  | Ok (l, od) =>
      let s1 := run_effs s l in
      match od with
      | None => ((if is_enable_req r then mark_hold s1 else s1), Ok l)
      | Some d => (set_defer s1 (h_defer s1 ++ [(h_now s + w, d)]), Ok l)
      end
  end.

Definition fire_named (s : hstate) (a : Z) (td lim : option Z) : hstate * (Z * res (list eff)) :=
  (run_effs (upd s a (h_on s) td lim (h_hold s) (h_since s)) disable, (a, Ok disable)).

Definition hstep (c : cfg) (s : hstate) (e : hev) : hstate * (Z * res (list eff)) :=
  match e with
  | EReq t q =>
      let s := set_now s t in
      match q with
      | HReq r w => let '(s', o) := do_req c s r w in (s', (t, o))
      | HLight b =>
          match light_req b with
          | Ok r => let '(s', o) := do_req c s r 0 in (s', (t, o))
          | Err e => (s, (t, Err e))
          end
      | HSetPulseMs v => (set_defaults s v (h_tems s), (t, Ok []))
      | HSetTimedEnableMs v => (set_defaults s (h_pms s) v, (t, Ok []))
      | HNop => (s, (t, Ok []))
      end
  | EFireTd =>
      match h_td s with
      | Some a => fire_named s a None (h_lim s)
      | None => (s, (h_now s, Ok []))
      end
  | EFireLim =>
      match h_lim s with
      | Some b => fire_named s b (h_td s) None
      | None => (s, (h_now s, Ok []))
      end
  | EFireDefer k =>
      match nth_error (h_defer s) k with
      | Some (d, call) =>
          let s0 := set_now (set_defer s (remove_nth k (h_defer s))) d in
          match exec_dcall (cur c s0) call with
          | Ok l => ((if is_enable_call call then mark_hold (run_effs s0 l) else run_effs s0 l), (d, Ok l))
          | Err e => (s0, (d, Err e))
          end
      | None => (s, (h_now s, Ok []))
      end
  end.

Fixpoint hrun (c : cfg) (s : hstate) (evs : list hev) : hstate * list (Z * res (list eff)) :=
  match evs with
  | [] => (s, [])
  | e :: r => let '(s1, o) := hstep c s e in let '(s2, tr) := hrun c s1 r in (s2, o :: tr)
  end.

(* ---- the clock: which event may happen next --------------------------------------------------------- *)
Definition opt_ge (o : option Z) (t : Z) : bool := match o with Some a => t <=? a | None => true end.
Definition all_ge (s : hstate) (t : Z) : bool :=
  opt_ge (h_td s) t && opt_ge (h_lim s) t && forallb (fun x => t <=? fst x) (h_defer s).

(* a request at t: time does not run backwards and no delay is overdue; a delay fires when no other is earlier
   (equal deadlines: either order) *)
Definition ev_valid (s : hstate) (e : hev) : bool :=
  match e with
  | EReq t _ => (h_now s <=? t) && all_ge s t
  | EFireTd => match h_td s with Some a => all_ge s a | None => false end
  | EFireLim => match h_lim s with Some b => all_ge s b | None => false end
  | EFireDefer k => match nth_error (h_defer s) k with Some (d, _) => all_ge s d | None => false end
  end.

Fixpoint hvalid (c : cfg) (s : hstate) (evs : list hev) : bool :=
  match evs with
  | [] => true
  | e :: r => ev_valid s e && hvalid c (fst (hstep c s e)) r
  end.

(* ---- the property on a trace and on a state ----------------------------------------------------------- *)
Definition out_ok (c : cfg) (o : Z * res (list eff)) : bool :=
  match snd o with Ok l => effs_ok c l | Err _ => true end.

Definition at_rest (s : hstate) : bool :=
  match h_td s, h_lim s, h_defer s with None, None, [] => true | _, _, _ => false end.

(* ---- deterministic scheduler for the correspondence run: before a request at t every delay due before t
   fires, earliest first (ties: timed_disable, enable_limit_reached, then anonymous delays in order) ---------- *)
Fixpoint min_defer (l : list (Z * dcall)) (k : nat) (best : option (Z * nat)) : option (Z * nat) :=
  match l with
  | [] => best
  | (d, _) :: r =>
      min_defer r (S k) (match best with Some (b, _) => if d <? b then Some (d, k) else best | None => Some (d, k) end)
  end.

Definition next_ev (s : hstate) : option (Z * hev) :=
  let c1 := match h_td s with Some a => Some (a, EFireTd) | None => None end in
  let c2 := match h_lim s, c1 with
            | Some b, Some (a, _) => if b <? a then Some (b, EFireLim) else c1
            | Some b, None => Some (b, EFireLim)
            | None, _ => c1
            end in
  match min_defer (h_defer s) 0%nat None, c2 with
  | Some (d, k), Some (a, _) => if d <? a then Some (d, EFireDefer k) else c2
  | Some (d, k), None => Some (d, EFireDefer k)
  | None, _ => c2
  end.

Fixpoint fire_due (c : cfg) (fuel : nat) (t : Z) (s : hstate) : list hev :=
  match fuel with
  | O => []
  | S f =>
      match next_ev s with
      | Some (d, e) => if d <? t then e :: fire_due c f t (fst (hstep c s e)) else []
      | None => []
      end
  end.

Fixpoint hsched (c : cfg) (s : hstate) (h : list (Z * hreq)) : list hev :=
  match h with
  | [] => []
  | (t, q) :: r =>
      let f := fire_due c (2 * List.length (h_defer s) + 4)%nat t s in
      let s1 := fst (hrun c s f) in
      f ++ EReq t q :: hsched c (fst (hstep c s1 (EReq t q))) r
  end.

(* observations: every effect / error with its instant, the final state, and "the schedule was a valid run
   of the clock" (must be true) *)
Inductive tev := TE (e : eff) | TX (e : err).
Definition flat (o : Z * res (list eff)) : list (Z * tev) :=
  match snd o with Ok l => map (fun e => (fst o, TE e)) l | Err e => [(fst o, TX e)] end.

Definition hist_run (i : cfg * list (Z * hreq)) : list (Z * tev) * ((bool * (option Z * option Z)) * (Z * bool)) :=
  let '(c, h) := i in
  let evs := hsched c (hinit c) h in
  let '(s, tr) := hrun c (hinit c) evs in
  (flat_map flat tr, ((h_on s, (h_td s, h_lim s)), (Z.of_nat (List.length (h_defer s)), hvalid c (hinit c) evs))).

Definition tev_eqb (a b : tev) : bool :=
  match a, b with TE x, TE y => eff_eqb x y | TX x, TX y => err_eqb x y | _, _ => false end.
Definition hist_eqb (a b : list (Z * tev) * ((bool * (option Z * option Z)) * (Z * bool))) : bool :=
  list_eqb (fun x y => (fst x =? fst y) && tev_eqb (snd x) (snd y)) (fst a) (fst b) &&
  (let '((on, (td, lim)), (n, v)) := snd a in let '((on', (td', lim')), (n', v')) := snd b in
   Bool.eqb on on' && option_eqb Z.eqb td td' && option_eqb Z.eqb lim lim' && (n =? n') && Bool.eqb v v').
