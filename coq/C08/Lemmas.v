(* C08/Lemmas.v — proofs.  The verify functions are GENERATED text (gen/Driver.v): their proofs go through a
   generic inversion tactic over ifT / t_and / t_not / t_cmp, so that renaming locals or reordering independent
   statements in the source does not break them, while weakening a check does. *)
From Common Require Import Prelude.
From Coq Require Import QArith Lqa String.
From C08 Require Import Py Model.
From C08.gen Require Import Driver Sites.
Open Scope Z_scope.

(* ---- boolean comparison helpers ------------------------------------------------------------------ *)
Lemma leb_v_spec a b :
  leb_v a b = true <-> exists x y, qval a = Some x /\ qval b = Some y /\ (x <= y)%Q.
Proof.
  unfold leb_v. split.
  - destruct (qval a) as [x|], (qval b) as [y|]; try discriminate. intro H. apply Qle_bool_iff in H. eauto.
  - intros (x & y & -> & -> & H). apply Qle_bool_iff. exact H.
Qed.

Lemma ltb_v_spec a b :
  ltb_v a b = true <-> exists x y, qval a = Some x /\ qval b = Some y /\ (x < y)%Q.
Proof.
  unfold ltb_v. split.
  - destruct (qval a) as [x|], (qval b) as [y|]; try discriminate. intro H. apply Qlt_bool_iff in H. eauto.
  - intros (x & y & -> & -> & H). apply Qlt_bool_iff. exact H.
Qed.

Lemma is_num_spec v : is_num v = true <-> exists x, qval v = Some x.
Proof. unfold is_num. destruct (qval v); split; try discriminate; eauto. intros [x H]; discriminate. Qed.

Lemma leb_v_num_l a b : leb_v a b = true -> is_num a = true.
Proof. intro H. apply leb_v_spec in H as (x & y & Ha & _). apply is_num_spec. eauto. Qed.
Lemma leb_v_num_r a b : leb_v a b = true -> is_num b = true.
Proof. intro H. apply leb_v_spec in H as (x & y & _ & Hb & _). apply is_num_spec. eauto. Qed.

Lemma cmp_le_leb a b : t_cmp Le a b = Some true -> leb_v a b = true.
Proof.
  intro H. apply t_cmp_true in H; [|discriminate]. destruct H as (x & y & Ha & Hb & L).
  apply leb_v_spec. eauto.
Qed.
Lemma cmp_lt_ltb a b : t_cmp Lt a b = Some true -> ltb_v a b = true.
Proof.
  intro H. apply t_cmp_true in H; [|discriminate]. destruct H as (x & y & Ha & Hb & L).
  apply ltb_v_spec. eauto.
Qed.
Lemma cmp_gt_false_leb a b : t_cmp Gt a b = Some false -> is_num a = true -> is_num b = true -> leb_v a b = true.
Proof.
  intros H Ha Hb. apply is_num_spec in Ha as [x Ha]. apply is_num_spec in Hb as [y Hb].
  pose proof (t_cmp_false Gt a b x y H Ha Hb) as L. apply leb_v_spec. eauto.
Qed.
Lemma cmp_lt_false_leb a b : t_cmp Lt a b = Some false -> is_num a = true -> is_num b = true -> leb_v b a = true.
Proof.
  intros H Ha Hb. apply is_num_spec in Ha as [x Ha]. apply is_num_spec in Hb as [y Hb].
  pose proof (t_cmp_false Lt a b x y H Ha Hb) as L. apply leb_v_spec. eauto.
Qed.

Lemma leb_v_trans a b c : leb_v a b = true -> leb_v b c = true -> leb_v a c = true.
Proof.
  intros H1 H2. apply leb_v_spec in H1 as (x & y & Ha & Hb & L1). apply leb_v_spec in H2 as (y' & z & Hb' & Hc & L2).
  rewrite Hb in Hb'. inversion Hb'; subst. apply leb_v_spec. exists x, z. repeat split; auto. lra.
Qed.

Lemma leb_ltb_contra a b : leb_v a b = true -> ltb_v b a = true -> False.
Proof.
  intros H1 H2. apply leb_v_spec in H1 as (x & y & Ha & Hb & L1). apply ltb_v_spec in H2 as (y' & x' & Hb' & Ha' & L2).
  rewrite Ha in Ha'. rewrite Hb in Hb'. inversion Ha'; inversion Hb'; subst. lra.
Qed.

Lemma is_pint_num v : is_pint v = true -> is_num v = true.
Proof. destruct v; cbn; try discriminate; reflexivity. Qed.

Lemma truthy_not_none v : truthy v = true -> is_none v = false.
Proof. destruct v; cbn; try discriminate; reflexivity. Qed.

Lemma opt_unit_truthy v : opt_unit v = true -> truthy v = true -> leb_v (PInt 0) v = true /\ leb_v v (PInt 1) = true.
Proof.
  unfold opt_unit. intros H T. rewrite (truthy_not_none _ T) in H. cbn in H. apply andb_true_iff in H. exact H.
Qed.

(* a number in [0, 0] is falsy *)
Lemma zero_falsy v : leb_v (PInt 0) v = true -> leb_v v (PInt 0) = true -> truthy v = false.
Proof.
  intros H1 H2. apply leb_v_spec in H1 as (x & y & Ha & Hb & L1). apply leb_v_spec in H2 as (y' & x' & Hb' & Ha' & L2).
  cbn in Ha, Ha'. inversion Ha; inversion Ha'; subst. rewrite Hb in Hb'. inversion Hb'; subst.
  assert (E : (y' == 0)%Q) by (unfold inject_Z in *; lra).
  destruct v as [|z|[|q]]; cbn in *; try discriminate.
  - inversion Hb; subst. apply negb_false_iff. apply Z.eqb_eq. unfold Qeq, inject_Z in E. cbn in E. lia.
  - inversion Hb; subst. apply negb_false_iff. apply Qeq_bool_iff. exact E.
Qed.

Lemma truthy_pos v : leb_v (PInt 0) v = true -> truthy v = true -> ltb_v (PInt 0) v = true.
Proof.
  intros H T. destruct (ltb_v (PInt 0) v) eqn:E; [reflexivity|]. exfalso.
  apply leb_v_spec in H as (x & y & Ha & Hb & L). cbn in Ha. inversion Ha; subst.
  unfold ltb_v in E. cbn in E. rewrite Hb in E. apply Qlt_bool_false in E.
  assert (Z0 : leb_v v (PInt 0) = true) by (apply leb_v_spec; exists y, (inject_Z 0); cbn; auto).
  assert (L0 : leb_v (PInt 0) v = true) by (apply leb_v_spec; exists (inject_Z 0), y; cbn; auto).
  rewrite (zero_falsy v L0 Z0) in T. discriminate.
Qed.

Lemma eq_zero_false_pos h : t_cmp Eq h zero_f = Some false -> leb_v (PInt 0) h = true -> ltb_v (PInt 0) h = true.
Proof.
  intros H L. apply leb_v_spec in L as (x & y & Ha & Hb & L). cbn in Ha. inversion Ha; subst.
  pose proof (t_cmp_false Eq h zero_f y 0%Q H Hb eq_refl) as N.
  apply ltb_v_spec. exists (inject_Z 0), y. split; [reflexivity|]. split; [exact Hb|].
  unfold inject_Z in *. apply Qle_lteq in L. destruct L as [L|E]; [exact L|]. exfalso. apply N. symmetry. exact E.
Qed.

Lemma pmul_1000 v x : qval v = Some x -> qval (pmul v (PInt 1000)) = Some (x * inject_Z 1000)%Q.
Proof.
  destruct v as [|z|[|q]]; cbn; intro H; inversion H; subst; try reflexivity.
Qed.

Lemma leb_times_1000 a b : leb_v (PInt 0) b = true -> leb_v a b = true -> leb_v a (pmul b (PInt 1000)) = true.
Proof.
  intros H0 H. apply leb_v_spec in H as (x & y & Ha & Hb & L). apply leb_v_spec in H0 as (o & y' & Ho & Hb' & L0).
  rewrite Hb in Hb'. inversion Hb'; subst. cbn in Ho. inversion Ho; subst.
  apply leb_v_spec. exists x, (y' * inject_Z 1000)%Q. repeat split; auto using pmul_1000.
  unfold inject_Z in *. nra.
Qed.

Lemma bind_ok {A B} (r : res A) (f : A -> res B) b : bind r f = Ok b -> exists a, r = Ok a /\ f a = Ok b.
Proof. destruct r; cbn; intro H; [eauto|discriminate]. Qed.

(* ---- the generic inversion tactic ------------------------------------------------------------------ *)
Ltac inv1 :=
  match goal with
  | H : Err _ = Ok _ |- _ => discriminate H
  | H : Ok _ = Ok _ |- _ => injection H as H
  | H : ifT _ _ _ = Ok _ |- _ => apply ifT_ok in H; destruct H as [[? H]|[? H]]
  | H : bind _ _ = Ok _ |- _ => apply bind_ok in H; destruct H as (? & ? & H)
  | H : t_and _ _ = Some true |- _ => apply t_and_true in H; destruct H
  | H : t_and _ _ = Some false |- _ => apply t_and_false in H; destruct H as [H|[? H]]
  | H : t_or _ _ = Some true |- _ => apply t_or_true in H; destruct H as [H|[? H]]
  | H : t_or _ _ = Some false |- _ => apply t_or_false in H; destruct H
  | H : t_not _ = Some true |- _ => apply t_not_true in H
  | H : t_not _ = Some false |- _ => apply t_not_false in H
  | H : t_truthy _ = Some _ |- _ => apply t_truthy_inv in H
  | H : t_isnone _ = Some _ |- _ => apply t_isnone_inv in H
  | H : t_isint ?v = Some true |- _ => apply t_isint_true in H; destruct H as [? H]
  | H : t_cmp Le _ _ = Some true |- _ => apply cmp_le_leb in H
  | H : t_cmp Lt _ _ = Some true |- _ => apply cmp_lt_ltb in H
  end.

Ltac inv := repeat inv1.

Ltac cfg_facts Hc :=
  unfold cfg_ok in Hc; repeat (apply andb_true_iff in Hc; destruct Hc as [Hc ?]).

(* ---- specifications of the generated verify functions ----------------------------------------------- *)
Lemma is_none_false_neq v : is_none v = false -> v <> PNone.
Proof. destruct v; cbn; congruence. Qed.
Lemma is_none_true_eq v : is_none v = true -> v = PNone.
Proof. destruct v; cbn; congruence. Qed.

Ltac passthrough :=
  match goal with
  | H : is_none ?v = true |- ?v <> PNone -> _ => intro N; apply is_none_true_eq in H; congruence
  | |- _ -> ?r = ?r => reflexivity
  | |- _ => intro; subst; reflexivity
  end.

Ltac rw_facts :=
  repeat match goal with
         | H : truthy ?l = _ |- context [truthy ?l] => rewrite H
         | H : leb_v ?a ?b = true |- context [leb_v ?a ?b] => rewrite H
         | H : ltb_v ?a ?b = true |- context [ltb_v ?a ?b] => rewrite H
         end; cbn [negb andb orb].

Ltac contra :=
  match goal with
  | A : ?x = true, B : ?x = false |- _ => rewrite A in B; discriminate B
  end.

(* a configured (truthy) limit is a number: unpack what cfg_ok says about it *)
Ltac prep_cfg :=
  repeat match goal with
         | T : truthy ?m = true, N : opt_unit ?m = true |- _ =>
             unfold opt_unit in N; rewrite (truthy_not_none _ T) in N; cbn [orb] in N
         | T : truthy ?m = true, N : is_none ?m || _ = true |- _ =>
             rewrite (truthy_not_none _ T) in N; cbn [orb] in N
         | N : _ && _ = true |- _ => apply andb_true_iff in N; destruct N
         | E : _ = PInt _ |- _ => rewrite E in *; clear E
         end.

Ltac solve_num :=
  first [ reflexivity | apply is_pint_num; assumption
        | eapply leb_v_num_r; eassumption | eapply leb_v_num_l; eassumption ].

Lemma cmp_ge_leb a b : t_cmp Ge a b = Some true -> leb_v b a = true.
Proof.
  intro H. apply t_cmp_true in H; [|discriminate]. destruct H as (x & y & Ha & Hb & L).
  apply leb_v_spec. eauto.
Qed.
Lemma cmp_le_false_num a b : t_cmp Le a b = Some false -> is_num a = true -> is_num b = true -> leb_v b a = true.
Proof.
  intros H Ha Hb. apply is_num_spec in Ha as [x Ha]. apply is_num_spec in Hb as [y Hb].
  pose proof (t_cmp_false Le a b x y H Ha Hb) as L. cbn in L. apply leb_v_spec. exists y, x. repeat split; auto. lra.
Qed.
Lemma cmp_ge_false_num a b : t_cmp Ge a b = Some false -> is_num a = true -> is_num b = true -> leb_v a b = true.
Proof.
  intros H Ha Hb. apply is_num_spec in Ha as [x Ha]. apply is_num_spec in Hb as [y Hb].
  pose proof (t_cmp_false Ge a b x y H Ha Hb) as L. cbn in L. apply leb_v_spec. exists x, y. repeat split; auto. lra.
Qed.

(* every comparison that survived on an accepting path becomes a leb_v fact, whichever way round and with
   whichever operator the source wrote it *)
Ltac norm_cmp :=
  repeat match goal with
         | G : t_cmp Ge _ _ = Some true |- _ => apply cmp_ge_leb in G
         | G : t_cmp Gt _ _ = Some false |- _ => apply cmp_gt_false_leb in G; [ | solve_num | solve_num ]
         | G : t_cmp Lt _ _ = Some false |- _ => apply cmp_lt_false_leb in G; [ | solve_num | solve_num ]
         | G : t_cmp Le _ _ = Some false |- _ => apply cmp_le_false_num in G; [ | solve_num | solve_num ]
         | G : t_cmp Ge _ _ = Some false |- _ => apply cmp_ge_false_num in G; [ | solve_num | solve_num ]
         end.

Ltac start_verify Hc H f :=
  cfg_facts Hc; unfold f in H; cbv beta zeta in H; inv; subst; try contra; prep_cfg; norm_cmp.

Lemma verify_pulse_power_spec c v r :
  cfg_ok c = true -> get_and_verify_pulse_power c v = Ok r ->
  power_ok (cfg_max_pulse_power c) r = true /\ (v <> PNone -> r = v).
Proof.
  intros Hc H. start_verify Hc H get_and_verify_pulse_power;
    (split; [|passthrough]); unfold power_ok; rw_facts; try reflexivity; try assumption.
Qed.

Lemma verify_hold_power_spec c v r :
  cfg_ok c = true -> get_and_verify_hold_power c v = Ok r ->
  power_ok (cfg_max_hold_power c) r = true /\ (truthy r = true -> holding_allowed c = true) /\ (v <> PNone -> r = v).
Proof.
  intros Hc H. start_verify Hc H get_and_verify_hold_power;
    (split; [|split; [|passthrough]]); unfold power_ok, holding_allowed; rw_facts;
    try reflexivity; try assumption; try (intros _; rewrite ?orb_true_r; reflexivity);
    intro T; exfalso;
    match goal with
    | L0 : leb_v (PInt 0) ?r = true, L1 : leb_v ?r (PInt 0) = true |- _ =>
        rewrite (zero_falsy r L0 L1) in T; discriminate T
    end.
Qed.

Lemma verify_pulse_ms_spec c v r :
  cfg_ok c = true -> get_and_verify_pulse_ms c v = Ok r ->
  dur_ok (cfg_max_pulse_ms c) r = true /\ (v <> PNone -> r = v).
Proof.
  intros Hc H. start_verify Hc H get_and_verify_pulse_ms;
    (split; [|passthrough]); unfold dur_ok; cbn [is_pint]; rw_facts; try reflexivity; try assumption.
Qed.

Lemma verify_timed_enable_ms_spec c v r :
  cfg_ok c = true -> get_and_verify_timed_enable_ms c v = Ok r ->
  hold_dur_ok c r = true /\ (v <> PNone -> r = v).
Proof.
  intros Hc H. start_verify Hc H get_and_verify_timed_enable_ms;
    (split; [|passthrough]); unfold hold_dur_ok, hold_ms_limit; cbn [is_pint]; rw_facts; try reflexivity;
    apply leb_times_1000; assumption.
Qed.

Lemma pyval_eqb_refl v : pyval_eqb v v = true.
Proof.
  destruct v as [|z|[|q]]; cbn; auto using Z.eqb_refl. apply Qeq_bool_iff. reflexivity.
Qed.

Lemma timed_enable_ok c te h ms p l :
  cfg_ok c = true -> timed_enable c te h ms p = Ok l -> effs_ok c l = true.
Proof.
  intros Hc H. unfold timed_enable in H. inv. subst.
  match goal with A : get_and_verify_pulse_ms _ _ = Ok _ |- _ => apply verify_pulse_ms_spec in A as [A _]; [|assumption] end.
  match goal with A : get_and_verify_pulse_power _ _ = Ok _ |- _ => apply verify_pulse_power_spec in A as [A _]; [|assumption] end.
  match goal with A : get_and_verify_timed_enable_ms _ _ = Ok _ |- _ => apply verify_timed_enable_ms_spec in A as [A _]; [|assumption] end.
  match goal with A : get_and_verify_hold_power _ _ = Ok _ |- _ => apply verify_hold_power_spec in A as (A & A' & _); [|assumption] end.
  cbn [effs_ok]. unfold pulse_part_ok.
  match goal with A : hold_dur_ok _ _ = true |- _ =>
    unfold hold_dur_ok in A; apply andb_true_iff in A as [A A3]; apply andb_true_iff in A as [A1 A2] end.
  rewrite A1, A2, A3.
  repeat match goal with A : _ = true |- _ => rewrite A end. cbn [andb].
  rewrite !andb_true_r.
  match goal with |- negb (truthy ?x) || _ = true => destruct (truthy x) eqn:T; cbn [negb orb]; auto end.
Qed.

Lemma pulse_now_ok c ms p l :
  cfg_ok c = true -> dur_ok (cfg_max_pulse_ms c) ms = true -> power_ok (cfg_max_pulse_power c) p = true ->
  pulse_now c ms p = Ok l -> effs_ok c l = true.
Proof.
  intros Hc Hd Hp H. unfold pulse_now in H.
  destruct (truthy (cfg_pulse_with_timed_enable c)).
  - eapply timed_enable_ok; eassumption.
  - inv; subst; cbn [effs_ok]; unfold pulse_part_ok; rewrite Hd, Hp; cbn [andb pyval_eqb Z.eqb];
      rw_facts; rewrite ?pyval_eqb_refl; reflexivity.
Qed.

Lemma enable_hold_ok c hp :
  power_ok (cfg_max_hold_power c) hp = true -> (truthy hp = true -> holding_allowed c = true) ->
  t_cmp Eq hp zero_f = Some false -> hold_ok c hp = true.
Proof.
  intros P A E. unfold hold_ok. rewrite P.
  assert (L : leb_v (PInt 0) hp = true).
  { unfold power_ok in P. apply andb_true_iff in P as [P _]. apply andb_true_iff in P as [P _]. exact P. }
  pose proof (eq_zero_false_pos hp E L) as Pos. rewrite Pos.
  assert (T : truthy hp = true).
  { destruct (truthy hp) eqn:T; [reflexivity|]. exfalso.
    apply ltb_v_spec in Pos as (x & y & Hx & Hy & Lt). cbn in Hx. inversion Hx; subst.
    destruct hp as [|z|[|q]]; cbn in *; try discriminate.
    - inversion Hy; subst. apply negb_false_iff in T. apply Z.eqb_eq in T. subst. unfold inject_Z in Lt. lra.
    - inversion Hy; subst. apply negb_false_iff in T. apply Qeq_bool_iff in T. unfold inject_Z in Lt. lra. }
  rewrite (A T). reflexivity.
Qed.

Lemma hw_command_within_limits_l c r l :
  cfg_ok c = true -> handle c r = Ok l -> effs_ok c l = true.
Proof.
  intros Hc H. destruct r; cbn [handle] in H.
  - (* pulse *) unfold pulse in H. inv.
    match goal with A : get_and_verify_pulse_ms _ _ = Ok _ |- _ => apply verify_pulse_ms_spec in A as [A _]; [|assumption] end.
    match goal with A : get_and_verify_pulse_power _ _ = Ok _ |- _ => apply verify_pulse_power_spec in A as [A _]; [|assumption] end.
    eapply pulse_now_ok; eassumption.
  - (* enable *) unfold enable in H. inv. subst.
    match goal with A : get_and_verify_pulse_ms _ _ = Ok _ |- _ => apply verify_pulse_ms_spec in A as [A _]; [|assumption] end.
    match goal with A : get_and_verify_pulse_power _ _ = Ok _ |- _ => apply verify_pulse_power_spec in A as [A _]; [|assumption] end.
    match goal with A : get_and_verify_hold_power _ _ = Ok _ |- _ => apply verify_hold_power_spec in A as (A & A' & _); [|assumption] end.
    unfold enable_now. cbn [effs_ok]. unfold pulse_part_ok.
    match goal with E : t_cmp Eq ?h _ = Some false, P : power_ok _ ?h = true, Q : truthy ?h = true -> _ |- _ =>
      rewrite (enable_hold_ok _ _ P Q E) end.
    repeat match goal with A : _ = true |- _ => rewrite A end. cbn [andb].
    destruct (truthy (cfg_max_hold_duration c)); cbn [app effs_ok]; [|reflexivity].
    unfold hold_ms_limit. rewrite pyval_eqb_refl. reflexivity.
  - eapply timed_enable_ok; eassumption.
  - inv. subst. reflexivity.
  - (* rule without hold *) unfold rule_no_hold in H. inv. subst.
    match goal with A : get_and_verify_pulse_ms _ _ = Ok _ |- _ => apply verify_pulse_ms_spec in A as [A _]; [|assumption] end.
    match goal with A : get_and_verify_pulse_power _ _ = Ok _ |- _ => apply verify_pulse_power_spec in A as [A _]; [|assumption] end.
    cbn [effs_ok]. unfold pulse_part_ok. repeat match goal with A : _ = true |- _ => rewrite A end. reflexivity.
  - (* rule with hold *) unfold rule_with_hold in H. inv. subst.
    match goal with A : get_and_verify_pulse_ms _ _ = Ok _ |- _ => apply verify_pulse_ms_spec in A as [A _]; [|assumption] end.
    match goal with A : get_and_verify_pulse_power _ _ = Ok _ |- _ => apply verify_pulse_power_spec in A as [A _]; [|assumption] end.
    match goal with A : get_and_verify_hold_power _ _ = Ok _ |- _ => apply verify_hold_power_spec in A as (A & A' & _); [|assumption] end.
    cbn [effs_ok]. unfold pulse_part_ok.
    match goal with E : t_cmp Eq ?h _ = Some false, P : power_ok _ ?h = true, Q : truthy ?h = true -> _ |- _ =>
      rewrite (enable_hold_ok _ _ P Q E) end.
    repeat match goal with A : _ = true |- _ => rewrite A end. reflexivity.
Qed.

(* ---- bad requests are refused ------------------------------------------------------------------------ *)
Lemma arg_bad_inv ok v : arg_bad ok v = true -> v <> PNone /\ ok v = false.
Proof.
  unfold arg_bad. intro H. apply andb_true_iff in H as [N B]. apply negb_true_iff in N, B.
  split; [apply is_none_false_neq; exact N | exact B].
Qed.

Lemma bad_ms_refused c v r : cfg_ok c = true -> get_and_verify_pulse_ms c v = Ok r ->
  arg_bad (dur_ok (cfg_max_pulse_ms c)) v = true -> False.
Proof.
  intros Hc H B. apply arg_bad_inv in B as [N B]. apply verify_pulse_ms_spec in H as [O P]; [|assumption].
  rewrite (P N) in O. congruence.
Qed.
Lemma bad_pp_refused c v r : cfg_ok c = true -> get_and_verify_pulse_power c v = Ok r ->
  arg_bad (power_ok (cfg_max_pulse_power c)) v = true -> False.
Proof.
  intros Hc H B. apply arg_bad_inv in B as [N B]. apply verify_pulse_power_spec in H as [O P]; [|assumption].
  rewrite (P N) in O. congruence.
Qed.
Lemma bad_hp_refused c v r : cfg_ok c = true -> get_and_verify_hold_power c v = Ok r ->
  arg_bad (power_ok (cfg_max_hold_power c)) v = true -> False.
Proof.
  intros Hc H B. apply arg_bad_inv in B as [N B]. apply verify_hold_power_spec in H as (O & _ & P); [|assumption].
  rewrite (P N) in O. congruence.
Qed.
Lemma bad_te_refused c v r : cfg_ok c = true -> get_and_verify_timed_enable_ms c v = Ok r ->
  arg_bad (hold_dur_ok c) v = true -> False.
Proof.
  intros Hc H B. apply arg_bad_inv in B as [N B]. apply verify_timed_enable_ms_spec in H as [O P]; [|assumption].
  rewrite (P N) in O. congruence.
Qed.

Ltac refute Hc :=
  repeat match goal with B : _ || _ = true |- _ => apply orb_true_iff in B; destruct B as [B|B] end;
  first [ eapply bad_ms_refused; eassumption | eapply bad_pp_refused; eassumption
        | eapply bad_hp_refused; eassumption | eapply bad_te_refused; eassumption ].

Lemma bad_request_refused_l c r :
  cfg_ok c = true -> req_bad c r = true -> exists e, handle c r = Err e.
Proof.
  intros Hc B. destruct (handle c r) as [l|e] eqn:H; [exfalso|eauto].
  destruct r; cbn [handle] in H; cbn [req_bad] in B; cbv zeta in B.
  - unfold pulse in H. inv. refute Hc.
  - unfold enable in H. inv. refute Hc.
  - unfold timed_enable in H. inv. refute Hc.
  - discriminate B.
  - unfold rule_no_hold in H. inv. refute Hc.
  - unfold rule_with_hold in H. inv. refute Hc.
Qed.

(* nothing reaches the platform when a request is refused: the result of [handle] is either the full list of
   effects or an error without effects (by construction of [res]); and a refused request leaves no command *)

(* ---- the old form of the range test: a chained comparison `0 > x > 1` is never true ------------------ *)
Lemma chained_gt_0_1_never_true_l v :
  t_and (t_cmp Gt (PInt 0) v) (t_cmp Gt v (PInt 1)) <> Some true.
Proof.
  intro H. apply t_and_true in H as [A B].
  apply t_cmp_true in A; [|discriminate]. apply t_cmp_true in B; [|discriminate].
  destruct A as (x & y & Hx & Hy & L1). destruct B as (y' & z & Hy' & Hz & L2).
  cbn in Hx, Hz. inversion Hx; inversion Hz; subst. rewrite Hy in Hy'. inversion Hy'; subst.
  unfold inject_Z in *. lra.
Qed.

(* ---- call sites -------------------------------------------------------------------------------------- *)
Lemma all_sites_reviewed_l : all_sites_reviewed = true.
Proof. vm_compute. reflexivity. Qed.

Lemma site_eqb_eq a b : site_eqb a b = true -> a = b.
Proof.
  destruct a as [[[a1 a2] a3] a4], b as [[[b1 b2] b3] b4]. cbn. intro H.
  repeat (apply andb_true_iff in H; destruct H as [H ?]).
  apply String.eqb_eq in H. repeat match goal with E : String.eqb _ _ = true |- _ => apply String.eqb_eq in E end.
  subst. reflexivity.
Qed.

Lemma no_unguarded_hw_call_site_l : forall s, In s sites -> In s reviewed.
Proof.
  intros s Hs. pose proof all_sites_reviewed_l as A. unfold all_sites_reviewed in A.
  rewrite forallb_forall in A. specialize (A s Hs). unfold site_reviewed in A.
  apply existsb_exists in A as (x & Hx & E). apply site_eqb_eq in E. subst. exact Hx.
Qed.

(* ---- software timers --------------------------------------------------------------------------------- *)
Lemma tstep_guard mhd now s t o :
  tguard mhd now s = true -> op_timed_ok now s t o = true -> tguard mhd t (tstep mhd t s o) = true.
Proof.
  unfold tguard, op_timed_ok, next_deadline. destruct s as [on td lim hold since]. cbn.
  intros G W.
  destruct o; destruct td as [a|], lim as [b|], on, hold, mhd as [d|]; cbn in *;
    repeat match goal with
           | |- context [if ?x <=? ?y then _ else _] => destruct (x <=? y) eqn:?; cbn
           end;
    repeat match goal with
           | H : _ && _ = true |- _ => apply andb_true_iff in H; destruct H
           | H : (_ <=? _) = true |- _ => apply Z.leb_le in H
           | H : (_ <=? _) = false |- _ => apply Z.leb_gt in H
           | H : (_ =? _) = true |- _ => apply Z.eqb_eq in H
           end; try discriminate;
    repeat (apply andb_true_iff; split); try reflexivity; try (apply Z.leb_le; lia).
Qed.

Lemma trun_guard mhd : forall h now s,
  tguard mhd now s = true -> well_timed mhd now s h = true -> tguard mhd (tlast now h) (trun mhd s h) = true.
Proof.
  induction h as [|[t o] r IH]; intros now s G W; cbn in *; [exact G|].
  apply andb_true_iff in W as [W1 W2]. apply IH; [eapply tstep_guard; eassumption | exact W2].
Qed.

Lemma timed_on_followed_by_off_l mhd h :
  match mhd with Some d => 0 <=? d | None => true end = true ->
  well_timed mhd 0 tinit h = true ->
  let s := trun mhd tinit h in let now := tlast 0 h in
  ts_on s = true ->
  (ts_hold s = false -> exists a, ts_timed_disable s = Some a /\ now <= a) /\
  (ts_hold s = true -> forall d, mhd = Some d ->
     exists b, ts_limit s = Some b /\ now <= b /\ b <= ts_hold_since s + d).
Proof.
  intros D W s now On.
  assert (G : tguard mhd now s = true).
  { apply trun_guard; [|exact W]. unfold tguard. cbn. destruct mhd; [|reflexivity]. exact D. }
  unfold tguard in G. rewrite On in G. cbn [negb orb] in G.
  repeat (apply andb_true_iff in G; destruct G as [G ?]).
  split.
  - intro Hh. rewrite Hh in *. destruct (ts_timed_disable s) as [a|]; [|discriminate].
    exists a. split; [reflexivity|]. apply Z.leb_le. assumption.
  - intros Hh d Hd. rewrite Hh, Hd in *. destruct (ts_limit s) as [b|]; [|discriminate].
    exists b. split; [reflexivity|]. split; apply Z.leb_le; assumption.
Qed.

(* when the pending timer fires the coil is switched off *)
Lemma fire_switches_off_l mhd now s d :
  next_deadline s = Some d -> ts_on (tstep mhd now s TFire) = false.
Proof.
  unfold next_deadline. destruct s as [on td lim hold since]. cbn.
  destruct td as [a|], lim as [b|]; cbn; try discriminate; intros _; try reflexivity.
  destruct (a <=? b); reflexivity.
Qed.

(* ---- satisfiability examples (hypotheses of the theorems hold on non-trivial inputs) ------------------ *)
Definition q (n : Z) (d : positive) : pyval := PFloat (Fin (n # d)).
Definition cfg_ex : cfg :=
  {| cfg_allow_enable := PInt 1; cfg_default_pulse_power := q 3 8; cfg_default_hold_power := q 1 8;
     cfg_max_pulse_ms := PInt 30; cfg_max_pulse_power := q 1 2; cfg_max_hold_power := q 1 4;
     cfg_max_hold_duration := q 2 1; cfg_pulse_with_timed_enable := PInt 0;
     st_pulse_ms := PInt 20; st_timed_enable_ms := PInt 0; plat_max_pulse := PInt 255 |}.
Definition cfg_plain : cfg :=       (* a coil with no limits configured except the spec default max_pulse_power 1.0 *)
  {| cfg_allow_enable := PInt 0; cfg_default_pulse_power := PNone; cfg_default_hold_power := PNone;
     cfg_max_pulse_ms := PNone; cfg_max_pulse_power := q 1 1; cfg_max_hold_power := PNone;
     cfg_max_hold_duration := PNone; cfg_pulse_with_timed_enable := PInt 0;
     st_pulse_ms := PInt 10; st_timed_enable_ms := PInt 0; plat_max_pulse := PInt 255 |}.

Example ex_cfg_ok : cfg_ok cfg_ex = true /\ cfg_ok cfg_plain = true.
Proof. split; vm_compute; reflexivity. Qed.

Example ex_pulse_ok :
  handle cfg_ex (RPulse PNone (q 1 4)) = Ok [HwPulse (q 1 4) (PInt 20)] /\
  handle cfg_ex (REnable (PInt 30) PNone PNone) =
    Ok [HwEnable (q 3 8) (PInt 30) (q 1 8); DelayAddIfAbsent (q 2000 1)] /\
  handle cfg_plain (RPulse (PInt 500) PNone) = Ok [DelayReset (PInt 500); HwEnable (q 1 1) (PInt 0) (q 1 1)] /\
  effs_ok cfg_plain [DelayReset (PInt 500); HwEnable (q 1 1) (PInt 0) (q 1 1)] = true.
Proof. repeat split; vm_compute; reflexivity. Qed.

Example ex_bad_refused :
  req_bad cfg_ex (RPulse (PInt (-5)) PNone) = true /\ handle cfg_ex (RPulse (PInt (-5)) PNone) = Err EAssert /\
  req_bad cfg_ex (RPulse PNone (PFloat NaN)) = true /\ handle cfg_ex (RPulse PNone (PFloat NaN)) = Err EAssert /\
  req_bad cfg_ex (REnable PNone PNone (q 1 2)) = true /\ handle cfg_ex (REnable PNone PNone (q 1 2)) = Err ELimits /\
  req_bad cfg_plain (REnable PNone PNone (q (-1) 1)) = true /\ handle cfg_plain (REnable PNone PNone (q (-1) 1)) = Err EAssert /\
  req_bad cfg_plain (RTimedEnable (PInt (-100)) PNone PNone PNone) = true /\
  handle cfg_plain (RTimedEnable (PInt (-100)) PNone PNone PNone) = Err EAssert.
Proof. repeat split; vm_compute; reflexivity. Qed.

(* a coil that does not allow holding refuses enable() *)
Example ex_no_hold : handle cfg_plain (REnable PNone PNone PNone) = Err ELimits.
Proof. vm_compute. reflexivity. Qed.

Definition hist_ex : list (Z * top) :=
  [(0, TSoftPulse 500); (100, TEnable); (500, TFire); (600, TEnable); (700, TSoftPulse 5000); (2600, TFire);
   (2700, TSoftPulse 300)].
Example ex_timer :
  well_timed (Some 2000) 0 tinit hist_ex = true /\
  ts_on (trun (Some 2000) tinit hist_ex) = true /\
  ts_timed_disable (trun (Some 2000) tinit hist_ex) = Some 3000 /\
  ts_on (trun (Some 2000) tinit (firstn 6 hist_ex)) = false.
Proof. repeat split; vm_compute; reflexivity. Qed.
