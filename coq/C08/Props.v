(* C08/Props.v — property theorems only.  Each is closed by [exact] of a lemma from Lemmas.v and followed by
   Print Assumptions (parsed by the check: must be "Closed under the global context").

   Property C08: no command reaching a platform driver carries a pulse longer than max_pulse_ms, a pulse power
   above max_pulse_power or a hold power above max_hold_power; a coil is never left held on unless its
   configuration allows holding; a request above a limit or with a negative duration or power is refused with an
   error; a coil switched on for a software-timed pulse or limited by max_hold_duration is switched off again.

   The verify functions in the statements below are the GENERATED definitions (gen/Driver.v, from
   mpf/devices/driver.py with fixes/C08-driver-limit-checks.patch applied).  On the code before that patch the
   full statements are false (negative / NaN powers and negative durations pass the dead chained comparisons,
   see chained_gt_0_1_never_true); the check then reports the broken proofs together with failing inputs found
   by the oracle on the implementation.  Satisfiability examples: Lemmas.v (ex_cfg_ok, ex_pulse_ok,
   ex_bad_refused, ex_no_hold, ex_timer). *)
From Common Require Import Prelude.
From Coq Require Import QArith String.
From C08 Require Import Py Model Lemmas.
From C08.gen Require Import Driver Sites.
Open Scope Z_scope.

(* Every effect of every accepted request, for every validated configuration and every argument vector
   (None / int / float / NaN, any sign and size): powers in [0,1] and below the configured maxima, durations
   non-negative ints below max_pulse_ms, hardware pulses only for 0 < ms <= platform max, holds only where the
   configuration allows holding and with the max_hold_duration watchdog armed, software-timed pulses preceded by
   their off-timer, timed enables below max_hold_duration. *)
Theorem hw_command_within_limits :
  forall (c : cfg) (r : req) (l : list eff),
    cfg_ok c = true -> handle c r = Ok l -> effs_ok c l = true.
Proof. exact hw_command_within_limits_l. Qed.
Print Assumptions hw_command_within_limits.

(* An explicitly given argument that is NaN, negative, not an int (durations), above 1 (powers) or above its
   configured limit makes the request fail with an error (and, by the type of [handle], nothing is sent). *)
Theorem bad_request_refused :
  forall (c : cfg) (r : req),
    cfg_ok c = true -> req_bad c r = true -> exists e, handle c r = Err e.
Proof. exact bad_request_refused_l. Qed.
Print Assumptions bad_request_refused.

(* The generated verify functions: what they return is within limits, and an explicit argument is returned
   unchanged (never clamped). *)
Theorem verify_pulse_power_checked :
  forall c v r, cfg_ok c = true -> get_and_verify_pulse_power c v = Ok r ->
    power_ok (cfg_max_pulse_power c) r = true /\ (v <> PNone -> r = v).
Proof. exact verify_pulse_power_spec. Qed.
Print Assumptions verify_pulse_power_checked.

Theorem verify_hold_power_checked :
  forall c v r, cfg_ok c = true -> get_and_verify_hold_power c v = Ok r ->
    power_ok (cfg_max_hold_power c) r = true /\ (truthy r = true -> holding_allowed c = true) /\ (v <> PNone -> r = v).
Proof. exact verify_hold_power_spec. Qed.
Print Assumptions verify_hold_power_checked.

Theorem verify_pulse_ms_checked :
  forall c v r, cfg_ok c = true -> get_and_verify_pulse_ms c v = Ok r ->
    dur_ok (cfg_max_pulse_ms c) r = true /\ (v <> PNone -> r = v).
Proof. exact verify_pulse_ms_spec. Qed.
Print Assumptions verify_pulse_ms_checked.

Theorem verify_timed_enable_ms_checked :
  forall c v r, cfg_ok c = true -> get_and_verify_timed_enable_ms c v = Ok r ->
    hold_dur_ok c r = true /\ (v <> PNone -> r = v).
Proof. exact verify_timed_enable_ms_spec. Qed.
Print Assumptions verify_timed_enable_ms_checked.

(* Why the unpatched range tests were dead code: `0 > x > 1` is `0 > x and x > 1`. *)
Theorem chained_gt_0_1_never_true :
  forall v, t_and (t_cmp Gt (PInt 0) v) (t_cmp Gt v (PInt 1)) <> Some true.
Proof. exact chained_gt_0_1_never_true_l. Qed.
Print Assumptions chained_gt_0_1_never_true.

(* T-fact: every call of hw_driver.pulse/enable/timed_enable, every escape of a hw driver object and every
   configure_driver call in non-test mpf code (gen/Sites.v, regenerated on every run) is one of the reviewed
   sites listed in Model.v. *)
Theorem no_unguarded_hw_call_site :
  forall s, In s sites -> In s reviewed.
Proof. exact no_unguarded_hw_call_site_l. Qed.
Print Assumptions no_unguarded_hw_call_site.

(* Software timers, for every well-timed interleaving of verified soft pulses, hardware pulses, enables, disables
   and timer firings: a coil that is on only because of software-timed pulses has a pending 'timed_disable' whose
   deadline has not passed; a held coil with max_hold_duration d has a pending watchdog not later than d after
   the hold began. *)
Theorem timed_on_followed_by_off :
  forall (mhd : option Z) (h : list (Z * top)),
    match mhd with Some d => 0 <=? d | None => true end = true ->
    well_timed mhd 0 tinit h = true ->
    let s := trun mhd tinit h in let now := tlast 0 h in
    ts_on s = true ->
    (ts_hold s = false -> exists a, ts_timed_disable s = Some a /\ now <= a) /\
    (ts_hold s = true -> forall d, mhd = Some d ->
       exists b, ts_limit s = Some b /\ now <= b /\ b <= ts_hold_since s + d).
Proof. exact timed_on_followed_by_off_l. Qed.
Print Assumptions timed_on_followed_by_off.

(* ... and when the earliest pending timer fires, the coil is off. *)
Theorem fire_switches_off :
  forall mhd now s d, next_deadline s = Some d -> ts_on (tstep mhd now s TFire) = false.
Proof. exact fire_switches_off_l. Qed.
Print Assumptions fire_switches_off.
