(* C08/Props.v — property theorems only.  Each is closed by [exact] of a lemma from Lemmas.v and followed by
   Print Assumptions (parsed by the check: must be "Closed under the global context").

   Property C08: no command reaching a platform driver carries a pulse longer than max_pulse_ms, a pulse power
   above max_pulse_power or a hold power above max_hold_power; a coil is never left held on unless its
   configuration allows holding; a request above a limit or with a negative duration or power is refused with an
   error; a coil switched on for a software-timed pulse or limited by max_hold_duration is switched off again.

   The verify functions in the statements below are the GENERATED definitions (gen/Driver.v, from
   mpf/devices/driver.py with fixes/C08-driver-limit-checks.patch applied).  On the code before that patch the
   full statements are false (negative / NaN powers and negative durations pass the dead chained comparisons,
   see chained_gt_0_1_never_true); the check then reports the broken proofs together with failing inputs found
   by the oracle on the implementation.  Satisfiability examples: Lemmas.v (ex_cfg_ok, ex_pulse_ok,
   ex_bad_refused, ex_no_hold, ex_timer). *)
From Common Require Import Prelude.
From Coq Require Import QArith String.
From C08 Require Import Py Model Lemmas Hist HistLemmas.
From C08.gen Require Import Driver Sites.
Open Scope Z_scope.

(* Every effect of every accepted request, for every validated configuration and every argument vector
   (None / int / float / NaN, any sign and size): powers in [0,1] and below the configured maxima, durations
   non-negative ints below max_pulse_ms, hardware pulses only for 0 < ms <= platform max, holds only where the
   configuration allows holding and with the max_hold_duration watchdog armed, software-timed pulses preceded by
   their off-timer, timed enables below max_hold_duration. *)
Theorem hw_command_within_limits :
  forall (c : cfg) (r : req) (l : list eff),
    cfg_ok c = true -> handle c r = Ok l -> effs_ok c l = true.
Proof. exact hw_command_within_limits_l. Qed.
Print Assumptions hw_command_within_limits.

(* An explicitly given argument that is NaN, negative, not an int (durations), above 1 (powers) or above its
   configured limit makes the request fail with an error (and, by the type of [handle], nothing is sent). *)
Theorem bad_request_refused :
  forall (c : cfg) (r : req),
    cfg_ok c = true -> req_bad c r = true -> exists e, handle c r = Err e.
Proof. exact bad_request_refused_l. Qed.
Print Assumptions bad_request_refused.

(* The generated verify functions: what they return is within limits, and an explicit argument is returned
   unchanged (never clamped). *)
Theorem verify_pulse_power_checked :
  forall c v r, cfg_ok c = true -> get_and_verify_pulse_power c v = Ok r ->
    power_ok (cfg_max_pulse_power c) r = true /\ (v <> PNone -> r = v).
Proof. exact verify_pulse_power_spec. Qed.
Print Assumptions verify_pulse_power_checked.

Theorem verify_hold_power_checked :
  forall c v r, cfg_ok c = true -> get_and_verify_hold_power c v = Ok r ->
    power_ok (cfg_max_hold_power c) r = true /\ (truthy r = true -> holding_allowed c = true) /\ (v <> PNone -> r = v).
Proof. exact verify_hold_power_spec. Qed.
Print Assumptions verify_hold_power_checked.

Theorem verify_pulse_ms_checked :
  forall c v r, cfg_ok c = true -> get_and_verify_pulse_ms c v = Ok r ->
    dur_ok (cfg_max_pulse_ms c) r = true /\ (v <> PNone -> r = v).
Proof. exact verify_pulse_ms_spec. Qed.
Print Assumptions verify_pulse_ms_checked.

Theorem verify_timed_enable_ms_checked :
  forall c v r, cfg_ok c = true -> get_and_verify_timed_enable_ms c v = Ok r ->
    hold_dur_ok c r = true /\ (v <> PNone -> r = v).
Proof. exact verify_timed_enable_ms_spec. Qed.
Print Assumptions verify_timed_enable_ms_checked.

(* Why the unpatched range tests were dead code: `0 > x > 1` is `0 > x and x > 1`. *)
Theorem chained_gt_0_1_never_true :
  forall v, t_and (t_cmp Gt (PInt 0) v) (t_cmp Gt v (PInt 1)) <> Some true.
Proof. exact chained_gt_0_1_never_true_l. Qed.
Print Assumptions chained_gt_0_1_never_true.

(* T-fact: every call of hw_driver.pulse/enable/timed_enable, every escape of a hw driver object and every
   configure_driver call in non-test mpf code (gen/Sites.v, regenerated on every run) is one of the reviewed
   sites listed in Model.v. *)
Theorem no_unguarded_hw_call_site :
  forall s, In s sites -> In s reviewed.
Proof. exact no_unguarded_hw_call_site_l. Qed.
Print Assumptions no_unguarded_hw_call_site.

(* Software timers, for every well-timed interleaving of verified soft pulses, hardware pulses, enables, disables
   and timer firings: a coil that is on only because of software-timed pulses has a pending 'timed_disable' whose
   deadline has not passed; a held coil with max_hold_duration d has a pending watchdog not later than d after
   the hold began. *)
Theorem timed_on_followed_by_off :
  forall (mhd : option Z) (h : list (Z * top)),
    match mhd with Some d => 0 <=? d | None => true end = true ->
    well_timed mhd 0 tinit h = true ->
    let s := trun mhd tinit h in let now := tlast 0 h in
    ts_on s = true ->
    (ts_hold s = false -> exists a, ts_timed_disable s = Some a /\ now <= a) /\
    (ts_hold s = true -> forall d, mhd = Some d ->
       exists b, ts_limit s = Some b /\ now <= b /\ b <= ts_hold_since s + d).
Proof. exact timed_on_followed_by_off_l. Qed.
Print Assumptions timed_on_followed_by_off.

(* ... and when the earliest pending timer fires, the coil is off. *)
Theorem fire_switches_off :
  forall mhd now s d, next_deadline s = Some d -> ts_on (tstep mhd now s TFire) = false.
Proof. exact fire_switches_off_l. Qed.
Print Assumptions fire_switches_off.

(* ================================================================================================== *)
(* Histories (Hist.v): one coil, its DelayManager and the clock.  Examples: HistLemmas.v (ex_hist_refused,
   ex_hist_deferred, ex_hist_hyps). *)

(* default_pulse_ms / default_timed_enable_ms are runtime placeholders: whatever they evaluate to at the moment of a
   request (with_defaults c a b, any a b), every effect of an accepted request is within the configured limits. *)
Theorem any_default_within_limits :
  forall c a b r l, cfg_ok c = true -> handle (with_defaults c a b) r = Ok l -> effs_ok c l = true.
Proof. exact any_default_within_limits_l. Qed.
Print Assumptions any_default_within_limits.

(* A pulse / enable that the power-supply unit defers (any wait w > 0) sends nothing now, and what is put into the
   delay are verified arguments ... *)
Theorem deferred_call_verified :
  forall c r w l d, cfg_ok c = true -> hhandle c r w = Ok (l, Some d) -> l = [] /\ 0 < w /\ dcall_ok c d = true.
Proof. exact hhandle_some. Qed.
Print Assumptions deferred_call_verified.

(* ... so that the delayed _pulse_now / _enable_now, whenever it runs and whatever the placeholders are by then,
   sends only commands within the limits (hw_command_within_limits for the delayed hardware calls). *)
Theorem deferred_call_within_limits :
  forall c a b d l, cfg_ok c = true -> dcall_ok c d = true -> exec_dcall (with_defaults c a b) d = Ok l ->
    effs_ok c l = true.
Proof. exact deferred_call_within_limits_l. Qed.
Print Assumptions deferred_call_within_limits.

(* A refused request touches neither the coil nor any of its delays (in particular not the off-timer of a running
   software-timed pulse). *)
Theorem refused_request_changes_nothing :
  forall c s t r w e, hhandle (cur c (set_now s t)) r w = Err e ->
    hstep c s (EReq t (HReq r w)) = (set_now s t, (t, Err e)).
Proof. exact refused_request_changes_nothing_l. Qed.
Print Assumptions refused_request_changes_nothing.

Theorem named_expiry_switches_off :
  forall c s, (h_td s <> None -> h_on (fst (hstep c s EFireTd)) = false) /\
              (h_lim s <> None -> h_on (fst (hstep c s EFireLim)) = false).
Proof. exact named_expiry_switches_off_l. Qed.
Print Assumptions named_expiry_switches_off.

(* END-TO-END.  For every validated configuration, every history of requests (any arguments, accepted or refused,
   immediate or deferred by any PSU answer, lights on the drivers platform, re-evaluated placeholders) and every
   interleaving with expiring delays that the clock allows (hvalid: a request never overtakes a due delay, a delay
   fires when none is earlier, equal deadlines in either order; no bound on the length):
   (1) every command that reaches the hardware, from a request or from an expiring delay, is within the limits;
   (2) a coil that is on without an accepted enable outstanding has its 'timed_disable' pending and not overdue;
   (3) a coil that is on with an accepted enable outstanding is allowed to be held, and if max_hold_duration is
       configured the watchdog is pending, not overdue, and due at most max_hold_duration after the FIRST enable since
       the coil was last off;
   (4) at rest (no delay pending) the coil is off unless a permitted enable without max_hold_duration is outstanding. *)
Theorem history_safe :
  forall (c : cfg) (evs : list hev),
    cfg_ok c = true -> hvalid c (hinit c) evs = true ->
    let s := fst (hrun c (hinit c) evs) in
    forallb (out_ok c) (snd (hrun c (hinit c) evs)) = true /\
    (h_on s = true -> h_hold s = false -> exists a, h_td s = Some a /\ h_now s <= a) /\
    (h_on s = true -> h_hold s = true ->
       holding_allowed c = true /\
       (truthy (cfg_max_hold_duration c) = true ->
        exists b, h_lim s = Some b /\ h_now s <= b /\ b <= h_since s + mhd_ms c)) /\
    (at_rest s = true -> h_on s = true ->
       h_hold s = true /\ holding_allowed c = true /\ truthy (cfg_max_hold_duration c) = false).
Proof. exact history_safe_l. Qed.
Print Assumptions history_safe.
