(* C08/Py.v — the fragment of Python's data model that mpf/devices/driver.py uses in its limit checks:
   None / int / float (exact rationals plus NaN), truthiness, comparisons (chained ones are conjunctions,
   written out by the translator), `is None`, isinstance(x, int), and exceptions as a result type.
   bool is a subclass of int in Python and behaves as 0/1 in every operation used here; the harness
   prints True/False as PInt 1 / PInt 0.  +-inf is outside the model (cases carrying it go to the
   oracle only).  Definitions and the inversion lemmas the proofs in Lemmas.v use; stdlib only. *)
From Common Require Import Prelude.
From Coq Require Import QArith Lqa.
Open Scope Z_scope.

Inductive fnum := NaN | Fin (q : Q).
Inductive pyval := PNone | PInt (z : Z) | PFloat (f : fnum).

Inductive err := EAssert | ELimits | EType.
Inductive res (A : Type) := Ok (a : A) | Err (e : err).
Arguments Ok {A} a.
Arguments Err {A} e.

Definition bind {A B} (r : res A) (f : A -> res B) : res B :=
  match r with Ok a => f a | Err e => Err e end.

(* numeric view: None for PNone (an ordering comparison with None raises TypeError) *)
Definition fval (v : pyval) : option fnum :=
  match v with PNone => None | PInt z => Some (Fin (inject_Z z)) | PFloat f => Some f end.

(* exact rational value: None for PNone and NaN *)
Definition qval (v : pyval) : option Q :=
  match v with PNone => None | PInt z => Some (inject_Z z) | PFloat NaN => None | PFloat (Fin q) => Some q end.

Definition Qlt_bool (x y : Q) : bool := negb (Qle_bool y x).

Definition truthy (v : pyval) : bool :=
  match v with
  | PNone => false
  | PInt z => negb (z =? 0)
  | PFloat NaN => true
  | PFloat (Fin q) => negb (Qeq_bool q 0)
  end.

Inductive cmpop := Gt | Lt | Ge | Le | Eq.

Definition fcmp (op : cmpop) (a b : fnum) : bool :=
  match a, b with
  | Fin x, Fin y =>
      match op with
      | Gt => Qlt_bool y x | Lt => Qlt_bool x y | Ge => Qle_bool y x | Le => Qle_bool x y | Eq => Qeq_bool x y
      end
  | _, _ => false          (* every comparison with NaN is False *)
  end.

(* a test evaluates to Some b, or None when Python raises TypeError *)
Definition tst := option bool.

Definition t_cmp (op : cmpop) (a b : pyval) : tst :=
  match op, fval a, fval b with
  | _, Some x, Some y => Some (fcmp op x y)
  | Eq, None, None => Some true            (* None == None *)
  | Eq, _, _ => Some false                 (* None == number *)
  | _, _, _ => None                        (* None < number: TypeError *)
  end.

Definition t_truthy (v : pyval) : tst := Some (truthy v).
Definition t_isnone (v : pyval) : tst := Some (match v with PNone => true | _ => false end).
Definition t_isnotnone (v : pyval) : tst := Some (match v with PNone => false | _ => true end).
Definition t_isint (v : pyval) : tst := Some (match v with PInt _ => true | _ => false end).
Definition t_not (t : tst) : tst := option_map negb t.
(* `a and b` / `a or b` in a test position: b is only evaluated (and can only raise) when needed *)
Definition t_and (a b : tst) : tst :=
  match a with Some true => b | Some false => Some false | None => None end.
Definition t_or (a b : tst) : tst :=
  match a with Some true => Some true | Some false => b | None => None end.

Definition ifT {A} (t : tst) (a b : res A) : res A :=
  match t with Some true => a | Some false => b | None => Err EType end.

(* total tests allowed in conditional *expressions* (x if t else y) *)
Definition is_none (v : pyval) : bool := match v with PNone => true | _ => false end.

(* x * y on numbers (used for max_hold_duration * 1000); None operand -> PNone (not reachable: guarded by truthiness) *)
Definition pmul (a b : pyval) : pyval :=
  match a, b with
  | PInt x, PInt y => PInt (x * y)
  | _, _ => match fval a, fval b with
            | Some (Fin x), Some (Fin y) => PFloat (Fin (x * y)%Q)
            | Some _, Some _ => PFloat NaN
            | _, _ => PNone
            end
  end.

(* ---- equality of observations (floats compare by value: 1/2 = 2/4; NaN equals NaN) ------------ *)
Definition fnum_eqb (a b : fnum) : bool :=
  match a, b with NaN, NaN => true | Fin x, Fin y => Qeq_bool x y | _, _ => false end.
Definition pyval_eqb (a b : pyval) : bool :=
  match a, b with
  | PNone, PNone => true
  | PInt x, PInt y => x =? y
  | PFloat x, PFloat y => fnum_eqb x y
  | _, _ => false
  end.
Definition err_eqb (a b : err) : bool :=
  match a, b with EAssert, EAssert | ELimits, ELimits | EType, EType => true | _, _ => false end.

(* ---- the configuration a Driver reads ---------------------------------------------------------- *)
Record cfg := {
  cfg_allow_enable : pyval;
  cfg_default_pulse_power : pyval;
  cfg_default_hold_power : pyval;
  cfg_max_pulse_ms : pyval;
  cfg_max_pulse_power : pyval;
  cfg_max_hold_power : pyval;
  cfg_max_hold_duration : pyval;
  cfg_pulse_with_timed_enable : pyval;
  st_pulse_ms : pyval;            (* self._pulse_ms: evaluated default_pulse_ms template or the machine default *)
  st_timed_enable_ms : pyval;     (* self._timed_enable_ms *)
  plat_max_pulse : pyval          (* self.platform.features['max_pulse'] *)
}.

(* ---- inversion lemmas -------------------------------------------------------------------------- *)
Lemma Qlt_bool_iff x y : Qlt_bool x y = true <-> (x < y)%Q.
Proof.
  unfold Qlt_bool. rewrite negb_true_iff. split; intro H.
  - apply Qnot_le_lt. intro L. apply Qle_bool_iff in L. congruence.
  - destruct (Qle_bool y x) eqn:E; [|reflexivity]. apply Qle_bool_iff in E. apply Qle_not_lt in E. contradiction.
Qed.

Lemma Qlt_bool_false x y : Qlt_bool x y = false <-> (y <= x)%Q.
Proof.
  unfold Qlt_bool. rewrite negb_false_iff. apply Qle_bool_iff.
Qed.

Lemma Qle_bool_false x y : Qle_bool x y = false <-> (y < x)%Q.
Proof.
  split; intro H.
  - apply Qnot_le_lt. intro L. apply Qle_bool_iff in L. congruence.
  - destruct (Qle_bool x y) eqn:E; [|reflexivity]. apply Qle_bool_iff in E. apply Qle_not_lt in E. contradiction.
Qed.

Lemma qval_fval v q : qval v = Some q -> fval v = Some (Fin q).
Proof. destruct v as [|z|[|x]]; cbn; intro H; inversion H; reflexivity. Qed.

Lemma ifT_ok {A} t (a b : res A) r :
  ifT t a b = Ok r -> (t = Some true /\ a = Ok r) \/ (t = Some false /\ b = Ok r).
Proof. destruct t as [[|]|]; cbn; intro H; [left|right|discriminate]; split; auto. Qed.

Lemma t_and_true a b : t_and a b = Some true -> a = Some true /\ b = Some true.
Proof. destruct a as [[|]|]; cbn; intro H; try discriminate; auto. Qed.

Lemma t_and_false a b : t_and a b = Some false -> a = Some false \/ (a = Some true /\ b = Some false).
Proof. destruct a as [[|]|]; cbn; intro H; try discriminate; auto. Qed.

Lemma t_or_false a b : t_or a b = Some false -> a = Some false /\ b = Some false.
Proof. destruct a as [[|]|]; cbn; intro H; try discriminate; auto. Qed.

Lemma t_or_true a b : t_or a b = Some true -> a = Some true \/ (a = Some false /\ b = Some true).
Proof. destruct a as [[|]|]; cbn; intro H; try discriminate; auto. Qed.

Lemma t_not_true t : t_not t = Some true -> t = Some false.
Proof. destruct t as [[|]|]; cbn; intro H; try discriminate; auto. Qed.

Lemma t_not_false t : t_not t = Some false -> t = Some true.
Proof. destruct t as [[|]|]; cbn; intro H; try discriminate; auto. Qed.

Lemma t_truthy_inv v b : t_truthy v = Some b -> truthy v = b.
Proof. unfold t_truthy. intro H. inversion H. reflexivity. Qed.

Lemma t_isint_true v : t_isint v = Some true -> exists z, v = PInt z.
Proof. destruct v; cbn; intro H; try discriminate. eauto. Qed.

Lemma t_isnone_inv v b : t_isnone v = Some b -> is_none v = b.
Proof. destruct v; cbn; intro H; inversion H; reflexivity. Qed.

(* a comparison that came out True: both sides are real numbers in that relation *)
Lemma t_cmp_true op a b :
  t_cmp op a b = Some true -> op <> Eq ->
  exists x y, qval a = Some x /\ qval b = Some y /\
    match op with Gt => (y < x)%Q | Lt => (x < y)%Q | Ge => (y <= x)%Q | Le => (x <= y)%Q | Eq => True end.
Proof.
  intros H Hop.
  destruct a as [|za|[|xa]], b as [|zb|[|xb]]; destruct op; cbn in H; try discriminate; try congruence;
    (eexists; eexists; split; [reflexivity|split; [reflexivity|]]);
    inversion H as [H'];
    first [apply Qlt_bool_iff in H'; exact H' | apply Qle_bool_iff in H'; exact H'].
Qed.

(* a comparison that came out False between two real numbers: the negation holds *)
Lemma t_cmp_false op a b x y :
  t_cmp op a b = Some false -> qval a = Some x -> qval b = Some y ->
    match op with Gt => (x <= y)%Q | Lt => (y <= x)%Q | Ge => (x < y)%Q | Le => (y < x)%Q | Eq => ~ (x == y)%Q end.
Proof.
  intros H Ha Hb. apply qval_fval in Ha. apply qval_fval in Hb.
  unfold t_cmp in H. rewrite Ha, Hb in H.
  destruct op; cbn in H; inversion H as [H'].
  - apply Qlt_bool_false in H'. exact H'.
  - apply Qlt_bool_false in H'. exact H'.
  - apply Qle_bool_false in H'. exact H'.
  - apply Qle_bool_false in H'. exact H'.
  - intro E. apply Qeq_bool_iff in E. congruence.
Qed.

Lemma truthy_qval_nonzero v q : qval v = Some q -> truthy v = true -> ~ (q == 0)%Q.
Proof.
  destruct v as [|z|[|x]]; cbn; intros H T; inversion H; subst.
  - intro E. apply negb_true_iff in T. apply Z.eqb_neq in T. apply T.
    unfold Qeq, inject_Z in E. cbn in E. lia.
  - intro E. apply negb_true_iff in T. apply Qeq_bool_iff in E. congruence.
Qed.
