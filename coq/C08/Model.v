(* C08/Model.v — executable model of the coil-actuation decisions of mpf/devices/driver.py.

   (T)  gen/Driver.v : get_and_verify_pulse_power / _hold_power / _pulse_ms / _timed_enable_ms, regenerated from
        the Python source by harness/props/c08.py on every run (chained comparisons translated literally).
   (T)  gen/Sites.v  : every place in non-test mpf code that calls hw_driver.pulse/enable/timed_enable, lets a hw
        driver object escape, or creates one (configure_driver).
   (H)  this file    : the action methods pulse / _pulse_now / enable / _enable_now / timed_enable / disable and
        PlatformController._get_configured_driver_no_hold / _with_hold, written by hand over the generated
        verify functions and tied to the code by the correspondence suites of harness/props/c08.py; and a small
        timer model (two named delays) for the software-timed switch-off.
   Definitions only; proofs are in Lemmas.v. *)
From Common Require Import Prelude.
From Coq Require Import QArith String.
From C08 Require Import Py.
From C08.gen Require Import Driver Sites.
Open Scope Z_scope.

(* ---- what reaches the platform driver interface, and the delay operations around it ------------ *)
Inductive eff :=
| HwPulse (power dur : pyval)                         (* hw_driver.pulse(PulseSettings(power, dur)) *)
| HwEnable (ppower pdur hpower : pyval)               (* hw_driver.enable(PulseSettings, HoldSettings(hpower)) *)
| HwTimedEnable (ppower pdur hpower hdur : pyval)     (* hw_driver.timed_enable(PulseSettings, HoldSettings(hpower, hdur)) *)
| HwDisable                                           (* hw_driver.disable() *)
| DelayReset (ms : pyval)         (* delay.reset(name='timed_disable', ms=ms, callback=self.disable) *)
| DelayAddIfAbsent (ms : pyval)   (* delay.add_if_doesnt_exist(ms, self._enable_limit_reached, "enable_limit_reached") *)
| DelayRemoveLimit                (* delay.remove("enable_limit_reached") *)
| RuleSettings (ppower pdur : pyval) (hold : option pyval).   (* DriverSettings handed to platform.set_*_rule *)

Inductive req :=
| RPulse (ms power : pyval)                     (* pulse / event_pulse / coil_player action pulse *)
| REnable (ms power hold : pyval)               (* enable / event_enable / coil_player action enable *)
| RTimedEnable (te_ms hold ms power : pyval)    (* timed_enable / event_timed_enable *)
| RDisable
| RRuleNoHold (pulse : option (pyval * pyval))                          (* PulseRuleSettings(power, duration) or None *)
| RRuleWithHold (pulse : option (pyval * pyval)) (hold : option pyval). (* + HoldRuleSettings(power) or None *)

Definition timed_enable (c : cfg) (te hold ms power : pyval) : res (list eff) :=
  bind (get_and_verify_pulse_ms c ms) (fun pd =>
  bind (get_and_verify_pulse_power c power) (fun pp =>
  bind (get_and_verify_timed_enable_ms c te) (fun hd =>
  bind (get_and_verify_hold_power c hold) (fun hp =>
  Ok [HwTimedEnable pp pd hp hd])))).

(* Driver._pulse_now(pulse_ms, pulse_power) *)
Definition pulse_now (c : cfg) (ms power : pyval) : res (list eff) :=
  if truthy (cfg_pulse_with_timed_enable c) then timed_enable c PNone PNone ms power
  else ifT (t_and (t_cmp Lt (PInt 0) ms) (t_cmp Le ms (plat_max_pulse c)))
           (Ok [HwPulse power ms])
           (Ok [DelayReset ms; HwEnable power (PInt 0) power]).

(* Driver.pulse: whether the PSU delays the pulse (delay.add(wait_ms, self._pulse_now, ...)) does not change
   what is sent, only when; the harness observes the command when it is issued. *)
Definition pulse (c : cfg) (ms power : pyval) : res (list eff) :=
  bind (get_and_verify_pulse_ms c ms) (fun pd =>
  bind (get_and_verify_pulse_power c power) (fun pp =>
  pulse_now c pd pp)).

Definition enable_now (c : cfg) (ms pp hp : pyval) : list eff :=
  HwEnable pp ms hp ::
  (if truthy (cfg_max_hold_duration c) then [DelayAddIfAbsent (pmul (cfg_max_hold_duration c) (PInt 1000))] else []).

Definition zero_f : pyval := PFloat (Fin 0).

Definition enable (c : cfg) (ms power hold : pyval) : res (list eff) :=
  bind (get_and_verify_pulse_ms c ms) (fun pd =>
  bind (get_and_verify_pulse_power c power) (fun pp =>
  bind (get_and_verify_hold_power c hold) (fun hp =>
  ifT (t_cmp Eq hp zero_f) (Err ELimits) (Ok (enable_now c pd pp hp))))).

Definition disable : list eff := [HwDisable; DelayRemoveLimit].

Definition opt_fst (p : option (pyval * pyval)) : pyval := match p with Some (a, _) => a | None => PNone end.
Definition opt_snd (p : option (pyval * pyval)) : pyval := match p with Some (_, b) => b | None => PNone end.
Definition opt_v (p : option pyval) : pyval := match p with Some a => a | None => PNone end.

Definition rule_no_hold (c : cfg) (p : option (pyval * pyval)) : res (list eff) :=
  bind (get_and_verify_pulse_ms c (opt_snd p)) (fun pd =>
  bind (get_and_verify_pulse_power c (opt_fst p)) (fun pp =>
  Ok [RuleSettings pp pd None])).

Definition rule_with_hold (c : cfg) (p : option (pyval * pyval)) (h : option pyval) : res (list eff) :=
  bind (get_and_verify_pulse_ms c (opt_snd p)) (fun pd =>
  bind (get_and_verify_pulse_power c (opt_fst p)) (fun pp =>
  bind (get_and_verify_hold_power c (opt_v h)) (fun hp =>
  ifT (t_cmp Eq hp zero_f) (Err EAssert) (Ok [RuleSettings pp pd (Some hp)])))).

Definition handle (c : cfg) (r : req) : res (list eff) :=
  match r with
  | RPulse ms p => pulse c ms p
  | REnable ms p h => enable c ms p h
  | RTimedEnable te h ms p => timed_enable c te h ms p
  | RDisable => Ok disable
  | RRuleNoHold p => rule_no_hold c p
  | RRuleWithHold p h => rule_with_hold c p h
  end.

(* ---- the property's predicate on what reaches the platform ------------------------------------ *)
Definition leb_v (a b : pyval) : bool :=
  match qval a, qval b with Some x, Some y => Qle_bool x y | _, _ => false end.
Definition ltb_v (a b : pyval) : bool :=
  match qval a, qval b with Some x, Some y => Qlt_bool x y | _, _ => false end.
Definition is_num (v : pyval) : bool := match qval v with Some _ => true | None => false end.
Definition is_pint (v : pyval) : bool := match v with PInt _ => true | _ => false end.

(* a power: a real number in [0,1], and not above the limit when a limit is configured *)
Definition power_ok (lim v : pyval) : bool :=
  leb_v (PInt 0) v && leb_v v (PInt 1) && (negb (truthy lim) || leb_v v lim).
(* a duration: a non-negative int, not above the limit when a limit is configured *)
Definition dur_ok (lim v : pyval) : bool :=
  is_pint v && leb_v (PInt 0) v && (negb (truthy lim) || leb_v v lim).

Definition pulse_part_ok (c : cfg) (pp pd : pyval) : bool :=
  power_ok (cfg_max_pulse_power c) pp && dur_ok (cfg_max_pulse_ms c) pd.

Definition holding_allowed (c : cfg) : bool :=
  truthy (cfg_allow_enable c) || truthy (cfg_max_hold_power c) || truthy (cfg_default_hold_power c).

Definition hold_ok (c : cfg) (h : pyval) : bool :=
  holding_allowed c && ltb_v (PInt 0) h && power_ok (cfg_max_hold_power c) h.

Definition hold_ms_limit (c : cfg) : pyval := pmul (cfg_max_hold_duration c) (PInt 1000).

Fixpoint effs_ok (c : cfg) (l : list eff) : bool :=
  match l with
  | [] => true
  | HwPulse p d :: r =>
      pulse_part_ok c p d && ltb_v (PInt 0) d && leb_v d (plat_max_pulse c) && effs_ok c r
  | DelayReset ms :: r =>
      (* software-timed pulse: the off-timer is armed with a checked duration immediately before the coil is
         switched on at the checked pulse power *)
      match r with
      | HwEnable p d h :: r' => pulse_part_ok c p ms && pyval_eqb d (PInt 0) && pyval_eqb h p && effs_ok c r'
      | _ => false
      end
  | HwEnable p d h :: r =>
      (* a hold: only if the configuration allows holding, with the watchdog armed when one is configured *)
      pulse_part_ok c p d && hold_ok c h &&
      (if truthy (cfg_max_hold_duration c) then
         match r with
         | DelayAddIfAbsent ms :: r' => pyval_eqb ms (hold_ms_limit c) && effs_ok c r'
         | _ => false
         end
       else effs_ok c r)
  | HwTimedEnable p d h hd :: r =>
      pulse_part_ok c p d && power_ok (cfg_max_hold_power c) h && (negb (truthy h) || holding_allowed c) &&
      is_pint hd && leb_v (PInt 0) hd && (negb (truthy (cfg_max_hold_duration c)) || leb_v hd (hold_ms_limit c)) &&
      effs_ok c r
  | HwDisable :: r => effs_ok c r
  | DelayRemoveLimit :: r => effs_ok c r
  | DelayAddIfAbsent _ :: _ => false
  | RuleSettings p d None :: r => pulse_part_ok c p d && effs_ok c r
  | RuleSettings p d (Some h) :: r => pulse_part_ok c p d && hold_ok c h && effs_ok c r
  end.

(* configurations that pass MPF's config validation (config_spec.yaml, coils:): powers float(0,1) or None,
   max_pulse_ms ms (non-negative int) or None, max_hold_duration secs (non-negative) or None.  allow_enable,
   pulse_with_timed_enable, the evaluated default_pulse_ms / default_timed_enable_ms templates are unconstrained. *)
Definition opt_unit (v : pyval) : bool := is_none v || (leb_v (PInt 0) v && leb_v v (PInt 1)).
Definition cfg_ok (c : cfg) : bool :=
  opt_unit (cfg_max_pulse_power c) && opt_unit (cfg_default_pulse_power c) &&
  opt_unit (cfg_max_hold_power c) && opt_unit (cfg_default_hold_power c) &&
  (is_none (cfg_max_pulse_ms c) || (is_pint (cfg_max_pulse_ms c) && leb_v (PInt 0) (cfg_max_pulse_ms c))) &&
  (is_none (cfg_max_hold_duration c) || leb_v (PInt 0) (cfg_max_hold_duration c)) &&
  is_pint (plat_max_pulse c) && leb_v (PInt 0) (plat_max_pulse c).

(* an explicitly given (not None) argument that is not acceptable *)
Definition arg_bad (ok : pyval -> bool) (v : pyval) : bool := negb (is_none v) && negb (ok v).

Definition hold_dur_ok (c : cfg) (v : pyval) : bool :=
  is_pint v && leb_v (PInt 0) v && (negb (truthy (cfg_max_hold_duration c)) || leb_v v (hold_ms_limit c)).

Definition req_bad (c : cfg) (r : req) : bool :=
  let bad_ms := arg_bad (dur_ok (cfg_max_pulse_ms c)) in
  let bad_pp := arg_bad (power_ok (cfg_max_pulse_power c)) in
  let bad_hp := arg_bad (power_ok (cfg_max_hold_power c)) in
  match r with
  | RPulse ms p => bad_ms ms || bad_pp p
  | REnable ms p h => bad_ms ms || bad_pp p || bad_hp h
  | RTimedEnable te h ms p => bad_ms ms || bad_pp p || bad_hp h || arg_bad (hold_dur_ok c) te
  | RDisable => false
  | RRuleNoHold p => bad_ms (opt_snd p) || bad_pp (opt_fst p)
  | RRuleWithHold p h => bad_ms (opt_snd p) || bad_pp (opt_fst p) || bad_hp (opt_v h)
  end.

(* ---- observations compared with the implementation --------------------------------------------- *)
Definition eff_eqb (a b : eff) : bool :=
  match a, b with
  | HwPulse p d, HwPulse p' d' => pyval_eqb p p' && pyval_eqb d d'
  | HwEnable p d h, HwEnable p' d' h' => pyval_eqb p p' && pyval_eqb d d' && pyval_eqb h h'
  | HwTimedEnable p d h e, HwTimedEnable p' d' h' e' =>
      pyval_eqb p p' && pyval_eqb d d' && pyval_eqb h h' && pyval_eqb e e'
  | HwDisable, HwDisable => true
  | DelayReset m, DelayReset m' => pyval_eqb m m'
  | DelayAddIfAbsent m, DelayAddIfAbsent m' => pyval_eqb m m'
  | DelayRemoveLimit, DelayRemoveLimit => true
  | RuleSettings p d h, RuleSettings p' d' h' => pyval_eqb p p' && pyval_eqb d d' && option_eqb pyval_eqb h h'
  | _, _ => false
  end.

Definition res_eqb (a b : res (list eff)) : bool :=
  match a, b with
  | Ok x, Ok y => list_eqb eff_eqb x y
  | Err e, Err f => err_eqb e f
  | _, _ => false
  end.

Definition call_run (i : cfg * req) : res (list eff) := handle (fst i) (snd i).

(* the verify functions on their own (used for the defaults computed at device initialisation) *)
Inductive vfun := VPulseMs | VPulsePower | VHoldPower | VTimedEnableMs.
Definition verify_run (i : cfg * (vfun * pyval)) : res (list eff) :=
  let '(c, (f, v)) := i in
  bind (match f with
        | VPulseMs => get_and_verify_pulse_ms c v
        | VPulsePower => get_and_verify_pulse_power c v
        | VHoldPower => get_and_verify_hold_power c v
        | VTimedEnableMs => get_and_verify_timed_enable_ms c v
        end) (fun r => Ok [RuleSettings r PNone None]).

(* ---- reviewed call sites of the platform driver interface --------------------------------------- *)
Open Scope string_scope.
Definition reviewed : list (string * string * string * string) := [
  (* Driver: arguments come from get_and_verify_* (theorem hw_command_within_limits) *)
  ("mpf/devices/driver.py", "Driver", "_initialize", "configure_driver");
  ("mpf/devices/driver.py", "Driver", "_enable_now", "call:enable");
  ("mpf/devices/driver.py", "Driver", "_pulse_now", "call:enable");
  ("mpf/devices/driver.py", "Driver", "_pulse_now", "call:pulse");
  ("mpf/devices/driver.py", "Driver", "timed_enable", "call:timed_enable");
  (* hardware rules: DriverSettings are built from get_and_verify_* results (rule_no_hold / rule_with_hold) and
     handed to the platform; the software EOS repulse replays exactly those settings *)
  ("mpf/core/platform_controller.py", "PlatformController", "_get_configured_driver_no_hold", "escape");
  ("mpf/core/platform_controller.py", "PlatformController", "_get_configured_driver_with_hold", "escape");
  ("mpf/core/platform_controller.py", "SoftwareEosRepulseManager", "_repulse_on_eos_open", "call:enable");
  ("mpf/core/platform_controller.py", "SoftwareEosRepulseManager", "_repulse_on_eos_open", "call:pulse");
  (* the runtime defaults: written only at construction and by the placeholder callbacks, never verified there;
     the history model (Hist.v: HSetPulseMs / HSetTimedEnableMs) lets them take any value at any time and every
     use goes through get_and_verify_* (theorem any_default_within_limits) *)
  ("mpf/devices/driver.py", "Driver", "__init__", "set:_pulse_ms");
  ("mpf/devices/driver.py", "Driver", "__init__", "set:_timed_enable_ms");
  ("mpf/devices/driver.py", "Driver", "_calculate_pulse_ms_placeholder", "set:_pulse_ms");
  ("mpf/devices/driver.py", "Driver", "_calculate_timed_enable_ms_placeholder", "set:_timed_enable_ms");
  (* further entry points: public Driver API only (requests RPulse / REnable / RDisable of the model; exercised as
     the flavours 'player' and 'light' of the call / hist suites) *)
  ("mpf/config_players/coil_player.py", "CoilPlayer", "clear_context", "api:disable");
  ("mpf/config_players/coil_player.py", "CoilPlayer", "play", "api:disable");
  ("mpf/config_players/coil_player.py", "CoilPlayer", "play", "api:enable");
  ("mpf/config_players/coil_player.py", "CoilPlayer", "play", "api:pulse");
  ("mpf/platforms/driver_light_platform.py", "DriverLight", "set_brightness", "api:disable");
  ("mpf/platforms/driver_light_platform.py", "DriverLight", "set_brightness", "api:enable");
  (* digital outputs are not coils: no limits are configured for them (classified, see NOTES.md) *)
  ("mpf/devices/digital_output.py", "DigitalOutput", "_initialize_driver", "configure_driver");
  ("mpf/devices/digital_output.py", "DigitalOutput", "enable", "call:enable");
  ("mpf/devices/digital_output.py", "DigitalOutput", "pulse", "call:pulse")
].

Definition site_eqb (a b : string * string * string * string) : bool :=
  let '(a1, a2, a3, a4) := a in let '(b1, b2, b3, b4) := b in
  String.eqb a1 b1 && String.eqb a2 b2 && String.eqb a3 b3 && String.eqb a4 b4.

Definition site_reviewed (s : string * string * string * string) : bool := existsb (site_eqb s) reviewed.
Definition all_sites_reviewed : bool := forallb site_reviewed sites.
Close Scope string_scope.

(* ================================================================================================== *)
(* Software timers around one coil (a DelayManager with the two names the Driver uses), on exact integer
   time (ms).  State: is the coil on, and the deadlines of the two named delays; two ghost fields record
   whether an enable request (a legitimate hold) was made since the coil was last off, and when.          *)
Record tstate := {
  ts_on : bool;                      (* last hw command was an enable (no disable since) *)
  ts_timed_disable : option Z;       (* deadline of delay 'timed_disable' *)
  ts_limit : option Z;               (* deadline of delay 'enable_limit_reached' *)
  ts_hold : bool;                    (* ghost: enable() requested since the coil was last off *)
  ts_hold_since : Z                  (* ghost: time of the first such enable *)
}.
Definition tinit : tstate :=
  {| ts_on := false; ts_timed_disable := None; ts_limit := None; ts_hold := false; ts_hold_since := 0 |}.

Inductive top :=
| TSoftPulse (ms : Z)      (* a verified pulse that takes the software-timed branch of _pulse_now *)
| THwPulse                 (* a verified pulse done by the hardware (no state of the model changes) *)
| TEnable                  (* a verified enable *)
| TDisable
| TNop                     (* nothing requested (an observation point) *)
| TFire.                   (* the earliest pending delay fires (now = its deadline) *)

Definition toff (td : option Z) (s : tstate) : tstate :=
  {| ts_on := false; ts_timed_disable := td; ts_limit := None; ts_hold := false; ts_hold_since := ts_hold_since s |}.

(* [mhd]: max_hold_duration in ms when configured.  The operation happens at time [now]. *)
Definition tstep (mhd : option Z) (now : Z) (s : tstate) (o : top) : tstate :=
  match o with
  | TSoftPulse ms =>
      {| ts_on := true; ts_timed_disable := Some (now + ms); ts_limit := ts_limit s;
         ts_hold := ts_hold s; ts_hold_since := ts_hold_since s |}
  | THwPulse => s
  | TNop => s
  | TEnable =>
      {| ts_on := true; ts_timed_disable := ts_timed_disable s;
         ts_limit := match mhd, ts_limit s with
                     | Some d, None => Some (now + d)      (* add_if_doesnt_exist *)
                     | _, l => l
                     end;
         ts_hold := true;
         ts_hold_since := if ts_hold s then ts_hold_since s else now |}
  | TDisable => toff (ts_timed_disable s) s      (* hw disable + delay.remove("enable_limit_reached") *)
  | TFire =>
      (* either delay ends in self.disable() *)
      match ts_timed_disable s, ts_limit s with
      | Some a, Some b => if a <=? b then toff None s else toff (Some a) s
      | Some a, None => toff None s
      | None, Some b => toff None s
      | None, None => s
      end
  end.

Definition next_deadline (s : tstate) : option Z :=
  match ts_timed_disable s, ts_limit s with
  | Some a, Some b => Some (Z.min a b)
  | Some a, None => Some a
  | None, Some b => Some b
  | None, None => None
  end.

(* A timed history: (time, op) pairs, run from state s.  *)
Fixpoint trun (mhd : option Z) (s : tstate) (h : list (Z * top)) : tstate :=
  match h with
  | [] => s
  | (t, o) :: r => trun mhd (tstep mhd t s o) r
  end.

Fixpoint tlast (now : Z) (h : list (Z * top)) : Z :=
  match h with [] => now | (t, _) :: r => tlast t r end.

(* Well-timed: times do not decrease, no pending deadline is passed without firing (the clock runs every due
   delay), TFire happens exactly at the earliest deadline, pulse durations are the verified (non-negative) ones. *)
Definition op_timed_ok (now : Z) (s : tstate) (t : Z) (o : top) : bool :=
  (now <=? t) &&
  match next_deadline s with
  | Some d => match o with TFire => t =? d | _ => t <=? d end
  | None => match o with TFire => false | _ => true end
  end &&
  match o with TSoftPulse ms => 0 <=? ms | _ => true end.

Fixpoint well_timed (mhd : option Z) (now : Z) (s : tstate) (h : list (Z * top)) : bool :=
  match h with
  | [] => true
  | (t, o) :: r => op_timed_ok now s t o && well_timed mhd t (tstep mhd t s o) r
  end.

(* the invariant: a coil that is on is guarded by a pending off-timer whose deadline has not passed *)
Definition tguard (mhd : option Z) (now : Z) (s : tstate) : bool :=
  match ts_timed_disable s with Some a => now <=? a | None => true end &&
  match ts_limit s with Some b => now <=? b | None => true end &&
  (negb (ts_on s) ||
   (if ts_hold s then
      match mhd with
      | Some d => match ts_limit s with Some b => b <=? ts_hold_since s + d | None => false end
      | None => true       (* holding without a configured max_hold_duration is not time-limited *)
      end
    else match ts_timed_disable s with Some _ => true | None => false end)) &&
  (negb (ts_hold s) || ts_on s) &&
  (ts_hold s || match ts_limit s with None => true | Some _ => false end) &&     (* a watchdog only under a hold *)
  match mhd with Some d => 0 <=? d | None => true end.

(* The clock fires every delay that is due before the next request: [texpand] inserts the TFire steps (at most
   two: there are two named delays) so that the correspondence run does not depend on observing the firings. *)
Definition fire_if_due (mhd : option Z) (t : Z) (acc : list (Z * top) * tstate) : list (Z * top) * tstate :=
  let '(h, s) := acc in
  match next_deadline s with
  | Some d => if d <? t then (h ++ [(d, TFire)], tstep mhd d s TFire) else acc
  | None => acc
  end.

Fixpoint texpand (mhd : option Z) (s : tstate) (h : list (Z * top)) : list (Z * top) :=
  match h with
  | [] => []
  | (t, o) :: r =>
      let '(f, s2) := fire_if_due mhd t (fire_if_due mhd t ([], s)) in
      f ++ (t, o) :: texpand mhd (tstep mhd t s2 o) r
  end.

(* observations for the correspondence run (ghost fields excluded): the state after each request *)
Definition tobs (s : tstate) : bool * (option Z * option Z) := (ts_on s, (ts_timed_disable s, ts_limit s)).
Fixpoint tobs_run (mhd : option Z) (s : tstate) (h : list (Z * top)) : list (bool * (option Z * option Z)) :=
  match h with
  | [] => []
  | (t, o) :: r =>
      let s2 := snd (fire_if_due mhd t (fire_if_due mhd t ([], s))) in
      let s' := tstep mhd t s2 o in tobs s' :: tobs_run mhd s' r
  end.
(* output: the observations, and whether the expanded history is well-timed (it must be) *)
Definition timer_run (i : option Z * list (Z * top)) : list (bool * (option Z * option Z)) * bool :=
  (tobs_run (fst i) tinit (snd i), well_timed (fst i) 0 tinit (texpand (fst i) tinit (snd i))).
Definition tobs_eqb (a b : list (bool * (option Z * option Z)) * bool) : bool :=
  list_eqb (fun x y => Bool.eqb (fst x) (fst y) && option_eqb Z.eqb (fst (snd x)) (fst (snd y)) &&
                       option_eqb Z.eqb (snd (snd x)) (snd (snd y))) (fst a) (fst b) &&
  Bool.eqb (snd a) (snd b).
