(* C08/HistLemmas.v — proofs about the history model (Hist.v). *)
From Common Require Import Prelude.
From Coq Require Import QArith Qround Lqa String.
From C08 Require Import Py Model Lemmas Hist.
From C08.gen Require Import Driver Sites.
Open Scope Z_scope.

(* ---- the placeholders are not limits ------------------------------------------------------------------ *)
Lemma cfg_ok_defaults c a b : cfg_ok (with_defaults c a b) = cfg_ok c.
Proof. reflexivity. Qed.
Lemma hold_ok_defaults c a b h : hold_ok (with_defaults c a b) h = hold_ok c h.
Proof. reflexivity. Qed.
Lemma dcall_ok_defaults c a b d : dcall_ok (with_defaults c a b) d = dcall_ok c d.
Proof. destruct d; reflexivity. Qed.

Lemma effs_ok_defaults c a b : forall l, effs_ok (with_defaults c a b) l = effs_ok c l.
Proof.
  assert (P : forall l, effs_ok (with_defaults c a b) l = effs_ok c l /\
                        forall e, effs_ok (with_defaults c a b) (e :: l) = effs_ok c (e :: l)).
  { induction l as [|x l [IH1 IH2]].
    - split; [reflexivity|]. intro e. destruct e as [| | | | | | |p d [h|]]; reflexivity.
    - split; [apply IH2|]. intro e. remember (x :: l) as r eqn:Er.
      destruct e as [p d|p d h|p d h hd| |ms|ms| |p d [h|]]; cbn [effs_ok];
        try (subst r; rewrite IH2; reflexivity); try reflexivity; subst r.
      + (* HwEnable *)
        change (truthy (cfg_max_hold_duration (with_defaults c a b))) with (truthy (cfg_max_hold_duration c)).
        change (pulse_part_ok (with_defaults c a b) p d) with (pulse_part_ok c p d).
        change (hold_ok (with_defaults c a b) h) with (hold_ok c h).
        destruct (truthy (cfg_max_hold_duration c)); [|rewrite IH2; reflexivity].
        destruct x; try reflexivity. cbv beta iota. rewrite IH1. reflexivity.
      + (* DelayReset *)
        destruct x; try reflexivity. cbv beta iota. rewrite IH1. reflexivity. }
  intro l. apply P.
Qed.

(* ---- shapes of the effect lists ------------------------------------------------------------------------ *)
Definition neutral (e : eff) : bool :=
  match e with HwPulse _ _ | HwTimedEnable _ _ _ _ | RuleSettings _ _ _ => true | _ => false end.

Inductive lshape : list eff -> Prop :=
| sh_neutral l : forallb neutral l = true -> lshape l
| sh_soft ms p d h : 0 <= zof ms -> lshape [DelayReset ms; HwEnable p d h]
| sh_disable : lshape disable.

Lemma dur_ok_nonneg lim v : dur_ok lim v = true -> 0 <= zof v.
Proof.
  unfold dur_ok. intro H. apply andb_true_iff in H as [H _]. apply andb_true_iff in H as [I L].
  destruct v as [|z|f]; cbn in I; try discriminate. cbn.
  apply leb_v_spec in L as (x & y & Hx & Hy & L). cbn in Hx, Hy. inversion Hx; inversion Hy; subst.
  unfold Qle, inject_Z in L. cbn in L. lia.
Qed.

Lemma timed_enable_shape c te h ms p l : timed_enable c te h ms p = Ok l -> lshape l.
Proof. unfold timed_enable. intro H. inv. subst. apply sh_neutral. reflexivity. Qed.

Lemma pulse_now_shape c ms p l :
  dur_ok (cfg_max_pulse_ms c) ms = true -> pulse_now c ms p = Ok l -> lshape l.
Proof.
  intros D H. unfold pulse_now in H. destruct (truthy (cfg_pulse_with_timed_enable c)).
  - eapply timed_enable_shape; eassumption.
  - inv; subst.
    + apply sh_neutral. reflexivity.
    + apply sh_soft. eapply dur_ok_nonneg; eassumption.
    + apply sh_soft. eapply dur_ok_nonneg; eassumption.
Qed.

Lemma handle_shape c r l :
  cfg_ok c = true -> is_enable_req r = false -> handle c r = Ok l -> lshape l.
Proof.
  intros Hc E H. destruct r; cbn [handle] in H; try discriminate E.
  - unfold pulse in H. inv.
    match goal with A : get_and_verify_pulse_ms _ _ = Ok _ |- _ => apply verify_pulse_ms_spec in A as [A _]; [|assumption] end.
    eapply pulse_now_shape; eassumption.
  - eapply timed_enable_shape; eassumption.
  - inv. subst. apply sh_disable.
  - unfold rule_no_hold in H. inv. subst. apply sh_neutral. reflexivity.
  - unfold rule_with_hold in H. inv. subst. apply sh_neutral. reflexivity.
Qed.

Lemma enable_args_ok c ms p h pd pp hp :
  cfg_ok c = true ->
  get_and_verify_pulse_ms c ms = Ok pd -> get_and_verify_pulse_power c p = Ok pp ->
  get_and_verify_hold_power c h = Ok hp -> t_cmp Eq hp zero_f = Some false ->
  dcall_ok c (DEnableNow pd pp hp) = true.
Proof.
  intros Hc A B C E.
  apply verify_pulse_ms_spec in A as [A _]; [|assumption].
  apply verify_pulse_power_spec in B as [B _]; [|assumption].
  apply verify_hold_power_spec in C as (C & C' & _); [|assumption].
  cbn [dcall_ok]. unfold pulse_part_ok. rewrite A, B, (enable_hold_ok _ _ C C' E). reflexivity.
Qed.

Lemma enable_shape c ms p h l :
  cfg_ok c = true -> enable c ms p h = Ok l ->
  exists pd pp hp, l = enable_now c pd pp hp /\ dcall_ok c (DEnableNow pd pp hp) = true.
Proof.
  intros Hc H. unfold enable in H. inv. subst.
  eexists _, _, _. split; [reflexivity|]. eapply enable_args_ok; eassumption.
Qed.

Lemma enable_now_ok c ms pp hp :
  dcall_ok c (DEnableNow ms pp hp) = true -> effs_ok c (enable_now c ms pp hp) = true.
Proof.
  cbn [dcall_ok]. intro H. apply andb_true_iff in H as [A B].
  unfold enable_now. cbn [effs_ok]. rewrite A, B. cbn [andb].
  destruct (truthy (cfg_max_hold_duration c)); cbn [effs_ok]; [|reflexivity].
  unfold hold_ms_limit. rewrite pyval_eqb_refl. reflexivity.
Qed.

Lemma exec_dcall_ok c d l :
  cfg_ok c = true -> dcall_ok c d = true -> exec_dcall c d = Ok l -> effs_ok c l = true.
Proof.
  intros Hc D H. destruct d as [ms p|ms pp hp]; cbn [exec_dcall] in H.
  - cbn [dcall_ok] in D. apply andb_true_iff in D as [A B]. eapply pulse_now_ok; eassumption.
  - inv. subst. apply enable_now_ok. exact D.
Qed.

(* ---- the requests with the PSU's answer ---------------------------------------------------------------- *)
Lemma hhandle_none c r w l : hhandle c r w = Ok (l, None) -> handle c r = Ok l.
Proof.
  intro H. destruct r; cbn [hhandle] in H; cbn [handle];
    try (destruct (0 <? w)); inv; try congruence;
    subst; match goal with A : handle _ _ = Ok _ |- _ => cbn [handle] in A; exact A end.
Qed.

Lemma hhandle_some c r w l d :
  cfg_ok c = true -> hhandle c r w = Ok (l, Some d) -> l = [] /\ 0 < w /\ dcall_ok c d = true.
Proof.
  intros Hc H. destruct r; cbn [hhandle] in H;
    try (destruct (0 <? w) eqn:W; [apply Z.ltb_lt in W|]); inv; try congruence.
  - subst. split; [reflexivity|]. split; [assumption|].
    match goal with A : get_and_verify_pulse_ms _ _ = Ok _ |- _ => apply verify_pulse_ms_spec in A as [A _]; [|assumption] end.
    match goal with A : get_and_verify_pulse_power _ _ = Ok _ |- _ => apply verify_pulse_power_spec in A as [A _]; [|assumption] end.
    cbn [dcall_ok]. apply andb_true_iff; split; assumption.
  - subst. split; [reflexivity|]. split; [assumption|]. eapply enable_args_ok; eassumption.
Qed.

(* ---- the invariant --------------------------------------------------------------------------------------- *)
Definition hinv (c : cfg) (s : hstate) : Prop :=
  (forall a, h_td s = Some a -> h_now s <= a) /\
  (forall b, h_lim s = Some b -> h_now s <= b) /\
  Forall (fun x => h_now s <= fst x /\ dcall_ok c (snd x) = true) (h_defer s) /\
  (h_on s = true ->
     (h_hold s = true /\ holding_allowed c = true /\
      (truthy (cfg_max_hold_duration c) = true -> exists b, h_lim s = Some b /\ b <= h_since s + mhd_ms c))
     \/ (h_hold s = false /\ exists a, h_td s = Some a)) /\
  (h_hold s = true -> h_on s = true) /\
  (forall b, h_lim s = Some b -> h_hold s = true).

Lemma mhd_ms_nonneg c : cfg_ok c = true -> 0 <= mhd_ms c.
Proof.
  intro Hc. cfg_facts Hc.
  match goal with H : is_none (cfg_max_hold_duration c) || _ = true |- _ => rename H into M end.
  unfold mhd_ms, hold_ms_limit. destruct (cfg_max_hold_duration c) as [|z|[|q]]; cbn -[Qfloor Qmult] in *; try lia; try discriminate.
  - apply Qle_bool_iff in M. unfold Qle, inject_Z in M. cbn in M. lia.
  - apply Qle_bool_iff in M. change 0 with (Qfloor 0). apply Qfloor_resp_le. unfold inject_Z in *. nra.
Qed.

Lemma run_neutral : forall l s, forallb neutral l = true -> run_effs s l = s.
Proof.
  induction l as [|e l IH]; intros s H; [reflexivity|]. cbn in H. apply andb_true_iff in H as [N H].
  unfold run_effs. cbn [fold_left]. destruct e; try discriminate N; cbn [apply_eff]; apply IH; exact H.
Qed.

Ltac hinv_open :=
  match goal with I : hinv _ ?s |- _ =>
    destruct s as [pms tems now on td lim defer hold since]; unfold hinv in I; cbn in I;
    destruct I as (I1 & I2 & I3 & I4 & I5 & I6) end.

Lemma lshape_inv c s l : hinv c s -> lshape l -> hinv c (run_effs s l).
Proof.
  intros I S. destruct S as [l N|ms p d h P|].
  - rewrite run_neutral; assumption.
  - hinv_open. unfold hinv; cbn. repeat split; intros; try congruence; eauto.
    + inversion H; subst. lia.
    + destruct hold eqn:Hh.
      * left. destruct on; [|specialize (I5 eq_refl); discriminate].
        destruct (I4 eq_refl) as [A|[A _]]; [exact A|discriminate].
      * right. eauto.
  - hinv_open. unfold hinv; cbn. repeat split; intros; try congruence; eauto.
Qed.

Ltac crush :=
  repeat match goal with
         | H : ?x = ?x -> _ |- _ => specialize (H eq_refl)
         | H : forall b, Some ?a = Some b -> _ |- _ => specialize (H a eq_refl)
         | H : _ /\ _ |- _ => destruct H
         | H : exists _, _ |- _ => destruct H
         | H : _ \/ _ |- _ => destruct H
         | H : Some _ = Some _ |- _ => inversion H; subst; clear H
         end; try discriminate; try congruence.

Lemma enable_now_inv c s ms pp hp :
  cfg_ok c = true -> hinv c s -> dcall_ok c (DEnableNow ms pp hp) = true ->
  hinv c (mark_hold (run_effs s (enable_now c ms pp hp))).
Proof.
  intros Hc I D. pose proof (mhd_ms_nonneg c Hc) as M.
  cbn [dcall_ok] in D. apply andb_true_iff in D as [_ D]. unfold hold_ok in D.
  apply andb_true_iff in D as [D _]. apply andb_true_iff in D as [HA _].
  hinv_open. unfold enable_now, mark_hold, hinv, mhd_ms, hold_ms_limit in *.
  destruct (truthy (cfg_max_hold_duration c)) eqn:T; destruct lim as [b|], hold, on; cbn in *; crush;
    repeat split; intros; crush; try lia; eauto;
    try (left; repeat split; eauto; intros; crush; try (eexists; split; [reflexivity|lia])).
Qed.

Lemma forall_ge s t : forallb (fun x : Z * dcall => t <=? fst x) (h_defer s) = true ->
  forall c, Forall (fun x => h_now s <= fst x /\ dcall_ok c (snd x) = true) (h_defer s) ->
  Forall (fun x => t <= fst x /\ dcall_ok c (snd x) = true) (h_defer s).
Proof.
  intros F c G. rewrite forallb_forall in F. rewrite Forall_forall in *. intros x Hx.
  split; [apply Z.leb_le, F, Hx | apply G, Hx].
Qed.

Lemma all_ge_inv s t :
  all_ge s t = true ->
  opt_ge (h_td s) t = true /\ opt_ge (h_lim s) t = true /\ forallb (fun x : Z * dcall => t <=? fst x) (h_defer s) = true.
Proof. unfold all_ge. intro H. apply andb_true_iff in H as [H C]. apply andb_true_iff in H as [A B]. auto. Qed.

(* the clock moves to t, no delay being overdue *)
Lemma set_now_inv c s t : hinv c s -> all_ge s t = true -> hinv c (set_now s t).
Proof.
  intros I G. apply all_ge_inv in G as (A & B & C). pose proof (forall_ge s t C c) as F.
  hinv_open. unfold hinv, opt_ge in *; cbn in *. repeat split; intros; subst; eauto.
  - apply Z.leb_le. exact A.
  - apply Z.leb_le. exact B.
Qed.

Lemma Forall_remove_nth {A} (P : A -> Prop) : forall k l, Forall P l -> Forall P (remove_nth k l).
Proof.
  induction k; intros l H; destruct l; cbn; auto; inversion H; subst; auto.
Qed.

Lemma Forall_nth_error {A} (P : A -> Prop) : forall k l x, Forall P l -> nth_error l k = Some x -> P x.
Proof.
  induction k; intros l x H E; destruct l; cbn in E; try discriminate; inversion H; subst.
  - inversion E; subst; assumption.
  - eapply IHk; eassumption.
Qed.

Lemma set_defer_inv c s l :
  hinv c s -> Forall (fun x => h_now s <= fst x /\ dcall_ok c (snd x) = true) l -> hinv c (set_defer s l).
Proof. intros I F. hinv_open. unfold hinv; cbn in *. repeat split; intros; eauto. Qed.

Lemma set_defaults_inv c s a b : hinv c s -> hinv c (set_defaults s a b).
Proof. intros I. hinv_open. unfold hinv; cbn in *. repeat split; intros; eauto. Qed.

Lemma run_effs_now : forall l s, h_now (run_effs s l) = h_now s.
Proof.
  induction l as [|e l IH]; intro s; [reflexivity|]. unfold run_effs in *. cbn [fold_left]. rewrite IH.
  destruct e; reflexivity.
Qed.
Lemma run_effs_defer : forall l s, h_defer (run_effs s l) = h_defer s.
Proof.
  induction l as [|e l IH]; intro s; [reflexivity|]. unfold run_effs in *. cbn [fold_left]. rewrite IH.
  destruct e; reflexivity.
Qed.

Definition res_ok (c : cfg) (o : res (list eff)) : bool := match o with Ok l => effs_ok c l | Err _ => true end.

Lemma do_req_inv c s r w :
  cfg_ok c = true -> hinv c s ->
  hinv c (fst (do_req c s r w)) /\ res_ok c (snd (do_req c s r w)) = true.
Proof.
  intros Hc I. unfold do_req.
  destruct (hhandle (cur c s) r w) as [[l [d|]]|e] eqn:H; cbn [fst snd res_ok]; [| |auto].
  - (* deferred *)
    apply hhandle_some in H as (-> & W & D); [|exact Hc]. split; [|reflexivity].
    change (run_effs s []) with s. apply set_defer_inv; [exact I|].
    apply Forall_app. split; [destruct I as (_ & _ & F & _); exact F|].
    constructor; [|constructor]. cbn [fst snd]. split; [lia|]. unfold cur in D. rewrite dcall_ok_defaults in D. exact D.
  - (* executed now *)
    apply hhandle_none in H. split.
    + destruct (is_enable_req r) eqn:E.
      * destruct r; try discriminate E. cbn [handle] in H.
        apply enable_shape in H as (pd & pp & hp & -> & D); [|exact Hc].
        unfold cur in D. rewrite dcall_ok_defaults in D.
        change (enable_now (cur c s) pd pp hp) with (enable_now c pd pp hp).
        apply enable_now_inv; assumption.
      * apply lshape_inv; [exact I|]. eapply handle_shape; [|exact E|exact H]. exact Hc.
    + apply hw_command_within_limits_l in H; [|exact Hc]. unfold cur in H. rewrite effs_ok_defaults in H. exact H.
Qed.

Lemma fire_named_inv c s a td' lim' :
  hinv c s -> all_ge s a = true ->
  (td' = None \/ td' = h_td s) -> lim' = None \/ lim' = h_lim s ->
  hinv c (fst (fire_named s a td' lim')).
Proof.
  intros I G Ht Hl. apply all_ge_inv in G as (A & B & C). pose proof (forall_ge s a C c) as F.
  unfold fire_named. cbn [fst]. hinv_open. unfold hinv, opt_ge, disable, run_effs in *; cbn in *.
  repeat split; intros; subst; eauto; try discriminate.
  destruct Ht as [Ht|Ht]; [discriminate|]. rewrite <- Ht in A. apply Z.leb_le. exact A.
Qed.

Lemma hstep_inv c s e :
  cfg_ok c = true -> hinv c s -> ev_valid s e = true ->
  hinv c (fst (hstep c s e)) /\ out_ok c (snd (hstep c s e)) = true.
Proof.
  intros Hc I V. destruct e as [t q| | |k]; cbn [ev_valid] in V.
  - apply andb_true_iff in V as [_ V]. pose proof (set_now_inv c s t I V) as I'.
    cbn [hstep]. destruct q as [r w|b|v|v|].
    + pose proof (do_req_inv c (set_now s t) r w Hc I') as [A B].
      destruct (do_req c (set_now s t) r w) as [s' o]. split; [exact A|exact B].
    + destruct (light_req b) as [r|x]; [|split; [exact I'|reflexivity]].
      pose proof (do_req_inv c (set_now s t) r 0 Hc I') as [A B].
      destruct (do_req c (set_now s t) r 0) as [s' o]. split; [exact A|exact B].
    + split; [apply set_defaults_inv; exact I'|reflexivity].
    + split; [apply set_defaults_inv; exact I'|reflexivity].
    + split; [exact I'|reflexivity].
  - cbn [hstep]. destruct (h_td s) as [a|] eqn:E; [|discriminate].
    split; [apply fire_named_inv; auto|reflexivity].
  - cbn [hstep]. destruct (h_lim s) as [b|] eqn:E; [|discriminate].
    split; [apply fire_named_inv; auto|reflexivity].
  - cbn [hstep]. destruct (nth_error (h_defer s) k) as [[d call]|] eqn:E; [|discriminate].
    assert (D : dcall_ok c call = true).
    { destruct I as (_ & _ & F & _). apply (Forall_nth_error _ _ _ _ F) in E. apply E. }
    assert (I0 : hinv c (set_now (set_defer s (remove_nth k (h_defer s))) d)).
    { apply set_now_inv.
      - apply set_defer_inv; [exact I|]. apply Forall_remove_nth. destruct I as (_ & _ & F & _). exact F.
      - apply all_ge_inv in V as (A & B & C). unfold all_ge. cbn. rewrite A, B. cbn [andb].
        rewrite forallb_forall in *. intros x Hx. apply C.
        clear - Hx. revert k Hx. induction (h_defer s) as [|y l IH]; intros k Hx; destruct k; cbn in *; auto.
        destruct Hx as [->|Hx]; eauto. }
    set (s0 := set_now (set_defer s (remove_nth k (h_defer s))) d) in *.
    destruct (exec_dcall (cur c s0) call) as [l|x] eqn:X; cbn [fst snd out_ok]; [|split; [exact I0|reflexivity]].
    split.
    + destruct call as [ms p|ms pp hp]; cbn [is_enable_call exec_dcall] in *.
      * apply lshape_inv; [exact I0|]. cbn [dcall_ok] in D. apply andb_true_iff in D as [D _].
        eapply pulse_now_shape; [|exact X]. exact D.
      * inv. subst. change (enable_now (cur c s0) ms pp hp) with (enable_now c ms pp hp).
        apply enable_now_inv; assumption.
    + unfold out_ok. cbn [snd]. eapply exec_dcall_ok in X; [| exact Hc | unfold cur; rewrite dcall_ok_defaults; exact D].
      unfold cur in X. rewrite effs_ok_defaults in X. exact X.
Qed.

Lemma hinit_inv c : hinv c (hinit c).
Proof. unfold hinv, hinit; cbn. repeat split; intros; try discriminate. constructor. Qed.

Lemma hrun_inv c : forall evs s,
  cfg_ok c = true -> hinv c s -> hvalid c s evs = true ->
  hinv c (fst (hrun c s evs)) /\ forallb (out_ok c) (snd (hrun c s evs)) = true.
Proof.
  induction evs as [|e r IH]; intros s Hc I V; [split; [exact I|reflexivity]|].
  cbn [hvalid] in V. apply andb_true_iff in V as [V1 V2].
  destruct (hstep_inv c s e Hc I V1) as [I1 O1].
  cbn [hrun]. destruct (hstep c s e) as [s1 o] eqn:E. cbn [fst snd] in *.
  destruct (IH s1 Hc I1 V2) as [I2 O2]. destruct (hrun c s1 r) as [s2 tr]. cbn [fst snd forallb] in *.
  split; [exact I2|]. rewrite O1, O2. reflexivity.
Qed.

Lemma history_safe_l c evs :
  cfg_ok c = true -> hvalid c (hinit c) evs = true ->
  let s := fst (hrun c (hinit c) evs) in
  forallb (out_ok c) (snd (hrun c (hinit c) evs)) = true /\
  (h_on s = true -> h_hold s = false -> exists a, h_td s = Some a /\ h_now s <= a) /\
  (h_on s = true -> h_hold s = true ->
     holding_allowed c = true /\
     (truthy (cfg_max_hold_duration c) = true ->
      exists b, h_lim s = Some b /\ h_now s <= b /\ b <= h_since s + mhd_ms c)) /\
  (at_rest s = true -> h_on s = true ->
     h_hold s = true /\ holding_allowed c = true /\ truthy (cfg_max_hold_duration c) = false).
Proof.
  intros Hc V s. destruct (hrun_inv c evs (hinit c) Hc (hinit_inv c) V) as [I O]. fold s in I.
  split; [exact O|]. destruct I as (I1 & I2 & I3 & I4 & I5 & I6).
  split; [|split].
  - intros On Hh. destruct (I4 On) as [(A & _)|(_ & a & A)]; [congruence|]. exists a. split; [exact A|apply I1; exact A].
  - intros On Hh. destruct (I4 On) as [(_ & A & B)|(A & _)]; [|congruence]. split; [exact A|].
    intro T. destruct (B T) as (b & E & L). exists b. split; [exact E|]. split; [apply I2; exact E|exact L].
  - intros R On. unfold at_rest in R.
    destruct (h_td s) as [a|] eqn:Etd; [discriminate|]. destruct (h_lim s) as [b|] eqn:El; [discriminate|].
    destruct (I4 On) as [(A & B & C)|(_ & a & A)]; [|discriminate].
    split; [exact A|]. split; [exact B|].
    destruct (truthy (cfg_max_hold_duration c)); [|reflexivity]. destruct (C eq_refl) as (b & E & _). discriminate.
Qed.

(* when one of the two named delays expires the coil is switched off *)
Lemma named_expiry_switches_off_l c s :
  (h_td s <> None -> h_on (fst (hstep c s EFireTd)) = false) /\
  (h_lim s <> None -> h_on (fst (hstep c s EFireLim)) = false).
Proof.
  split; intro N; cbn [hstep]; [destruct (h_td s)|destruct (h_lim s)]; try congruence; reflexivity.
Qed.

(* a refused request touches neither the coil nor its delays (the clock aside) *)
Lemma refused_request_changes_nothing_l c s t r w e :
  hhandle (cur c (set_now s t)) r w = Err e ->
  hstep c s (EReq t (HReq r w)) = (set_now s t, (t, Err e)).
Proof. intro H. cbn [hstep]. unfold do_req. rewrite H. reflexivity. Qed.

(* ---- examples ---------------------------------------------------------------------------------------------- *)
(* a coil that must not be held (cfg_plain): a 500 ms software-timed pulse, a refused enable in the middle, the
   timer still switches it off; the whole schedule is a valid run of the clock *)
Definition hist_ex1 : list (Z * hreq) :=
  [(1, HReq (RPulse (PInt 500) PNone) 0); (101, HReq (REnable PNone PNone PNone) 0); (301, HLight (q 1 2)); (1001, HNop)].
Example ex_hist_refused :
  hist_run (cfg_plain, hist_ex1) =
  ([(1, TE (DelayReset (PInt 500))); (1, TE (HwEnable (q 1 1) (PInt 0) (q 1 1))); (101, TX ELimits); (301, TX ELimits);
    (501, TE HwDisable); (501, TE DelayRemoveLimit)],
   ((false, (None, None)), (0, true))).
Proof. vm_compute. reflexivity. Qed.

(* cfg_ex (max_hold_duration 2 s): an enable deferred by the PSU for 110 ms, a disable inside the wait, the deferred
   enable arms the watchdog when it runs and the watchdog switches the coil off 2 s later *)
Definition hist_ex2 : list (Z * hreq) :=
  [(5, HReq (REnable PNone PNone PNone) 110); (25, HReq RDisable 0); (1001, HReq (REnable PNone PNone PNone) 0); (5001, HNop)].
Example ex_hist_deferred :
  let '(tr, ((on, (td, lim)), (n, valid))) := hist_run (cfg_ex, hist_ex2) in
  map fst tr = [25; 25; 115; 115; 1001; 1001; 2115; 2115] /\ on = false /\ lim = None /\ n = 0 /\ valid = true.
Proof. vm_compute. repeat split; reflexivity. Qed.

Example ex_hist_hyps :
  cfg_ok cfg_ex = true /\ hvalid cfg_ex (hinit cfg_ex) (hsched cfg_ex (hinit cfg_ex) hist_ex2) = true /\
  h_on (fst (hrun cfg_ex (hinit cfg_ex) (hsched cfg_ex (hinit cfg_ex) (firstn 3 hist_ex2)))) = true /\
  h_hold (fst (hrun cfg_ex (hinit cfg_ex) (hsched cfg_ex (hinit cfg_ex) (firstn 3 hist_ex2)))) = true /\
  at_rest (fst (hrun cfg_plain (hinit cfg_plain) (hsched cfg_plain (hinit cfg_plain) hist_ex1))) = true.
Proof. repeat split; vm_compute; reflexivity. Qed.

Lemma any_default_within_limits_l c a b r l :
  cfg_ok c = true -> handle (with_defaults c a b) r = Ok l -> effs_ok c l = true.
Proof.
  intros Hc H. apply hw_command_within_limits_l in H; [|exact Hc]. rewrite effs_ok_defaults in H. exact H.
Qed.

Lemma deferred_call_within_limits_l c a b d l :
  cfg_ok c = true -> dcall_ok c d = true -> exec_dcall (with_defaults c a b) d = Ok l -> effs_ok c l = true.
Proof.
  intros Hc D H. apply exec_dcall_ok in H; [|exact Hc|rewrite dcall_ok_defaults; exact D].
  rewrite effs_ok_defaults in H. exact H.
Qed.
