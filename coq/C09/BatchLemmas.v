(* C09/BatchLemmas.v — proofs about the model of the batch light system (Batch.v). *)
From Common Require Import Prelude.
From C09 Require Import Batch.
Open Scope Z_scope.

(* ------------------------------------------------------------------------------------------ *)
(* small facts *)

Lemma bq_eqb_eq a b : bq_eqb a b = true -> a = b.
Proof.
  destruct a, b. unfold bq_eqb. cbn. intro H. apply andb_true_iff in H as [H1 H2].
  apply Z.eqb_eq in H1, H2. congruence.
Qed.

Lemma upd_same {A} (f : Z -> A) i v : upd f i v i = v.
Proof. unfold upd. rewrite Z.eqb_refl. reflexivity. Qed.

Lemma upd_other {A} (f : Z -> A) i j v : j <> i -> upd f i v j = f j.
Proof. unfold upd. intro N. apply Z.eqb_neq in N. rewrite N. reflexivity. Qed.

Lemma In_zins j i l : In j (zins i l) <-> j = i \/ In j l.
Proof.
  induction l as [|x r IH]; cbn.
  - intuition.
  - destruct (i <? x); [cbn; intuition|].
    destruct (i =? x) eqn:E; cbn.
    + apply Z.eqb_eq in E. subst. intuition.
    + rewrite IH. intuition.
Qed.

Lemma In_sins e x l : In e (sins x l) <-> e = x \/ In e l.
Proof.
  induction l as [|y r IH]; cbn.
  - intuition.
  - destruct (sle y x); cbn; [rewrite IH|]; intuition.
Qed.

Lemma In_fold_zins j due d :
  In j (fold_left (fun d (e : Z * Z) => zins (snd e) d) due d) <-> In j (map snd due) \/ In j d.
Proof.
  revert d. induction due as [|e r IH]; intro d; cbn.
  - intuition.
  - rewrite IH, In_zins. intuition.
Qed.

Lemma runs_concat l : concat (runs l) = l.
Proof.
  induction l as [|x r IH]; cbn; [reflexivity|].
  destruct (runs r) as [|[|y g] gs] eqn:E; cbn in *.
  - subst. reflexivity.
  - rewrite <- IH. reflexivity.
  - destruct (y =? x + 1); cbn; rewrite <- IH; reflexivity.
Qed.

Lemma In_sched_split (P : Z * Z -> bool) j l :
  In j (map snd l) -> In j (map snd (filter P l)) \/ In j (map snd (filter (fun e => negb (P e)) l)).
Proof.
  induction l as [|e r IH]; cbn; [tauto|].
  intros [H|H].
  - destruct (P e); cbn; [left|right]; left; exact H.
  - destruct (IH H) as [A|A]; destruct (P e); cbn; auto.
Qed.

Lemma In_sched_filter_other i j l :
  j <> i -> In j (map snd l) -> In j (map snd (filter (fun e : Z * Z => negb (snd e =? i)) l)).
Proof.
  intro N. induction l as [|e r IH]; cbn; [tauto|].
  intros [H|H].
  - subst j. apply Z.eqb_neq in N. rewrite N. cbn. left. reflexivity.
  - destruct (negb (snd e =? i)); cbn; auto.
Qed.

(* ------------------------------------------------------------------------------------------ *)
(* the invariant.  p = the light the sender has computed a brightness for but not yet handed to
   the callback (only while a callback in the middle of a group is awaited); rem = the lights of the
   snapshot the sender still has to look at *)

Definition tbq (S : bsys) (i : Z) : bq := qz (f_tb (fades S i)).

Definition CInv (S : bsys) (p : option (Z * bq)) (rem : list Z) : Prop :=
  (forall i b, blast S i = Some b -> b = tbq S i) /\
  (forall j b t, lstat S j = Some (b, t) -> hw S j = b \/ p = Some (j, b)) /\
  (forall i b, p = Some (i, b) ->
     (exists t, lstat S i = Some (b, t)) /\
     (In i (dirty S) \/ In i (map snd (sched S)) \/ b = tbq S i)) /\
  (forall j, In j (dirty S) \/ In j (map snd (sched S)) \/ (exists b, p = Some (j, b)) \/ In j rem \/
             hw S j = tbq S j).

Definition pend2 (o : option item) : option (Z * bq) :=
  match o with Some (i, b, _) => Some (i, b) | None => None end.

Definition BInv (S : bsys) : Prop :=
  match spc_ S with
  | SIdle _ => CInv S None []
  | SCb k => CInv S (pend2 (pend k)) (grest k ++ concat (groups k)) /\ (pend k = None -> grest k = [])
  end.

Lemma CInv_spc S p rem v : CInv S p rem -> CInv (set_spc S v) p rem.
Proof. exact (fun H => H). Qed.

Lemma CInv_rem_incl S p rem rem' :
  (forall j, In j rem -> In j rem') -> CInv S p rem -> CInv S p rem'.
Proof.
  intros I (B & L & Lp & P). repeat split; auto.
  - apply Lp; assumption.
  - apply Lp; assumption.
  - intro j. destruct (P j) as [H|[H|[H|[H|H]]]]; auto.
    right; right; right; left. apply I; exact H.
Qed.

(* the pending light is handed over: hw is updated *)
Lemma CInv_commit S i b rem :
  CInv S (Some (i, b)) rem -> CInv (set_hw S (upd (hw S) i b)) None rem.
Proof.
  intros (B & L & Lp & P). destruct (Lp i b eq_refl) as [[t0 Ls] Q].
  repeat split; cbn.
  - exact B.
  - intros j b' t H. left. destruct (Z.eq_dec j i) as [->|N].
    + rewrite upd_same. congruence.
    + rewrite upd_other by exact N. destruct (L j b' t H) as [A|A]; [exact A|]. congruence.
  - discriminate.
  - discriminate.
  - intro j. destruct (Z.eq_dec j i) as [->|N].
    + rewrite upd_same. unfold tbq in *. cbn. destruct Q as [Q|[Q|Q]]; [auto|auto|right; right; right; right; exact Q].
    + rewrite upd_other by exact N. destruct (P j) as [H|[H|[[b' H]|[H|H]]]]; auto. congruence.
Qed.

(* ------------------------------------------------------------------------------------------ *)
(* get_fade_and_brightness *)

Lemma get_fb_spec c S i ct b f done S1 :
  get_fb c S i ct = (b, f, done, S1) ->
  (forall i' b', blast S i' = Some b' -> b' = tbq S i') ->
  (S1 = S \/ S1 = set_blast S (upd (blast S) i (Some (tbq S i)))) /\
  (done = true -> b = tbq S i) /\
  (done = false -> f = maxf c).
Proof.
  unfold get_fb. intros H B.
  assert (R : forall x, (if (f_tt (fades S i) - ct >? maxf c) && (maxf c >=? 0)
            then (mkq (f_sb (fades S i) * (f_tt (fades S i) - f_st (fades S i)) +
                       (f_tb (fades S i) - f_sb (fades S i)) * (ct + maxf c - f_st (fades S i)))
                      (f_tt (fades S i) - f_st (fades S i)), maxf c, false, S)
            else (qz (f_tb (fades S i)), Z.max (f_tt (fades S i) - ct) 0, true,
                  set_blast S (upd (blast S) i (Some (qz (f_tb (fades S i))))))) = x ->
          x = (b, f, done, S1) ->
          (S1 = S \/ S1 = set_blast S (upd (blast S) i (Some (tbq S i)))) /\
          (done = true -> b = tbq S i) /\ (done = false -> f = maxf c)).
  { intros x E1 E2. subst x. destruct (_ && _); inversion E2; subst; unfold tbq.
    - repeat split; auto. discriminate.
    - repeat split; auto. discriminate. }
  destruct (blast S i) as [b0|] eqn:EB.
  - destruct (fst b0 =? 0).
    + eapply R; [reflexivity|exact H].
    + inversion H; subst. repeat split; auto. discriminate.
  - eapply R; [reflexivity|exact H].
Qed.

Lemma CInv_set_blast S i rem :
  CInv S None rem -> CInv (set_blast S (upd (blast S) i (Some (tbq S i)))) None rem.
Proof.
  intros (B & L & Lp & P). repeat split; cbn; auto; try discriminate.
  intros j b. unfold upd. destruct (j =? i) eqn:E.
  - apply Z.eqb_eq in E. subst. intro H. inversion H. reflexivity.
  - apply B.
Qed.

Lemma In_add_sched S t i j :
  In j (map snd (sched (add_sched S t i))) <-> j = i \/ In j (map snd (sched S)).
Proof.
  unfold add_sched.
  assert (G : forall S0, sched S0 = sched S ->
            (In j (map snd (sched (set_sched S0 (sins (t, i) (sched S0))))) <-> j = i \/ In j (map snd (sched S)))).
  { intros S0 E. cbn. rewrite E. rewrite !in_map_iff. split.
    - intros [e [E1 E2]]. apply In_sins in E2 as [E2|E2]; [subst e; left; cbn in E1; auto|right; eauto].
    - intros [H|[e [E1 E2]]].
      + exists (t, i). split; [cbn; auto|apply In_sins; auto].
      + exists e. split; [exact E1|apply In_sins; auto]. }
  destruct (sched S) as [|h r] eqn:ES.
  - apply G. cbn. exact ES.
  - destruct (fst h >? t); apply G; cbn; exact ES.
Qed.

(* frame: what the sender's loop does not touch *)
Lemma add_sched_frame S t i :
  fades (add_sched S t i) = fades S /\ blast (add_sched S t i) = blast S /\ dirty (add_sched S t i) = dirty S /\
  lstat (add_sched S t i) = lstat S /\ hw (add_sched S t i) = hw S /\ dev (add_sched S t i) = dev S.
Proof.
  unfold add_sched. destruct (sched S) as [|h r]; [|destruct (fst h >? t)]; cbn; repeat split; reflexivity.
Qed.

(* one light of a group *)
Lemma pgroup_inv c : forall g S ct lst common extra S' res,
  CInv S None (g ++ extra) -> pgroup c S ct lst common g = (S', res) ->
  match res with
  | GDone => CInv S' None extra
  | GCb _ p rest => CInv S' (pend2 p) (rest ++ extra)
  end.
Proof.
  induction g as [|i r IH]; intros S ct lst common extra S' res I H.
  - cbn in H. inversion H; subst. destruct lst; cbn; exact I.
  - cbn [pgroup] in H.
    destruct (get_fb c S i ct) as [[[b f] done] S1] eqn:G.
    pose proof I as (B & L & Lp & P).
    destruct (get_fb_spec c S i ct b f done S1 G B) as (E1 & Dn & _).
    assert (I1 : CInv S1 None ((i :: r) ++ extra)).
    { destruct E1 as [->| ->]; [exact I|apply CInv_set_blast; exact I]. }
    assert (TB : tbq S1 i = tbq S i) by (destruct E1 as [->| ->]; reflexivity).
    clear I B L Lp P. pose proof I1 as (B & L & Lp & P).
    match type of H with (if ?sk then _ else _) = _ => destruct sk eqn:SK end.
    + (* skipped: the hardware already has this brightness *)
      apply (IH S1 ct lst common extra S' res); [|exact H].
      apply andb_true_iff in SK as [SK1 SK2]. apply andb_true_iff in SK1 as [D _].
      destruct (lstat S1 i) as [[b' t']|] eqn:EL; [|discriminate].
      apply andb_true_iff in SK2 as [Q _]. apply bq_eqb_eq in Q. subst b'.
      destruct (L i b t' EL) as [HW|HW]; [|discriminate].
      repeat split; auto; try discriminate.
      intro j. destruct (P j) as [X|[X|[[? X]|[X|X]]]]; auto; [discriminate|].
      cbn in X. destruct X as [X|X]; [subst j|auto].
      right; right; right; right. rewrite HW, (Dn D), TB. reflexivity.
    + clear SK.
      set (S2 := if done then S1 else add_sched S1 (ct + f) i) in *.
      set (S3 := set_lstat S2 (upd (lstat S2) i (Some (b, ct + f)))) in *.
      assert (F2 : fades S2 = fades S1 /\ blast S2 = blast S1 /\ dirty S2 = dirty S1 /\ lstat S2 = lstat S1 /\
                   hw S2 = hw S1).
      { unfold S2. destruct done; [repeat split; reflexivity|].
        pose proof (add_sched_frame S1 (ct + f) i). tauto. }
      destruct F2 as (Ff & Fb & Fd & Fl & Fh).
      assert (SCH : forall j, In j (map snd (sched S1)) -> In j (map snd (sched S2))).
      { intros j X. unfold S2. destruct done; [exact X|]. apply In_add_sched. auto. }
      assert (OK : done = true /\ b = tbq S1 i \/ In i (map snd (sched S2))).
      { destruct done eqn:D; [left; split; [reflexivity|rewrite TB; auto]|].
        right. unfold S2. apply In_add_sched. auto. }
      clearbody S2. unfold tbq in *.
      match type of H with (if ?cnd then _ else _) = _ => destruct cnd end.
      * (* appended to the list: committed *)
        refine (IH _ ct _ _ extra S' res _ H).
        repeat split; unfold tbq; cbn; try discriminate.
        -- intros i' b'. rewrite Fb, Ff. apply B.
        -- intros j b' t. unfold upd. destruct (j =? i) eqn:E.
           ++ intro X. inversion X; subst. left. reflexivity.
           ++ rewrite Fl, Fh. intro X. destruct (L j b' t X) as [A|A]; [left; exact A|discriminate].
        -- intro j. rewrite Fd, Fh. unfold upd. destruct (j =? i) eqn:E.
           ++ apply Z.eqb_eq in E. subst j. destruct OK as [[_ OK]|OK].
              ** right; right; right; right. unfold tbq in *. cbn. rewrite Ff. exact OK.
              ** right; left. exact OK.
           ++ apply Z.eqb_neq in E.
              destruct (P j) as [X|[X|[[? X]|[X|X]]]]; auto; [discriminate| |].
              ** cbn in X. destruct X as [X|X]; [congruence|auto].
              ** right; right; right; right. unfold tbq in *. cbn. rewrite Ff. exact X.
      * (* does not fit: the list goes to the callback, this light waits *)
        inversion H; subst S' res. cbn [pend2].
        repeat split; unfold tbq; cbn.
        -- intros i' b'. rewrite Fb, Ff. apply B.
        -- intros j b' t. unfold upd. destruct (j =? i) eqn:E.
           ++ apply Z.eqb_eq in E. subst j. intro X. inversion X; subst. right. reflexivity.
           ++ rewrite Fl, Fh. intro X. destruct (L j b' t X) as [A|A]; [left; exact A|discriminate].
        -- inversion H0; subst. rewrite upd_same. eauto.
        -- inversion H0; subst. rewrite Fd. destruct OK as [[_ OK]|OK].
           ++ right; right. unfold tbq in *. cbn. rewrite Ff. exact OK.
           ++ right; left. exact OK.
        -- intro j. rewrite Fd, Fh. destruct (Z.eq_dec j i) as [->|N].
           ++ right; right; left. eauto.
           ++ destruct (P j) as [X|[X|[[? X]|[X|X]]]]; auto; [discriminate| |].
              ** cbn in X. destruct X as [X|X]; [congruence|auto].
              ** right; right; right; right. unfold tbq in *. cbn. rewrite Ff. exact X.
Qed.

Lemma pgroup_rest_nil c : forall g S ct lst common S' lst' rest,
  pgroup c S ct lst common g = (S', GCb lst' None rest) -> rest = [].
Proof.
  induction g as [|i r IH]; intros S ct lst common S' lst' rest H.
  - cbn in H. destruct lst; inversion H; reflexivity.
  - cbn [pgroup] in H. destruct (get_fb c S i ct) as [[[b f] done] S1].
    match type of H with (if ?sk then _ else _) = _ => destruct sk end; [eapply IH; exact H|].
    match type of H with (if ?cnd then _ else _) = _ => destruct cnd end; [eapply IH; exact H|].
    inversion H.
Qed.

Lemma run_groups_inv c : fixedc c = true -> forall gs S now,
  CInv S None (concat gs) -> BInv (fst (run_groups c S now gs)).
Proof.
  intro FX. induction gs as [|g r IH]; intros S now I; cbn [run_groups].
  - unfold finish. rewrite FX. unfold BInv. cbn. exact I.
  - destruct (pgroup c S now [] None g) as [S' res] eqn:G.
    cbn [concat] in I. pose proof (pgroup_inv c g S now [] None (concat r) S' res I G) as J.
    destruct res as [|lst p rest].
    + apply IH. exact J.
    + cbn [fst]. unfold BInv. cbn. split; [exact J|].
      intro N. subst p. eapply pgroup_rest_nil; exact G.
Qed.

Lemma send_step_inv c S now : fixedc c = true -> BInv S -> BInv (fst (send_step c S now)).
Proof.
  intros FX I. unfold send_step. unfold BInv in I.
  destruct (spc_ S) as [u|k] eqn:EP.
  - destruct ((u <=? now) && dev S); [|cbn; unfold BInv; rewrite EP; exact I].
    rewrite FX. apply run_groups_inv; [exact FX|].
    rewrite runs_concat. destruct I as (B & L & Lp & P).
    repeat split; cbn; auto; try discriminate.
    intro j. unfold tbq in *. cbn. destruct (P j) as [X|[X|[[? X]|[X|X]]]]; [tauto|tauto|discriminate|destruct X|tauto].
  - destruct I as [I GN]. destruct (pend k) as [[[i b] f]|] eqn:EK.
    + cbn [pend2] in I. apply CInv_commit in I.
      destruct (pgroup c (set_hw S (upd (hw S) i b)) now [(i, b, f)] (Some f) (grest k)) as [S' res] eqn:G.
      pose proof (pgroup_inv c (grest k) _ now _ _ (concat (groups k)) S' res I G) as J.
      destruct res as [|lst p rest].
      * apply run_groups_inv; [exact FX|exact J].
      * cbn [fst]. unfold BInv. cbn. split; [exact J|].
        intro N. subst p. eapply pgroup_rest_nil; exact G.
    + cbn [pend2] in I. apply run_groups_inv; [exact FX|].
      rewrite (GN eq_refl) in I. exact I.
Qed.

Lemma CInv_app_nil S p rem : CInv S p (rem ++ []) -> CInv S p rem.
Proof. rewrite app_nil_r. exact (fun H => H). Qed.

Lemma set_fade_cinv S i f p rem : CInv S p rem -> CInv (set_fade S i f) p rem.
Proof.
  intros (B & L & Lp & P). unfold set_fade. repeat split; cbn.
  - intros j b. unfold upd, tbq. cbn. unfold upd. destruct (j =? i); [discriminate|apply B].
  - exact L.
  - apply Lp; assumption.
  - destruct (Lp i0 b H) as [_ Q]. destruct (Z.eq_dec i0 i) as [->|N].
    + left. apply In_zins. auto.
    + unfold tbq. cbn. rewrite upd_other by exact N.
      destruct Q as [Q|[Q|Q]]; [left; apply In_zins; auto|right; left; apply In_sched_filter_other; auto|auto].
  - intro j. destruct (Z.eq_dec j i) as [->|N].
    + left. apply In_zins. auto.
    + unfold tbq. cbn. rewrite upd_other by exact N.
      destruct (P j) as [X|[X|[X|[X|X]]]]; auto.
      * left. apply In_zins. auto.
      * right; left. apply In_sched_filter_other; auto.
Qed.

Lemma sched_step_cinv S now p rem : CInv S p rem -> CInv (sched_step S now) p rem.
Proof.
  intros I. unfold sched_step. destruct (sched_enabled S now); [|exact I].
  destruct I as (B & L & Lp & P).
  assert (MV : forall j, In j (dirty S) \/ In j (map snd (sched S)) ->
           In j (fold_left (fun d (e : Z * Z) => zins (snd e) d) (filter (fun e => fst e <=? now) (sched S)) (dirty S)) \/
           In j (map snd (filter (fun e => negb (fst e <=? now)) (sched S)))).
  { intros j [X|X].
    - left. apply In_fold_zins. auto.
    - destruct (In_sched_split (fun e => fst e <=? now) j _ X) as [A|A].
      + left. apply In_fold_zins. auto.
      + right. exact A. }
  repeat split; cbn.
  - exact B.
  - exact L.
  - apply Lp; assumption.
  - destruct (Lp i b H) as [_ Q]. destruct Q as [Q|[Q|Q]]; [| |auto].
    + destruct (MV i (or_introl Q)); auto.
    + destruct (MV i (or_intror Q)); auto.
  - intro j. destruct (P j) as [X|[X|[X|[X|X]]]]; auto.
    + destruct (MV j (or_introl X)); auto.
    + destruct (MV j (or_intror X)); auto.
Qed.

Lemma BInv_of_cinv_step S S' :
  spc_ S' = spc_ S -> (forall p rem, CInv S p rem -> CInv S' p rem) -> BInv S -> BInv S'.
Proof. intros E H. unfold BInv. rewrite E. destruct (spc_ S); [apply H|]. intros [A B]. split; [apply H; exact A|exact B]. Qed.

Lemma bstep_inv c S e : fixedc c = true -> BInv S -> BInv (bstep c S e).
Proof.
  intros FX I. destruct e as [now ev]. unfold bstep. cbn [fst snd]. destruct ev.
  - eapply BInv_of_cinv_step; [|intros p rem; apply set_fade_cinv|exact I]. reflexivity.
  - eapply BInv_of_cinv_step; [|intros p rem; apply sched_step_cinv|exact I].
    unfold sched_step. destruct (sched_enabled S now); reflexivity.
  - apply send_step_inv; assumption.
  - exact I.
Qed.

Lemma BInv_init : BInv binit.
Proof.
  unfold BInv, binit. cbn. repeat split; cbn; try discriminate.
  intro j. right; right; right; right. reflexivity.
Qed.

Lemma brun_inv c h : fixedc c = true -> forall S, BInv S -> BInv (brun c S h).
Proof.
  intro FX. induction h as [|e r IH]; intros S I; cbn; [exact I|].
  apply IH. apply bstep_inv; assumption.
Qed.

(* at rest: nothing dirty, nothing scheduled, the sender is not inside a callback *)
Definition brest (S : bsys) : Prop :=
  dirty S = [] /\ sched S = [] /\ exists u, spc_ S = SIdle u.

Lemma batch_hw_at_rest_l : forall c h, fixedc c = true ->
  let S := brun c binit h in
  brest S -> forall i, hw S i = qz (f_tb (fades S i)).
Proof.
  intros c h FX S (D & K & u & E) i.
  pose proof (brun_inv c h FX binit BInv_init) as I. fold S in I. unfold BInv in I. rewrite E in I.
  destruct I as (_ & _ & _ & P). destruct (P i) as [X|[X|[[? X]|[X|X]]]].
  - rewrite D in X. destruct X.
  - rewrite K in X. destruct X.
  - discriminate.
  - destruct X.
  - exact X.
Qed.

(* every light is accounted for at every moment: it is dirty, scheduled, in the hands of the sender,
   or the hardware has its target *)
Definition accounted (S : bsys) (i : Z) : Prop :=
  In i (dirty S) \/ In i (map snd (sched S)) \/
  match spc_ S with
  | SIdle _ => False
  | SCb k => (exists b f, pend k = Some (i, b, f)) \/ In i (grest k) \/ In i (concat (groups k))
  end \/ hw S i = qz (f_tb (fades S i)).

Lemma batch_no_update_lost_l : forall c h i, fixedc c = true -> accounted (brun c binit h) i.
Proof.
  intros c h i FX. pose proof (brun_inv c h FX binit BInv_init) as I.
  unfold BInv in I. unfold accounted. destruct (spc_ (brun c binit h)) as [u|k].
  - destruct I as (_ & _ & _ & P). destruct (P i) as [X|[X|[[? X]|[X|X]]]]; [tauto|tauto|discriminate|destruct X|tauto].
  - destruct I as [(_ & _ & _ & P) _]. destruct (P i) as [X|[X|[[b X]|[X|X]]]]; [tauto|tauto| | |tauto].
    + right; right; left. left. destruct (pend k) as [[[i' b'] f']|]; [|discriminate].
      cbn in X. inversion X; subst. eauto.
    + right; right; left. right. apply in_app_iff in X. exact X.
Qed.

(* ------------------------------------------------------------------------------------------ *)
(* wake-ups are not lost either: a dirty light means the sender's event is set; an entry of the
   schedule is covered by the scheduler's timeout or its event *)

Lemma pgroup_frame c : forall g S ct lst common S' res,
  pgroup c S ct lst common g = (S', res) -> dirty S' = dirty S /\ dev S' = dev S.
Proof.
  induction g as [|i r IH]; intros S ct lst common S' res H.
  - cbn in H. inversion H; subst. auto.
  - cbn [pgroup] in H. destruct (get_fb c S i ct) as [[[b f] done] S1] eqn:G.
    assert (F1 : dirty S1 = dirty S /\ dev S1 = dev S).
    { unfold get_fb in G.
      destruct (blast S i) as [b0|]; [destruct (fst b0 =? 0)|];
        repeat match type of G with context [if ?x then _ else _] => destruct x end;
        inversion G; subst; cbn; auto. }
    destruct F1 as [F1 F1'].
    match type of H with (if ?sk then _ else _) = _ => destruct sk end.
    + apply IH in H. rewrite F1, F1' in H. exact H.
    + set (S2 := if done then S1 else add_sched S1 (ct + f) i) in *.
      assert (F2 : dirty S2 = dirty S1 /\ dev S2 = dev S1).
      { unfold S2. destruct done; [auto|]. pose proof (add_sched_frame S1 (ct + f) i). tauto. }
      destruct F2 as [F2 F2'].
      match type of H with (if ?cnd then _ else _) = _ => destruct cnd end.
      * apply IH in H. cbn in H. rewrite F2, F2', F1, F1' in H. exact H.
      * inversion H; subst. cbn. rewrite F2, F2', F1, F1'. auto.
Qed.

Definition DInv (S : bsys) : Prop := dirty S <> [] -> dev S = true.

Lemma run_groups_dinv c : fixedc c = true -> forall gs S now,
  DInv S -> DInv (fst (run_groups c S now gs)).
Proof.
  intro FX. induction gs as [|g r IH]; intros S now I; cbn [run_groups].
  - unfold finish. rewrite FX. exact I.
  - destruct (pgroup c S now [] None g) as [S' res] eqn:G.
    apply pgroup_frame in G as [G1 G2].
    assert (I' : DInv S') by (unfold DInv; rewrite G1, G2; exact I).
    destruct res; [apply IH; exact I'|exact I'].
Qed.

Lemma bstep_dinv c S e : fixedc c = true -> DInv S -> DInv (bstep c S e).
Proof.
  intros FX I. destruct e as [now ev]. unfold bstep. cbn [fst snd]. destruct ev.
  - unfold DInv. cbn. reflexivity.
  - unfold sched_step. destruct (sched_enabled S now); [|exact I]. unfold DInv. cbn. reflexivity.
  - unfold send_step. destruct (spc_ S) as [u|k].
    + destruct ((u <=? now) && dev S); [|exact I]. rewrite FX.
      apply run_groups_dinv; [exact FX|]. unfold DInv. cbn. congruence.
    + destruct (pend k) as [[[i b] f]|].
      * destruct (pgroup c (set_hw S (upd (hw S) i b)) now [(i, b, f)] (Some f) (grest k)) as [S' res] eqn:G.
        apply pgroup_frame in G as [G1 G2]. cbn in G1, G2.
        assert (I' : DInv S') by (unfold DInv; rewrite G1, G2; exact I).
        destruct res; [apply run_groups_dinv; assumption|exact I'].
      * apply run_groups_dinv; assumption.
  - exact I.
Qed.

Lemma batch_dirty_wakes_sender_l : forall c h, fixedc c = true ->
  let S := brun c binit h in dirty S <> [] -> dev S = true.
Proof.
  intros c h FX.
  assert (G : forall S, DInv S -> DInv (brun c S h)).
  { induction h as [|e r IH]; intros S I; cbn; [exact I|]. apply IH. apply bstep_dinv; assumption. }
  apply G. unfold DInv. cbn. congruence.
Qed.

(* ------------------------------------------------------------------------------------------ *)
(* the scheduler's wake-up is not lost: every entry of the schedule is covered by the scheduler's
   event or by the timeout it is sleeping on *)

Fixpoint tsorted (l : list (Z * Z)) : Prop :=
  match l with [] => True | x :: r => (forall y, In y r -> fst x <= fst y) /\ tsorted r end.

Lemma tsorted_sins e l : tsorted l -> tsorted (sins e l).
Proof.
  induction l as [|x r IH]; cbn; intro T; [split; [intros y []|exact I]|].
  destruct T as [T1 T2]. destruct (sle x e) eqn:E; cbn.
  - split; [|auto]. intros y Y. apply In_sins in Y as [->|Y]; [|auto].
    unfold sle in E. apply orb_true_iff in E as [E|E]; [apply Z.ltb_lt in E; lia|].
    apply andb_true_iff in E as [E _]. apply Z.eqb_eq in E. lia.
  - assert (G : fst e <= fst x).
    { unfold sle in E. apply orb_false_iff in E as [E1 E2]. apply Z.ltb_ge in E1. exact E1. }
    split; [|split; auto]. intros y [<-|Y]; [exact G|]. specialize (T1 y Y). lia.
Qed.

Lemma tsorted_filter P l : tsorted l -> tsorted (filter P l).
Proof.
  induction l as [|x r IH]; cbn; intro T; [auto|]. destruct T as [T1 T2].
  destruct (P x); cbn; [split|]; auto. intros y Y. apply filter_In in Y as [Y _]. auto.
Qed.

Definition covered (S : bsys) (e : Z * Z) : Prop :=
  sev S = true \/ kpc_ S = KInit \/ exists d, kpc_ S = KWaitFor d /\ d <= fst e.

Definition KInv (S : bsys) : Prop := tsorted (sched S) /\ forall e, In e (sched S) -> covered S e.

Lemma add_sched_kinv S t i : KInv S -> KInv (add_sched S t i).
Proof.
  intros [T C]. unfold add_sched. destruct (sched S) as [|h r] eqn:ES.
  - split; cbn; rewrite ES; cbn; [split; [intros y []|exact I]|]. intros e _. left. reflexivity.
  - destruct (fst h >? t) eqn:E.
    + split; cbn; rewrite ES; [apply (tsorted_sins (t, i) (h :: r)); exact T|].
      intros e _. left. reflexivity.
    + rewrite Z.gtb_ltb in E. apply Z.ltb_ge in E.
      split; cbn; rewrite ES; [apply (tsorted_sins (t, i) (h :: r)); exact T|].
      intros e Y. apply (In_sins e (t, i) (h :: r)) in Y as [->|Y].
      * destruct (C h (or_introl eq_refl)) as [A|[A|[d [A1 A2]]]]; [left; exact A|right; left; exact A|].
        right; right. exists d. split; [exact A1|cbn; lia].
      * apply C. exact Y.
Qed.

Lemma KInv_frame S S' :
  sched S' = sched S -> sev S' = sev S -> kpc_ S' = kpc_ S -> KInv S -> KInv S'.
Proof. intros E1 E2 E3 [T C]. unfold KInv, covered. rewrite E1, E2, E3. auto. Qed.

Lemma get_fb_kframe c S i ct b f done S1 :
  get_fb c S i ct = (b, f, done, S1) -> sched S1 = sched S /\ sev S1 = sev S /\ kpc_ S1 = kpc_ S.
Proof.
  unfold get_fb. intro G.
  destruct (blast S i) as [b0|]; [destruct (fst b0 =? 0)|];
    repeat match type of G with context [if ?x then _ else _] => destruct x end;
    inversion G; subst; cbn; auto.
Qed.

Lemma pgroup_kinv c : forall g S ct lst common S' res,
  KInv S -> pgroup c S ct lst common g = (S', res) -> KInv S'.
Proof.
  induction g as [|i r IH]; intros S ct lst common S' res K H.
  - cbn in H. inversion H; subst. exact K.
  - cbn [pgroup] in H. destruct (get_fb c S i ct) as [[[b f] done] S1] eqn:G.
    apply get_fb_kframe in G as (G1 & G2 & G3).
    assert (K1 : KInv S1) by (eapply KInv_frame; eauto).
    match type of H with (if ?sk then _ else _) = _ => destruct sk end; [eapply IH; eauto|].
    set (S2 := if done then S1 else add_sched S1 (ct + f) i) in *.
    assert (K2 : KInv S2) by (unfold S2; destruct done; [exact K1|apply add_sched_kinv; exact K1]).
    clearbody S2.
    match type of H with (if ?cnd then _ else _) = _ => destruct cnd end.
    + eapply IH; [|exact H]. eapply KInv_frame; [| | |exact K2]; reflexivity.
    + inversion H; subst. eapply KInv_frame; [| | |exact K2]; reflexivity.
Qed.

Lemma run_groups_kinv c : forall gs S now, KInv S -> KInv (fst (run_groups c S now gs)).
Proof.
  induction gs as [|g r IH]; intros S now K; cbn [run_groups].
  - unfold finish. destruct (fixedc c); (eapply KInv_frame; [| | |exact K]; reflexivity).
  - destruct (pgroup c S now [] None g) as [S' res] eqn:G.
    apply pgroup_kinv in G; [|exact K].
    destruct res; [apply IH; exact G|].
    cbn [fst]. eapply KInv_frame; [| | |exact G]; reflexivity.
Qed.

Lemma bstep_kinv c S e : KInv S -> KInv (bstep c S e).
Proof.
  intro K. destruct e as [now ev]. unfold bstep. cbn [fst snd]. destruct ev.
  - destruct K as [T C]. unfold set_fade. split; cbn.
    + apply tsorted_filter. exact T.
    + intros e Y. apply filter_In in Y as [Y _]. apply C. exact Y.
  - unfold sched_step. destruct (sched_enabled S now); [|exact K].
    destruct K as [T C]. split; cbn.
    + apply tsorted_filter. exact T.
    + intros e Y. right; right.
      pose proof (tsorted_filter (fun e0 : Z * Z => negb (fst e0 <=? now)) _ T) as TF.
      destruct (filter (fun e0 : Z * Z => negb (fst e0 <=? now)) (sched S)) as [|h r]; [destruct Y|].
      exists (fst h). split; [reflexivity|]. destruct Y as [<-|Y]; [lia|]. destruct TF as [TF _]. apply TF. exact Y.
  - unfold send_step. destruct (spc_ S) as [u|k].
    + destruct ((u <=? now) && dev S); [|exact K].
      apply run_groups_kinv. destruct (fixedc c); (eapply KInv_frame; [| | |exact K]; reflexivity).
    + destruct (pend k) as [[[i b] f]|].
      * destruct (pgroup c (set_hw S (upd (hw S) i b)) now [(i, b, f)] (Some f) (grest k)) as [S' res] eqn:G.
        apply pgroup_kinv in G; [|eapply KInv_frame; [| | |exact K]; reflexivity].
        destruct res; [apply run_groups_kinv; exact G|].
        cbn [fst]. eapply KInv_frame; [| | |exact G]; reflexivity.
      * apply run_groups_kinv. exact K.
  - exact K.
Qed.

Lemma brun_kinv c : forall h S0, KInv S0 -> KInv (brun c S0 h).
Proof.
  induction h as [|x r IH]; intros S0 K0; cbn; [exact K0|]. apply IH. apply bstep_kinv. exact K0.
Qed.

(* for every history (fixed or not): an entry of the schedule that is due makes the scheduler runnable *)
Lemma batch_due_entry_wakes_scheduler_l : forall c h e now,
  let S := brun c binit h in In e (sched S) -> fst e <= now -> sched_enabled S now = true.
Proof.
  intros c h e now S Y D.
  assert (K : KInv S).
  { unfold S. apply brun_kinv. split; cbn; [exact I|]. intros ? []. }
  destruct K as [_ C]. destruct (C e Y) as [A|[A|[d [A1 A2]]]]; unfold sched_enabled.
  - destruct (kpc_ S); [reflexivity|exact A|rewrite A; reflexivity].
  - rewrite A. reflexivity.
  - rewrite A1. apply orb_true_iff. right. apply Z.leb_le. lia.
Qed.


(* a light whose brightness the hardware already has (sent earlier, realised before now) is not
   sent again when it is looked at on its own / first in its group *)
Lemma unchanged_light_not_resent_l : forall c S ct i b t,
  blast S i = Some b -> fst b <> 0 -> lstat S i = Some (b, t) -> t < ct ->
  pgroup c S ct [] None [i] = (S, GDone).
Proof.
  intros c S ct i b t B NZ L T. cbn [pgroup]. unfold get_fb. rewrite B.
  apply Z.eqb_neq in NZ. rewrite NZ. rewrite L.
  assert (E : bq_eqb b b = true) by (unfold bq_eqb; rewrite !Z.eqb_refl; reflexivity).
  rewrite E. assert (T' : (t <? ct + 0) = true) by (apply Z.ltb_lt; lia). rewrite T'. cbn. reflexivity.
Qed.

(* the code as found: a light marked dirty while the callback is awaited is forgotten *)
Definition c_orig : cfg := mkCfg 250 125 125 8 false.
Definition c_fixed : cfg := mkCfg 250 125 125 8 true.
Definition lost_witness : list (Z * bev) :=
  [(1000, ESched); (1000, ESend);
   (1125, ESet 0 128 (-1) 128 (-1)); (1125, ESend);       (* callback([light 0]) is awaited ... *)
   (1125, ESet 4 178 (-1) 178 (-1));                      (* ... light 4 gets a new colour ... *)
   (1125, ESend);                                         (* ... the callback returns: dirty_lights.clear() *)
   (1250, ESend); (1375, ESend)].

Lemma batch_update_lost_refuted_l :
  exists h, let S := brun c_orig binit h in
            brest S /\ hw S 4 = qz 0 /\ f_tb (fades S 4) = 178.
Proof. exists lost_witness. vm_compute. repeat split; eauto. Qed.

Lemma lost_witness_fixed :
  let S := brun c_fixed binit lost_witness in brest S /\ hw S 4 = qz 178 /\ hw S 0 = qz 128.
Proof. vm_compute. repeat split; eauto. Qed.

(* Examples: a fade in 250 ms steps on two successive lights with a callback that yields *)
Definition ex_bhist : list (Z * bev) :=
  [(1000, ESched); (1000, ESend);
   (1125, ESet 1 0 1125 255 1825); (1125, ESet 2 10 (-1) 10 (-1));
   (1125, ESend);                                  (* callback([light 1]); light 2 waits for the next list *)
   (1125, ESched);
   (1125, ESet 2 20 (-1) 20 (-1));                 (* while the callback is awaited *)
   (1125, ESend); (1125, ESend);
   (1250, ESend); (1250, ESend);
   (1375, ESched); (1375, ESend); (1375, ESched); (1375, ESend);
   (1500, ESend);
   (1625, ESched); (1625, ESend); (1625, ESend)].

Example ex_batch_rest :
  let S := brun c_fixed binit ex_bhist in
  brest S /\ hw S 1 = qz 255 /\ hw S 2 = qz 20 /\ lstat S 1 = Some (qz 255, 1825).
Proof. vm_compute. repeat split; eauto. Qed.

Example ex_batch_midfade :
  let S := brun c_fixed binit (firstn 7 ex_bhist) in
  sched S = [(1375, 1)] /\ In 2 (dirty S) /\ dev S = true /\ hw S 1 = mkq (255 * 250) 700.
Proof. vm_compute. repeat split; auto. Qed.

Example ex_not_resent :
  let S := brun c_fixed binit ex_bhist in
  blast S 1 = Some (qz 255) /\ pgroup c_fixed S 2000 [] None [1] = (S, GDone).
Proof. split; [vm_compute; reflexivity|]. apply (unchanged_light_not_resent_l _ _ _ _ (qz 255) 1825); vm_compute; congruence. Qed.

Example ex_sched_wakes :
  let S := brun c_fixed binit (firstn 7 ex_bhist) in
  sched S = [(1375, 1)] /\ kpc_ S = KWaitFor 1375 /\ sched_enabled S 1374 = false /\ sched_enabled S 1375 = true.
Proof. vm_compute. auto. Qed.
