(* C09/Batch.v — executable model of mpf/core/platform_batch_light_system.py
   (PlatformBatchLight + PlatformBatchLightSystem) as a pc machine.  Definitions only.

   The two asyncio tasks (_send_updates, _schedule_updates) are cut into their atomic blocks (code
   between two points where the task can yield to the loop).  WHICH block runs next, and when, is
   decided by the event loop and by the callback the platform supplies (it is a coroutine and may
   yield); both are the environment: the history is a list of timed events

     ESet i sb st tb tt   PlatformBatchLight.set_fade on light i (-> mark_dirty)
     ESched               the scheduler task runs one iteration of its loop
     ESend                the sender task runs until its next yield point: it wakes up
                          (dirty_lights_changed), or the callback it awaited returned; it runs until
                          the next callback invocation or until it goes to sleep
     EDump ids            observation of the complete state (correspondence only)

   Every callback invocation ends a block: a callback that does not yield is a history in which the
   next event is the ESend that continues.  Events that are not enabled (task not woken up) do
   nothing and are flagged in the output ([bad]).

   Time is integer milliseconds (-1 = "no fade" sentinel).  Brightness is an exact rational in units
   of 1/255 kept in lowest terms ([mkq]), so that the code's float == on brightnesses is structural
   equality; towards the harness it is rounded to 1/(255*1024) ([q_round]).

   [fixedc c = true] is the code WITH fixes/C09-batch-light-dirty-while-sending.patch (the dirty
   set is taken and cleared when the sender wakes up); [false] is the code as found (iterate over a
   copy, clear after the last callback has returned), kept for the _refuted theorem. *)
From Common Require Import Prelude.
Open Scope Z_scope.

Definition bq := (Z * Z)%type.
Definition mkq (n d : Z) : bq :=
  let g := Z.gcd n d in if g =? 0 then (0, 1) else (n / g, d / g).
Definition qz (b : Z) : bq := (b, 1).
Definition bq_eqb (a b : bq) : bool := (fst a =? fst b) && (snd a =? snd b).
Definition BSC : Z := 1024.
Definition q_round (q : bq) : Z := (2 * fst q * BSC + snd q) / (2 * snd q).

Record bfade := mkF { f_sb : Z; f_st : Z; f_tb : Z; f_tt : Z }.
Definition fade0 : bfade := mkF 0 (-1) 0 (-1).

(* max_fade_ms of the lights, 1/update_hz in ms, int(poll*1000), max_batch_size, fixed/as found *)
Record cfg := mkCfg { maxf : Z; poll : Z; tol : Z; maxb : Z; fixedc : bool }.

Definition item := (Z * bq * Z)%type.          (* (light, brightness, fade_ms) *)

(* continuation of the sender while it awaits the callback: the light the next list starts with
   (callback in the middle of a group), the rest of the group, the groups not yet started *)
Record cont := mkK { pend : option item; grest : list Z; groups : list (list Z) }.
Inductive spc := SIdle (until : Z) | SCb (k : cont).
Inductive kpc := KInit | KWait | KWaitFor (d : Z).

Record bsys := mkB {
  fades : Z -> bfade;                 (* PlatformBatchLight._current_fade *)
  blast : Z -> option bq;             (* PlatformBatchLight._last_brightness *)
  dirty : list Z;                     (* dirty_lights (SortedSet), ascending *)
  dev : bool;                         (* dirty_lights_changed *)
  sched : list (Z * Z);               (* dirty_schedule (SortedList of (time, light)) *)
  sev : bool;                         (* schedule_changed *)
  lstat : Z -> option (bq * Z);      (* last_state *)
  hw : Z -> bq;                       (* observable: last brightness handed to the callback *)
  spc_ : spc;
  kpc_ : kpc }.

Definition binit : bsys :=
  mkB (fun _ => fade0) (fun _ => None) [] false [] false (fun _ => None) (fun _ => qz 0) (SIdle 0) KInit.

Definition upd {A} (f : Z -> A) (i : Z) (v : A) : Z -> A := fun j => if j =? i then v else f j.

Definition set_fades S v := mkB v (blast S) (dirty S) (dev S) (sched S) (sev S) (lstat S) (hw S) (spc_ S) (kpc_ S).
Definition set_blast S v := mkB (fades S) v (dirty S) (dev S) (sched S) (sev S) (lstat S) (hw S) (spc_ S) (kpc_ S).
Definition set_dirty S v := mkB (fades S) (blast S) v (dev S) (sched S) (sev S) (lstat S) (hw S) (spc_ S) (kpc_ S).
Definition set_dev S v := mkB (fades S) (blast S) (dirty S) v (sched S) (sev S) (lstat S) (hw S) (spc_ S) (kpc_ S).
Definition set_sched S v := mkB (fades S) (blast S) (dirty S) (dev S) v (sev S) (lstat S) (hw S) (spc_ S) (kpc_ S).
Definition set_sev S v := mkB (fades S) (blast S) (dirty S) (dev S) (sched S) v (lstat S) (hw S) (spc_ S) (kpc_ S).
Definition set_lstat S v := mkB (fades S) (blast S) (dirty S) (dev S) (sched S) (sev S) v (hw S) (spc_ S) (kpc_ S).
Definition set_hw S v := mkB (fades S) (blast S) (dirty S) (dev S) (sched S) (sev S) (lstat S) v (spc_ S) (kpc_ S).
Definition set_spc S v := mkB (fades S) (blast S) (dirty S) (dev S) (sched S) (sev S) (lstat S) (hw S) v (kpc_ S).
Definition set_kpc S v := mkB (fades S) (blast S) (dirty S) (dev S) (sched S) (sev S) (lstat S) (hw S) (spc_ S) v.

(* SortedSet.add *)
Fixpoint zins (i : Z) (l : list Z) : list Z :=
  match l with
  | [] => [i]
  | x :: r => if i <? x then i :: x :: r else if i =? x then x :: r else x :: zins i r
  end.

(* SortedList.add of (time, light) *)
Definition sle (a b : Z * Z) : bool := (fst a <? fst b) || ((fst a =? fst b) && (snd a <=? snd b)).
Fixpoint sins (e : Z * Z) (l : list (Z * Z)) : list (Z * Z) :=
  match l with
  | [] => [e]
  | x :: r => if sle x e then x :: sins e r else e :: x :: r
  end.

(* mark_dirty (called first by set_fade), then the light remembers the fade *)
Definition set_fade (S : bsys) (i : Z) (f : bfade) : bsys :=
  let S1 := set_dirty S (zins i (dirty S)) in
  let S2 := set_dev S1 true in
  let S3 := set_sched S2 (filter (fun e => negb (snd e =? i)) (sched S2)) in
  set_blast (set_fades S3 (upd (fades S3) i f)) (upd (blast S3) i None).

(* PlatformBatchLight.get_fade_and_brightness(current_time) -> (brightness, fade_ms, done) *)
Definition get_fb (c : cfg) (S : bsys) (i ct : Z) : bq * Z * bool * bsys :=
  let f := fades S i in
  let fm := f_tt f - ct in
  let recompute :=
    if (fm >? maxf c) && (maxf c >=? 0) then
      (mkq (f_sb f * (f_tt f - f_st f) + (f_tb f - f_sb f) * (ct + maxf c - f_st f)) (f_tt f - f_st f),
       maxf c, false, S)
    else (qz (f_tb f), Z.max fm 0, true, set_blast S (upd (blast S) i (Some (qz (f_tb f))))) in
  match blast S i with
  | Some b => if fst b =? 0 then recompute            (* "if self._last_brightness:" is false for 0.0 *)
              else (b, 0, true, S)
  | None => recompute
  end.

Definition add_sched (S : bsys) (t i : Z) : bsys :=
  let S1 := match sched S with
            | [] => set_sev S true
            | h :: _ => if fst h >? t then set_sev S true else S
            end in
  set_sched S1 (sins (t, i) (sched S1)).

Definition is_nilb {A} (l : list A) : bool := match l with [] => true | _ => false end.

Inductive gres := GDone | GCb (lst : list item) (p : option item) (rest : list Z).

(* the loop of _send_update_batch up to its next "await self.update_callback(...)";
   lights appended to the list are committed: [hw] is updated when they are appended (the list is
   handed to the callback at the end of this block) *)
Fixpoint pgroup (c : cfg) (S : bsys) (ct : Z) (lst : list item) (common : option Z) (g : list Z)
  : bsys * gres :=
  match g with
  | [] => (S, match lst with [] => GDone | _ => GCb lst None [] end)
  | i :: r =>
      let '(b, f, done, S1) := get_fb c S i ct in
      let stime := ct + f in
      let skip := done && is_nilb lst &&
                  match lstat S1 i with
                  | Some (b', t') => bq_eqb b' b && (t' <? stime)
                  | None => false
                  end in
      if skip then pgroup c S1 ct lst common r
      else
        let S2 := if done then S1 else add_sched S1 stime i in
        let S3 := set_lstat S2 (upd (lstat S2) i (Some (b, stime))) in
        let cm := match common with Some x => x | None => f end in
        if (- tol c <? cm - f) && (cm - f <? tol c) && (Z.of_nat (length lst) <? maxb c) then
          pgroup c (set_hw S3 (upd (hw S3) i b)) ct (lst ++ [(i, b, cm)]) (Some cm) r
        else (S3, GCb lst (Some (i, b, f)) r)
  end.

(* sequences of successive lights (is_successor_of: number = other.number + 1) of the snapshot *)
Fixpoint runs (l : list Z) : list (list Z) :=
  match l with
  | [] => []
  | x :: r => match runs r with
              | (y :: g) :: gs => if y =? x + 1 then (x :: y :: g) :: gs else [x] :: (y :: g) :: gs
              | [] :: gs => [x] :: gs          (* does not occur *)
              | [] => [[x]]
              end
  end.

(* all groups sent: (as found: dirty_lights.clear();) await asyncio.sleep(poll) *)
Definition finish (c : cfg) (S : bsys) (now : Z) : bsys :=
  set_spc (if fixedc c then S else set_dirty S []) (SIdle (now + poll c)).

Fixpoint run_groups (c : cfg) (S : bsys) (now : Z) (gs : list (list Z)) : bsys * list item :=
  match gs with
  | [] => (finish c S now, [])
  | g :: r => match pgroup c S now [] None g with
              | (S', GDone) => run_groups c S' now r
              | (S', GCb lst p rest) => (set_spc S' (SCb (mkK p rest r)), lst)
              end
  end.

Definition sender_enabled (S : bsys) (now : Z) : bool :=
  match spc_ S with
  | SIdle u => (u <=? now) && dev S
  | SCb _ => true                   (* the callback returns when it pleases *)
  end.

Definition send_step (c : cfg) (S : bsys) (now : Z) : bsys * list item :=
  match spc_ S with
  | SIdle u =>
      if (u <=? now) && dev S then
        let S1 := set_dev S false in
        let S2 := if fixedc c then set_dirty S1 [] else S1 in
        run_groups c S2 now (runs (dirty S))
      else (S, [])
  | SCb k =>
      match pend k with
      | Some (i, b, f) =>
          match pgroup c (set_hw S (upd (hw S) i b)) now [(i, b, f)] (Some f) (grest k) with
          | (S', GDone) => run_groups c S' now (groups k)
          | (S', GCb lst p rest) => (set_spc S' (SCb (mkK p rest (groups k))), lst)
          end
      | None => run_groups c S now (groups k)
      end
  end.

Definition sched_enabled (S : bsys) (now : Z) : bool :=
  match kpc_ S with
  | KInit => true
  | KWait => sev S
  | KWaitFor d => sev S || (d <=? now)
  end.

Definition sched_step (S : bsys) (now : Z) : bsys :=
  if sched_enabled S now then
    let due := filter (fun e => fst e <=? now) (sched S) in
    let keep := filter (fun e => negb (fst e <=? now)) (sched S) in
    let S1 := set_sev S false in
    let S2 := set_dirty S1 (fold_left (fun d e => zins (snd e) d) due (dirty S1)) in
    let S3 := set_dev (set_sched S2 keep) true in
    set_kpc S3 (match keep with [] => KWait | h :: _ => KWaitFor (fst h) end)
  else S.

Inductive bev :=
| ESet (i sb st tb te : Z)
| ESched
| ESend
| EDump (ids : list Z).

Definition bstep (c : cfg) (S : bsys) (e : Z * bev) : bsys :=
  match snd e with
  | ESet i sb st tb te => set_fade S i (mkF sb st tb te)
  | ESched => sched_step S (fst e)
  | ESend => fst (send_step c S (fst e))
  | EDump _ => S
  end.

Definition brun (c : cfg) (S : bsys) (h : list (Z * bev)) : bsys := fold_left (bstep c) h S.

(* ------------------------------------------------------------------------------------------ *)
(* observation rows for the correspondence run *)
Definition b2z (b : bool) : Z := if b then 1 else 0.
Definition enc_items (l : list item) : list Z :=
  flat_map (fun it => let '(i, b, f) := it in [i; q_round b; f]) l.
Definition enc_oq (o : option bq) : Z := match o with Some b => q_round b | None => -1 end.

Definition dump_rows (S : bsys) (now : Z) (ids : list Z) : list (list Z) :=
  [4; b2z (dev S); b2z (sev S);
      match spc_ S with SIdle _ => 0 | SCb _ => 1 end;
      (* nothing is runnable: every task that could run at this instant has run *)
      b2z (negb (match spc_ S with SIdle _ => sender_enabled S now | SCb _ => false end) &&
           negb (sched_enabled S now))]
  :: (5 :: dirty S)
  :: (6 :: flat_map (fun e => [fst e; snd e]) (sched S))
  :: map (fun i => [7; i; enc_oq (blast S i);
                    match lstat S i with Some (b, t) => q_round b | None => -1 end;
                    match lstat S i with Some (b, t) => t | None => -1 end;
                    q_round (hw S i)]) ids.

Definition bstep_out (c : cfg) (S : bsys) (e : Z * bev) : bsys * list (list Z) :=
  let now := fst e in
  match snd e with
  | ESet _ _ _ _ _ => (bstep c S e, [])
  | ESched => (bstep c S e, [[2; b2z (sched_enabled S now)]])
  | ESend => let '(S', out) := send_step c S now in
             (S', [1 :: b2z (sender_enabled S now) :: enc_items out])
  | EDump ids => (S, dump_rows S now ids)
  end.

Fixpoint brun_out (c : cfg) (S : bsys) (h : list (Z * bev)) : list (list Z) :=
  match h with
  | [] => []
  | e :: r => let '(S', o) := bstep_out c S e in o ++ brun_out c S' r
  end.

Definition brun_case (inp : cfg * list (Z * bev)) : list (list Z) := brun_out (fst inp) binit (snd inp).
Definition bcase_out_eqb := zss_eqb.
