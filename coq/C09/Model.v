(* C09/Model.v — executable model of the light priority stack (mpf/devices/light.py) and of the
   software/direct fade channel (mpf/platforms/interfaces/light_platform_interface.py).
   Definitions only.

   Time is an integer number of milliseconds (> 0; 0 and -1 are the code's "no fade" sentinels).
   Colours are Z triples.  Keys are Z (the harness maps the key strings to their rank in string
   order, "" = 0).  The model is of the code WITH the two proposed fixes applied
   (fixes/C09-light-fade-cancel-and-color-below.patch):
     - LightPlatformDirectFade.set_fade cancels a running fade task on every new command and
       computes the remaining fade in milliseconds ( * 1000.0 instead of / 1000.0 );
     - Light.get_color_below compares (priority, key) lexicographically.
   The unfixed variants are kept beside them ([below_orig], [chan_set_fade_orig]) for the
   _refuted theorems.

   RGBColor.blend truncates toward zero (int()): Z.quot, on the exact rational ratio.  The float
   ratio of the code is exact when the fade length is 125 ms times a power of two; for other lengths
   the truncated product agrees with the exact one unless (end-start)*elapsed/length is an integer;
   the correspondence run uses lengths for which that cannot happen (see NOTES.md).

   The batch light system (platform_batch_light_system.py) is modelled in Batch.v. *)
From Common Require Import Prelude.
From C09 Require Batch.   (* the model of the batch light system: separate file, built with the model *)
Open Scope Z_scope.

Definition rgb := (Z * Z * Z)%type.
Definition off : rgb := (0, 0, 0).
Definition rgb_eqb (a b : rgb) : bool :=
  let '(a1, a2, a3) := a in let '(b1, b2, b3) := b in (a1 =? b1) && (a2 =? b2) && (a3 =? b3).

(* LightStackEntry *)
Record entry := mkE { prio : Z; key : Z; t0 : Z; c0 : option rgb; t1 : Z; c1 : option rgb }.

Definition is_none {A} (o : option A) : bool := match o with None => true | Some _ => false end.
Definition start_of (e : entry) : rgb := match c0 e with Some c => c | None => off end.

(* LightStackEntry.__gt__ *)
Definition egt (a b : entry) : bool :=
  (prio a >? prio b) || ((prio a =? prio b) && (key a >? key b)).

(* stack.append(e); stack.sort(reverse=True) on a list that is already sorted *)
Fixpoint insert (e : entry) (l : list entry) : list entry :=
  match l with
  | [] => [e]
  | x :: r => if egt x e then x :: insert e r else e :: x :: r
  end.

Definition remove_key (k : Z) (l : list entry) : list entry :=
  filter (fun e => negb (key e =? k)) l.

(* RGBColor.blend component: start + int((end - start) * num/den) *)
Definition blend1 (s e num den : Z) : Z := s + Z.quot ((e - s) * num) den.
Definition blend (a b : rgb) (num den : Z) : rgb :=
  let '(a1, a2, a3) := a in let '(b1, b2, b3) := b in
  (blend1 a1 b1 num den, blend1 a2 b2 num den, blend1 a3 b3 num den).

(* Light._get_color_and_fade(stack, 0)[0]  ( = get_color() ) *)
Fixpoint col (st : list entry) (now : Z) : rgb :=
  match st with
  | [] => off
  | e :: r =>
      if (t1 e =? 0) || (t1 e <=? now) then
        match c1 e with None => col r now | Some c => c end
      else
        let dest := match c1 e with None => col r now | Some c => c end in
        if now <=? t0 e then start_of e
        else blend (start_of e) dest (now - t0 e) (t1 e - t0 e)
  end.

Fixpoint from_first (p : entry -> bool) (l : list entry) : list entry :=
  match l with
  | [] => []
  | x :: r => if p x then x :: r else from_first p r
  end.

(* the test in get_color_below's loop: fixed / as found *)
Definition below_fixed (p k : Z) (e : entry) : bool :=
  (prio e <? p) || ((prio e =? p) && (key e <=? k)).
Definition below_orig (p k : Z) (e : entry) : bool :=
  (prio e <=? p) && (key e <=? k).

Definition color_below_gen (bel : Z -> Z -> entry -> bool) (st : list entry) (p k now : Z) : rgb :=
  match st with
  | [] => off
  | top :: _ =>
      if (key top =? k) && (prio top =? p) then col st now
      else col (from_first (bel p k) st) now
  end.
Definition color_below := color_below_gen below_fixed.
Definition color_below_orig := color_below_gen below_orig.

Definition prio_of_key (st : list entry) (k : Z) : Z :=
  match find (fun e => key e =? k) st with Some e => prio e | None => 0 end.

Definition is_nil {A} (l : list A) : bool := match l with [] => true | _ => false end.

(* Light._add_to_stack *)
Definition add_gen bel (st : list entry) (c : rgb) (fade p k now : Z) : list entry :=
  if negb (is_nil st) && (p <? prio_of_key st k) then st
  else
    let e := if fade =? 0 then mkE p k now None 0 (Some c)
             else mkE p k now (Some (color_below_gen bel st p k now)) (now + fade) (Some c) in
    insert e (remove_key k st).
Definition add_to_stack := add_gen below_fixed.

(* Light._get_color_and_target_time *)
Definition tgtT := (rgb * Z * rgb * Z)%type.
Definition tg_c0 (t : tgtT) : rgb := let '(a, _, _, _) := t in a.
Definition tg_t0 (t : tgtT) : Z := let '(_, a, _, _) := t in a.
Definition tg_c1 (t : tgtT) : rgb := let '(_, _, a, _) := t in a.
Definition tg_t1 (t : tgtT) : Z := let '(_, _, _, a) := t in a.
Definition tgt_eqb (a b : tgtT) : bool :=
  rgb_eqb (tg_c0 a) (tg_c0 b) && (tg_t0 a =? tg_t0 b) && rgb_eqb (tg_c1 a) (tg_c1 b) && (tg_t1 a =? tg_t1 b).

Fixpoint tgt (st : list entry) : tgtT :=
  match st with
  | [] => (off, -1, off, -1)
  | e :: r =>
      if t1 e =? 0 then
        match c1 e with None => tgt r | Some c => (c, -1, c, -1) end
      else
        match c1 e with
        | Some c => (start_of e, t0 e, c, t1 e)
        | None =>
            let lc := tg_c1 (tgt r) in let lt := tg_t1 (tgt r) in
            if lt <? 0 then (start_of e, t0 e, lc, t1 e)
            else if (t0 e <? lt) && (lt <? t1 e) then
              (* RGBColor.blend(start_color, None, ratio) = start_color (blend's None branch) *)
              (start_of e, t0 e, start_of e, lt)
            else (start_of e, t0 e, lc, t1 e)
        end
  end.

(* light state: stack, _last_fade_target, pending remove_fade_<key> delays (key, deadline) *)
Record lstate := mkL { stack : list entry; last : option tgtT; delays : list (Z * Z) }.
Definition linit : lstate := mkL [] None [].

(* Light._schedule_update: returns the new state and the set_fade command sent (if any) *)
Definition schedule_update (l : lstate) (now : Z) : lstate * list tgtT :=
  let T := tgt (stack l) in
  let send := (mkL (stack l) (Some T) (delays l), [T]) in
  match last l with
  | None => send
  | Some L =>
      if tgt_eqb T L then (l, [])
      else if rgb_eqb (tg_c1 T) (tg_c1 L) && ((tg_t1 L <? 0) || (tg_t1 L <? now)) then (l, [])
      else send
  end.

Inductive op :=
| OColor (c : rgb) (fade p k : Z)      (* Light.color(c, fade_ms, priority, key) *)
| ORemove (k fade : Z)                 (* Light.remove_from_stack_by_key(key, fade_ms) *)
| OClear                               (* Light.clear_stack() *)
| OFire (k : Z).                       (* the delay remove_fade_<key> fires: Light._remove_fade_out(key) *)

Definition with_stack (l : lstate) (s : list entry) : lstate := mkL s (last l) (delays l).

Definition color_changes (st : list entry) (p : Z) : bool :=
  match st with [] => true | top :: _ => (prio top <=? p) || is_none (c1 top) end.

Definition do_color bel (l : lstate) (c : rgb) (fade p k now : Z) : lstate * list tgtT :=
  let l' := with_stack l (add_gen bel (stack l) c fade p k now) in
  if color_changes (stack l) p then schedule_update l' now else (l', []).

(* the loop of remove_from_stack_by_key: sub-stack from the key, its priority, color_changes *)
Fixpoint scan_key (k : Z) (st : list entry) (cc : bool) : option (list entry * Z * bool) :=
  match st with
  | [] => None
  | e :: r => if key e =? k then Some (e :: r, prio e, cc)
              else scan_key k r (cc && is_none (c1 e))
  end.

Definition head_transparent (st : list entry) : bool :=
  match st with e :: _ => is_none (c1 e) | [] => false end.

Definition do_remove (l : lstate) (k fade now : Z) : lstate * list tgtT :=
  match scan_key k (stack l) true with
  | None => (l, [])
  | Some (sub, p, cc) =>
      let fade' := if head_transparent sub then 0 else fade in
      let l' :=
        if fade' =? 0 then with_stack l (remove_key k (stack l))
        else mkL (insert (mkE p k now (Some (col sub now)) (now + fade') None) (remove_key k (stack l)))
                 (last l)
                 ((k, now + fade') :: filter (fun d => negb (fst d =? k)) (delays l)) in
      if cc then schedule_update l' now else (l', [])
  end.

Fixpoint scan_fadeout (k : Z) (st : list entry) (cc : bool) : option bool :=
  match st with
  | [] => None
  | e :: r => if (key e =? k) && is_none (c1 e) then Some cc
              else scan_fadeout k r (cc && is_none (c1 e))
  end.

Definition do_fire (l : lstate) (k now : Z) : lstate * list tgtT :=
  let l0 := mkL (stack l) (last l) (filter (fun d => negb (fst d =? k)) (delays l)) in
  match scan_fadeout k (stack l) true with
  | None => (l0, [])
  | Some cc =>
      let l' := with_stack l0 (filter (fun x => negb (key x =? k) || negb (is_none (c1 x))) (stack l)) in
      if cc then schedule_update l' now else (l', [])
  end.

Definition do_clear (l : lstate) (now : Z) : lstate * list tgtT :=
  schedule_update (with_stack l []) now.

Definition lstep_gen bel (l : lstate) (now : Z) (o : op) : lstate * list tgtT :=
  match o with
  | OColor c fade p k => do_color bel l c fade p k now
  | ORemove k fade => do_remove l k fade now
  | OClear => do_clear l now
  | OFire k => do_fire l k now
  end.
Definition lstep := lstep_gen below_fixed.

(* ------------------------------------------------------------------------------------------ *)
(* hardware channel: LightPlatformDirectFade / LightPlatformSoftwareFade (one white channel).
   Brightness b in 0..255 stands for b/255.0; commands carry round(brightness*255*1024). *)

Record task := mkT { b0 : Z; tt0 : Z; b1 : Z; tt1 : Z; wake : Z }.
Definition chan := option task.
Definition hwcmd := (Z * Z)%type.         (* (brightness*255*1024, fade_ms) *)

Definition SC : Z := 1024.

(* set_fade, fixed: cancel, then task or direct command *)
Definition chan_set_fade (maxf now : Z) (ch : chan) (sb st tb tt : Z) : chan * list hwcmd :=
  let fade := if tt >? 0 then tt - now else -1 in
  if fade >? maxf then (Some (mkT sb st tb tt now), [])
  else (None, [(tb * SC, Z.max fade 0)]).

(* set_fade as found: fade_ms = seconds/1000 ( > maxf only for maxf = 0 and a future target), the
   running task is cancelled only when a new task replaces it *)
Definition chan_set_fade_orig (maxf now : Z) (ch : chan) (sb st tb tt : Z) : chan * list hwcmd :=
  let future := (tt >? 0) && (tt >? now) in
  if future && (maxf =? 0) then (Some (mkT sb st tb tt now), [])
  else (ch, [(tb * SC, 0)]).

Definition clampb (v : Z) : Z := Z.min (255 * SC) (Z.max v 0).

(* one iteration of LightPlatformDirectFade._fade *)
Definition task_step (maxf interval now : Z) (k : task) : chan * hwcmd :=
  let tf := tt1 k - now in
  if tf >? maxf then
    let num := now + maxf - tt0 k in
    let den := tt1 k - tt0 k in
    let v := if den >? 0 then (2 * ((b0 k * den + (b1 k - b0 k) * num) * SC) + den) / (2 * den)
             else b1 k * SC in
    (Some (mkT (b0 k) (tt0 k) (b1 k) (tt1 k) (now + interval)), (clampb v, maxf))
  else (None, (b1 k * SC, Z.max tf 0)).

(* run the task if it is due (first step, or its sleep ended) *)
Definition chan_run (maxf interval now : Z) (ch : chan) : chan * list hwcmd :=
  match ch with
  | Some k => if wake k <=? now then let '(ch', c) := task_step maxf interval now k in (ch', [c])
              else (ch, [])
  | None => (ch, [])
  end.

(* ------------------------------------------------------------------------------------------ *)
(* Light._get_color_and_fade(stack, max_fade_ms) -> (colour, fade_ms, done) for any max_fade_ms
   (current_time = clock time; the recursive calls always use the clock time).  [col] is the
   max_fade_ms = 0 instance (Lemmas.cfade_zero_is_col). *)
Fixpoint cfade (st : list entry) (m now : Z) : rgb * Z * bool :=
  match st with
  | [] => (off, -1, true)
  | e :: r =>
      if (t1 e =? 0) || (t1 e <=? now) then
        match c1 e with None => cfade r m now | Some c => (c, -1, true) end
      else
        let '(dest, m') := match c1 e with
                           | Some c => (c, m)
                           | None => let '(dc, lf, _) := cfade r m now in (dc, if lf >? 0 then lf else m)
                           end in
        let target := now + m' in
        if target >? t1 e then (dest, t1 e - now, true)
        else if target <=? t0 e then (start_of e, m', false)
        else (blend (start_of e) dest (target - t0 e) (t1 e - t0 e), m', false)
  end.

(* ------------------------------------------------------------------------------------------ *)
(* light kinds and channel mapping (Light._schedule_update) *)
Definition min3 (c : rgb) : Z := let '(r, g, b) := c in Z.min r (Z.min g b).
(* kinds: 0 RGB, 1 single white channel, 2 RGBW duck_rgb, 3 DriverLight (software fade), 4 direct fade,
   6 RGB with a colour-correction profile, 7 RGBW white_only, 8 RGBW min_rgb *)
Definition chan_map (kind : Z) (c : rgb) : list Z :=
  let '(r, g, b) := c in
  if (kind =? 0) || (kind =? 6) then [r; g; b]
  else if kind =? 2 then let m := min3 c in [r - m; g - m; b - m; m]
  else if kind =? 7 then (if (r =? g) && (g =? b) then [0; 0; 0; r] else [r; g; b; 0])
  else if kind =? 8 then [r; g; b; min3 c]
  else [min3 c].

(* kinds 3 (DriverLight: software fade, interval 125) and 4 (direct fade 250/250) have a channel model *)
Definition kind_maxf (kind : Z) : Z := if kind =? 4 then 250 else 0.
Definition kind_interval (kind : Z) : Z := if kind =? 4 then 250 else 125.
Definition kind_has_chan (kind : Z) : bool := (kind =? 3) || (kind =? 4).

(* hardware side of one light: the fade channel (kinds 3, 4), the last set_fade given to the drivers
   (after brightness / colour correction), the brightness factor it was corrected with, the last
   brightness the fade channel commanded *)
Record state := mkS { ls : lstate; ch : chan; lcmd : option tgtT; cfac : Z; hwb : option Z }.
Definition sinit : state := mkS linit None None 4 None.

Definition feed_chan (kind now : Z) (c : chan) (cmds : list tgtT) : chan * list hwcmd :=
  fold_left (fun acc T =>
               let '(c', out) := chan_set_fade (kind_maxf kind) now (fst acc)
                                   (min3 (tg_c0 T)) (tg_t0 T) (min3 (tg_c1 T)) (tg_t1 T) in
               (c', snd acc ++ out)) cmds (c, []).

(* Light.gamma_correct with light_controller.brightness_factor = f4/4 (the "brightness" machine
   variable: 0.25, 0.5, 0.75, 1.0): int(x * factor) per component; then Light.color_correct: the
   profile's three lookup tables ([] = no profile).  Applied by _schedule_update to the start and
   target colour of every command it sends (the comparison with _last_fade_target is on the
   UNcorrected colours). *)
Definition gam (f4 : Z) (c : rgb) : rgb :=
  let '(r, g, b) := c in (r * f4 / 4, g * f4 / 4, b * f4 / 4).
Definition lut (tab : list (list Z)) (k : nat) (x : Z) : Z :=
  nth (Z.to_nat x) (nth k tab []) 0.
Definition cc (tab : list (list Z)) (c : rgb) : rgb :=
  match tab with
  | [] => c
  | _ => let '(r, g, b) := c in (lut tab 0 r, lut tab 1 g, lut tab 2 b)
  end.
Definition corr (f4 : Z) (tab : list (list Z)) (c : rgb) : rgb := cc tab (gam f4 c).
Definition corr_T (f4 : Z) (tab : list (list Z)) (T : tgtT) : tgtT :=
  (corr f4 tab (tg_c0 T), tg_t0 T, corr f4 tab (tg_c1 T), tg_t1 T).
Definition kind_tab (kind : Z) (tab : list (list Z)) : list (list Z) := if kind =? 6 then tab else [].

Definition last_opt {A} (old : option A) (l : list A) : option A := fold_left (fun _ x => Some x) l old.

Definition lfold (now : Z) (l : lstate) (ops : list op) : lstate * list tgtT :=
  fold_left (fun acc o => let '(l1, c1) := lstep (fst acc) now o in (l1, snd acc ++ c1)) ops (l, []).

(* a batch of ops at one instant (brightness factor f4/4), then the due task steps *)
Definition run_ops (kind : Z) (tab : list (list Z)) (now f4 : Z) (s : state) (ops : list op)
  : state * list tgtT * list hwcmd :=
  let '(l', cmds0) := lfold now (ls s) ops in
  let cmds := map (corr_T f4 (kind_tab kind tab)) cmds0 in
  let '(c1, h1) := if kind_has_chan kind then feed_chan kind now (ch s) cmds else (ch s, []) in
  let '(c2, h2) := if kind_has_chan kind then chan_run (kind_maxf kind) (kind_interval kind) now c1 else (c1, []) in
  (mkS l' c2 (last_opt (lcmd s) cmds) (if is_nil cmds0 then cfac s else f4) (last_opt (hwb s) (map fst (h1 ++ h2))),
   cmds, h1 ++ h2).

(* VirtualLight.current_brightness (scaled by 255*1024, rounded) for one channel of the last command *)
Definition vl_b (sb st tb te now : Z) : Z :=
  if te >? now then
    let den := te - st in
    (2 * ((sb * den + (tb - sb) * (now - st)) * SC) + den) / (2 * den)
  else tb * SC.

Fixpoint map2 {A B C} (f : A -> B -> C) (a : list A) (b : list B) : list C :=
  match a, b with x :: a', y :: b' => f x y :: map2 f a' b' | _, _ => [] end.

(* what the hardware shows / was last told, per channel, scaled by 255*1024 *)
Definition hw_now (kind : Z) (s : state) (now : Z) : list Z :=
  if kind_has_chan kind then [match hwb s with Some b => b | None => 0 end]
  else match lcmd s with
       | None => map (fun _ => 0) (chan_map kind off)
       | Some T => map2 (fun sb tb => vl_b sb (tg_t0 T) tb (tg_t1 T) now)
                        (chan_map kind (tg_c0 T)) (chan_map kind (tg_c1 T))
       end.

(* one tick of the harness: the delays that fired since the last tick, grouped by the instant they fired
   at (ascending, the last group may be at [now_]), the commands issued at [now_]; [mfs_]: the max_fade_ms
   values for which _get_color_and_fade is sampled *)
Record tick := mkTick { now_ : Z; fac_ : Z; fired : list (Z * list Z); ops_ : list op; mfs_ : list Z }.

Definition enc_cmd (kind : Z) (T : tgtT) : list Z :=
  0 :: chan_map kind (tg_c0 T) ++ [tg_t0 T] ++ chan_map kind (tg_c1 T) ++ [tg_t1 T].
Definition enc_hw (h : hwcmd) : list Z := [1; fst h; snd h].
Definition enc_rgb (c : rgb) : list Z := let '(r, g, b) := c in [r; g; b].
Definition enc_cfade (m : Z) (r : rgb * Z * bool) : list Z :=
  let '(c, f, d) := r in 3 :: m :: enc_rgb c ++ [f; if d then 1 else 0].

(* delays that are due but were not fired by the implementation, and fired ones that were not due *)
Definition bad_fires (l : lstate) (now : Z) (fs : list (Z * list Z)) : Z :=
  let flat := flat_map (fun g => map (fun k => (k, fst g)) (snd g)) fs in
  Z.of_nat (length (filter (fun kt => negb (existsb (fun d => (fst d =? fst kt) && (snd d =? snd kt)) (delays l))) flat))
  + Z.of_nat (length (filter (fun d => (snd d <=? now) && negb (existsb (fun kt => fst kt =? fst d) flat)) (delays l))).

Definition run_fired (kind : Z) (tab : list (list Z)) (f4 : Z) (s : state) (fs : list (Z * list Z))
  : state * list tgtT * list hwcmd :=
  fold_left (fun acc g =>
               let '(s0, cm0, hw0) := acc in
               let '(s1, cm1, hw1) := run_ops kind tab (fst g) f4 s0 (map OFire (snd g)) in
               (s1, cm0 ++ cm1, hw0 ++ hw1)) fs (s, [], []).

(* one tick: timers (delays, in the observed order, at their own instants) -> task wake-ups -> colour
   sample -> external ops -> first steps of new tasks -> colour sample, hardware sample *)
Definition tick_step (kind : Z) (tab : list (list Z)) (s : state) (tk : tick) : state * list (list Z) :=
  let now := now_ tk in
  let bad := bad_fires (ls s) now (fired tk) in
  let '(s0, cm0, hw0) := run_fired kind tab (fac_ tk) s (fired tk) in
  let '(s1, cm1, hw1) := run_ops kind tab now (fac_ tk) s0 [] in
  let pre := col (stack (ls s1)) now in
  let '(s2, cm2, hw2) := run_ops kind tab now (fac_ tk) s1 (ops_ tk) in
  let post := col (stack (ls s2)) now in
  (s2, (enc_rgb pre ++ enc_rgb post ++ [bad])
         :: (2 :: hw_now kind s2 now)
         :: map (fun m => enc_cfade m (cfade (stack (ls s2)) m now)) (mfs_ tk)
         ++ map (enc_cmd kind) (cm0 ++ cm1 ++ cm2) ++ map enc_hw (hw0 ++ hw1 ++ hw2)).

Fixpoint run_ticks (kind : Z) (tab : list (list Z)) (s : state) (tks : list tick) : list (list (list Z)) :=
  match tks with
  | [] => []
  | tk :: r => let '(s', o) := tick_step kind tab s tk in o :: run_ticks kind tab s' r
  end.

(* the state after the ticks (for the theorems) *)
Definition run_state (kind : Z) (tab : list (list Z)) (s : state) (tks : list tick) : state :=
  fold_left (fun s tk => fst (tick_step kind tab s tk)) tks s.

Definition run_case (tab : list (list Z)) (inp : Z * list tick) : list (list (list Z)) :=
  run_ticks (fst inp) tab sinit (snd inp).
Definition case_out_eqb := zsss_eqb.
