(* C09/Props.v — property theorems only.  Each is closed by [exact] of a lemma from Lemmas.v and
   followed by Print Assumptions (must print "Closed under the global context").

   Property C09: for any history of colour commands, fades and removals under any keys and
   priorities, the light's logical colour is that of its highest-priority entry, with running
   fades interpolated between their endpoints and never outside them.  Once all fades have
   finished, the brightness last commanded to every hardware channel equals that logical colour.
   Removing a key restores exactly the colour beneath it and removing all keys turns the light off.

   The model is of the code with fixes/C09-light-fade-cancel-and-color-below.patch applied; the
   two _refuted theorems show that the code as found violates the property (stale fade task,
   wrong fade start colour).  Satisfiability Examples are in Lemmas.v, named ex_... *)
From Common Require Import Prelude.
From C09 Require Import Model Lemmas.
Open Scope Z_scope.

(* the stack is kept strictly sorted by (priority, key), descending, by every operation of every
   history: its first opaque entry is the highest-priority one *)
Theorem stack_sorted_and_hw_invariant :
  forall h l t0, 0 <= t0 -> Inv l t0 -> timed_ok t0 h -> Inv (lrun l h) (last_time t0 h).
Proof. exact run_inv. Qed.
Print Assumptions stack_sorted_and_hw_invariant.

(* no fade running: the logical colour is the colour of the first (= highest (priority, key))
   opaque entry, black if there is none *)
Theorem logical_color_is_top :
  forall st now, settled st now = true -> col st now = top_color st.
Proof. exact logical_color_is_top_l. Qed.
Print Assumptions logical_color_is_top.

(* a running fade of the visible entry is componentwise between its start colour and its
   destination (its own colour, or for a removal fade the colour beneath), and equals the
   destination from the end of the fade on *)
Theorem fade_between_endpoints :
  forall e r now, t1 e <> 0 -> t0 e < t1 e ->
    (now < t1 e -> between (start_of e) (col (e :: r) now) (dest_of e r now)) /\
    (t1 e <= now -> col (e :: r) now = dest_of e r now).
Proof. exact fade_between_endpoints_l. Qed.
Print Assumptions fade_between_endpoints.

(* with the fix, a fade that becomes the visible entry starts from the colour the light shows *)
Theorem fade_starts_at_current_color :
  forall top r p k now, below_fixed p k top = true ->
    color_below (top :: r) p k now = col (top :: r) now.
Proof. exact fade_starts_at_current_color_l. Qed.
Print Assumptions fade_starts_at_current_color.

(* the code as found (entry.priority <= priority and entry.key <= key) does not *)
Theorem color_below_orig_refuted :
  exists st p k now, sortedb st = true /\ forallb (below_fixed p k) st = true /\
                     color_below_orig st p k now <> col st now.
Proof. exact color_below_orig_refuted_l. Qed.
Print Assumptions color_below_orig_refuted.

(* adding a key and removing it again restores the stack, hence the colour at every later time *)
Theorem remove_restores_below :
  forall st c fade p k now, nokey k st = true ->
    remove_key k (add_to_stack st c fade p k now) = st.
Proof. intros; apply add_then_remove_l; assumption. Qed.
Print Assumptions remove_restores_below.

(* removing the top key without a fade leaves exactly the stack beneath it *)
Theorem remove_top_instant :
  forall l e r k now, stack l = e :: r -> key e = k -> nokey k r = true ->
    stack (fst (do_remove l k 0 now)) = r.
Proof. exact remove_top_instant_l. Qed.
Print Assumptions remove_top_instant.

(* removing it with a fade: once the remove_fade delay has fired, likewise *)
Theorem remove_top_with_fade :
  forall l e r k fade now now', stack l = e :: r -> key e = k -> c1 e <> None -> nokey k r = true ->
    fade <> 0 -> stack (fst (do_fire (fst (do_remove l k fade now)) k now')) = r.
Proof. exact remove_fade_then_fire_l. Qed.
Print Assumptions remove_top_with_fade.

(* clear_stack: the light is off and the hardware's target colour is off, whatever came before *)
Theorem clear_turns_off :
  forall l now now', 0 <= now ->
    let l' := fst (do_clear l now) in
    stack l' = [] /\ col (stack l') now' = off /\ hw_target l' = off.
Proof. exact clear_turns_off_l. Qed.
Print Assumptions clear_turns_off.

(* for every history (times >= 0, non-decreasing; the delays are operations of the history): at
   any time after the last operation at which no removal fade is left and no fade is running,
   the target colour of the last set_fade sent to the drivers is the logical colour and its
   target time is over — through all the shortcuts of color()/remove/_schedule_update *)
Theorem hw_equals_logical_at_rest :
  forall h now, timed_ok 0 h -> last_time 0 h <= now ->
    let l := lrun linit h in
    rest (stack l) now = true ->
    hw_target l = col (stack l) now /\ hw_t1 l <= now.
Proof. exact hw_equals_logical_at_rest_l. Qed.
Print Assumptions hw_equals_logical_at_rest.

(* the command stream is exactly the sequence of values of _last_fade_target *)
Theorem command_sent_iff_target_replaced :
  forall l now,
    (snd (schedule_update l now) = [] /\ last (fst (schedule_update l now)) = last l) \/
    (exists T, snd (schedule_update l now) = [T] /\ last (fst (schedule_update l now)) = Some T).
Proof. exact schedule_update_sent. Qed.
Print Assumptions command_sent_iff_target_replaced.

(* software / direct fade channel with the fix: for every sequence of set_fade commands and task
   wake-ups, whenever no fade task is pending the last brightness commanded is the target of the
   last set_fade (while one is pending it is heading for that target) *)
Theorem channel_idle_shows_target :
  forall maxf interval evs, cinv (fold_left (cstep maxf interval) evs (None, None, None)).
Proof. exact channel_idle_shows_target_l. Qed.
Print Assumptions channel_idle_shows_target.

(* and the task does end: a step at or after (target time - max fade) commands the target *)
Theorem fade_task_finishes :
  forall maxf interval now k, tt1 k - maxf <= now ->
    task_step maxf interval now k = (None, (b1 k * SC, Z.max (tt1 k - now) 0)).
Proof. exact task_finishes_l. Qed.
Print Assumptions fade_task_finishes.

(* the code as found: an instant colour during a software fade leaves the old task running; at
   rest the hardware shows the old target (255) although the last command asked for 77 *)
Theorem stale_fade_task_refuted :
  exists evs, fold_left (cstep_orig 0 125) evs (None, None, None) = (None, Some (255 * SC), Some 77).
Proof. exact stale_fade_task_refuted_l. Qed.
Print Assumptions stale_fade_task_refuted.

(* brightness correction (gamma_correct, factor f4/4 from the "brightness" machine variable):
   full brightness is the identity *)
Theorem brightness_full_is_identity : forall c, gam 4 c = c.
Proof. exact gam_full. Qed.
Print Assumptions brightness_full_is_identity.

(* correction is monotone: a corrected fade stays between its corrected endpoints *)
Theorem corrected_fade_between_endpoints :
  forall f4 a x b, 0 <= f4 -> between a x b -> between (gam f4 a) (gam f4 x) (gam f4 b).
Proof. exact gam_between_l. Qed.
Print Assumptions corrected_fade_between_endpoints.

(* and never brighter than the logical colour *)
Theorem corrected_not_brighter :
  forall f4 r g b, 0 <= f4 <= 4 -> 0 <= r -> 0 <= g -> 0 <= b ->
    let '(r', g', b') := gam f4 (r, g, b) in 0 <= r' <= r /\ 0 <= g' <= g /\ 0 <= b' <= b.
Proof. exact gam_bounded_l. Qed.
Print Assumptions corrected_not_brighter.

(* at rest, the corrected target of the last command is the corrected logical colour — for the
   factor that was in effect when that command was sent (run_ops applies [corr_T] to every
   command).  hw_equals_logical_at_rest_partial: the full statement "for the CURRENT factor" is
   false of the code: a brightness change is not propagated to lights that do not change colour
   (known finding brightness-change-not-propagated, reproduced by the check). *)
Theorem hw_corrected_at_rest_partial :
  forall h now f4, timed_ok 0 h -> last_time 0 h <= now ->
    let l := lrun linit h in
    rest (stack l) now = true ->
    gam f4 (hw_target l) = gam f4 (col (stack l) now).
Proof. exact hw_corrected_at_rest_l. Qed.
Print Assumptions hw_corrected_at_rest_partial.
