(* C09/Props.v — property theorems only.  Each is closed by [exact] of a lemma from Lemmas.v and
   followed by Print Assumptions (must print "Closed under the global context").

   Property C09: for any history of colour commands, fades and removals under any keys and
   priorities, the light's logical colour is that of its highest-priority entry, with running
   fades interpolated between their endpoints and never outside them.  Once all fades have
   finished, the brightness last commanded to every hardware channel equals that logical colour.
   Removing a key restores exactly the colour beneath it and removing all keys turns the light off.

   The model is of the code with fixes/C09-light-fade-cancel-and-color-below.patch applied; the
   two _refuted theorems show that the code as found violates the property (stale fade task,
   wrong fade start colour).  The batch light system is modelled WITH
   fixes/C09-batch-light-dirty-while-sending.patch; batch_update_lost_refuted is the code as found.
   Satisfiability Examples are in Lemmas.v / Compose.v / BatchLemmas.v, named ex_... *)
From Common Require Import Prelude.
From C09 Require Import Batch Model Lemmas BatchLemmas Compose.
Open Scope Z_scope.

(* the stack is kept strictly sorted by (priority, key), descending, by every operation of every
   history: its first opaque entry is the highest-priority one *)
Theorem stack_sorted_and_hw_invariant :
  forall h l t0, 0 <= t0 -> Inv l t0 -> timed_ok t0 h -> Inv (lrun l h) (last_time t0 h).
Proof. exact run_inv. Qed.
Print Assumptions stack_sorted_and_hw_invariant.

(* no fade running: the logical colour is the colour of the first (= highest (priority, key))
   opaque entry, black if there is none *)
Theorem logical_color_is_top :
  forall st now, settled st now = true -> col st now = top_color st.
Proof. exact logical_color_is_top_l. Qed.
Print Assumptions logical_color_is_top.

(* a running fade of the visible entry is componentwise between its start colour and its
   destination (its own colour, or for a removal fade the colour beneath), and equals the
   destination from the end of the fade on *)
Theorem fade_between_endpoints :
  forall e r now, t1 e <> 0 -> t0 e < t1 e ->
    (now < t1 e -> between (start_of e) (col (e :: r) now) (dest_of e r now)) /\
    (t1 e <= now -> col (e :: r) now = dest_of e r now).
Proof. exact fade_between_endpoints_l. Qed.
Print Assumptions fade_between_endpoints.

(* with the fix, a fade that becomes the visible entry starts from the colour the light shows *)
Theorem fade_starts_at_current_color :
  forall top r p k now, below_fixed p k top = true ->
    color_below (top :: r) p k now = col (top :: r) now.
Proof. exact fade_starts_at_current_color_l. Qed.
Print Assumptions fade_starts_at_current_color.

(* the code as found (entry.priority <= priority and entry.key <= key) does not *)
Theorem color_below_orig_refuted :
  exists st p k now, sortedb st = true /\ forallb (below_fixed p k) st = true /\
                     color_below_orig st p k now <> col st now.
Proof. exact color_below_orig_refuted_l. Qed.
Print Assumptions color_below_orig_refuted.

(* adding a key and removing it again restores the stack, hence the colour at every later time *)
Theorem remove_restores_below :
  forall st c fade p k now, nokey k st = true ->
    remove_key k (add_to_stack st c fade p k now) = st.
Proof. intros; apply add_then_remove_l; assumption. Qed.
Print Assumptions remove_restores_below.

(* removing the top key without a fade leaves exactly the stack beneath it *)
Theorem remove_top_instant :
  forall l e r k now, stack l = e :: r -> key e = k -> nokey k r = true ->
    stack (fst (do_remove l k 0 now)) = r.
Proof. exact remove_top_instant_l. Qed.
Print Assumptions remove_top_instant.

(* removing it with a fade: once the remove_fade delay has fired, likewise *)
Theorem remove_top_with_fade :
  forall l e r k fade now now', stack l = e :: r -> key e = k -> c1 e <> None -> nokey k r = true ->
    fade <> 0 -> stack (fst (do_fire (fst (do_remove l k fade now)) k now')) = r.
Proof. exact remove_fade_then_fire_l. Qed.
Print Assumptions remove_top_with_fade.

(* clear_stack: the light is off and the hardware's target colour is off, whatever came before *)
Theorem clear_turns_off :
  forall l now now', 0 <= now ->
    let l' := fst (do_clear l now) in
    stack l' = [] /\ col (stack l') now' = off /\ hw_target l' = off.
Proof. exact clear_turns_off_l. Qed.
Print Assumptions clear_turns_off.

(* for every history (times >= 0, non-decreasing; the delays are operations of the history): at
   any time after the last operation at which no removal fade is left and no fade is running,
   the target colour of the last set_fade sent to the drivers is the logical colour and its
   target time is over — through all the shortcuts of color()/remove/_schedule_update *)
Theorem hw_equals_logical_at_rest :
  forall h now, timed_ok 0 h -> last_time 0 h <= now ->
    let l := lrun linit h in
    rest (stack l) now = true ->
    hw_target l = col (stack l) now /\ hw_t1 l <= now.
Proof. exact hw_equals_logical_at_rest_l. Qed.
Print Assumptions hw_equals_logical_at_rest.

(* the command stream is exactly the sequence of values of _last_fade_target *)
Theorem command_sent_iff_target_replaced :
  forall l now,
    (snd (schedule_update l now) = [] /\ last (fst (schedule_update l now)) = last l) \/
    (exists T, snd (schedule_update l now) = [T] /\ last (fst (schedule_update l now)) = Some T).
Proof. exact schedule_update_sent. Qed.
Print Assumptions command_sent_iff_target_replaced.

(* software / direct fade channel with the fix: for every sequence of set_fade commands and task
   wake-ups, whenever no fade task is pending the last brightness commanded is the target of the
   last set_fade (while one is pending it is heading for that target) *)
Theorem channel_idle_shows_target :
  forall maxf interval evs, cinv (fold_left (cstep maxf interval) evs (None, None, None)).
Proof. exact channel_idle_shows_target_l. Qed.
Print Assumptions channel_idle_shows_target.

(* and the task does end: a step at or after (target time - max fade) commands the target *)
Theorem fade_task_finishes :
  forall maxf interval now k, tt1 k - maxf <= now ->
    task_step maxf interval now k = (None, (b1 k * SC, Z.max (tt1 k - now) 0)).
Proof. exact task_finishes_l. Qed.
Print Assumptions fade_task_finishes.

(* the code as found: an instant colour during a software fade leaves the old task running; at
   rest the hardware shows the old target (255) although the last command asked for 77 *)
Theorem stale_fade_task_refuted :
  exists evs, fold_left (cstep_orig 0 125) evs (None, None, None) = (None, Some (255 * SC), Some 77).
Proof. exact stale_fade_task_refuted_l. Qed.
Print Assumptions stale_fade_task_refuted.

(* brightness correction (gamma_correct, factor f4/4 from the "brightness" machine variable):
   full brightness is the identity *)
Theorem brightness_full_is_identity : forall c, gam 4 c = c.
Proof. exact gam_full. Qed.
Print Assumptions brightness_full_is_identity.

(* correction is monotone: a corrected fade stays between its corrected endpoints *)
Theorem corrected_fade_between_endpoints :
  forall f4 a x b, 0 <= f4 -> between a x b -> between (gam f4 a) (gam f4 x) (gam f4 b).
Proof. exact gam_between_l. Qed.
Print Assumptions corrected_fade_between_endpoints.

(* and never brighter than the logical colour *)
Theorem corrected_not_brighter :
  forall f4 r g b, 0 <= f4 <= 4 -> 0 <= r -> 0 <= g -> 0 <= b ->
    let '(r', g', b') := gam f4 (r, g, b) in 0 <= r' <= r /\ 0 <= g' <= g /\ 0 <= b' <= b.
Proof. exact gam_bounded_l. Qed.
Print Assumptions corrected_not_brighter.

(* at rest, the corrected target of the last command is the corrected logical colour — for the
   factor that was in effect when that command was sent (run_ops applies [corr_T] to every
   command).  hw_equals_logical_at_rest_partial: the full statement "for the CURRENT factor" is
   false of the code: a brightness change is not propagated to lights that do not change colour
   (known finding brightness-change-not-propagated, reproduced by the check). *)
Theorem hw_corrected_at_rest_partial :
  forall h now f4, timed_ok 0 h -> last_time 0 h <= now ->
    let l := lrun linit h in
    rest (stack l) now = true ->
    gam f4 (hw_target l) = gam f4 (col (stack l) now).
Proof. exact hw_corrected_at_rest_l. Qed.
Print Assumptions hw_corrected_at_rest_partial.

(* ------------------------------------------------------------------------------------------ *)
(* complete runs: stack, delays, _schedule_update, correction, channel mapping, fade channel /
   VirtualLight composed.

   FULL STATEMENT (false of the code, known finding brightness-change-not-propagated): for every
   run, whenever no fade is in progress every hardware channel shows the logical colour corrected
   with the CURRENT brightness factor.
   Proved: the same with the factor that was in effect when the light's last command was sent
   ([cfac]), for every kind of light (RGB, white, RGBW duck_rgb / white_only / min_rgb, colour
   profile, software fade, direct fade), every history of ticks (commands at any instants relative
   to running fades, delays firing at their own instants), every lookup table. *)
Theorem run_hw_equals_logical_at_rest_partial :
  forall kind tab tks, ticks_ok 0 tks ->
    let s := run_state kind tab sinit tks in
    let now := end_time 0 tks in
    rest (stack (ls s)) now = true -> ch s = None ->
    match lcmd s with
    | Some _ => hw_now kind s now =
                scaled (chan_map kind (corr (cfac s) (kind_tab kind tab) (col (stack (ls s)) now)))
    | None => col (stack (ls s)) now = off /\ hw_now kind s now = map (fun _ => 0) (chan_map kind off)
    end.
Proof. exact hw_equals_logical_run_l. Qed.
Print Assumptions run_hw_equals_logical_at_rest_partial.

(* and the full statement when the brightness factor does not change during the run *)
Theorem run_hw_equals_logical_at_rest_constant_brightness :
  forall kind tab tks f, ticks_ok 0 tks -> facs_all f tks ->
    let s := run_state kind tab sinit tks in
    let now := end_time 0 tks in
    rest (stack (ls s)) now = true -> ch s = None -> lcmd s <> None ->
    hw_now kind s now = scaled (chan_map kind (corr f (kind_tab kind tab) (col (stack (ls s)) now))).
Proof. exact hw_equals_logical_run_const_l. Qed.
Print Assumptions run_hw_equals_logical_at_rest_constant_brightness.

(* the invariant behind it holds after every tick of every run *)
Theorem run_invariant :
  forall kind tab tks s now0, J kind tab s now0 -> 0 <= now0 -> ticks_ok now0 tks ->
    J kind tab (run_state kind tab s tks) (end_time now0 tks) /\ 0 <= end_time now0 tks.
Proof. exact run_state_J. Qed.
Print Assumptions run_invariant.

(* RGB / RGBW channel mappings (all three styles) lose nothing *)
Theorem rgbw_channels_reconstruct_colour :
  forall kind c, kind = 0 \/ kind = 2 \/ kind = 6 \/ kind = 7 \/ kind = 8 -> recon kind (chan_map kind c) = c.
Proof. exact recon_chan_map_l. Qed.
Print Assumptions rgbw_channels_reconstruct_colour.

(* get_color() is _get_color_and_fade with max_fade_ms = 0 *)
Theorem get_color_is_color_and_fade_zero : forall st now, fst (fst (cfade st 0 now)) = col st now.
Proof. exact cfade_zero_is_col_l. Qed.
Print Assumptions get_color_is_color_and_fade_zero.

(* _get_color_and_fade(stack, max_fade_ms) on a running opaque fade: the colour returned is the logical
   colour at the end of the returned fade time, which never exceeds max_fade_ms; done = the entry's
   own colour.
   color_and_fade_future_partial: for a fade-OUT above a longer fade the code returns the lower
   fade's final colour with the fade-out's remaining time ("might be slightly inaccurate" in the
   source); not claimed. *)
Theorem color_and_fade_future_partial :
  forall e r c m now, c1 e = Some c -> t1 e <> 0 -> now < t1 e -> t0 e < t1 e -> 0 <= m ->
    let '(cl, f, d) := cfade (e :: r) m now in
    0 <= f <= m /\ cl = col (e :: r) (now + f) /\ (d = true -> cl = c).
Proof. exact cfade_opaque_l. Qed.
Print Assumptions color_and_fade_future_partial.

(* ------------------------------------------------------------------------------------------ *)
(* the batch light system (with the fix), for every history of set_fade calls, scheduler iterations,
   sender wake-ups and callback returns in any interleaving, any max_fade_ms / poll time / batch size *)

(* at rest (nothing dirty, nothing scheduled, the sender not inside a callback) the last brightness
   handed to the callback for every light is the target of its last set_fade *)
Theorem batch_hw_equals_target_at_rest :
  forall c h, fixedc c = true ->
    let S := brun c binit h in
    brest S -> forall i, hw S i = qz (f_tb (fades S i)).
Proof. exact batch_hw_at_rest_l. Qed.
Print Assumptions batch_hw_equals_target_at_rest.

(* no update is ever lost: at every moment every light is dirty, scheduled, in the hands of the sender,
   or the hardware has its target - also when it is marked dirty while a batch is being sent *)
Theorem batch_no_update_lost :
  forall c h i, fixedc c = true -> accounted (brun c binit h) i.
Proof. exact batch_no_update_lost_l. Qed.
Print Assumptions batch_no_update_lost.

(* and the sender's wake-up is not lost: dirty lights imply the event is set *)
Theorem batch_dirty_wakes_sender :
  forall c h, fixedc c = true -> let S := brun c binit h in dirty S <> [] -> dev S = true.
Proof. exact batch_dirty_wakes_sender_l. Qed.
Print Assumptions batch_dirty_wakes_sender.

(* nor the scheduler's: an entry of the schedule that is due makes the scheduler task runnable (its event is
   set or its timeout is over) - a fade in max_fade_ms steps cannot get stuck *)
Theorem batch_due_entry_wakes_scheduler :
  forall c h e now, let S := brun c binit h in In e (sched S) -> fst e <= now -> sched_enabled S now = true.
Proof. exact batch_due_entry_wakes_scheduler_l. Qed.
Print Assumptions batch_due_entry_wakes_scheduler.

(* a light whose brightness the hardware already has is not sent again *)
Theorem batch_unchanged_light_not_resent :
  forall c S ct i b t, blast S i = Some b -> fst b <> 0 -> lstat S i = Some (b, t) -> t < ct ->
    pgroup c S ct [] None [i] = (S, GDone).
Proof. exact unchanged_light_not_resent_l. Qed.
Print Assumptions batch_unchanged_light_not_resent.

(* the code as found: a light that gets a new colour while the callback is awaited is never sent *)
Theorem batch_update_lost_refuted :
  exists h, let S := brun c_orig binit h in brest S /\ hw S 4 = qz 0 /\ f_tb (fades S 4) = 178.
Proof. exact batch_update_lost_refuted_l. Qed.
Print Assumptions batch_update_lost_refuted.
