(* C09/Compose.v — the layers composed: for complete runs of the tick machine (stack operations,
   delays, _schedule_update with its shortcuts, brightness / colour correction, channel mapping,
   software / direct fade channel, VirtualLight) the hardware shows the corrected logical colour
   whenever no fade is in progress.  Also: _get_color_and_fade for any max_fade_ms. *)
From Common Require Import Prelude.
From C09 Require Import Model Lemmas.
Open Scope Z_scope.

(* ------------------------------------------------------------------------------------------ *)
(* 1. every operation sends at most one command, and it is the new _last_fade_target *)

Lemma lstep_sent l now o :
  (snd (lstep l now o) = [] /\ last (fst (lstep l now o)) = last l) \/
  (exists T, snd (lstep l now o) = [T] /\ last (fst (lstep l now o)) = Some T).
Proof.
  assert (SU : forall l', last l' = last l ->
            (snd (schedule_update l' now) = [] /\ last (fst (schedule_update l' now)) = last l) \/
            (exists T, snd (schedule_update l' now) = [T] /\ last (fst (schedule_update l' now)) = Some T)).
  { intros l' E. rewrite <- E. apply schedule_update_sent. }
  unfold lstep, lstep_gen. destruct o.
  - unfold do_color. destruct (color_changes (stack l) p); [apply SU; reflexivity|left; cbn; auto].
  - unfold do_remove. destruct (scan_key k (stack l) true) as [[[sub p] cc]|]; [|left; auto].
    set (l' := if _ =? 0 then _ else _).
    assert (E : last l' = last l) by (unfold l'; destruct (_ =? 0); reflexivity).
    destruct cc; [apply SU; exact E|left; cbn; auto].
  - unfold do_clear. apply SU. reflexivity.
  - unfold do_fire. destruct (scan_fadeout k (stack l) true) as [cc|]; [|left; cbn; auto].
    destruct cc; [apply SU; reflexivity|left; cbn; auto].
Qed.

Definition lF (now : Z) := fun (acc : lstate * list tgtT) o =>
  let '(l1, c1) := lstep (fst acc) now o in (l1, snd acc ++ c1).

Lemma lfold_gen now ops : forall l cs,
  exists new, snd (fold_left (lF now) ops (l, cs)) = cs ++ new /\
    ((new = [] /\ last (fst (fold_left (lF now) ops (l, cs))) = last l) \/
     (exists pre T, new = pre ++ [T] /\ last (fst (fold_left (lF now) ops (l, cs))) = Some T)).
Proof.
  induction ops as [|o r IH]; intros l cs; cbn [fold_left].
  - exists []. rewrite app_nil_r. split; [reflexivity|left; auto].
  - destruct (lstep l now o) as [l1 c1] eqn:E.
    assert (U : lF now (l, cs) o = (l1, cs ++ c1)) by (unfold lF; cbn [fst snd]; rewrite E; reflexivity).
    rewrite U.
    destruct (IH l1 (cs ++ c1)) as [new [A B]]. exists (c1 ++ new). rewrite A, app_assoc. split; [reflexivity|].
    pose proof (lstep_sent l now o) as S. rewrite E in S. cbn [fst snd] in S.
    destruct B as [[B1 B2]|[pre [T [B1 B2]]]].
    + subst new. rewrite app_nil_r. destruct S as [[S1 S2]|[T [S1 S2]]].
      * left. split; [exact S1|congruence].
      * right. exists [], T. split; [exact S1|congruence].
    + right. exists (c1 ++ pre), T. subst new. rewrite app_assoc. auto.
Qed.

Lemma lfold_sent now l ops :
  (snd (lfold now l ops) = [] /\ last (fst (lfold now l ops)) = last l) \/
  (exists pre T, snd (lfold now l ops) = pre ++ [T] /\ last (fst (lfold now l ops)) = Some T).
Proof.
  unfold lfold. destruct (lfold_gen now ops l []) as [new [A B]]. fold (lF now). rewrite A. cbn [app].
  destruct B as [[B1 B2]|[pre [T [B1 B2]]]]; [left; subst; auto|right; eauto].
Qed.

Lemma lfold_inv now ops : forall l cs now0,
  Inv l now0 -> now0 <= now -> 0 <= now -> Inv (fst (fold_left (lF now) ops (l, cs))) now.
Proof.
  induction ops as [|o r IH]; intros l cs now0 I H1 H2; cbn [fold_left].
  - cbn. destruct I as (S & A & B). repeat split; auto. destruct B; [left; lia|right; auto].
  - destruct (lstep l now o) as [l1 c1] eqn:E.
    assert (U : lF now (l, cs) o = (l1, cs ++ c1)) by (unfold lF; cbn [fst snd]; rewrite E; reflexivity).
    rewrite U.
    apply (IH l1 (cs ++ c1) now); [|lia|exact H2].
    replace l1 with (fst (lstep l now o)) by (rewrite E; reflexivity).
    unfold lstep. eapply step_inv; eauto.
Qed.

(* ------------------------------------------------------------------------------------------ *)
(* 2. the fade channel follows the last command *)

Lemma last_opt_app {A} (o : option A) a b : last_opt o (a ++ b) = last_opt (last_opt o a) b.
Proof. unfold last_opt. apply fold_left_app. Qed.

Lemma last_opt_snoc {A} (o : option A) a x : last_opt o (a ++ [x]) = Some x.
Proof. rewrite last_opt_app. reflexivity. Qed.

Definition tgt_b (T : tgtT) : Z := min3 (tg_c1 T).

Definition cF (kind now : Z) := fun (acc : chan * list hwcmd) (T : tgtT) =>
  let '(c', out) := chan_set_fade (kind_maxf kind) now (fst acc)
                      (min3 (tg_c0 T)) (tg_t0 T) (min3 (tg_c1 T)) (tg_t1 T) in
  (c', snd acc ++ out).

(* after feeding pre ++ [T]: a task heading for T's target, or the target was commanded last *)
Lemma feed_last kind now pre T c hs :
  let r := fold_left (cF kind now) (pre ++ [T]) (c, hs) in
  (exists k, fst r = Some k /\ b1 k = tgt_b T) \/
  (fst r = None /\ exists h f, snd r = h ++ [(tgt_b T * SC, f)]).
Proof.
  cbn zeta. rewrite fold_left_app. cbn [fold_left].
  destruct (fold_left (cF kind now) pre (c, hs)) as [c0 h0]. unfold cF. cbn [fst snd].
  unfold chan_set_fade. destruct (_ >? kind_maxf kind); cbn [fst snd].
  - left. eexists. split; [reflexivity|reflexivity].
  - right. split; [reflexivity|]. eauto.
Qed.

Lemma chan_run_spec maxf interval now c c' out :
  chan_run maxf interval now c = (c', out) ->
  (c' = c /\ out = []) \/
  (exists k, c = Some k /\
     ((exists k' v, c' = Some k' /\ b1 k' = b1 k /\ out = [v]) \/
      (c' = None /\ exists f, out = [(b1 k * SC, f)]))).
Proof.
  unfold chan_run. destruct c as [k|]; [|intro H; inversion H; auto].
  destruct (wake k <=? now); [|intro H; inversion H; auto].
  unfold task_step. destruct (_ >? maxf); intro H; inversion H; subst; right; exists k; split; auto.
  - left. eexists. eexists. repeat split; reflexivity.
  - right. split; [reflexivity|]. eauto.
Qed.

(* ------------------------------------------------------------------------------------------ *)
(* 3. invariant of complete runs *)

Definition chan_ok (kind : Z) (s : state) : Prop :=
  kind_has_chan kind = true ->
  match ch s with
  | Some k => exists T, lcmd s = Some T /\ b1 k = tgt_b T
  | None => hwb s = option_map (fun T => tgt_b T * SC) (lcmd s)
  end.

Definition J (kind : Z) (tab : list (list Z)) (s : state) (now : Z) : Prop :=
  Inv (ls s) now /\
  lcmd s = option_map (corr_T (cfac s) (kind_tab kind tab)) (last (ls s)) /\
  chan_ok kind s.

Lemma J_init kind tab : J kind tab sinit 0.
Proof.
  unfold J, sinit. cbn. split; [exact Inv_init|]. split; [reflexivity|].
  unfold chan_ok. cbn. reflexivity.
Qed.

Lemma run_ops_J kind tab now f4 s ops now0 :
  J kind tab s now0 -> now0 <= now -> 0 <= now ->
  J kind tab (fst (fst (run_ops kind tab now f4 s ops))) now.
Proof.
  intros (I & LC & CO) H1 H2. unfold run_ops.
  pose proof (lfold_sent now (ls s) ops) as SENT.
  assert (IL : Inv (fst (lfold now (ls s) ops)) now) by (unfold lfold; fold (lF now); eapply lfold_inv; eauto).
  destruct (lfold now (ls s) ops) as [l' cmds0]. cbn [fst snd] in SENT, IL.
  set (cmds := map (corr_T f4 (kind_tab kind tab)) cmds0).
  destruct (kind_has_chan kind) eqn:HC.
  - (* a light with a fade channel *)
    destruct (feed_chan kind now (ch s) cmds) as [c1 h1] eqn:FE.
    destruct (chan_run (kind_maxf kind) (kind_interval kind) now c1) as [c2 h2] eqn:RU.
    cbn [fst snd]. unfold J. cbn [ls ch lcmd cfac hwb]. split; [exact IL|].
    apply chan_run_spec in RU.
    destruct SENT as [[S1 S2]|[pre [T [S1 S2]]]].
    + (* nothing sent *)
      subst cmds0. cbn in cmds. subst cmds. cbn [last_opt fold_left is_nil]. rewrite S2. split; [exact LC|].
      unfold feed_chan in FE. cbn in FE. inversion FE; subst c1 h1. cbn [app].
      unfold chan_ok. cbn [ch lcmd hwb]. intros _. specialize (CO HC).
      destruct RU as [[R1 R2]|[k [R1 RU]]].
      * subst c2 h2. cbn. exact CO.
      * rewrite R1 in CO. destruct CO as [T [E1 E2]]. destruct RU as [[k' [v [R2 [B R3]]]]|[R2 [f R3]]]; subst c2 h2.
        -- exists T. split; [exact E1|congruence].
        -- cbn. rewrite E1. cbn. rewrite E2. reflexivity.
    + (* the last command sent is T *)
      subst cmds0. unfold cmds. rewrite map_app. cbn [map]. rewrite last_opt_snoc.
      assert (NN : is_nil (pre ++ [T]) = false) by (destruct pre; reflexivity). rewrite NN.
      rewrite S2. cbn [option_map]. split; [reflexivity|].
      set (T' := corr_T f4 (kind_tab kind tab) T) in *.
      unfold feed_chan in FE. unfold cmds in FE. rewrite map_app in FE. cbn [map] in FE. fold T' in FE.
      pose proof (feed_last kind now (map (corr_T f4 (kind_tab kind tab)) pre) T' (ch s) []) as FL.
      cbn zeta in FL. unfold cF in FL. rewrite FE in FL. cbn [fst snd] in FL.
      unfold chan_ok. cbn [ch lcmd hwb]. intros _.
      destruct FL as [[k [F1 B]]|[F1 [h [f E]]]]; subst c1.
      * destruct RU as [[R1 R2]|[k0 [K0 RU]]].
        -- subst c2 h2. exists T'. auto.
        -- inversion K0; subst k0. destruct RU as [[k' [v [R2 [B' R3]]]]|[R2 [f R3]]]; subst c2 h2.
           ++ exists T'. split; [reflexivity|congruence].
           ++ rewrite map_app. cbn [map]. rewrite last_opt_snoc. cbn. rewrite B. reflexivity.
      * destruct RU as [[R1 R2]|[k0 [K0 _]]]; [|discriminate]. subst c2 h2.
        rewrite app_nil_r, E, map_app. cbn [map]. rewrite last_opt_snoc. reflexivity.
  - cbn [fst snd]. unfold J. cbn [ls ch lcmd cfac hwb]. split; [exact IL|].
    split; [|unfold chan_ok; congruence].
    destruct SENT as [[S1 S2]|[pre [T [S1 S2]]]].
    + subst cmds0. cbn. rewrite S2. exact LC.
    + subst cmds0. unfold cmds. rewrite map_app. cbn [map]. rewrite last_opt_snoc.
      assert (NN : is_nil (pre ++ [T]) = false) by (destruct pre; reflexivity). rewrite NN, S2. reflexivity.
Qed.

(* times of one tick: the instants at which delays fired, then the tick itself; non-decreasing *)
Fixpoint times_ok (t0 : Z) (ts : list Z) : Prop :=
  match ts with [] => True | t :: r => t0 <= t /\ times_ok t r end.
Definition tick_times (tk : tick) : list Z := map fst (fired tk) ++ [now_ tk].
Fixpoint ticks_ok (t0 : Z) (tks : list tick) : Prop :=
  match tks with [] => True | tk :: r => times_ok t0 (tick_times tk) /\ ticks_ok (now_ tk) r end.
Definition end_time (t0 : Z) (tks : list tick) : Z := List.last (map now_ tks) t0.

Definition fF (kind : Z) (tab : list (list Z)) (f4 : Z) :=
  fun (acc : state * list tgtT * list hwcmd) (g : Z * list Z) =>
    let '(s0, cm0, hw0) := acc in
    let '(s1, cm1, hw1) := run_ops kind tab (fst g) f4 s0 (map OFire (snd g)) in
    (s1, cm0 ++ cm1, hw0 ++ hw1).

Lemma run_fired_J kind tab f4 : forall fs s cm hw now0 now,
  J kind tab s now0 -> 0 <= now0 -> times_ok now0 (map fst fs ++ [now]) ->
  exists t, J kind tab (fst (fst (fold_left (fF kind tab f4) fs (s, cm, hw)))) t /\ 0 <= t <= now.
Proof.
  induction fs as [|g r IH]; intros s cm hw now0 now I H0 T; cbn [fold_left].
  - cbn in T. exists now0. cbn. split; [exact I|lia].
  - cbn [map app times_ok] in T. destruct T as [T1 T2].
    destruct (run_ops kind tab (fst g) f4 s (map OFire (snd g))) as [[s1 cm1] hw1] eqn:E.
    assert (U : fF kind tab f4 (s, cm, hw) g = (s1, cm ++ cm1, hw ++ hw1)) by (unfold fF; rewrite E; reflexivity).
    rewrite U.
    apply (IH s1 (cm ++ cm1) (hw ++ hw1) (fst g) now); [|lia|exact T2].
    replace s1 with (fst (fst (run_ops kind tab (fst g) f4 s (map OFire (snd g))))) by (rewrite E; reflexivity).
    eapply run_ops_J; eauto. lia.
Qed.

Lemma tick_step_J kind tab s tk now0 :
  J kind tab s now0 -> 0 <= now0 -> times_ok now0 (tick_times tk) ->
  J kind tab (fst (tick_step kind tab s tk)) (now_ tk) /\ 0 <= now_ tk.
Proof.
  intros I H0 T. unfold tick_step, run_fired. fold (fF kind tab (fac_ tk)).
  destruct (run_fired_J kind tab (fac_ tk) (fired tk) s [] [] now0 (now_ tk) I H0 T) as [t [I0 Ht]].
  destruct (fold_left (fF kind tab (fac_ tk)) (fired tk) (s, [], [])) as [[s0 cm0] hw0]. cbn [fst] in I0.
  pose proof (run_ops_J kind tab (now_ tk) (fac_ tk) s0 [] t I0 ltac:(lia) ltac:(lia)) as I1.
  destruct (run_ops kind tab (now_ tk) (fac_ tk) s0 []) as [[s1 cm1] hw1]. cbn [fst] in I1.
  pose proof (run_ops_J kind tab (now_ tk) (fac_ tk) s1 (ops_ tk) (now_ tk) I1 ltac:(lia) ltac:(lia)) as I2.
  destruct (run_ops kind tab (now_ tk) (fac_ tk) s1 (ops_ tk)) as [[s2 cm2] hw2]. cbn [fst] in I2.
  cbn [fst]. split; [exact I2|lia].
Qed.

Lemma run_state_J kind tab : forall tks s now0,
  J kind tab s now0 -> 0 <= now0 -> ticks_ok now0 tks ->
  J kind tab (run_state kind tab s tks) (end_time now0 tks) /\ 0 <= end_time now0 tks.
Proof.
  induction tks as [|tk r IH]; intros s now0 I H0 T.
  - cbn. auto.
  - cbn [ticks_ok] in T. destruct T as [T1 T2].
    destruct (tick_step_J kind tab s tk now0 I H0 T1) as [I1 H1].
    specialize (IH (fst (tick_step kind tab s tk)) (now_ tk) I1 H1 T2).
    unfold run_state in *. cbn [fold_left].
    replace (end_time now0 (tk :: r)) with (end_time (now_ tk) r); [exact IH|].
    unfold end_time. cbn [map]. destruct (map now_ r) eqn:E; [reflexivity|].
    cbn [List.last]. clear. generalize z. induction l as [|y l' IHl]; intro x; cbn; [reflexivity|apply IHl].
Qed.

(* ------------------------------------------------------------------------------------------ *)
(* 4. what the hardware shows *)

Lemma chan_map_len kind a b : length (chan_map kind a) = length (chan_map kind b).
Proof.
  destruct a as [[a1 a2] a3], b as [[b1 b2] b3]. unfold chan_map.
  repeat match goal with |- context [if ?x then _ else _] => destruct x end; reflexivity.
Qed.

Lemma map2_target (f : Z -> Z -> Z) (g : Z -> Z) : forall a b,
  length a = length b -> (forall x y, f x y = g y) -> map2 f a b = map g b.
Proof.
  induction a as [|x a IH]; destruct b as [|y b]; cbn; intros L H; try discriminate; [reflexivity|].
  rewrite H, IH; auto.
Qed.

Lemma vl_b_over sb st tb te now : te <= now -> vl_b sb st tb te now = tb * SC.
Proof. intro H. unfold vl_b. destruct (te >? now) eqn:E; [apply Z.gtb_lt in E; lia|reflexivity]. Qed.

Definition scaled (l : list Z) : list Z := map (fun x => x * SC) l.

Lemma hw_equals_logical_run_l : forall kind tab tks,
  ticks_ok 0 tks ->
  let s := run_state kind tab sinit tks in
  let now := end_time 0 tks in
  rest (stack (ls s)) now = true -> ch s = None ->
  match lcmd s with
  | Some _ => hw_now kind s now =
              scaled (chan_map kind (corr (cfac s) (kind_tab kind tab) (col (stack (ls s)) now)))
  | None => col (stack (ls s)) now = off /\ hw_now kind s now = map (fun _ => 0) (chan_map kind off)
  end.
Proof.
  intros kind tab tks T s now R CN.
  destruct (run_state_J kind tab tks sinit 0 (J_init kind tab) ltac:(lia) T) as [(I & LC & CO) Hn].
  fold s in I, LC, CO. fold now in I, Hn.
  destruct I as (S & A & B).
  destruct (rest_target _ _ R) as [C D].
  assert (HT : hw_target (ls s) = col (stack (ls s)) now) by congruence.
  assert (H1 : hw_t1 (ls s) <= now) by (destruct B; lia).
  unfold hw_target, hw_t1 in HT, H1.
  destruct (last (ls s)) as [L|] eqn:EL.
  - cbn [option_map] in LC. rewrite LC. unfold hw_now. rewrite LC.
    destruct (kind_has_chan kind) eqn:HC.
    + specialize (CO HC). rewrite CN, LC in CO. cbn [option_map] in CO. rewrite CO.
      unfold tgt_b, corr_T. cbn [tg_c1]. rewrite HT.
      assert (K : kind = 3 \/ kind = 4).
      { unfold kind_has_chan in HC. apply orb_true_iff in HC as [E|E]; apply Z.eqb_eq in E; auto. }
      destruct (corr (cfac s) (kind_tab kind tab) (col (stack (ls s)) now)) as [[r g] b].
      destruct K; subst kind; reflexivity.
    + unfold corr_T. cbn [tg_c0 tg_c1 tg_t0 tg_t1]. rewrite HT. unfold scaled.
      apply map2_target; [apply chan_map_len|].
      intros x y. apply vl_b_over. exact H1.
  - cbn [option_map] in LC. rewrite LC. split; [congruence|].
    unfold hw_now. rewrite LC. destruct (kind_has_chan kind) eqn:HC; [|reflexivity].
    specialize (CO HC). rewrite CN, LC in CO. cbn in CO. rewrite CO.
    assert (K : kind = 3 \/ kind = 4).
    { unfold kind_has_chan in HC. apply orb_true_iff in HC as [E|E]; apply Z.eqb_eq in E; auto. }
    destruct K; subst kind; reflexivity.
Qed.

(* the channel mapping of RGB / RGBW lights loses nothing: the colour can be read back from the channels *)
Definition recon (kind : Z) (l : list Z) : rgb :=
  match l with
  | [r; g; b] => (r, g, b)
  | [r; g; b; w] =>
      if kind =? 2 then (r + w, g + w, b + w)
      else if kind =? 7 then (if (r =? 0) && (g =? 0) && (b =? 0) then (w, w, w) else (r, g, b))
      else (r, g, b)
  | _ => off
  end.

Lemma recon_chan_map_l kind c :
  kind = 0 \/ kind = 2 \/ kind = 6 \/ kind = 7 \/ kind = 8 -> recon kind (chan_map kind c) = c.
Proof.
  destruct c as [[r g] b]. intros [K|[K|[K|[K|K]]]]; subst kind; cbn.
  - reflexivity.
  - f_equal; [f_equal|]; lia.
  - reflexivity.
  - destruct ((r =? g) && (g =? b)) eqn:E.
    + apply andb_true_iff in E as [E1 E2]. apply Z.eqb_eq in E1, E2. subst. cbn. reflexivity.
    + cbn. destruct ((r =? 0) && (g =? 0) && (b =? 0)) eqn:F; [|reflexivity].
      apply andb_true_iff in F as [F F3]. apply andb_true_iff in F as [F1 F2].
      apply Z.eqb_eq in F1, F2, F3. subst. cbn in E. discriminate.
  - reflexivity.
Qed.

Example ex_recon : chan_map 7 (9, 9, 9) = [0; 0; 0; 9] /\ chan_map 7 (9, 8, 9) = [9; 8; 9; 0] /\
  chan_map 8 (9, 8, 7) = [9; 8; 7; 7] /\ chan_map 2 (9, 8, 7) = [2; 1; 0; 7].
Proof. vm_compute. auto. Qed.

(* with a constant brightness factor the factor of the last command is that factor *)
Definition facs_all (f : Z) (tks : list tick) : Prop := Forall (fun tk => fac_ tk = f) tks.

Definition KF (f : Z) (s : state) : Prop := last (ls s) = None \/ cfac s = f.

Lemma run_ops_KF kind tab now f s ops : KF f s -> KF f (fst (fst (run_ops kind tab now f s ops))).
Proof.
  intro K. unfold run_ops.
  pose proof (lfold_sent now (ls s) ops) as SENT.
  destruct (lfold now (ls s) ops) as [l' cmds0]. cbn [fst snd] in SENT.
  destruct (if kind_has_chan kind then _ else _) as [c1 h1].
  destruct (if kind_has_chan kind then _ else _) as [c2 h2].
  cbn [fst]. unfold KF. cbn [ls cfac].
  destruct SENT as [[S1 S2]|[pre [T [S1 S2]]]].
  - subst cmds0. cbn. rewrite S2. exact K.
  - subst cmds0. assert (NN : is_nil (pre ++ [T]) = false) by (destruct pre; reflexivity). rewrite NN. auto.
Qed.

Lemma run_state_KF kind tab f : forall tks s, facs_all f tks -> KF f s -> KF f (run_state kind tab s tks).
Proof.
  induction tks as [|tk r IH]; intros s F K; [exact K|].
  inversion F as [|? ? F1 F2]; subst. unfold run_state in *. cbn [fold_left]. apply IH; [exact F2|].
  unfold tick_step, run_fired. fold (fF kind tab (fac_ tk)).
  assert (G : forall fs s0 cm hw, KF (fac_ tk) s0 ->
            KF (fac_ tk) (fst (fst (fold_left (fF kind tab (fac_ tk)) fs (s0, cm, hw))))).
  { induction fs as [|g fs IHf]; intros s0 cm hw K0; cbn [fold_left]; [exact K0|].
    destruct (run_ops kind tab (fst g) (fac_ tk) s0 (map OFire (snd g))) as [[s1 cm1] hw1] eqn:E.
    assert (U : fF kind tab (fac_ tk) (s0, cm, hw) g = (s1, cm ++ cm1, hw ++ hw1)) by (unfold fF; rewrite E; reflexivity).
    rewrite U.
    apply IHf. replace s1 with (fst (fst (run_ops kind tab (fst g) (fac_ tk) s0 (map OFire (snd g)))))
      by (rewrite E; reflexivity). apply run_ops_KF. exact K0. }
  specialize (G (fired tk) s [] [] K).
  destruct (fold_left (fF kind tab (fac_ tk)) (fired tk) (s, [], [])) as [[s0 cm0] hw0]. cbn [fst] in G.
  pose proof (run_ops_KF kind tab (now_ tk) (fac_ tk) s0 [] G) as G1.
  destruct (run_ops kind tab (now_ tk) (fac_ tk) s0 []) as [[s1 cm1] hw1]. cbn [fst] in G1.
  pose proof (run_ops_KF kind tab (now_ tk) (fac_ tk) s1 (ops_ tk) G1) as G2.
  destruct (run_ops kind tab (now_ tk) (fac_ tk) s1 (ops_ tk)) as [[s2 cm2] hw2]. cbn [fst] in G2.
  exact G2.
Qed.

Lemma hw_equals_logical_run_const_l : forall kind tab tks f,
  ticks_ok 0 tks -> facs_all f tks ->
  let s := run_state kind tab sinit tks in
  let now := end_time 0 tks in
  rest (stack (ls s)) now = true -> ch s = None -> lcmd s <> None ->
  hw_now kind s now = scaled (chan_map kind (corr f (kind_tab kind tab) (col (stack (ls s)) now))).
Proof.
  intros kind tab tks f T F s now R CN NE.
  pose proof (hw_equals_logical_run_l kind tab tks T R CN) as H. fold s now in H.
  destruct (run_state_J kind tab tks sinit 0 (J_init kind tab) ltac:(lia) T) as [(_ & LC & _) _]. fold s in LC.
  assert (K : KF f s) by (apply run_state_KF; [exact F|left; reflexivity]).
  destruct (lcmd s) eqn:E; [|congruence].
  destruct K as [K|K]; [rewrite K in LC; cbn in LC; discriminate|].
  rewrite <- K. exact H.
Qed.

(* ------------------------------------------------------------------------------------------ *)
(* 5. _get_color_and_fade with max_fade_ms *)

Lemma cfade_zero : forall st now,
  fst (fst (cfade st 0 now)) = col st now /\ snd (fst (cfade st 0 now)) <= 0.
Proof.
  induction st as [|e r IH]; intro now; cbn [cfade col]; [cbn; split; [reflexivity|lia]|].
  destruct ((t1 e =? 0) || (t1 e <=? now)) eqn:D.
  - destruct (c1 e); [cbn; split; [reflexivity|lia]|apply IH].
  - apply orb_false_iff in D as [D1 D2]. apply Z.leb_gt in D2.
    assert (G : forall dest, (let target := now + 0 in
                if target >? t1 e then (dest, t1 e - now, true)
                else if target <=? t0 e then (start_of e, 0, false)
                else (blend (start_of e) dest (target - t0 e) (t1 e - t0 e), 0, false)) =
               (if now <=? t0 e then start_of e else blend (start_of e) dest (now - t0 e) (t1 e - t0 e), 0, false)).
    { intro dest. cbn zeta. rewrite Z.add_0_r.
      destruct (now >? t1 e) eqn:E; [apply Z.gtb_lt in E; lia|].
      destruct (now <=? t0 e); reflexivity. }
    destruct (c1 e) as [c|].
    + rewrite G. cbn. split; [destruct (now <=? t0 e); reflexivity|lia].
    + destruct (IH now) as [IH1 IH2].
      destruct (cfade r 0 now) as [[dc lf] dd]. cbn [fst snd] in IH1, IH2.
      assert (LF : (lf >? 0) = false) by (rewrite Z.gtb_ltb; apply Z.ltb_ge; lia). rewrite LF.
      rewrite G. cbn. subst dc. split; [destruct (now <=? t0 e); reflexivity|lia].
Qed.

Lemma cfade_zero_is_col_l : forall st now, fst (fst (cfade st 0 now)) = col st now.
Proof. intros. apply cfade_zero. Qed.

(* an opaque entry on top whose fade is running: the colour returned is the logical colour at the end
   of the returned fade, the fade is never longer than max_fade_ms, and "done" means the entry's own
   colour has been reached by then *)
Lemma cfade_opaque_l : forall e r c m now,
  c1 e = Some c -> t1 e <> 0 -> now < t1 e -> t0 e < t1 e -> 0 <= m ->
  let '(cl, f, d) := cfade (e :: r) m now in
  0 <= f <= m /\ cl = col (e :: r) (now + f) /\ (d = true -> cl = c).
Proof.
  intros e r c m now C N0 Hn Ht Hm. cbn [cfade col]. rewrite C.
  apply Z.eqb_neq in N0. rewrite N0.
  destruct (t1 e <=? now) eqn:E; [apply Z.leb_le in E; lia|]. cbn [orb].
  destruct (now + m >? t1 e) eqn:E1.
  - apply Z.gtb_lt in E1. replace (now + (t1 e - now)) with (t1 e) by lia.
    rewrite Z.leb_refl. cbn [orb]. split; [lia|]. split; [reflexivity|]. intros _. reflexivity.
  - rewrite Z.gtb_ltb in E1. apply Z.ltb_ge in E1.
    destruct (now + m <=? t0 e) eqn:E2.
    + destruct (t1 e <=? now + m) eqn:E3; [apply Z.leb_le in E3, E2; lia|]. cbn [orb].
      split; [lia|]. split; [rewrite E2; reflexivity|]. intro X; discriminate X.
    + apply Z.leb_gt in E2.
      destruct (t1 e <=? now + m) eqn:E3.
      * apply Z.leb_le in E3. assert (EQ : now + m = t1 e) by lia. cbn [orb].
        split; [lia|]. split; [|intro X; discriminate X].
        rewrite EQ.
        destruct (start_of e) as [[s1 s2] s3], c as [[d1 d2] d3]. unfold blend, blend1.
        rewrite !Z.quot_mul by lia. f_equal; [f_equal|]; lia.
      * cbn [orb]. split; [lia|]. split; [|intro X; discriminate X].
        destruct (now + m <=? t0 e) eqn:E4; [apply Z.leb_le in E4; lia|reflexivity].
Qed.

Example ex_cfade :
  cfade ex_fading 250 1125 = ((64, 191, 10), 250, false) /\ cfade ex_fading 250 1375 = ((0, 255, 10), 125, true) /\
  cfade ex_fading 0 1125 = ((192, 63, 10), 0, false).
Proof. vm_compute. auto. Qed.

(* a complete run: white below, a dim colour faded over it and removed again with a fade, brightness 3/4 *)
Definition ex_ticks : list tick :=
  [mkTick 1000 3 [] [OColor (255, 255, 255) 0 1 2] [];
   mkTick 1125 3 [] [OColor (77, 80, 90) 250 5 1] [];
   mkTick 1250 3 [] [] [];
   mkTick 1375 3 [] [ORemove 1 250] [];
   mkTick 1500 3 [] [] [];
   mkTick 1625 3 [(1625, [1])] [] []].

(* on a DriverLight (software fade) *)
Example ex_run :
  ticks_ok 0 ex_ticks /\ facs_all 3 ex_ticks /\
  let s := run_state 3 [] sinit ex_ticks in
  rest (stack (ls s)) 1625 = true /\ ch s = None /\ col (stack (ls s)) 1625 = (255, 255, 255) /\
  hw_now 3 s 1625 = scaled [191] /\ lcmd s <> None /\
  ch (run_state 3 [] sinit (firstn 2 ex_ticks)) <> None.
Proof. vm_compute. repeat split; try lia; try congruence; repeat constructor. Qed.

(* on an RGBW light, white_only *)
Example ex_run_rgbw :
  hw_now 7 (run_state 7 [] sinit ex_ticks) 1625 = scaled [0; 0; 0; 191] /\
  hw_now 7 (run_state 7 [] sinit (firstn 3 ex_ticks)) 1250 <> scaled [0; 0; 0; 191].
Proof. vm_compute. split; congruence. Qed.
