From Common Require Import Prelude.
From C09 Require Import Model Lemmas.
