(* C09/Lemmas.v — proofs about the model of the light stack and the fade channel. *)
From Common Require Import Prelude.
From C09 Require Import Model.
Open Scope Z_scope.

(* ------------------------------------------------------------------------------------------ *)
(* 1. logical colour = first opaque entry when no fade is running *)

Definition settled (st : list entry) (now : Z) : bool :=
  forallb (fun e => (t1 e =? 0) || (t1 e <=? now)) st.

Fixpoint top_color (st : list entry) : rgb :=
  match st with
  | [] => off
  | e :: r => match c1 e with Some c => c | None => top_color r end
  end.

Lemma logical_color_is_top_l : forall st now, settled st now = true -> col st now = top_color st.
Proof.
  induction st as [|e r IH]; intros now H; cbn in *; [reflexivity|].
  apply andb_true_iff in H as [H1 H2]. rewrite H1.
  destruct (c1 e); [reflexivity|]. apply IH; exact H2.
Qed.

(* strict descending order of the stack by (priority, key) *)
Fixpoint sortedb (st : list entry) : bool :=
  match st with
  | [] => true
  | x :: r => forallb (fun y => egt x y) r && sortedb r
  end.

Definition nokey (k : Z) (st : list entry) : bool := forallb (fun e => negb (key e =? k)) st.

Lemma egt_trans a b c : egt a b = true -> egt b c = true -> egt a c = true.
Proof.
  unfold egt. intros H1 H2.
  apply orb_true_iff in H1. apply orb_true_iff in H2. apply orb_true_iff.
  destruct H1 as [H1|H1], H2 as [H2|H2];
    repeat match goal with
           | H : (_ && _) = true |- _ => apply andb_true_iff in H as [? ?]
           | H : (_ >? _) = true |- _ => apply Z.gtb_lt in H
           | H : (_ =? _) = true |- _ => apply Z.eqb_eq in H
           end.
  - left. apply Z.gtb_lt. lia.
  - left. apply Z.gtb_lt. lia.
  - left. apply Z.gtb_lt. lia.
  - right. apply andb_true_iff. split; [apply Z.eqb_eq | apply Z.gtb_lt]; lia.
Qed.

Lemma egt_total a b : key a <> key b -> egt a b = false -> egt b a = true.
Proof.
  unfold egt. intros N H. apply orb_false_iff in H as [H1 H2].
  apply Z.gtb_ltb in H1 || idtac.
  destruct (prio b >? prio a) eqn:E1; [reflexivity|]. cbn.
  rewrite Z.gtb_ltb in H1, E1. apply Z.ltb_ge in H1, E1.
  assert (P : prio a = prio b) by lia.
  rewrite P, Z.eqb_refl in H2. cbn in H2. rewrite P, Z.eqb_refl. cbn.
  rewrite Z.gtb_ltb in *. apply Z.ltb_ge in H2. apply Z.ltb_lt. lia.
Qed.

Lemma forallb_insert (P : entry -> bool) e st :
  forallb P (insert e st) = P e && forallb P st.
Proof.
  induction st as [|x r IH]; cbn; [reflexivity|].
  destruct (egt x e); cbn; [rewrite IH|]; destruct (P e), (P x); cbn; reflexivity.
Qed.

Lemma sorted_insert e st :
  sortedb st = true -> nokey (key e) st = true -> sortedb (insert e st) = true.
Proof.
  induction st as [|x r IH]; intros S N; cbn in *; [reflexivity|].
  apply andb_true_iff in S as [S1 S2]. apply andb_true_iff in N as [N1 N2].
  destruct (egt x e) eqn:E; cbn.
  - rewrite forallb_insert, E, S1, IH; auto.
  - apply negb_true_iff, Z.eqb_neq in N1.
    assert (G : egt e x = true) by (apply egt_total; auto).
    rewrite G, S1, S2. cbn. rewrite andb_true_r.
    apply forallb_forall. intros y Hy. rewrite forallb_forall in S1.
    eapply egt_trans; [exact G | apply S1; exact Hy].
Qed.

Lemma forallb_filter (P Q : entry -> bool) st :
  forallb P st = true -> forallb P (filter Q st) = true.
Proof.
  induction st as [|x r IH]; cbn; intro H; [reflexivity|].
  apply andb_true_iff in H as [H1 H2]. destruct (Q x); cbn; [rewrite H1|]; auto.
Qed.

Lemma sorted_filter Q st : sortedb st = true -> sortedb (filter Q st) = true.
Proof.
  induction st as [|x r IH]; cbn; intro H; [reflexivity|].
  apply andb_true_iff in H as [H1 H2]. destruct (Q x); cbn; auto.
  rewrite forallb_filter, IH; auto.
Qed.

Lemma nokey_remove_key k st : nokey k (remove_key k st) = true.
Proof.
  unfold remove_key. induction st as [|x r IH]; cbn; [reflexivity|].
  destruct (negb (key x =? k)) eqn:E; cbn; [rewrite E|]; auto.
Qed.

Lemma remove_key_nokey k st : nokey k st = true -> remove_key k st = st.
Proof.
  unfold remove_key. induction st as [|x r IH]; cbn; intro H; [reflexivity|].
  apply andb_true_iff in H as [H1 H2]. rewrite H1, IH; auto.
Qed.

(* ------------------------------------------------------------------------------------------ *)
(* 2. interpolation stays between the endpoints *)

Lemma quot_between d num den :
  0 <= num <= den -> 0 < den ->
  (0 <= d -> 0 <= Z.quot (d * num) den <= d) /\ (d <= 0 -> d <= Z.quot (d * num) den <= 0).
Proof.
  intros Hn Hd.
  assert (P : forall x, 0 <= x -> 0 <= Z.quot (x * num) den <= x).
  { intros x Hx. rewrite Z.quot_div_nonneg by nia. split.
    - apply Z.div_pos; nia.
    - apply Z.div_le_upper_bound; nia. }
  split; intro H.
  - apply P; exact H.
  - replace (d * num) with (- ((- d) * num)) by ring.
    rewrite Z.quot_opp_l by lia.
    specialize (P (- d) ltac:(lia)). lia.
Qed.

Lemma blend1_between s e num den :
  0 <= num <= den -> 0 < den ->
  Z.min s e <= blend1 s e num den <= Z.max s e.
Proof.
  intros Hn Hd. unfold blend1.
  destruct (quot_between (e - s) num den Hn Hd) as [A B].
  destruct (Z_le_gt_dec s e) as [L|G].
  - specialize (A ltac:(lia)). lia.
  - specialize (B ltac:(lia)). lia.
Qed.

Definition between (a x b : rgb) : Prop :=
  let '(a1, a2, a3) := a in let '(x1, x2, x3) := x in let '(b1, b2, b3) := b in
  (Z.min a1 b1 <= x1 <= Z.max a1 b1) /\ (Z.min a2 b2 <= x2 <= Z.max a2 b2) /\
  (Z.min a3 b3 <= x3 <= Z.max a3 b3).

Lemma blend_between a b num den :
  0 <= num <= den -> 0 < den -> between a (blend a b num den) b.
Proof.
  intros Hn Hd. destruct a as [[a1 a2] a3], b as [[b1 b2] b3]. cbn.
  repeat split; apply blend1_between; auto.
Qed.

Lemma between_start a b : between a a b.
Proof. destruct a as [[a1 a2] a3], b as [[b1 b2] b3]. cbn. lia. Qed.

(* the colour the top entry fades to: its own, or (fade-out) the colour beneath *)
Definition dest_of (e : entry) (r : list entry) (now : Z) : rgb :=
  match c1 e with Some c => c | None => col r now end.

Lemma fade_between_endpoints_l : forall e r now,
  t1 e <> 0 -> t0 e < t1 e ->
  (now < t1 e -> between (start_of e) (col (e :: r) now) (dest_of e r now)) /\
  (t1 e <= now -> col (e :: r) now = dest_of e r now).
Proof.
  intros e r now H0 Hlt. split; intro H; cbn [col]; unfold dest_of.
  - apply Z.eqb_neq in H0. rewrite H0. cbn.
    destruct (t1 e <=? now) eqn:E; [apply Z.leb_le in E; lia|].
    destruct (now <=? t0 e) eqn:E2.
    + apply between_start.
    + apply Z.leb_gt in E2. apply blend_between; lia.
  - apply Z.leb_le in H. rewrite H, orb_true_r. reflexivity.
Qed.

(* ------------------------------------------------------------------------------------------ *)
(* 3. removing a key restores the stack (hence the colour) beneath it *)

Lemma remove_insert k e st :
  key e = k -> nokey k st = true -> remove_key k (insert e st) = st.
Proof.
  intros K N. induction st as [|x r IH]; cbn in *.
  - rewrite K, Z.eqb_refl. reflexivity.
  - apply andb_true_iff in N as [N1 N2].
    destruct (egt x e); cbn.
    + rewrite N1. f_equal. apply IH; exact N2.
    + rewrite K, Z.eqb_refl. cbn. rewrite N1. f_equal. apply remove_key_nokey; exact N2.
Qed.

Lemma add_then_remove_l : forall bel st c fade p k now,
  nokey k st = true -> remove_key k (add_gen bel st c fade p k now) = st.
Proof.
  intros. unfold add_gen.
  destruct (negb (is_nil st) && (p <? prio_of_key st k)).
  - apply remove_key_nokey; assumption.
  - rewrite (remove_key_nokey k st) by assumption.
    apply remove_insert; [destruct (fade =? 0); reflexivity | assumption].
Qed.

Lemma scan_key_head k e r cc : key e = k -> scan_key k (e :: r) cc = Some (e :: r, prio e, cc).
Proof. intro K. cbn. rewrite K, Z.eqb_refl. reflexivity. Qed.

Lemma stack_schedule_update l now : stack (fst (schedule_update l now)) = stack l.
Proof.
  unfold schedule_update. destruct (last l); [|reflexivity].
  destruct (tgt_eqb _ _); [reflexivity|]. destruct (_ && _); reflexivity.
Qed.

Lemma remove_top_instant_l : forall l e r k now,
  stack l = e :: r -> key e = k -> nokey k r = true ->
  stack (fst (do_remove l k 0 now)) = r.
Proof.
  intros l e r k now S K N. unfold do_remove. rewrite S, (scan_key_head k e r true K).
  assert (F : remove_key k (e :: r) = r).
  { cbn. rewrite K, Z.eqb_refl. cbn. apply remove_key_nokey; exact N. }
  destruct (head_transparent (e :: r)); cbn [Z.eqb]; rewrite stack_schedule_update; cbn; exact F.
Qed.

Lemma fire_filter_insert k e st :
  key e = k -> c1 e = None -> nokey k st = true ->
  filter (fun x => negb (key x =? k) || negb (is_none (c1 x))) (insert e st) = st.
Proof.
  intros K C N. induction st as [|x r IH]; cbn in *.
  - rewrite K, Z.eqb_refl, C. reflexivity.
  - apply andb_true_iff in N as [N1 N2].
    assert (R : filter (fun x0 => negb (key x0 =? k) || negb (is_none (c1 x0))) r = r).
    { clear IH. induction r as [|y r' IH']; cbn in *; [reflexivity|].
      apply andb_true_iff in N2 as [M1 M2]. rewrite M1. cbn. f_equal. apply IH'; exact M2. }
    destruct (egt x e); cbn.
    + rewrite N1. cbn. f_equal. apply IH; exact N2.
    + rewrite K, Z.eqb_refl, C. cbn. rewrite N1. cbn. f_equal. exact R.
Qed.

Lemma scan_fadeout_insert k e st cc :
  key e = k -> c1 e = None -> exists cc', scan_fadeout k (insert e st) cc = Some cc'.
Proof.
  intros K C. revert cc. induction st as [|x r IH]; intro cc; cbn.
  - rewrite K, Z.eqb_refl, C. cbn. eauto.
  - destruct (egt x e); cbn.
    + destruct ((key x =? k) && is_none (c1 x)); eauto.
    + rewrite K, Z.eqb_refl, C. cbn. eauto.
Qed.

(* remove with a fade, then the delay fires: the stack is exactly what was beneath *)
Lemma remove_fade_then_fire_l : forall l e r k fade now now',
  stack l = e :: r -> key e = k -> c1 e <> None -> nokey k r = true -> fade <> 0 ->
  stack (fst (do_fire (fst (do_remove l k fade now)) k now')) = r.
Proof.
  intros l e r k fade now now' S K O N F.
  unfold do_remove. rewrite S, (scan_key_head k e r true K).
  assert (HT : head_transparent (e :: r) = false) by (cbn; destruct (c1 e); [reflexivity|congruence]).
  rewrite HT. apply Z.eqb_neq in F. rewrite F.
  assert (RK : remove_key k (e :: r) = r).
  { cbn. rewrite K, Z.eqb_refl. cbn. apply remove_key_nokey; exact N. }
  rewrite RK.
  set (fo := mkE (prio e) k now (Some (col (e :: r) now)) (now + fade) None).
  set (l1 := fst (schedule_update _ now)).
  assert (S1 : stack l1 = insert fo r) by (unfold l1; rewrite stack_schedule_update; reflexivity).
  unfold do_fire. rewrite S1.
  destruct (scan_fadeout_insert k fo r true eq_refl eq_refl) as [cc' E]. rewrite E.
  assert (FF : filter (fun x => negb (key x =? k) || negb (is_none (c1 x))) (insert fo r) = r)
    by (apply fire_filter_insert; auto).
  destruct cc'; [rewrite stack_schedule_update|]; cbn; exact FF.
Qed.

(* ------------------------------------------------------------------------------------------ *)
(* 4. clear_stack: off, and the hardware is told so *)

Definition hw_target (l : lstate) : rgb := match last l with Some L => tg_c1 L | None => off end.
Definition hw_t1 (l : lstate) : Z := match last l with Some L => tg_t1 L | None => -1 end.

Lemma rgb_eqb_eq a b : rgb_eqb a b = true <-> a = b.
Proof.
  destruct a as [[a1 a2] a3], b as [[b1 b2] b3]. cbn. split.
  - intro H. apply andb_true_iff in H as [H H3]. apply andb_true_iff in H as [H1 H2].
    apply Z.eqb_eq in H1, H2, H3. congruence.
  - intro H. inversion H. rewrite !Z.eqb_refl. reflexivity.
Qed.

Lemma tgt_eqb_eq a b : tgt_eqb a b = true <-> a = b.
Proof.
  destruct a as [[[a1 a2] a3] a4], b as [[[b1 b2] b3] b4]. unfold tgt_eqb. cbn. split.
  - intro H. apply andb_true_iff in H as [H H4]. apply andb_true_iff in H as [H H3].
    apply andb_true_iff in H as [H1 H2].
    apply rgb_eqb_eq in H1, H3. apply Z.eqb_eq in H2, H4. congruence.
  - intro H. inversion H. subst. apply andb_true_iff; split; [|apply Z.eqb_refl].
    apply andb_true_iff; split; [|apply rgb_eqb_eq; reflexivity].
    apply andb_true_iff; split; [apply rgb_eqb_eq; reflexivity|apply Z.eqb_refl].
Qed.

(* after _schedule_update the hardware's target colour is the stack's target colour, and the
   hardware's target time is either over or the stack's — whatever the state was before *)
Lemma schedule_update_target l now : 0 <= now ->
  let l' := fst (schedule_update l now) in
  hw_target l' = tg_c1 (tgt (stack l')) /\
  (hw_t1 l' <= now \/ hw_t1 l' = tg_t1 (tgt (stack l'))).
Proof.
  intro Hn. unfold schedule_update, hw_target, hw_t1. destruct (last l) as [L|] eqn:EL.
  - destruct (tgt_eqb (tgt (stack l)) L) eqn:E1.
    + apply tgt_eqb_eq in E1. cbn. rewrite EL, <- E1. auto.
    + destruct (rgb_eqb _ _ && _) eqn:E2; cbn.
      * rewrite EL. apply andb_true_iff in E2 as [A B]. apply rgb_eqb_eq in A.
        split; [congruence|]. left.
        apply orb_true_iff in B as [B|B]; apply Z.ltb_lt in B; lia.
      * auto.
  - cbn. auto.
Qed.

(* a command is sent exactly when _last_fade_target is replaced, and it is that value *)
Lemma schedule_update_sent l now :
  (snd (schedule_update l now) = [] /\ last (fst (schedule_update l now)) = last l) \/
  (exists T, snd (schedule_update l now) = [T] /\ last (fst (schedule_update l now)) = Some T).
Proof.
  unfold schedule_update. destruct (last l) as [L|] eqn:EL.
  2:{ right. eexists. cbn. split; reflexivity. }
  destruct (tgt_eqb _ _); [left; cbn; auto|].
  destruct (rgb_eqb _ _ && _); [left; cbn; auto|].
  right. eexists. cbn. split; reflexivity.
Qed.

Lemma clear_turns_off_l : forall l now now', 0 <= now ->
  let l' := fst (do_clear l now) in
  stack l' = [] /\ col (stack l') now' = off /\ hw_target l' = off.
Proof.
  intros l now now' Hn. unfold do_clear.
  set (l' := fst (schedule_update (with_stack l []) now)).
  assert (S : stack l' = []) by (unfold l'; rewrite stack_schedule_update; reflexivity).
  destruct (schedule_update_target (with_stack l []) now Hn) as [A _]. fold l' in A.
  rewrite S in A. cbn in A. cbn zeta. rewrite S. cbn. auto.
Qed.

(* ------------------------------------------------------------------------------------------ *)
(* 5. at rest the hardware target is the logical colour — invariant over all histories *)

Definition opaque (e : entry) : bool := negb (is_none (c1 e)).

Definition Inv (l : lstate) (now : Z) : Prop :=
  sortedb (stack l) = true /\
  hw_target l = tg_c1 (tgt (stack l)) /\
  (hw_t1 l <= now \/ hw_t1 l = tg_t1 (tgt (stack l))).

Lemma tgt_opaque e X Y : opaque e = true -> tgt (e :: X) = tgt (e :: Y).
Proof. unfold opaque. intro O. cbn. destruct (c1 e); [|discriminate]. reflexivity. Qed.

Lemma tgt_cons_congr e X Y : tgt X = tgt Y -> tgt (e :: X) = tgt (e :: Y).
Proof. intro H. cbn. rewrite H. reflexivity. Qed.

Lemma tgt_prefix pre X Y : existsb opaque pre = true -> tgt (pre ++ X) = tgt (pre ++ Y).
Proof.
  induction pre as [|e pre IH]; cbn [existsb app]; intro H; [discriminate|].
  destruct (opaque e) eqn:O.
  - apply tgt_opaque; exact O.
  - apply tgt_cons_congr. apply IH. exact H.
Qed.

Lemma insert_app e pre rest :
  forallb (fun x => egt x e) pre = true -> insert e (pre ++ rest) = pre ++ insert e rest.
Proof.
  induction pre as [|x r IH]; cbn; intro H; [reflexivity|].
  apply andb_true_iff in H as [H1 H2]. rewrite H1, IH; auto.
Qed.

Lemma sorted_app_mid pre e post :
  sortedb (pre ++ e :: post) = true -> forallb (fun x => egt x e) pre = true.
Proof.
  induction pre as [|x r IH]; cbn; intro H; [reflexivity|].
  apply andb_true_iff in H as [H1 H2]. rewrite forallb_app in H1.
  apply andb_true_iff in H1 as [_ H1]. cbn in H1. apply andb_true_iff in H1 as [H1 _].
  rewrite H1, IH; auto.
Qed.

(* what the loop of remove_from_stack_by_key found *)
Lemma scan_key_spec k st cc0 sub p cc :
  scan_key k st cc0 = Some (sub, p, cc) ->
  exists pre ek post, st = pre ++ ek :: post /\ sub = ek :: post /\ key ek = k /\ prio ek = p /\
                      nokey k pre = true /\ cc = cc0 && forallb (fun e => is_none (c1 e)) pre.
Proof.
  revert cc0. induction st as [|e r IH]; intros cc0 H; cbn in H; [discriminate|].
  destruct (key e =? k) eqn:E.
  - inversion H; subst. apply Z.eqb_eq in E. exists [], e, r. cbn. rewrite andb_true_r. repeat split; auto.
  - apply IH in H as (pre & ek & post & A & B & C & D & F & G).
    exists (e :: pre), ek, post. subst. cbn [app nokey forallb]. rewrite E. fold (nokey (key ek) pre). rewrite F.
    cbn. repeat split; auto. rewrite andb_assoc. reflexivity.
Qed.

Lemma not_all_transparent pre :
  forallb (fun e => is_none (c1 e)) pre = false -> existsb opaque pre = true.
Proof.
  induction pre as [|e r IH]; cbn; intro H; [discriminate|]. unfold opaque at 1.
  destruct (is_none (c1 e)); cbn in *; auto.
Qed.

Lemma remove_key_app k a b : remove_key k (a ++ b) = remove_key k a ++ remove_key k b.
Proof. unfold remove_key. apply filter_app. Qed.

Lemma egt_same_pk x a b : prio a = prio b -> key a = key b -> egt x a = egt x b.
Proof. unfold egt. intros P K. rewrite P, K. reflexivity. Qed.

Lemma scan_fadeout_spec k st cc0 cc :
  scan_fadeout k st cc0 = Some cc ->
  exists pre rest, st = pre ++ rest /\
     filter (fun x => negb (key x =? k) || negb (is_none (c1 x))) pre = pre /\
     cc = cc0 && forallb (fun e => is_none (c1 e)) pre.
Proof.
  revert cc0. induction st as [|e r IH]; intros cc0 H; cbn in H; [discriminate|].
  destruct ((key e =? k) && is_none (c1 e)) eqn:E.
  - inversion H; subst. exists [], (e :: r). cbn. rewrite andb_true_r. repeat split; auto.
  - apply IH in H as (pre & rest & A & B & C).
    exists (e :: pre), rest. cbn. subst.
    assert (F : negb (key e =? k) || negb (is_none (c1 e)) = true).
    { destruct (key e =? k), (is_none (c1 e)); cbn in *; auto; discriminate. }
    rewrite F, B. repeat split; auto. rewrite andb_assoc. reflexivity.
Qed.

Lemma Inv_schedule l now :
  0 <= now -> sortedb (stack l) = true -> Inv (fst (schedule_update l now)) now.
Proof.
  intros Hn S. pose proof (schedule_update_target l now Hn) as [A B].
  unfold Inv. rewrite stack_schedule_update in *. auto.
Qed.

Lemma Inv_same_tgt l l' now :
  Inv l now -> sortedb (stack l') = true -> last l' = last l -> tgt (stack l') = tgt (stack l) ->
  Inv l' now.
Proof.
  intros (S & A & B) S' L T. unfold Inv, hw_target, hw_t1 in *. rewrite L, T. auto.
Qed.

Lemma sorted_add bel st c fade p k now :
  sortedb st = true -> sortedb (add_gen bel st c fade p k now) = true.
Proof.
  intro S. unfold add_gen. destruct (_ && _); [exact S|].
  apply sorted_insert.
  - apply sorted_filter; exact S.
  - replace (key _) with k by (destruct (fade =? 0); reflexivity). apply nokey_remove_key.
Qed.

Lemma prio_of_key_head e r : prio_of_key (e :: r) (key e) = prio e.
Proof. unfold prio_of_key. cbn. rewrite Z.eqb_refl. reflexivity. Qed.

Lemma step_color bel l c fade p k now now0 :
  Inv l now0 -> now0 <= now -> 0 <= now -> Inv (fst (do_color bel l c fade p k now)) now.
Proof.
  intros I Hle Hn. pose proof I as (S & A & B). unfold do_color.
  pose proof (sorted_add bel (stack l) c fade p k now S) as S'.
  destruct (color_changes (stack l) p) eqn:CC.
  - apply Inv_schedule; auto.
  - cbn [fst]. apply (Inv_same_tgt l); auto.
    + unfold Inv. repeat split; auto. destruct B; [left; lia | right; auto].
    + (* the top entry is opaque and of higher priority: the target is unchanged *)
      destruct (stack l) as [|top r] eqn:ES; cbn in CC; [discriminate|].
      apply orb_false_iff in CC as [C1 C2]. apply Z.leb_gt in C1.
      cbn [with_stack stack]. unfold add_gen. cbn [is_nil negb andb].
      destruct (p <? prio_of_key (top :: r) k) eqn:E; [reflexivity|].
      destruct (key top =? k) eqn:EK.
      * apply Z.eqb_eq in EK. subst k. rewrite prio_of_key_head in E. apply Z.ltb_ge in E. lia.
      * unfold remove_key. cbn [filter]. rewrite EK. cbn [negb].
        set (e := if fade =? 0 then _ else _).
        assert (G : egt top e = true).
        { unfold egt. replace (prio e) with p by (unfold e; destruct (fade =? 0); reflexivity).
          apply orb_true_iff. left. apply Z.gtb_lt. lia. }
        cbn [insert]. rewrite G. apply tgt_opaque. unfold opaque. rewrite C2. reflexivity.
Qed.

Lemma step_remove l k fade now now0 :
  Inv l now0 -> now0 <= now -> 0 <= now -> Inv (fst (do_remove l k fade now)) now.
Proof.
  intros I Hle Hn. pose proof I as (S & A & B). unfold do_remove.
  destruct (scan_key k (stack l) true) as [[[sub p] cc]|] eqn:SC.
  2:{ cbn. unfold Inv. repeat split; auto. destruct B; [left; lia | right; auto]. }
  apply scan_key_spec in SC as (pre & ek & post & E1 & E2 & K & P & NK & CC).
  set (fade' := if head_transparent sub then 0 else fade).
  set (fo := mkE p k now (Some (col sub now)) (now + fade') None).
  assert (SR : sortedb (remove_key k (stack l)) = true) by (apply sorted_filter; exact S).
  assert (SI : sortedb (insert fo (remove_key k (stack l))) = true).
  { apply sorted_insert; [exact SR | apply nokey_remove_key]. }
  set (l' := if fade' =? 0 then _ else _).
  assert (SL : sortedb (stack l') = true) by (unfold l'; destruct (fade' =? 0); cbn; auto).
  destruct cc.
  - apply Inv_schedule; auto.
  - cbn [fst]. apply (Inv_same_tgt l); auto.
    + unfold Inv. repeat split; auto. destruct B; [left; lia | right; auto].
    + unfold l'; destruct (fade' =? 0); reflexivity.
    + cbn in CC. symmetry in CC. apply not_all_transparent in CC.
      assert (RK : remove_key k (stack l) = pre ++ remove_key k (ek :: post)).
      { rewrite E1, remove_key_app, (remove_key_nokey k pre NK). reflexivity. }
      transitivity (tgt (pre ++ ek :: post)); [|rewrite E1; reflexivity].
      unfold l'; destruct (fade' =? 0); cbn [stack with_stack]; rewrite RK.
      * apply tgt_prefix; exact CC.
      * rewrite insert_app.
        -- apply tgt_prefix; exact CC.
        -- rewrite E1 in S. apply sorted_app_mid in S.
           rewrite forallb_forall in S. apply forallb_forall. intros x Hx.
           rewrite (egt_same_pk x fo ek) by (cbn; congruence). apply S; exact Hx.
Qed.

Lemma step_fire l k now now0 :
  Inv l now0 -> now0 <= now -> 0 <= now -> Inv (fst (do_fire l k now)) now.
Proof.
  intros I Hle Hn. pose proof I as (S & A & B). unfold do_fire.
  set (l0 := mkL (stack l) (last l) _).
  assert (I0 : Inv l0 now).
  { unfold Inv. cbn. repeat split; auto. destruct B; [left; unfold hw_t1 in *; cbn; lia | right; auto]. }
  destruct (scan_fadeout k (stack l) true) as [cc|] eqn:SC; [|exact I0].
  set (F := fun x => negb (key x =? k) || negb (is_none (c1 x))).
  assert (SF : sortedb (filter F (stack l)) = true) by (apply sorted_filter; exact S).
  destruct cc.
  - apply Inv_schedule; auto.
  - cbn [fst]. apply (Inv_same_tgt l0); auto.
    apply scan_fadeout_spec in SC as (pre & rest & E1 & E2 & CC).
    cbn in CC. symmetry in CC. apply not_all_transparent in CC.
    cbn [with_stack stack]. unfold l0. cbn [stack]. rewrite E1, filter_app. fold F in E2. rewrite E2.
    apply tgt_prefix; exact CC.
Qed.

Lemma step_clear l now : 0 <= now -> Inv (fst (do_clear l now)) now.
Proof. intro Hn. unfold do_clear. apply Inv_schedule; auto. Qed.

Lemma step_inv bel l now0 now o :
  Inv l now0 -> now0 <= now -> 0 <= now -> Inv (fst (lstep_gen bel l now o)) now.
Proof.
  intros I H1 H2. destruct o; cbn [lstep_gen].
  - eapply step_color; eauto.
  - eapply step_remove; eauto.
  - apply step_clear; auto.
  - eapply step_fire; eauto.
Qed.

(* histories: timed operations, times non-decreasing and >= 0 *)
Fixpoint lrun (l : lstate) (h : list (Z * op)) : lstate :=
  match h with
  | [] => l
  | (t, o) :: r => lrun (fst (lstep l t o)) r
  end.

Fixpoint timed_ok (t0 : Z) (h : list (Z * op)) : Prop :=
  match h with
  | [] => True
  | (t, _) :: r => t0 <= t /\ timed_ok t r
  end.

Fixpoint last_time (t0 : Z) (h : list (Z * op)) : Z :=
  match h with [] => t0 | (t, _) :: r => last_time t r end.

Lemma Inv_init : Inv linit 0.
Proof. unfold Inv, linit, hw_target, hw_t1. cbn. repeat split; auto; left; lia. Qed.

Lemma run_inv : forall h l t0, 0 <= t0 -> Inv l t0 -> timed_ok t0 h -> Inv (lrun l h) (last_time t0 h).
Proof.
  induction h as [|[t o] r IH]; intros l t0 H0 I T; cbn in *; [exact I|].
  destruct T as [T1 T2]. apply IH; [lia | | exact T2].
  unfold lstep. eapply step_inv; eauto; lia.
Qed.

(* at rest: every entry is opaque (all removal fades are over and gone) and no fade is running *)
Definition rest (st : list entry) (now : Z) : bool :=
  forallb (fun e => opaque e && ((t1 e =? 0) || (t1 e <=? now))) st.

Lemma rest_target st now : rest st now = true ->
  tg_c1 (tgt st) = col st now /\ tg_t1 (tgt st) <= Z.max now (-1).
Proof.
  destruct st as [|e r]; cbn; intro H; [split; [reflexivity|lia]|].
  apply andb_true_iff in H as [H _]. apply andb_true_iff in H as [O H]. rewrite H.
  unfold opaque in O. destruct (c1 e) as [c|]; [|discriminate].
  destruct (t1 e =? 0) eqn:E; cbn; [split; [reflexivity|lia]|].
  apply Z.leb_le in H. split; [reflexivity|lia].
Qed.

Lemma hw_equals_logical_at_rest_l : forall h now,
  timed_ok 0 h -> last_time 0 h <= now ->
  let l := lrun linit h in
  rest (stack l) now = true ->
  hw_target l = col (stack l) now /\ hw_t1 l <= now.
Proof.
  intros h now T L l R.
  pose proof (run_inv h linit 0 ltac:(lia) Inv_init T) as (S & A & B). fold l in S, A, B.
  assert (0 <= last_time 0 h).
  { clear -T. assert (G : forall h' t, 0 <= t -> timed_ok t h' -> 0 <= last_time t h').
    { induction h' as [|[t o] r IH]; cbn; intros; [assumption|]. apply IH; [lia|tauto]. }
    apply G; [lia|exact T]. }
  destruct (rest_target _ _ R) as [C D].
  split; [congruence|]. destruct B; lia.
Qed.

(* ------------------------------------------------------------------------------------------ *)
(* 6. the software / direct fade channel (fixed set_fade) *)

Inductive cev := CSet (sb st tb te : Z) | CRun.

(* channel, brightness of the last command, target of the last set_fade *)
Definition cstate := (chan * option Z * option Z)%type.

Definition last_b (old : option Z) (cs : list hwcmd) : option Z :=
  fold_left (fun _ c => Some (fst c)) cs old.

Definition cstep (maxf interval : Z) (s : cstate) (ev : Z * cev) : cstate :=
  let '(c, lb, lt) := s in
  let now := fst ev in
  match snd ev with
  | CSet sb st tb te => let '(c', out) := chan_set_fade maxf now c sb st tb te in (c', last_b lb out, Some tb)
  | CRun => let '(c', out) := chan_run maxf interval now c in (c', last_b lb out, lt)
  end.

Definition cinv (s : cstate) : Prop :=
  let '(c, lb, lt) := s in
  match c with
  | Some k => lt = Some (b1 k)
  | None => match lt with Some tb => lb = Some (tb * SC) | None => lb = None end
  end.

Lemma cstep_inv maxf interval s ev : cinv s -> cinv (cstep maxf interval s ev).
Proof.
  destruct s as [[c lb] lt]. destruct ev as [now [sb st tb te|]]; cbn [cstep fst snd]; intro I.
  - unfold chan_set_fade. destruct (_ >? maxf); cbn; reflexivity.
  - unfold chan_run. destruct c as [k|]; [|exact I].
    destruct (wake k <=? now); [|exact I].
    unfold task_step. destruct (_ >? maxf); cbn in *; [exact I|].
    rewrite I. reflexivity.
Qed.

Lemma channel_idle_shows_target_l : forall maxf interval evs,
  cinv (fold_left (cstep maxf interval) evs (None, None, None)).
Proof.
  intros maxf interval evs.
  assert (G : forall s, cinv s -> cinv (fold_left (cstep maxf interval) evs s)).
  { induction evs as [|e r IH]; cbn; intros s I; [exact I|]. apply IH. apply cstep_inv. exact I. }
  apply G. cbn. reflexivity.
Qed.

(* the task ends: a step at or after (target - max_fade) commands the target and stops *)
Lemma task_finishes_l : forall maxf interval now k,
  tt1 k - maxf <= now -> task_step maxf interval now k = (None, (b1 k * SC, Z.max (tt1 k - now) 0)).
Proof.
  intros. unfold task_step. destruct (tt1 k - now >? maxf) eqn:E; [|reflexivity].
  apply Z.gtb_lt in E. lia.
Qed.

(* the code as found: the stale task overwrites the newer instant colour *)
Definition cstep_orig (maxf interval : Z) (s : cstate) (ev : Z * cev) : cstate :=
  let '(c, lb, lt) := s in
  let now := fst ev in
  match snd ev with
  | CSet sb st tb te => let '(c', out) := chan_set_fade_orig maxf now c sb st tb te in (c', last_b lb out, Some tb)
  | CRun => let '(c', out) := chan_run maxf interval now c in (c', last_b lb out, lt)
  end.

Definition stale_witness : list (Z * cev) :=
  [(1000, CSet 0 1000 255 2000); (1000, CRun); (1125, CRun); (1250, CRun);
   (1250, CSet 77 (-1) 77 (-1)); (1375, CRun); (1500, CRun); (1625, CRun); (1750, CRun);
   (1875, CRun); (2000, CRun); (2125, CRun)].

Lemma stale_fade_task_refuted_l :
  exists evs, fold_left (cstep_orig 0 125) evs (None, None, None) = (None, Some (255 * SC), Some 77).
Proof. exists stale_witness. vm_compute. reflexivity. Qed.

(* the same history on the fixed channel *)
Lemma stale_witness_fixed :
  fold_left (cstep 0 125) stale_witness (None, None, None) = (None, Some (77 * SC), Some 77).
Proof. vm_compute. reflexivity. Qed.

(* ------------------------------------------------------------------------------------------ *)
(* 7. a fade starts from the colour the light shows *)

Lemma fade_starts_at_current_color_l : forall top r p k now,
  below_fixed p k top = true -> color_below (top :: r) p k now = col (top :: r) now.
Proof.
  intros. unfold color_below, color_below_gen. destruct (_ && _); [reflexivity|].
  cbn [from_first]. rewrite H. reflexivity.
Qed.

(* highest entry (5,"b") red above (3,"a") green; new command priority 10 key "a" with a fade *)
Definition below_witness : list entry :=
  [mkE 5 2 1000 None 0 (Some (255, 0, 0)); mkE 3 1 1000 None 0 (Some (0, 255, 0))].

Lemma color_below_orig_refuted_l :
  exists st p k now, sortedb st = true /\ forallb (below_fixed p k) st = true /\
                     color_below_orig st p k now <> col st now.
Proof. exists below_witness, 10, 1, 2000. vm_compute. repeat split; congruence. Qed.

(* ------------------------------------------------------------------------------------------ *)
(* Examples: the hypotheses of the theorems are satisfiable on non-trivial states *)

Definition ex_hist : list (Z * op) :=
  [(1000, OColor (255, 0, 0) 0 1 2);            (* red, key b, priority 1 *)
   (1000, OColor (0, 255, 0) 500 5 1);          (* green over it with a fade, key a, priority 5 *)
   (1250, OColor (0, 0, 255) 0 0 3);            (* lower priority while the fade runs: no update *)
   (1250, ORemove 1 500);                       (* fade the top entry out mid-fade *)
   (1750, OFire 1)].                            (* its delay *)

Example ex_hist_ok : timed_ok 0 ex_hist /\ rest (stack (lrun linit ex_hist)) 1750 = true /\
  length (stack (lrun linit ex_hist)) = 2%nat /\ col (stack (lrun linit ex_hist)) 1750 = (255, 0, 0) /\
  hw_target (lrun linit ex_hist) = (255, 0, 0).
Proof. vm_compute. repeat split; try congruence; try reflexivity. Qed.

Definition ex_fading : list entry :=
  [mkE 5 1 1000 (Some (255, 0, 10)) 1500 (Some (0, 255, 10)); mkE 1 2 900 None 0 (Some (255, 0, 0))].

Example ex_fade_running : t1 (hd (mkE 0 0 0 None 0 None) ex_fading) <> 0 /\ sortedb ex_fading = true /\
  col ex_fading 1125 = (192, 63, 10) /\ col ex_fading 1500 = (0, 255, 10).
Proof. vm_compute. repeat split; congruence. Qed.

Example ex_settled : settled ex_fading 1500 = true /\ top_color ex_fading = (0, 255, 10) /\
  settled ex_fading 1499 = false.
Proof. vm_compute. auto. Qed.

Example ex_remove : nokey 1 (tl ex_fading) = true /\
  stack (fst (do_remove (mkL ex_fading None []) 1 0 1200)) = tl ex_fading /\
  stack (fst (do_fire (fst (do_remove (mkL ex_fading None []) 1 250 1200)) 1 1450)) = tl ex_fading /\
  length (stack (fst (do_remove (mkL ex_fading None []) 1 250 1200))) = 2%nat.
Proof. vm_compute. auto. Qed.

Example ex_channel :
  fold_left (cstep 250 250) [(1000, CSet 0 1000 255 2000); (1000, CRun); (1250, CRun); (1500, CRun); (1750, CRun)]
            (None, None, None) = (None, Some (255 * SC), Some 255).
Proof. vm_compute. reflexivity. Qed.

(* ------------------------------------------------------------------------------------------ *)
(* 8. brightness correction (gamma_correct with factor f4/4) *)

Lemma gam_full c : gam 4 c = c.
Proof. destruct c as [[r g] b]. unfold gam. rewrite !Z.div_mul by lia. reflexivity. Qed.

Lemma gam1_mono f4 x y : 0 <= f4 -> x <= y -> x * f4 / 4 <= y * f4 / 4.
Proof. intros. apply Z.div_le_mono; nia. Qed.

(* correction is monotone per component: a corrected fade stays between its corrected endpoints *)
Lemma gam_between_l f4 a x b : 0 <= f4 -> between a x b -> between (gam f4 a) (gam f4 x) (gam f4 b).
Proof.
  intro Hf. destruct a as [[a1 a2] a3], x as [[x1 x2] x3], b as [[b1 b2] b3]. cbn.
  intros (H1 & H2 & H3).
  assert (G : forall p q r, Z.min p r <= q <= Z.max p r ->
              Z.min (p * f4 / 4) (r * f4 / 4) <= q * f4 / 4 <= Z.max (p * f4 / 4) (r * f4 / 4)).
  { intros p q r [L U].
    destruct (Z_le_gt_dec p r).
    - rewrite Z.min_l in L by lia. rewrite Z.max_r in U by lia.
      pose proof (gam1_mono f4 p q Hf L). pose proof (gam1_mono f4 q r Hf U). lia.
    - rewrite Z.min_r in L by lia. rewrite Z.max_l in U by lia.
      pose proof (gam1_mono f4 r q Hf L). pose proof (gam1_mono f4 q p Hf U). lia. }
  repeat split; apply G; assumption.
Qed.

(* at factor f4/4 <= 1 the corrected component never exceeds the logical one and is >= 0 *)
Lemma gam_bounded_l f4 r g b : 0 <= f4 <= 4 -> 0 <= r -> 0 <= g -> 0 <= b ->
  let '(r', g', b') := gam f4 (r, g, b) in 0 <= r' <= r /\ 0 <= g' <= g /\ 0 <= b' <= b.
Proof.
  intros Hf Hr Hg Hb. cbn.
  assert (G : forall x, 0 <= x -> 0 <= x * f4 / 4 <= x).
  { intros x Hx. split; [apply Z.div_pos; nia | apply Z.div_le_upper_bound; nia]. }
  repeat split; apply G; assumption.
Qed.

(* the command sent at rest carries the corrected logical colour: corollary of
   hw_equals_logical_at_rest for the factor in effect when the last command was sent *)
Lemma hw_corrected_at_rest_l : forall h now f4,
  timed_ok 0 h -> last_time 0 h <= now ->
  let l := lrun linit h in
  rest (stack l) now = true ->
  gam f4 (hw_target l) = gam f4 (col (stack l) now).
Proof. intros h now f4 T L l R. destruct (hw_equals_logical_at_rest_l h now T L R) as [E _]. fold l in E. rewrite E. reflexivity. Qed.

Example ex_gam : gam 2 (255, 128, 64) = (127, 64, 32) /\ gam 3 (255, 0, 1) = (191, 0, 0).
Proof. vm_compute. auto. Qed.
