(* C11/GModel.v — third layer of the executable model, on top of Model.v (definitions only; proofs: GLemmas.v).

   Code modelled (see NOTES.md):
     mpf/devices/shot_group.py   device_loaded_in_mode (rotation_pattern = deque(profile.config['rotation_pattern']),
                                 rotation_enabled = not config['enable_rotation_events']: both set again at EVERY load,
                                 i.e. for every ball), rotate(direction=None) (rotation_enabled guard; the shots whose
                                 state name is not in state_names_to_not_rotate; direction taken from the head of the
                                 pattern, which is then rotated by one; deque.rotate(1) for right / (-1) for left;
                                 shot.jump(state, force=True) for every rotated shot), rotate_left / rotate_right,
                                 enable_rotation / disable_rotation
     mpf/devices/shot.py         jump(state, force=True): no player -> nothing; same state -> nothing; else the state
                                 is assigned to the player variable shot_<name> (the member shots themselves - hit,
                                 advance, enable, disable, reset, restart - are shots of Model.v)
     mpf/devices/score_queue.py  score(value) (ignored without game / player), _handle_score_queue: per entry, from the
                                 highest digit down, `game.player[name] += 10**pos` once per unit of that digit;
                                 _block_ball_end_if_scoring: ball_ending waits until the queue is empty, so every entry
                                 queued before the drain is added BEFORE the ball ends
     mpf/config_players/score_queue_player.py   event -> score(value)

   The game itself is Model.step, unchanged. *)
From Common Require Import Prelude.
From C11 Require Import Model.
Open Scope Z_scope.

Record gcfg := mkG {
  g_base : cfg;
  g_members : list scfg;        (* the group's shots in config order (they are also in shots (g_base)) *)
  g_pattern : list bool;        (* profile.config['rotation_pattern']: true = right *)
  g_norot : list Z;             (* indices of the states named in state_names_to_not_rotate *)
  g_enrot : bool;               (* enable_rotation_events configured: rotation starts disabled *)
  g_sq : list (Z * Z)           (* score_queue_player: event -> value for the queue on the variable `score` *)
}.

Record gstate := mkGS {
  gg : state;                   (* the game of Model.v *)
  gpos : nat;                   (* how far the group's own copy of the pattern has been rotated *)
  grot : bool                   (* ShotGroup.rotation_enabled *)
}.

Definition ginit : gstate := mkGS init_state 0 false.

Definition zmem (x : Z) (l : list Z) : bool := existsb (Z.eqb x) l.

(* ---- shot group ------------------------------------------------------------------------------ *)
Definition shot_state (st : store) (s : scfg) : Z := as_int (getvar (s_var s) st).
Definition can_rotate (c : gcfg) (st : store) (s : scfg) : bool := negb (zmem (shot_state st s) (g_norot c)).

(* deque.rotate(1): the last element comes first; deque.rotate(-1): the first element goes last *)
Definition rot_vals (right : bool) (l : list Z) : list Z :=
  if right then match rev l with [] => [] | x :: r => x :: rev r end
  else match l with [] => [] | x :: r => r ++ [x] end.

(* shot.jump(state, force=True) for every shot to rotate *)
Definition jump_writes (st : store) (sv : list (scfg * Z)) : list write :=
  flat_map (fun p : scfg * Z => if snd p =? shot_state st (fst p) then [] else [WSet (s_var (fst p)) (VInt (snd p))]) sv.

Definition rotate_writes (c : gcfg) (st : store) (right : bool) : list write :=
  let ss := filter (can_rotate c st) (g_members c) in
  jump_writes st (combine ss (rot_vals right (map (shot_state st) ss))).

Definition pattern_dir (c : gcfg) (pos : nat) : bool := nth pos (g_pattern c) true.
Definition next_pos (c : gcfg) (pos : nat) : nat := Nat.modulo (S pos) (length (g_pattern c)).

(* ShotGroup.rotate(direction): the member shots are bound to the mode's player (view) *)
Definition grotate (c : gcfg) (gs : gstate) (d : option bool) : gstate * list event :=
  let g := gg gs in
  match view g with
  | Some v =>
      if grot gs then
        let right := match d with Some b => b | None => pattern_dir c (gpos gs) end in
        let pos' := match d with Some _ => gpos gs | None => next_pos c (gpos gs) end in
        let '(g1, ev) := write_to v (rotate_writes c (store_of g v) right) g in
        (mkGS g1 pos' true, ev)
      else (gs, [])
  | None => (gs, [])            (* the group's mode is not running: its handlers are not registered *)
  end.

(* ---- score queue ----------------------------------------------------------------------------- *)
(* int(math.pow(10, int(math.floor(math.log10(score))))) for score >= 1 *)
Fixpoint top_pow (fuel : nat) (s p : Z) : Z :=
  match fuel with
  | O => p
  | S f => if 10 * p <=? s then top_pow f s (10 * p) else p
  end.
Fixpoint digit_adds (fuel : nat) (s : Z) : list Z :=
  match fuel with
  | O => []
  | S f => if s <=? 0 then [] else let d := top_pow 40 s 1 in d :: digit_adds f (s - d)
  end.
Definition entry_adds (v : Z) : list Z := digit_adds (Z.to_nat v) v.

Fixpoint sq_value (e : Z) (l : list (Z * Z)) : list Z :=
  match l with
  | [] => []
  | (k, v) :: r => if k =? e then [v] else sq_value e r
  end.
Definition sq_writes (c : gcfg) (evs : list Z) : list write :=
  flat_map (fun e => flat_map (fun v => map (fun d => WAdd n_score (VInt d)) (entry_adds v)) (sq_value e (g_sq c))) evs.

Inductive gop :=
| GBase (o : op)                      (* everything Model.step knows: start, MPF events, drain, end_game *)
| GRotate (d : option bool)           (* rotate_events (None) / rotate_right_events (Some true) / rotate_left_events *)
| GEnRot | GDisRot                    (* enable_rotation_events / disable_rotation_events *)
| GSq (evs : list Z) (drain : bool).  (* score_queue_player events back to back; then (drain) the ball drains while the
                                         queue is still being chimed out *)

Definition reload (c : gcfg) (g1 : state) : gstate := mkGS g1 0 (negb (g_enrot c)).

Definition gstep (c : gcfg) (gs : gstate) (o : gop) : gstate * list event :=
  let g := gg gs in
  match o with
  | GBase o' =>
      let '(g1, ev) := step (g_base c) g o' in
      match o' with
      | Post _ => (mkGS g1 (gpos gs) (grot gs), ev)
      | Start => if ingame g then (mkGS g1 (gpos gs) (grot gs), ev) else (reload c g1, ev)
      | Drain | EndGame => if ingame g then (reload c g1, ev) else (gs, [])
      end
  | GRotate d => grotate c gs d
  | GEnRot => match view g with
              | Some _ => if g_enrot c then (mkGS g (gpos gs) true, []) else (gs, [])   (* no such event configured *)
              | None => (gs, [])
              end
  | GDisRot => match view g with Some _ => (mkGS g (gpos gs) false, []) | None => (gs, []) end
  | GSq evs drain =>
      if ingame g then
        (* every queued entry is added to game.player, who cannot change while ball_ending is held back *)
        let '(g1, e1) := write_to (cur g) (sq_writes c evs) g in
        if drain then let '(g2, e2) := step (g_base c) g1 Drain in (reload c g2, e1 ++ e2)
        else (mkGS g1 (gpos gs) (grot gs), e1)
      else (gs, [])
  end.

Fixpoint grun (c : gcfg) (gs : gstate) (ops : list gop) : gstate :=
  match ops with
  | [] => gs
  | o :: r => grun c (fst (gstep c gs o)) r
  end.

(* ---- observations ---------------------------------------------------------------------------- *)
Definition rotl {A} (n : nat) (l : list A) : list A := skipn n l ++ firstn n l.

Record gsnapshot := mkGSnap {
  gs_base : snapshot;
  gs_group : option (bool * list bool)    (* rotation_enabled, list(rotation_pattern) while the mode runs *)
}.

Definition gsnap (c : gcfg) (gs : gstate) (evs : list event) : gsnapshot :=
  mkGSnap (snap (g_base c) (gg gs) evs)
          (match view (gg gs) with
           | Some _ => Some (grot gs, rotl (gpos gs) (g_pattern c))
           | None => None
           end).

Fixpoint grun_snaps (c : gcfg) (gs : gstate) (ops : list gop) : list gsnapshot :=
  match ops with
  | [] => []
  | o :: r => let '(gs1, evs) := gstep c gs o in gsnap c gs1 evs :: grun_snaps c gs1 r
  end.

Definition c11g_run (i : gcfg * list gop) : list gsnapshot := grun_snaps (fst i) ginit (snd i).

Definition gsnap_eqb (a b : gsnapshot) : bool :=
  snap_eqb (gs_base a) (gs_base b)
  && option_eqb (fun x y => Bool.eqb (fst x) (fst y) && list_eqb Bool.eqb (snd x) (snd y)) (gs_group a) (gs_group b).
Definition c11g_out_eqb : list gsnapshot -> list gsnapshot -> bool := list_eqb gsnap_eqb.
