(* C11/GLemmas.v — proofs about the third layer (GModel.v): shot group rotation and the score queue. *)
From Common Require Import Prelude.
From C11 Require Import Model Lemmas XModel XLemmas GModel.
Open Scope Z_scope.

Definition ginv (c : gcfg) (gs : gstate) : Prop := inv (g_base c) (gg gs).

Lemma ginv_init c : ginv c ginit.
Proof. apply inv_init. Qed.

(* ---- one rotation, spelled out ---------------------------------------------------------------- *)
Definition rot_dir (c : gcfg) (pos : nat) (d : option bool) : bool :=
  match d with Some b => b | None => pattern_dir c pos end.
Definition rot_pos (c : gcfg) (pos : nat) (d : option bool) : nat :=
  match d with Some _ => pos | None => next_pos c pos end.

Lemma grotate_on c gs d v : view (gg gs) = Some v -> grot gs = true ->
  fst (grotate c gs d)
  = mkGS (fst (write_to v (rotate_writes c (store_of (gg gs) v) (rot_dir c (gpos gs) d)) (gg gs)))
         (rot_pos c (gpos gs) d) true
  /\ snd (grotate c gs d) = snd (write_to v (rotate_writes c (store_of (gg gs) v) (rot_dir c (gpos gs) d)) (gg gs)).
Proof.
  intros V R. unfold grotate. rewrite V, R.
  destruct d; cbn [rot_dir rot_pos];
    destruct (write_to v _ (gg gs)) as [g1 ev]; split; reflexivity.
Qed.

Lemma grotate_off c gs d : view (gg gs) = None \/ grot gs = false -> grotate c gs d = (gs, []).
Proof.
  intros [V|R]; unfold grotate.
  - now rewrite V.
  - destruct (view (gg gs)); [now rewrite R|reflexivity].
Qed.

Lemma grotate_cases c gs d :
  grotate c gs d = (gs, [])
  \/ exists v ws, view (gg gs) = Some v /\
       gg (fst (grotate c gs d)) = fst (write_to v ws (gg gs)) /\ snd (grotate c gs d) = snd (write_to v ws (gg gs)).
Proof.
  destruct (view (gg gs)) as [v|] eqn:V; [|left; apply grotate_off; now left].
  destruct (grot gs) eqn:R; [|left; apply grotate_off; now right].
  right. destruct (grotate_on c gs d v V R) as (E1 & E2).
  exists v, (rotate_writes c (store_of (gg gs) v) (rot_dir c (gpos gs) d)).
  rewrite E1, E2. cbn. auto.
Qed.

(* ---- the invariant of Model.v holds along every history of the extended operations ------------ *)
Lemma gstep_inv c gs o : ginv c gs -> ginv c (fst (gstep c gs o)).
Proof.
  unfold ginv. intros I. destruct o as [o'|d| | |evs dr]; cbn [gstep].
  - pose proof (step_ok_all (g_base c) (gg gs) o' I) as (I' & _).
    destruct (step (g_base c) (gg gs) o') as [g1 ev] eqn:E. cbn [fst] in I'.
    destruct o'; try (destruct (ingame (gg gs))); cbn; auto.
  - destruct (grotate_cases c gs d) as [E|(v & ws & _ & E & _)].
    + now rewrite E.
    + rewrite E. now apply write_to_inv.
  - destruct (view (gg gs)); [destruct (g_enrot c)|]; cbn; auto.
  - destruct (view (gg gs)); cbn; auto.
  - destruct (ingame (gg gs)) eqn:G; [|exact I].
    pose proof (write_to_inv (g_base c) (cur (gg gs)) (sq_writes c evs) (gg gs) I) as I1.
    destruct (write_to (cur (gg gs)) (sq_writes c evs) (gg gs)) as [g1 e1]. cbn [fst] in I1.
    destruct dr; [|exact I1].
    pose proof (step_ok_all (g_base c) g1 Drain I1) as (I2 & _).
    destruct (step (g_base c) g1 Drain) as [g2 e2]. exact I2.
Qed.

Lemma grun_inv c : forall ops gs, ginv c gs -> ginv c (grun c gs ops).
Proof. induction ops as [|o r IH]; intros gs I; cbn; [exact I|]. apply IH. now apply gstep_inv. Qed.

Lemma g_reachable_inv_l c ops : ginv c (grun c ginit ops).
Proof. apply grun_inv, ginv_init. Qed.

(* ---- frame: one extended operation touches at most the previous and the new current player ----- *)
Lemma write_to_frame i ws s j st : j <> i ->
  nth_error (players s) j = Some st -> nth_error (players (fst (write_to i ws s))) j = Some st.
Proof.
  intros N E. destruct (write_to_spec i ws s) as (_ & O & _). rewrite (O j N). exact E.
Qed.

Lemma gstep_frame_l c gs o : ginv c gs -> ingame (gg gs) = true -> ingame (gg (fst (gstep c gs o))) = true ->
  forall j st, j <> cur (gg gs) -> j <> cur (gg (fst (gstep c gs o))) ->
    nth_error (players (gg gs)) j = Some st -> nth_error (players (gg (fst (gstep c gs o)))) j = Some st.
Proof.
  unfold ginv. intros I G. destruct (inv_ingame _ _ I G) as (V & _).
  destruct o as [o'|d| | |evs dr]; cbn [gstep].
  - pose proof (step_frame_l (g_base c) (gg gs) o' I G) as F.
    destruct (step (g_base c) (gg gs) o') as [g1 ev] eqn:E. cbn [fst] in F.
    destruct o'; rewrite ?G; cbn [fst gg reload]; intros G' j st N N'; now apply F.
  - destruct (grotate_cases c gs d) as [E|(v & ws & V' & E & _)].
    + rewrite E. cbn. auto.
    + rewrite E. intros _ j st N _ H. rewrite V in V'. injection V' as <-. now apply write_to_frame.
  - destruct (view (gg gs)); [destruct (g_enrot c)|]; cbn; auto.
  - destruct (view (gg gs)); cbn; auto.
  - rewrite G.
    pose proof (write_to_inv (g_base c) (cur (gg gs)) (sq_writes c evs) (gg gs) I) as I1.
    destruct (write_to_spec (cur (gg gs)) (sq_writes c evs) (gg gs)) as ((C1 & G1 & _) & _ & _).
    pose proof (write_to_frame (cur (gg gs)) (sq_writes c evs) (gg gs)) as F1.
    destruct (write_to (cur (gg gs)) (sq_writes c evs) (gg gs)) as [g1 e1]. cbn [fst] in *.
    destruct dr.
    + rewrite G in G1. pose proof (step_frame_l (g_base c) g1 Drain I1 G1) as F2.
      destruct (step (g_base c) g1 Drain) as [g2 e2]. cbn [fst gg reload] in *.
      intros G2 j st N N' H. apply F2; auto. congruence.
    + cbn [fst gg]. intros _ j st N _ H. now apply F1.
Qed.

(* ---- the rotation cursor is reset by every load of the group (every ball start) ---------------- *)
Definition starts_ball (gs : gstate) (o : gop) : Prop :=
  match o with
  | GBase Drain | GBase EndGame => ingame (gg gs) = true
  | GSq _ true => ingame (gg gs) = true
  | GBase Start => ingame (gg gs) = false
  | _ => False
  end.

Lemma rotation_reset_l c gs o : starts_ball gs o ->
  gpos (fst (gstep c gs o)) = O /\ grot (fst (gstep c gs o)) = negb (g_enrot c).
Proof.
  destruct o as [o'|d| | |evs dr]; cbn [starts_ball gstep]; try tauto.
  - destruct o'; try tauto; intros G; rewrite G;
      destruct (step (g_base c) (gg gs) _) as [g1 ev]; cbn; auto.
  - destruct dr; [|tauto]. intros G. rewrite G.
    destruct (write_to (cur (gg gs)) (sq_writes c evs) (gg gs)) as [g1 e1].
    destruct (step (g_base c) g1 Drain) as [g2 e2]. cbn. auto.
Qed.

(* ---- k rotations of THIS ball: the current player's variables are a function of his own variables,
        the cursor and k; nothing else of the state (other players, earlier balls, earlier games) enters *)
Fixpoint rot_store (c : gcfg) (i : nat) (st : store) (pos : nat) (ds : list (option bool)) : store :=
  match ds with
  | [] => st
  | d :: r => rot_store c i (fst (apply_writes_store i st (rotate_writes c st (rot_dir c pos d)))) (rot_pos c pos d) r
  end.
Fixpoint rot_cursor (c : gcfg) (pos : nat) (ds : list (option bool)) : nat :=
  match ds with
  | [] => pos
  | d :: r => rot_cursor c (rot_pos c pos d) r
  end.

Lemma rotations_local_l c : forall ds gs, ginv c gs -> ingame (gg gs) = true -> grot gs = true ->
  let gs' := grun c gs (map GRotate ds) in
  store_of (gg gs') (cur (gg gs)) = rot_store c (cur (gg gs)) (store_of (gg gs) (cur (gg gs))) (gpos gs) ds
  /\ gpos gs' = rot_cursor c (gpos gs) ds /\ grot gs' = true /\ cur (gg gs') = cur (gg gs)
  /\ forall j, j <> cur (gg gs) -> store_of (gg gs') j = store_of (gg gs) j.
Proof.
  induction ds as [|d r IH]; intros gs I G R; cbn [map grun rot_store rot_cursor].
  - repeat split; auto.
  - unfold ginv in I. destruct (inv_ingame _ _ I G) as (V & _ & L & _).
    destruct (nth_error_lt _ _ L) as (st & Est).
    cbn [gstep]. destruct (grotate_on c gs d _ V R) as (E1 & _).
    set (ws := rotate_writes c (store_of (gg gs) (cur (gg gs))) (rot_dir c (gpos gs) d)) in *.
    destruct (write_to_spec (cur (gg gs)) ws (gg gs)) as ((C1 & G1 & _) & O1 & _).
    pose proof (write_to_inv (g_base c) (cur (gg gs)) ws (gg gs) I) as I1.
    pose proof (write_to_store (cur (gg gs)) ws (gg gs) st Est) as S1.
    specialize (IH (fst (grotate c gs d))). rewrite E1 in *. cbn [gg gpos grot] in *.
    rewrite C1 in IH. rewrite G in G1.
    destruct (IH I1 G1 eq_refl) as (H1 & H2 & H3 & H4 & H5).
    rewrite S1 in H1. rewrite (store_of_nth _ _ _ Est). repeat split; auto.
    intros j N. rewrite (H5 j N). now apply store_of_others with (i := cur (gg gs)).
Qed.

(* ---- score queue ------------------------------------------------------------------------------ *)
Lemma top_pow_bounds : forall fuel s p, 1 <= p <= s -> p <= top_pow fuel s p <= s.
Proof.
  induction fuel as [|f IH]; intros s p H; cbn [top_pow]; [lia|].
  destruct (10 * p <=? s) eqn:E.
  - apply Z.leb_le in E. specialize (IH s (10 * p)). lia.
  - lia.
Qed.

Definition zsum (l : list Z) : Z := fold_right Z.add 0 l.

Lemma digit_adds_sum : forall fuel s, 0 <= s <= Z.of_nat fuel -> zsum (digit_adds fuel s) = s.
Proof.
  induction fuel as [|f IH]; intros s H; cbn [digit_adds].
  - cbn in *. lia.
  - destruct (s <=? 0) eqn:E.
    + apply Z.leb_le in E. cbn. lia.
    + apply Z.leb_gt in E. pose proof (top_pow_bounds 40 s 1 ltac:(lia)) as B.
      cbn [zsum fold_right]. fold (zsum (digit_adds f (s - top_pow 40 s 1))).
      rewrite IH; [lia|]. rewrite Nat2Z.inj_succ in H. lia.
Qed.

Lemma entry_adds_sum v : 0 <= v -> zsum (entry_adds v) = v.
Proof. intros H. unfold entry_adds. apply digit_adds_sum. rewrite Z2Nat.id; lia. Qed.

Lemma digit_adds_pos : forall fuel s, Forall (fun d => 1 <= d) (digit_adds fuel s).
Proof.
  induction fuel as [|f IH]; intros s; cbn [digit_adds]; [constructor|].
  destruct (s <=? 0) eqn:E; [constructor|]. apply Z.leb_gt in E.
  constructor; [|apply IH]. pose proof (top_pow_bounds 40 s 1 ltac:(lia)). lia.
Qed.

(* what was queued lands on the player whose turn it is, BEFORE the ball ends, and on nobody else *)
Lemma sq_before_handover_l c gs evs : ingame (gg gs) = true ->
  let g1 := fst (write_to (cur (gg gs)) (sq_writes c evs) (gg gs)) in
  gg (fst (gstep c gs (GSq evs true))) = fst (step (g_base c) g1 Drain)
  /\ gg (fst (gstep c gs (GSq evs false))) = g1
  /\ cur g1 = cur (gg gs)
  /\ forall j, j <> cur (gg gs) -> store_of g1 j = store_of (gg gs) j.
Proof.
  intros G. cbn [gstep]. rewrite G.
  destruct (write_to_spec (cur (gg gs)) (sq_writes c evs) (gg gs)) as ((C1 & _) & O1 & _).
  destruct (write_to (cur (gg gs)) (sq_writes c evs) (gg gs)) as [g1 e1] eqn:E. cbn [fst] in *.
  destruct (step (g_base c) g1 Drain) as [g2 e2]. cbn.
  repeat split; auto. intros j N. now apply store_of_others with (i := cur (gg gs)).
Qed.

(* ---- events of the extended operations are well formed ---------------------------------------- *)
Lemma all_ok_app l1 l2 : all_ok l1 -> all_ok l2 -> all_ok (l1 ++ l2).
Proof. unfold all_ok. intros. apply Forall_app. auto. Qed.

Lemma gstep_events_ok_l c gs o : all_ok (snd (gstep c gs o)).
Proof.
  destruct o as [o'|d| | |evs dr]; cbn [gstep].
  - pose proof (step_events_ok_l (g_base c) (gg gs) o') as H.
    destruct (step (g_base c) (gg gs) o') as [g1 ev]. cbn [snd] in H.
    destruct o'; try destruct (ingame (gg gs)); cbn; auto; constructor.
  - destruct (grotate_cases c gs d) as [E|(v & ws & _ & _ & E)].
    + rewrite E. constructor.
    + rewrite E. eapply evs_ok_all, write_to_ok.
  - destruct (view (gg gs)); [destruct (g_enrot c)|]; cbn; constructor.
  - destruct (view (gg gs)); cbn; constructor.
  - destruct (ingame (gg gs)); [|constructor].
    pose proof (evs_ok_all _ _ (write_to_ok (cur (gg gs)) (sq_writes c evs) (gg gs))) as H1.
    destruct (write_to (cur (gg gs)) (sq_writes c evs) (gg gs)) as [g1 e1]. cbn [snd] in H1.
    destruct dr; [|exact H1].
    pose proof (step_events_ok_l (g_base c) g1 Drain) as H2.
    destruct (step (g_base c) g1 Drain) as [g2 e2]. cbn [snd] in *. now apply all_ok_app.
Qed.

(* ---- example: two players, pattern r, r, l, l -------------------------------------------------- *)
Definition exg_shot (k : Z) : scfg := mkS (44 + 2 * k) (45 + 2 * k) (200 + k) 0 0 0 (210 + k) 0 3 false true.
Definition exg_cfg : gcfg :=
  mkG (mkCfg 3 2 [] [] [] [exg_shot 0; exg_shot 1; exg_shot 2] [])
      [exg_shot 0; exg_shot 1; exg_shot 2] [true; true; false; false] [] false [(300, 2000); (301, 300)].
Definition exg_s1 : gstate :=
  grun exg_cfg ginit [GBase Start; GBase Start; GBase (Post 200); GRotate None; GRotate None].
Definition exg_s2 : gstate := grun exg_cfg exg_s1 [GSq [300; 301] true; GBase (Post 200); GRotate None].

Lemma ex_g :
  ginv exg_cfg exg_s1 /\ ingame (gg exg_s1) = true /\ grot exg_s1 = true /\ cur (gg exg_s1) = 0%nat
  /\ gpos exg_s1 = 2%nat /\ pattern_dir exg_cfg 2 = false
  /\ map (shot_state (store_of (gg exg_s1) 0)) (g_members exg_cfg) = [0; 0; 1]
  /\ starts_ball exg_s1 (GSq [300; 301] true)
  /\ cur (gg exg_s2) = 1%nat /\ gpos exg_s2 = 1%nat
  /\ map (shot_state (store_of (gg exg_s2) 1)) (g_members exg_cfg) = [0; 1; 0]
  /\ map (shot_state (store_of (gg exg_s2) 0)) (g_members exg_cfg) = [0; 0; 1]
  /\ getvar n_score (store_of (gg exg_s2) 0) = VInt 2300
  /\ getvar n_score (store_of (gg exg_s2) 1) = VInt 0
  /\ entry_adds 2300 = [1000; 1000; 100; 100; 100].
Proof. split; [apply g_reachable_inv_l|]. vm_compute. repeat split. Qed.
