(* C11/Lemmas.v — proofs about the per-player state model. *)
From Common Require Import Prelude.
From C11 Require Import Model.
Open Scope Z_scope.

(* ====================================================================================== *)
(* lists                                                                                  *)

Lemma upd_nth_other {A} (f : A -> A) : forall l i j, i <> j -> nth_error (upd_nth i f l) j = nth_error l j.
Proof.
  induction l as [|x l IH]; intros i j H; [destruct i; reflexivity|].
  destruct i, j; cbn; try reflexivity; try congruence. apply IH. congruence.
Qed.

Lemma upd_nth_same {A} (f : A -> A) : forall l i x, nth_error l i = Some x -> nth_error (upd_nth i f l) i = Some (f x).
Proof.
  induction l as [|y l IH]; intros [|i] x H; cbn in *; try discriminate.
  - congruence.
  - apply IH, H.
Qed.

Lemma upd_nth_length {A} (f : A -> A) : forall l i, length (upd_nth i f l) = length l.
Proof. induction l; intros [|i]; cbn; auto. Qed.

(* ====================================================================================== *)
(* stores                                                                                 *)

Lemma lookup_sset_same x v : forall st, lookup x (sset x v st) = Some v.
Proof.
  induction st as [|[k w] st IH]; cbn.
  - now rewrite Z.eqb_refl.
  - destruct (k =? x) eqn:E; cbn; rewrite E; auto.
Qed.

Lemma lookup_sset_other x y v : x <> y -> forall st, lookup y (sset x v st) = lookup y st.
Proof.
  intros N. induction st as [|[k w] st IH]; cbn.
  - destruct (x =? y) eqn:E; [apply Z.eqb_eq in E; congruence | reflexivity].
  - destruct (k =? x) eqn:E; cbn.
    + apply Z.eqb_eq in E. subst k. destruct (x =? y) eqn:E2; [apply Z.eqb_eq in E2; congruence|reflexivity].
    + destruct (k =? y); auto.
Qed.

Definition wname (w : write) : name := match w with WSet x _ => x | WAdd x _ => x end.

Lemma assign_store i st x v : fst (assign i st x v) = sset x v st.
Proof.
  unfold assign. destruct (lookup x st); cbn;
    match goal with |- context [if ?b then _ else _] => destruct b end; reflexivity.
Qed.

Lemma apply_write_other i st w y : wname w <> y -> lookup y (fst (apply_write i st w)) = lookup y st.
Proof.
  intros N. destruct w as [x v|x v]; cbn in *.
  - rewrite assign_store. now apply lookup_sset_other.
  - destruct (py_add (getvar x st) v); cbn; [|reflexivity].
    rewrite assign_store. now apply lookup_sset_other.
Qed.

Lemma apply_write_keeps i st w y : lookup y st <> None -> lookup y (fst (apply_write i st w)) <> None.
Proof.
  intros H. destruct (Z.eq_dec (wname w) y) as [E|N].
  - destruct w as [x v|x v]; cbn in *; subst.
    + rewrite assign_store, lookup_sset_same. discriminate.
    + destruct (py_add (getvar y st) v); cbn; [|exact H].
      rewrite assign_store, lookup_sset_same. discriminate.
  - now rewrite apply_write_other.
Qed.

Lemma apply_writes_store_other i y : forall ws st,
  Forall (fun w => wname w <> y) ws -> lookup y (fst (apply_writes_store i st ws)) = lookup y st.
Proof.
  induction ws as [|w ws IH]; intros st H; cbn; [reflexivity|].
  inversion H; subst.
  destruct (apply_write i st w) as [st1 e1] eqn:E1.
  destruct (apply_writes_store i st1 ws) as [st2 e2] eqn:E2. cbn.
  change st2 with (fst (st2, e2)). rewrite <- E2, IH by assumption.
  change st1 with (fst (st1, e1)). rewrite <- E1. now apply apply_write_other.
Qed.

Lemma apply_writes_store_keeps i y : forall ws st,
  lookup y st <> None -> lookup y (fst (apply_writes_store i st ws)) <> None.
Proof.
  induction ws as [|w ws IH]; intros st H; cbn; [exact H|].
  destruct (apply_write i st w) as [st1 e1] eqn:E1.
  destruct (apply_writes_store i st1 ws) as [st2 e2] eqn:E2. cbn.
  change st2 with (fst (st2, e2)). rewrite <- E2. apply IH.
  change st1 with (fst (st1, e1)). rewrite <- E1. now apply apply_write_keeps.
Qed.

Lemma apply_writes_store_sets i y v : forall ws st,
  In (WSet y v) ws -> lookup y (fst (apply_writes_store i st ws)) <> None.
Proof.
  induction ws as [|w ws IH]; intros st H; cbn; [destruct H|].
  destruct (apply_write i st w) as [st1 e1] eqn:E1.
  destruct (apply_writes_store i st1 ws) as [st2 e2] eqn:E2. cbn.
  change st2 with (fst (st2, e2)). rewrite <- E2.
  destruct H as [->|H].
  - apply apply_writes_store_keeps. change st1 with (fst (st1, e1)). rewrite <- E1. cbn.
    rewrite assign_store, lookup_sset_same. discriminate.
  - now apply IH.
Qed.

(* ====================================================================================== *)
(* writes touch one player                                                                *)

Definition same_ctl (s s' : state) : Prop :=
  cur s' = cur s /\ ingame s' = ingame s /\ ending s' = ending s /\ mplayer s' = mplayer s /\ view s' = view s.

Definition others_same (i : nat) (s s' : state) : Prop :=
  forall j, j <> i -> nth_error (players s') j = nth_error (players s) j.

Lemma same_ctl_refl s : same_ctl s s.
Proof. repeat split. Qed.
Lemma same_ctl_trans a b c : same_ctl a b -> same_ctl b c -> same_ctl a c.
Proof. unfold same_ctl. intuition congruence. Qed.
Lemma others_same_refl i s : others_same i s s.
Proof. intros j _. reflexivity. Qed.
Lemma others_same_trans i a b c : others_same i a b -> others_same i b c -> others_same i a c.
Proof. intros H1 H2 j N. rewrite H2, H1; auto. Qed.

Lemma write_to_spec i ws s :
  let s' := fst (write_to i ws s) in
  same_ctl s s' /\ others_same i s s' /\ length (players s') = length (players s).
Proof.
  unfold write_to, apply_writes. destruct (nth_error (players s) i) as [st|] eqn:E.
  - destruct (apply_writes_store i st ws) as [st' evs]. cbn.
    split; [repeat split|]. split.
    + intros j N. cbn. apply upd_nth_other. congruence.
    + apply upd_nth_length.
  - cbn. split; [repeat split|]. split; [intros j _; reflexivity|reflexivity].
Qed.

Lemma write_to_store i ws s st :
  nth_error (players s) i = Some st ->
  store_of (fst (write_to i ws s)) i = fst (apply_writes_store i st ws).
Proof.
  intros E. unfold write_to, apply_writes, store_of. rewrite E.
  destruct (apply_writes_store i st ws) as [st' evs]. cbn.
  now rewrite (upd_nth_same _ _ _ _ E).
Qed.

Lemma write_to_events i ws s st :
  nth_error (players s) i = Some st ->
  snd (write_to i ws s) = snd (apply_writes_store i st ws).
Proof.
  intros E. unfold write_to, apply_writes. rewrite E.
  now destruct (apply_writes_store i st ws).
Qed.

Lemma write_to_events_none i ws s :
  nth_error (players s) i = None -> snd (write_to i ws s) = [].
Proof. intros E. unfold write_to, apply_writes. now rewrite E. Qed.

Lemma store_of_others i j s s' : others_same i s s' -> j <> i -> store_of s' j = store_of s j.
Proof. intros H N. unfold store_of. now rewrite H. Qed.

(* ====================================================================================== *)
(* the invariant of reachable states                                                      *)

Definition load_keys (c : cfg) : list name :=
  map c_var (counters c) ++ map a_var (accruals c) ++ map s_envar (shots c).

(* every device of the game mode has its state in this player's variables *)
Definition loaded (c : cfg) (st : store) : Prop := forall k, In k (load_keys c) -> lookup k st <> None.

Definition inv (c : cfg) (s : state) : Prop :=
  if ingame s
  then view s = Some (cur s) /\ mplayer s = Some (cur s) /\ (cur s < length (players s))%nat
       /\ loaded c (store_of s (cur s))
  else s = init_state.

Lemma load_writes_cover c st k :
  In k (load_keys c) -> lookup k st = None -> exists v, In (WSet k v) (load_writes c st).
Proof.
  unfold load_keys, load_writes. intros H L.
  apply in_app_or in H as [H|H]; [|apply in_app_or in H as [H|H]];
    apply in_map_iff in H as (x & <- & Hx); eexists.
  - apply in_or_app; left. apply in_flat_map. exists x. split; [exact Hx|]. rewrite L. left; reflexivity.
  - apply in_or_app; right. apply in_or_app; left. apply in_flat_map. exists x. split; [exact Hx|].
    rewrite L. left; reflexivity.
  - apply in_or_app; right. apply in_or_app; right. apply in_flat_map. exists x. split; [exact Hx|].
    rewrite L. left; reflexivity.
Qed.

Lemma load_writes_loaded c i st : loaded c (fst (apply_writes_store i st (load_writes c st))).
Proof.
  intros k H. destruct (lookup k st) eqn:L.
  - apply apply_writes_store_keeps. congruence.
  - destruct (load_writes_cover c st k H L) as (v & Hv). eapply apply_writes_store_sets; eauto.
Qed.

Lemma load_writes_nil c st : loaded c st -> load_writes c st = [].
Proof.
  intros H. unfold load_writes.
  assert (A : forall {X} (f : X -> name) (mk : X -> list write) (l : list X),
             (forall x, In x l -> lookup (f x) st <> None) ->
             flat_map (fun x => match lookup (f x) st with None => mk x | Some _ => [] end) l = []).
  { intros X f mk l. induction l as [|x l IH]; intros Hl; cbn; [reflexivity|].
    destruct (lookup (f x) st) eqn:E; [|exfalso; apply (Hl x); [now left|exact E]].
    cbn. apply IH. intros y Hy. apply Hl. now right. }
  rewrite (A _ c_var), (A _ a_var), (A _ s_envar); try reflexivity;
    intros x Hx; apply H; unfold load_keys.
  - apply in_or_app; right; apply in_or_app; right. now apply in_map.
  - apply in_or_app; right; apply in_or_app; left. now apply in_map.
  - apply in_or_app; left. now apply in_map.
Qed.

Lemma loaded_write i st ws c : loaded c st -> loaded c (fst (apply_writes_store i st ws)).
Proof. intros H k Hk. apply apply_writes_store_keeps. now apply H. Qed.

Lemma store_of_nth s i st : nth_error (players s) i = Some st -> store_of s i = st.
Proof. unfold store_of. now intros ->. Qed.

Lemma nth_error_lt {A} (l : list A) i : (i < length l)%nat -> exists x, nth_error l i = Some x.
Proof. intros H. destruct (nth_error l i) eqn:E; [eauto|]. apply nth_error_None in E. lia. Qed.

(* Mode.start with a player: devices are bound to that player; only that player is written *)
Lemma mode_start_spec c s p :
  mplayer s = Some p -> (p < length (players s))%nat ->
  let s' := fst (mode_start c s) in
  view s' = Some p /\ cur s' = cur s /\ ingame s' = ingame s /\ ending s' = ending s /\ mplayer s' = mplayer s
  /\ others_same p s s' /\ length (players s') = length (players s)
  /\ loaded c (store_of s' p)
  /\ store_of s' p = fst (apply_writes_store p (store_of s p) (load_writes c (store_of s p))).
Proof.
  intros M L. unfold mode_start. rewrite M.
  destruct (nth_error_lt _ _ L) as (st & E).
  pose proof (write_to_spec p (load_writes c (store_of s p)) s) as (C & O & Len).
  pose proof (write_to_store p (load_writes c (store_of s p)) s st E) as S.
  destruct (write_to p (load_writes c (store_of s p)) s) as [s1 evs]. cbn in *.
  destruct C as (C1 & C2 & C3 & C4 & C5).
  assert (SV : store_of (set_view s1 (Some p)) p = store_of s1 p) by reflexivity.
  rewrite (store_of_nth _ _ _ E) in *.
  split; [reflexivity|]. split; [exact C1|]. split; [exact C2|]. split; [exact C3|]. split; [congruence|].
  split; [exact O|]. split; [exact Len|]. rewrite SV, S. split; [apply load_writes_loaded|reflexivity].
Qed.

Lemma start_turn_spec c s :
  (cur s < length (players s))%nat ->
  let s' := fst (start_turn c s) in
  view s' = Some (cur s) /\ mplayer s' = Some (cur s) /\ cur s' = cur s /\ ingame s' = ingame s
  /\ ending s' = ending s /\ others_same (cur s) s s' /\ length (players s') = length (players s)
  /\ loaded c (store_of s' (cur s)).
Proof.
  intros L. unfold start_turn.
  pose proof (write_to_spec (cur s) [WAdd n_ball (VInt 1)] s) as (C & O & Len).
  destruct (write_to (cur s) [WAdd n_ball (VInt 1)] s) as [s1 e1]. cbn in C, O, Len.
  destruct C as (C1 & C2 & C3 & C4 & C5).
  set (s2 := set_mplayer s1 (Some (cur s1))).
  assert (M : mplayer s2 = Some (cur s)) by (cbn; congruence).
  assert (L2 : (cur s < length (players s2))%nat) by (cbn; lia).
  pose proof (mode_start_spec c s2 (cur s) M L2) as (A1 & A2 & A3 & A4 & A5 & A6 & A7 & A8 & _).
  destruct (mode_start c s2) as [s3 e3]. subst s2. cbn in *.
  split; [exact A1|]. split; [congruence|]. split; [congruence|]. split; [congruence|]. split; [congruence|].
  split; [intros j N; rewrite A6 by exact N; now apply O|]. split; [congruence|exact A8].
Qed.

Lemma inv_init c : inv c init_state.
Proof. reflexivity. Qed.

(* ====================================================================================== *)
(* events posted by handlers: dispatch and the queue                                      *)

Lemma dispatch_spec c s e :
  view s = Some (cur s) ->
  let s' := fst (fst (dispatch c s e)) in
  same_ctl s s' /\ others_same (cur s) s s' /\ length (players s') = length (players s)
  /\ (loaded c (store_of s (cur s)) -> loaded c (store_of s' (cur s))).
Proof.
  intros V. unfold dispatch. rewrite V.
  destruct (device_handle c (store_of s (cur s)) e) as [ws posted].
  pose proof (write_to_spec (cur s) ws s) as (C1 & O1 & L1).
  assert (S1 : forall st, nth_error (players s) (cur s) = Some st ->
               store_of (fst (write_to (cur s) ws s)) (cur s) = fst (apply_writes_store (cur s) st ws))
    by (intros; now apply write_to_store).
  destruct (write_to (cur s) ws s) as [s1 e1]. cbn in C1, O1, L1, S1.
  pose proof (write_to_spec (cur s1) (vp_writes c e) s1) as (C2 & O2 & L2).
  assert (S2 : forall st, nth_error (players s1) (cur s1) = Some st ->
               store_of (fst (write_to (cur s1) (vp_writes c e) s1)) (cur s1)
               = fst (apply_writes_store (cur s1) st (vp_writes c e)))
    by (intros; now apply write_to_store).
  destruct (write_to (cur s1) (vp_writes c e) s1) as [s2 e2]. cbn in *.
  assert (Ec : cur s1 = cur s) by apply C1. rewrite Ec in *.
  split; [eapply same_ctl_trans; eauto|]. split; [eapply others_same_trans; eauto|]. split; [lia|].
  intros Ld.
  destruct (nth_error (players s) (cur s)) as [st|] eqn:E.
  - specialize (S1 st eq_refl).
    assert (E1 : nth_error (players s1) (cur s) = Some (store_of s1 (cur s))).
    { unfold store_of. destruct (nth_error (players s1) (cur s)) eqn:E1; [reflexivity|].
      apply nth_error_None in E1. assert (cur s < length (players s))%nat by (apply nth_error_Some; congruence). lia. }
    rewrite (S2 _ E1). apply loaded_write. rewrite S1. apply loaded_write.
    now rewrite <- (store_of_nth _ _ _ E).
  - assert (E1 : nth_error (players s1) (cur s) = None)
      by (apply nth_error_None; apply nth_error_None in E; lia).
    assert (E2 : nth_error (players s2) (cur s) = None)
      by (apply nth_error_None; apply nth_error_None in E; lia).
    unfold store_of in *. now rewrite E2; rewrite E in Ld.
Qed.

Lemma run_queue_spec c : forall fuel s q,
  view s = Some (cur s) ->
  let s' := fst (run_queue fuel c s q) in
  same_ctl s s' /\ others_same (cur s) s s' /\ length (players s') = length (players s)
  /\ (loaded c (store_of s (cur s)) -> loaded c (store_of s' (cur s))).
Proof.
  induction fuel as [|f IH]; intros s q V; cbn.
  - split; [apply same_ctl_refl|]. split; [apply others_same_refl|]. split; [reflexivity|auto].
  - destruct q as [|e r].
    + cbn. split; [apply same_ctl_refl|]. split; [apply others_same_refl|]. split; [reflexivity|auto].
    + pose proof (dispatch_spec c s e V) as (C1 & O1 & L1 & D1).
      destruct (dispatch c s e) as [[s1 e1] posted]. cbn in C1, O1, L1, D1.
      assert (V1 : view s1 = Some (cur s1)).
      { destruct C1 as (a & _ & _ & _ & b). congruence. }
      specialize (IH s1 (r ++ posted) V1). cbn in IH. destruct IH as (C2 & O2 & L2 & D2).
      destruct (run_queue f c s1 (r ++ posted)) as [s2 e2]. cbn in *.
      assert (Ec : cur s1 = cur s) by apply C1. rewrite Ec in *.
      split; [eapply same_ctl_trans; eauto|]. split; [eapply others_same_trans; eauto|]. split; [lia|auto].
Qed.

(* ====================================================================================== *)
(* persisted device state                                                                 *)

Definition persist_keys (c : cfg) : list name :=
  map c_var (counters c) ++ map a_var (accruals c) ++ flat_map (fun x => [s_var x; s_envar x]) (shots c).

(* the configuration does not keep device state in the variables the game loop itself writes *)
Definition cfg_ok (c : cfg) : bool :=
  forallb (fun k => negb (k =? n_ball) && negb (k =? n_extra_balls)) (persist_keys c).

Definition persisted (c : cfg) (st st' : store) : Prop :=
  forall k, In k (persist_keys c) -> lookup k st' = lookup k st.

Lemma persisted_refl c st : persisted c st st.
Proof. intros k _. reflexivity. Qed.
Lemma persisted_trans c a b d : persisted c a b -> persisted c b d -> persisted c a d.
Proof. intros H1 H2 k Hk. rewrite H2, H1; auto. Qed.

Lemma cfg_ok_keys c k : cfg_ok c = true -> In k (persist_keys c) -> k <> n_ball /\ k <> n_extra_balls.
Proof.
  unfold cfg_ok. intros H Hk. rewrite forallb_forall in H. specialize (H k Hk).
  apply andb_true_iff in H as [H1 H2].
  apply negb_true_iff in H1, H2. apply Z.eqb_neq in H1, H2. auto.
Qed.

Lemma persisted_one c i st x v :
  cfg_ok c = true -> (x = n_ball \/ x = n_extra_balls) ->
  persisted c st (fst (apply_writes_store i st [WAdd x v])).
Proof.
  intros OK Hx k Hk. apply apply_writes_store_other. constructor; [|constructor]. cbn.
  destruct (cfg_ok_keys c k OK Hk) as [N1 N2]. destruct Hx; congruence.
Qed.

Lemma start_turn_persist c s :
  (cur s < length (players s))%nat -> cfg_ok c = true -> loaded c (store_of s (cur s)) ->
  persisted c (store_of s (cur s)) (store_of (fst (start_turn c s)) (cur s)).
Proof.
  intros L OK Ld. unfold start_turn.
  destruct (nth_error_lt _ _ L) as (st & E).
  pose proof (write_to_spec (cur s) [WAdd n_ball (VInt 1)] s) as (C & O & Len).
  pose proof (write_to_store (cur s) [WAdd n_ball (VInt 1)] s st E) as S1.
  destruct (write_to (cur s) [WAdd n_ball (VInt 1)] s) as [s1 e1]. cbn [fst] in C, O, Len, S1.
  destruct C as (C1 & C2 & C3 & C4 & C5).
  set (s2 := set_mplayer s1 (Some (cur s1))).
  assert (M : mplayer s2 = Some (cur s)) by (cbn; congruence).
  assert (L2 : (cur s < length (players s2))%nat) by (cbn; lia).
  pose proof (mode_start_spec c s2 (cur s) M L2) as (_ & _ & _ & _ & _ & _ & _ & _ & A9).
  destruct (mode_start c s2) as [s3 e3]. cbn [fst] in *. rewrite A9.
  assert (S2 : store_of s2 (cur s) = store_of s1 (cur s)) by reflexivity. rewrite S2, S1.
  rewrite (store_of_nth _ _ _ E) in *.
  rewrite load_writes_nil by (now apply loaded_write). cbn [apply_writes_store fst].
  apply persisted_one; auto.
Qed.

(* ====================================================================================== *)
(* one operation                                                                          *)

Definition frame_step (s s' : state) : Prop :=
  forall j st, j <> cur s -> j <> cur s' ->
    nth_error (players s) j = Some st -> nth_error (players s') j = Some st.

Definition persist_step (c : cfg) (s s' : state) (o : op) : Prop :=
  cfg_ok c = true -> forall i, (i < length (players s))%nat -> loaded c (store_of s i) ->
    (cur s = i -> forall e, o <> Post e) ->
    persisted c (store_of s i) (store_of s' i) /\ loaded c (store_of s' i).

Definition step_ok (c : cfg) (s s' : state) (o : op) : Prop :=
  inv c s' /\
  (ingame s = true -> ingame s' = true ->
   (length (players s) <= length (players s'))%nat /\ frame_step s s' /\ persist_step c s s' o).

Lemma inv_ingame c s : inv c s -> ingame s = true ->
  view s = Some (cur s) /\ mplayer s = Some (cur s) /\ (cur s < length (players s))%nat
  /\ loaded c (store_of s (cur s)).
Proof. unfold inv. intros H G. now rewrite G in H. Qed.

Lemma others_frame i s s' : others_same i s s' -> forall j st, j <> i ->
  nth_error (players s) j = Some st -> nth_error (players s') j = Some st.
Proof. intros O j st N E. now rewrite O. Qed.

Lemma end_ball_ok c s o :
  inv c s -> ingame s = true -> (forall e, o <> Post e) -> step_ok c s (fst (end_ball c s)) o.
Proof.
  intros I G NP. destruct (inv_ingame c s I G) as (V & M & L & Ld).
  destruct (nth_error_lt _ _ L) as (st & E).
  unfold end_ball, mode_stop.
  change (cur (set_view s None)) with (cur s).
  change (store_of (set_view s None) (cur s)) with (store_of s (cur s)).
  rewrite (store_of_nth _ _ _ E).
  destruct (truthy (getvar n_extra_balls st)).
  - (* extra ball: same player shoots again *)
    set (s0 := set_view s None).
    pose proof (write_to_spec (cur s) [WAdd n_extra_balls (VInt (-1))] s0) as (C & O & Len).
    pose proof (write_to_store (cur s) [WAdd n_extra_balls (VInt (-1))] s0 st E) as S1.
    destruct (write_to (cur s) [WAdd n_extra_balls (VInt (-1))] s0) as [s1 e1]. cbn [fst] in C, O, Len, S1.
    destruct C as (C1 & C2 & C3 & C4 & C5). cbn in C1, C2, C3, C4, C5, Len.
    assert (M1 : mplayer s1 = Some (cur s)) by congruence.
    assert (L1 : (cur s < length (players s1))%nat) by lia.
    pose proof (mode_start_spec c s1 (cur s) M1 L1) as (A1 & A2 & A3 & A4 & A5 & A6 & A7 & A8 & A9).
    destruct (mode_start c s1) as [s2 e2]. cbn [fst] in *.
    assert (G2 : ingame s2 = true) by congruence.
    assert (Cu : cur s2 = cur s) by congruence.
    split.
    + unfold inv. rewrite G2, Cu. split; [congruence|]. split; [congruence|]. split; [lia|exact A8].
    + intros _ _. split; [lia|]. split.
      * intros j x N1 N2 Ej. rewrite A6 by exact N1. now rewrite O.
      * intros OK i Li Ldi _. destruct (Nat.eq_dec i (cur s)) as [->|N].
        -- rewrite A9, S1. rewrite (store_of_nth _ _ _ E) in *.
           pose proof (loaded_write (cur s) st [WAdd n_extra_balls (VInt (-1))] c Ld) as LW.
           rewrite (load_writes_nil _ _ LW). cbn [apply_writes_store fst].
           split; [apply persisted_one; auto|exact LW].
        -- assert (Es : store_of s2 i = store_of s i).
           { unfold store_of. rewrite A6 by exact N. now rewrite O. }
           rewrite Es. split; [apply persisted_refl|exact Ldi].
  - (* the turn ends *)
    cbn [set_mplayer set_view players ending].
    destruct (ending s || (bpg c <=? as_int (getvar n_ball st))
                          && (as_int (getvar n_number st) =? Z.of_nat (length (players s)))) eqn:GO.
    + cbn. split; [apply inv_init|]. intros _ F. discriminate F.
    + set (nxt := if as_int (getvar n_number st) <? Z.of_nat (length (players s))
                  then Z.to_nat (as_int (getvar n_number st)) else 0%nat).
      set (s1 := set_cur (set_mplayer (set_view s None) None) nxt).
      assert (Ln : (nxt < length (players s1))%nat).
      { cbn. unfold nxt. destruct (as_int (getvar n_number st) <? Z.of_nat (length (players s))) eqn:Q; [|lia].
        apply Z.ltb_lt in Q. lia. }
      pose proof (start_turn_spec c s1 Ln) as (B1 & B2 & B3 & B4 & B5 & B6 & B7 & B8).
      pose proof (start_turn_persist c s1 Ln) as PS.
      destruct (start_turn c s1) as [s2 e2]. cbn in *.
      split.
      * unfold inv. rewrite B4, G. rewrite B3. repeat split; try assumption. lia.
      * intros _ _. split; [lia|]. split.
        -- intros j x N1 N2 Ej. rewrite B3 in N2. now rewrite B6.
        -- intros OK i Li Ldi _. destruct (Nat.eq_dec i nxt) as [->|N].
           ++ split; [now apply PS|exact B8].
           ++ assert (Es : store_of s2 i = store_of s i) by (unfold store_of; now rewrite B6).
              rewrite Es. split; [apply persisted_refl|exact Ldi].
Qed.

Lemma step_ok_all c s o : inv c s -> step_ok c s (fst (step c s o)) o.
Proof.
  intros I. destruct o as [|e| |]; cbn [step].
  - (* Start *)
    destruct (ingame s) eqn:G.
    + destruct (inv_ingame c s I G) as (V & M & L & Ld).
      destruct (negb (ending s) && (Z.of_nat (length (players s)) <? maxp c)
                && negb (1 <? as_int (getvar n_ball (store_of s (cur s))))).
      * cbn. assert (Sx : forall i, (i < length (players s))%nat ->
                       store_of (set_players s (players s ++ [fresh_player c (length (players s))])) i
                       = store_of s i).
        { intros i Li. unfold store_of. cbn. now rewrite nth_error_app1. }
        split.
        -- unfold inv. cbn. rewrite G. repeat split; try assumption.
           ++ rewrite app_length. cbn. lia.
           ++ rewrite Sx by exact L. exact Ld.
        -- intros _ _. split; [cbn; rewrite app_length; cbn; lia|]. split.
           ++ intros j x _ _ Ej. cbn. rewrite nth_error_app1; [exact Ej|]. apply nth_error_Some. congruence.
           ++ intros OK i Li Ldi _. rewrite Sx by exact Li. split; [apply persisted_refl|exact Ldi].
      * cbn. split; [exact I|]. intros _ _. split; [lia|]. split.
        -- intros j x _ _ Ej. exact Ej.
        -- intros OK i Li Ldi _. split; [apply persisted_refl|exact Ldi].
    + set (s0 := mkSt [] 0 true false None None).
      destruct (add_player c s0) as [s1 e1] eqn:A.
      unfold add_player in A. injection A as A1 A2.
      assert (L1 : (cur s1 < length (players s1))%nat) by (subst s1; cbn; lia).
      assert (G1 : ingame s1 = true) by (subst s1; reflexivity).
      pose proof (start_turn_spec c s1 L1) as (B1 & B2 & B3 & B4 & B5 & B6 & B7 & B8).
      destruct (start_turn c s1) as [s2 e2]. cbn [fst] in *.
      split; [|intros F; congruence].
      unfold inv. rewrite B4, G1, B3. split; [exact B1|]. split; [exact B2|]. split; [lia|exact B8].
  - (* Post *)
    destruct (ingame s) eqn:G.
    + destruct (inv_ingame c s I G) as (V & M & L & Ld).
      pose proof (run_queue_spec c 8 s [e] V) as (C & O & Len & D).
      destruct (run_queue 8 c s [e]) as [s1 e1]. cbn in *.
      destruct C as (C1 & C2 & C3 & C4 & C5).
      split.
      * unfold inv. rewrite C2, G, C1. split; [congruence|]. split; [congruence|]. split; [lia|auto].
      * intros _ _. split; [lia|]. split.
        -- intros j x N1 _ Ej. now rewrite O.
        -- intros OK i Li Ldi NP. destruct (Nat.eq_dec (cur s) i) as [Ei|N].
           ++ exfalso. exact (NP Ei e eq_refl).
           ++ assert (Es : store_of s1 i = store_of s i) by (unfold store_of; rewrite O; auto).
              rewrite Es. split; [apply persisted_refl|exact Ldi].
    + cbn. split; [exact I|]. intros F; congruence.
  - (* Drain *)
    destruct (ingame s) eqn:G.
    + apply end_ball_ok; auto. discriminate.
    + cbn. split; [exact I|]. intros F; congruence.
  - (* EndGame *)
    destruct (ingame s) eqn:G.
    + assert (I2 : inv c (set_ending s true)) by (unfold inv in *; cbn; rewrite G in *; exact I).
      pose proof (end_ball_ok c (set_ending s true) EndGame I2 G) as (A & B); [discriminate|].
      split; [exact A|]. intros _ G2. exact (B G G2).
    + cbn. split; [exact I|]. intros F; congruence.
Qed.

(* ====================================================================================== *)
(* histories                                                                              *)

Fixpoint run (c : cfg) (s : state) (ops : list op) : state :=
  match ops with
  | [] => s
  | o :: r => run c (fst (step c s o)) r
  end.

Lemma run_inv c : forall ops s, inv c s -> inv c (run c s ops).
Proof.
  induction ops as [|o r IH]; intros s I; cbn; [exact I|].
  apply IH. apply (step_ok_all c s o I).
Qed.

Lemma reachable_inv_l c ops : inv c (run c init_state ops).
Proof. apply run_inv, inv_init. Qed.

(* in every reachable state of a running game the devices of the game mode are bound to the
   current player *)
Lemma view_is_current_l c ops :
  let s := run c init_state ops in ingame s = true -> view s = Some (cur s) /\ mplayer s = Some (cur s).
Proof.
  intros s G. pose proof (reachable_inv_l c ops) as I. fold s in I.
  destruct (inv_ingame c s I G) as (V & M & _). auto.
Qed.

(* "during player i's turn": after every operation the game is running and i is the current player *)
Fixpoint turn_of (i : nat) (c : cfg) (s : state) (ops : list op) : Prop :=
  match ops with
  | [] => True
  | o :: r => let s' := fst (step c s o) in ingame s' = true /\ cur s' = i /\ turn_of i c s' r
  end.

Lemma other_player_frame_l c : forall ops s i,
  inv c s -> ingame s = true -> cur s = i -> turn_of i c s ops ->
  forall j st, j <> i -> nth_error (players s) j = Some st ->
               nth_error (players (run c s ops)) j = Some st.
Proof.
  induction ops as [|o r IH]; intros s i I G C T j st N E; cbn; [exact E|].
  cbn in T. destruct T as (G' & C' & T').
  destruct (step_ok_all c s o I) as (I' & K). destruct (K G G') as (_ & F & _).
  eapply IH; eauto. apply F; congruence.
Qed.

(* one operation, any player that is neither the one whose turn it was nor the one whose turn it is *)
Lemma step_frame_l c s o : inv c s -> ingame s = true -> ingame (fst (step c s o)) = true ->
  forall j st, j <> cur s -> j <> cur (fst (step c s o)) ->
    nth_error (players s) j = Some st -> nth_error (players (fst (step c s o))) j = Some st.
Proof.
  intros I G G'. destruct (step_ok_all c s o I) as (_ & K). destruct (K G G') as (_ & F & _). exact F.
Qed.

(* ---- restore --------------------------------------------------------------------------- *)
Definition reads_of (c : cfg) (st : store) : list (option value) :=
  map (fun x => lookup (c_var x) st) (counters c)
  ++ map (fun x => lookup (a_var x) st) (accruals c)
  ++ flat_map (fun x => [Some (getvar (s_var x) st); Some (getvar (s_envar x) st)]) (shots c).

Lemma reads_view c s v : view s = Some v -> reads c s = reads_of c (store_of s v).
Proof. intros V. unfold reads. now rewrite V. Qed.

Lemma reads_of_persisted c st st' : persisted c st st' -> reads_of c st' = reads_of c st.
Proof.
  intros P. unfold reads_of. f_equal; [|f_equal].
  - apply map_ext_in. intros x Hx. apply P. unfold persist_keys. apply in_or_app; left. now apply in_map.
  - apply map_ext_in. intros x Hx. apply P. unfold persist_keys.
    apply in_or_app; right; apply in_or_app; left. now apply in_map.
  - rewrite !flat_map_concat_map. f_equal. apply map_ext_in. intros x Hx.
    assert (A : In (s_var x) (persist_keys c)).
    { unfold persist_keys. apply in_or_app; right; apply in_or_app; right.
      apply in_flat_map. exists x. split; [exact Hx|now left]. }
    assert (B : In (s_envar x) (persist_keys c)).
    { unfold persist_keys. apply in_or_app; right; apply in_or_app; right.
      apply in_flat_map. exists x. split; [exact Hx|right; now left]. }
    unfold getvar. now rewrite (P _ A), (P _ B).
Qed.

(* along the history, nothing but hand-over happens while it is player i's turn: progress events
   (Post) are only delivered during other players' turns *)
Fixpoint quiet_for (i : nat) (c : cfg) (s : state) (ops : list op) : Prop :=
  match ops with
  | [] => True
  | o :: r => let s' := fst (step c s o) in
              (cur s = i -> forall e, o <> Post e) /\ ingame s' = true /\ quiet_for i c s' r
  end.

Lemma persisted_along c : cfg_ok c = true -> forall ops s i,
  inv c s -> ingame s = true -> (i < length (players s))%nat -> loaded c (store_of s i) ->
  quiet_for i c s ops ->
  persisted c (store_of s i) (store_of (run c s ops) i).
Proof.
  intros OK. induction ops as [|o r IH]; intros s i I G L Ld Q; cbn; [apply persisted_refl|].
  cbn in Q. destruct Q as (NP & G' & Q').
  destruct (step_ok_all c s o I) as (I' & K). destruct (K G G') as (Len & _ & P).
  destruct (P OK i L Ld NP) as (P1 & Ld1).
  eapply persisted_trans; [exact P1|]. apply IH; auto. lia.
Qed.

Lemma restore_exact_l c : cfg_ok c = true -> forall ops s i,
  inv c s -> ingame s = true -> cur s = i -> quiet_for i c s ops ->
  ingame (run c s ops) = true -> cur (run c s ops) = i ->
  reads c (run c s ops) = reads c s.
Proof.
  intros OK ops s i I G C Q G' C'. subst i.
  destruct (inv_ingame c s I G) as (V & _ & L & Ld).
  pose proof (run_inv c ops s I) as I'.
  destruct (inv_ingame c _ I' G') as (V' & _).
  rewrite (reads_view c _ _ V'), (reads_view c _ _ V), C'.
  apply reads_of_persisted. apply persisted_along; auto.
Qed.

(* ---- new game ---------------------------------------------------------------------------- *)
Lemma new_game_independent_l c s1 s2 :
  ingame s1 = false -> ingame s2 = false -> step c s1 Start = step c s2 Start.
Proof. intros H1 H2. cbn. now rewrite H1, H2. Qed.

Definition first_store (c : cfg) : store :=
  let st1 := fst (apply_writes_store 0 (fresh_player c 0) [WAdd n_ball (VInt 1)]) in
  fst (apply_writes_store 0 st1 (load_writes c st1)).

Lemma new_game_initial_l c s :
  ingame s = false ->
  let s' := fst (step c s Start) in
  players s' = [first_store c] /\ cur s' = 0%nat /\ ingame s' = true /\ ending s' = false
  /\ view s' = Some 0%nat.
Proof.
  intros H. cbn [step]. rewrite H.
  unfold add_player. cbn [players length app set_players].
  unfold start_turn, write_to, apply_writes. cbn [players cur nth_error set_players].
  destruct (apply_writes_store 0 (fresh_player c 0) [WAdd n_ball (VInt 1)]) as [st1 e1] eqn:A.
  cbn [upd_nth set_players players cur set_mplayer mode_start mplayer].
  unfold write_to, apply_writes, store_of. cbn [players nth_error].
  destruct (apply_writes_store 0 st1 (load_writes c st1)) as [st2 e2] eqn:B.
  cbn. unfold first_store. rewrite A. cbn [fst]. rewrite B. auto.
Qed.

Lemma added_player_fresh_l c s :
  ingame s = true ->
  let s' := fst (step c s Start) in
  players s' = players s \/ players s' = players s ++ [fresh_player c (length (players s))].
Proof.
  intros H. cbn [step]. rewrite H.
  destruct (negb (ending s) && (Z.of_nat (length (players s)) <? maxp c)
            && negb (1 <? as_int (getvar n_ball (store_of s (cur s))))); cbn; auto.
Qed.

(* ====================================================================================== *)
(* player_<var> events                                                                    *)

Definition is_absent (x : name) (st : store) : bool :=
  match lookup x st with None => true | Some _ => false end.

(* one assignment: the variable holds the new value, nothing else changes, and exactly one event is
   posted iff the value is an int/str/float and it is a new variable or an effective change *)
Lemma assign_exact_l i st x v :
  let prev := getvar x st in
  let change := change_of v prev in
  lookup x (fst (assign i st x v)) = Some v
  /\ (forall y, y <> x -> lookup y (fst (assign i st x v)) = lookup y st)
  /\ snd (assign i st x v)
     = if simple v && (truthy change || is_absent x st)
       then [mkEv i x v prev change (numvar (sset x v st)) (is_absent x st) false]
       else [].
Proof.
  cbn zeta. split; [rewrite assign_store; apply lookup_sset_same|].
  split; [intros y N; rewrite assign_store; apply lookup_sset_other; congruence|].
  unfold assign, getvar, is_absent. destruct (lookup x st) as [p|]; cbn [snd];
    rewrite (andb_comm (simple v));
    match goal with |- context [if ?b then _ else _] => destruct b end; reflexivity.
Qed.

Lemma change_int a b : change_of (VInt a) (VInt b) = VInt (a - b).
Proof.
  unfold change_of, py_sub. cbn [num8 orb mknum]. f_equal.
  replace (8 * a - 8 * b) with ((a - b) * 8) by lia. apply Z.div_mul. lia.
Qed.
Lemma change_float a b : change_of (VF8 a) (VF8 b) = VF8 (a - b).
Proof. reflexivity. Qed.
Lemma change_str a b : change_of (VStr a) (VStr b) = VBool (negb (zs_eqb b a)).
Proof. reflexivity. Qed.

(* no event for a no-op assignment of an int / float / str to an existing variable of the same kind,
   and always an event otherwise *)
Lemma assign_int_noop_iff i st x a b :
  lookup x st = Some (VInt b) -> (snd (assign i st x (VInt a)) = [] <-> a = b).
Proof.
  intros L. destruct (assign_exact_l i st x (VInt a)) as (_ & _ & E). rewrite E.
  unfold getvar, is_absent. rewrite L, change_int. cbn.
  destruct (a - b =? 0) eqn:Q; cbn.
  - apply Z.eqb_eq in Q. split; [lia|reflexivity].
  - apply Z.eqb_neq in Q. split; [discriminate|lia].
Qed.
Lemma assign_float_noop_iff i st x a b :
  lookup x st = Some (VF8 b) -> (snd (assign i st x (VF8 a)) = [] <-> a = b).
Proof.
  intros L. destruct (assign_exact_l i st x (VF8 a)) as (_ & _ & E). rewrite E.
  unfold getvar, is_absent. rewrite L, change_float. cbn.
  destruct (a - b =? 0) eqn:Q; cbn.
  - apply Z.eqb_eq in Q. split; [lia|reflexivity].
  - apply Z.eqb_neq in Q. split; [discriminate|lia].
Qed.
Lemma assign_str_noop_iff i st x a b :
  lookup x st = Some (VStr b) -> (snd (assign i st x (VStr a)) = [] <-> a = b).
Proof.
  intros L. destruct (assign_exact_l i st x (VStr a)) as (_ & _ & E). rewrite E.
  unfold getvar, is_absent. rewrite L, change_str. cbn.
  destruct (zs_eqb b a) eqn:Q; cbn.
  - apply zs_eqb_spec in Q. split; [congruence|reflexivity].
  - split; [discriminate|]. intros ->. rewrite (proj2 (zs_eqb_spec b b) eq_refl) in Q. discriminate.
Qed.
(* a new variable always posts (also when its first value is 0) *)
Lemma assign_new_posts i st x v :
  lookup x st = None -> simple v = true ->
  snd (assign i st x v) = [mkEv i x v (VInt 0) (change_of v (VInt 0)) (numvar (sset x v st)) true false].
Proof.
  intros L S. destruct (assign_exact_l i st x v) as (_ & _ & E). rewrite E.
  unfold getvar, is_absent. rewrite L, S, orb_true_r. reflexivity.
Qed.
(* objects (LogicBlockState, lists) never post *)
Lemma assign_object_silent i st x v : simple v = false -> snd (assign i st x v) = [].
Proof.
  intros S. destruct (assign_exact_l i st x v) as (_ & _ & E). rewrite E, S. reflexivity.
Qed.

(* every event a history ever posts is well-formed *)
Definition ev_ok (e : event) : Prop :=
  simple (ev_value e) = true /\
  if ev_announce e
  then ev_prev e = ev_value e /\ ev_change e = (if is_str (ev_value e) then VBool false else VInt 0)
  else ev_change e = change_of (ev_value e) (ev_prev e)
       /\ (truthy (ev_change e) = true \/ ev_new e = true)
       /\ (ev_new e = true -> ev_prev e = VInt 0).

Definition evs_ok (i : nat) (l : list event) : Prop := Forall (fun e => ev_ok e /\ ev_idx e = i) l.

Lemma assign_ok i st x v : evs_ok i (snd (assign i st x v)).
Proof.
  destruct (assign_exact_l i st x v) as (_ & _ & E). rewrite E.
  destruct (simple v) eqn:S; cbn [andb]; [|constructor].
  destruct (truthy (change_of v (getvar x st)) || is_absent x st) eqn:T; [|constructor].
  constructor; [|constructor]. split; [|reflexivity]. split; [exact S|]. cbn.
  split; [reflexivity|]. split.
  - apply orb_true_iff in T. destruct T; auto.
  - unfold is_absent, getvar. destruct (lookup x st); [discriminate|reflexivity].
Qed.

Lemma apply_writes_store_ok i : forall ws st, evs_ok i (snd (apply_writes_store i st ws)).
Proof.
  induction ws as [|w ws IH]; intros st; cbn; [constructor|].
  destruct (apply_write i st w) as [st1 e1] eqn:E1.
  specialize (IH st1). destruct (apply_writes_store i st1 ws) as [st2 e2]. cbn in *.
  apply Forall_app. split; [|exact IH].
  change e1 with (snd (st1, e1)). rewrite <- E1.
  destruct w as [x v|x v]; cbn; [apply assign_ok|].
  destruct (py_add (getvar x st) v); [apply assign_ok|constructor].
Qed.

Definition all_ok (l : list event) : Prop := Forall ev_ok l.

Lemma evs_ok_all i l : evs_ok i l -> all_ok l.
Proof. intros H. eapply Forall_impl; [|exact H]. now intros e [A _]. Qed.

Lemma write_to_ok i ws s : evs_ok i (snd (write_to i ws s)).
Proof.
  unfold write_to, apply_writes. destruct (nth_error (players s) i) as [st|]; [|constructor].
  pose proof (apply_writes_store_ok i ws st) as H.
  destruct (apply_writes_store i st ws). exact H.
Qed.

Lemma mode_start_ok c s : all_ok (snd (mode_start c s)).
Proof.
  unfold mode_start. destruct (mplayer s) as [p|]; [|constructor].
  pose proof (write_to_ok p (load_writes c (store_of s p)) s) as H.
  destruct (write_to p (load_writes c (store_of s p)) s). cbn. eapply evs_ok_all, H.
Qed.

Lemma start_turn_ok c s : all_ok (snd (start_turn c s)).
Proof.
  unfold start_turn.
  pose proof (write_to_ok (cur s) [WAdd n_ball (VInt 1)] s) as H1.
  destruct (write_to (cur s) [WAdd n_ball (VInt 1)] s) as [s1 e1].
  pose proof (mode_start_ok c (set_mplayer s1 (Some (cur s1)))) as H2.
  destruct (mode_start c (set_mplayer s1 (Some (cur s1)))) as [s3 e3]. cbn in *.
  apply Forall_app. split; [eapply evs_ok_all, H1|exact H2].
Qed.

Lemma dispatch_ok c s e : all_ok (snd (fst (dispatch c s e))).
Proof.
  unfold dispatch. destruct (view s) as [v|]; [|constructor].
  destruct (device_handle c (store_of s v) e) as [ws posted].
  pose proof (write_to_ok v ws s) as H1. destruct (write_to v ws s) as [s1 e1].
  pose proof (write_to_ok (cur s1) (vp_writes c e) s1) as H2.
  destruct (write_to (cur s1) (vp_writes c e) s1) as [s2 e2]. cbn in *.
  apply Forall_app. split; eapply evs_ok_all; eauto.
Qed.

Lemma run_queue_ok c : forall fuel s q, all_ok (snd (run_queue fuel c s q)).
Proof.
  induction fuel as [|f IH]; intros s q; cbn; [constructor|].
  destruct q as [|e r]; [constructor|].
  pose proof (dispatch_ok c s e) as H1. destruct (dispatch c s e) as [[s1 e1] posted].
  specialize (IH s1 (r ++ posted)). destruct (run_queue f c s1 (r ++ posted)) as [s2 e2]. cbn in *.
  apply Forall_app. split; assumption.
Qed.

Lemma announce_ok i st : all_ok (announce i st).
Proof.
  unfold announce, all_ok. apply Forall_forall. intros e H. apply in_flat_map in H as ([k v] & _ & H).
  destruct (simple v) eqn:S; [|destruct H]. destruct H as [<-|[]]. split; [exact S|]. cbn. auto.
Qed.

Lemma end_ball_ok_events c s : all_ok (snd (end_ball c s)).
Proof.
  unfold end_ball.
  destruct (truthy (getvar n_extra_balls (store_of (mode_stop s) (cur (mode_stop s))))).
  - pose proof (write_to_ok (cur (mode_stop s)) [WAdd n_extra_balls (VInt (-1))] (mode_stop s)) as H1.
    destruct (write_to (cur (mode_stop s)) [WAdd n_extra_balls (VInt (-1))] (mode_stop s)) as [s1 e1].
    pose proof (mode_start_ok c s1) as H2. destruct (mode_start c s1) as [s2 e2]. cbn in *.
    apply Forall_app. split; [eapply evs_ok_all, H1|exact H2].
  - match goal with |- context [if ?b then _ else _] => destruct b end; [constructor|apply start_turn_ok].
Qed.

Lemma step_events_ok_l c s o : all_ok (snd (step c s o)).
Proof.
  destruct o as [|e| |]; cbn [step].
  - destruct (ingame s).
    + match goal with |- context [if ?b then _ else _] => destruct b end; [apply announce_ok|constructor].
    + set (s0 := mkSt [] 0 true false None None).
      pose proof (announce_ok (length (players s0)) (fresh_player c (length (players s0)))) as H1.
      unfold add_player.
      pose proof (start_turn_ok c (set_players s0 (players s0 ++ [fresh_player c (length (players s0))]))) as H2.
      destruct (start_turn c (set_players s0 (players s0 ++ [fresh_player c (length (players s0))]))) as [s2 e2].
      cbn [snd] in *. apply Forall_app. split; assumption.
  - destruct (ingame s); [apply run_queue_ok|constructor].
  - destruct (ingame s); [apply end_ball_ok_events|constructor].
  - destruct (ingame s); [apply end_ball_ok_events|constructor].
Qed.

(* ====================================================================================== *)
(* examples: the hypotheses of the theorems are satisfiable on non-trivial states          *)

Definition ex_cfg : cfg :=
  mkCfg 2 4 [(10, VInt 5); (11, VStr [97])]
        [mkC 20 100 101 102 103 104 105 0 (Some 3) 1 false true true true]
        [mkA 30 [120; 121] 125 126 127 128 129 true true true]
        [mkS 40 41 140 141 142 143 144 145 3 false true]
        [mkVP 100 n_score true (VInt 10); mkVP 160 n_score true (VInt 100); mkVP 161 12 false (VStr [120]);
         mkVP 105 14 true (VInt 1000); mkVP 165 n_extra_balls true (VInt 1)].

(* two players; player 1 has counted twice and hit the shot *)
Definition ex_s : state := run ex_cfg init_state [Start; Start; Post 100; Post 100; Post 140].

Example ex_cfg_ok : cfg_ok ex_cfg = true.
Proof. reflexivity. Qed.

Example ex_s_shape :
  ingame ex_s = true /\ cur ex_s = 0%nat /\ length (players ex_s) = 2%nat
  /\ reads ex_cfg ex_s = [Some (VLB true false (LInt 2)); Some (VLB true false (LBools [false; false]));
                          Some (VInt 1); Some (VBool true)].
Proof. vm_compute. repeat split. Qed.

Example ex_inv : inv ex_cfg ex_s.
Proof. apply reachable_inv_l. Qed.

(* frame: player 1 keeps playing (the counter completes, bonus is awarded, score changes) *)
Example ex_frame_hyp :
  turn_of 0 ex_cfg ex_s [Post 100; Post 160; Post 161]
  /\ nth_error (players (run ex_cfg ex_s [Post 100; Post 160; Post 161])) 0 <> nth_error (players ex_s) 0
  /\ nth_error (players (run ex_cfg ex_s [Post 100; Post 160; Post 161])) 1 = nth_error (players ex_s) 1.
Proof.
  split; [vm_compute; repeat split|]. split; [vm_compute; discriminate|vm_compute; reflexivity].
Qed.

(* restore: player 1 drains, player 2 plays (completes the counter) and adds a third player, drains,
   player 3 plays and drains, player 1 is back *)
Definition ex_away : list op := [Drain; Post 100; Post 100; Post 100; Post 140; Start; Drain; Post 100; Drain].
Example ex_restore_hyp :
  quiet_for 0 ex_cfg ex_s ex_away
  /\ ingame (run ex_cfg ex_s ex_away) = true /\ cur (run ex_cfg ex_s ex_away) = 0%nat
  /\ nth_error (players (run ex_cfg ex_s ex_away)) 1 <> nth_error (players ex_s) 1
  /\ reads ex_cfg (run ex_cfg ex_s ex_away) = reads ex_cfg ex_s
  /\ reads ex_cfg (run ex_cfg ex_s [Drain]) <> reads ex_cfg ex_s.
Proof.
  split; [vm_compute; repeat split; intros Hc e H; try discriminate H; discriminate Hc|].
  split; [reflexivity|]. split; [reflexivity|]. split; [vm_compute; discriminate|].
  split; [reflexivity|vm_compute; discriminate].
Qed.

(* events: a new variable whose first value is 0 posts, a repeated set does not *)
Example ex_events :
  snd (assign 0 [(n_number, VInt 1)] 13 (VInt 0))
  = [mkEv 0 13 (VInt 0) (VInt 0) (VInt 0) (VInt 1) true false]
  /\ snd (assign 0 [(n_number, VInt 1); (13, VInt 0)] 13 (VInt 0)) = []
  /\ snd (assign 0 [(n_number, VInt 1); (13, VInt 7)] 13 (VStr [120]))
     = [mkEv 0 13 (VStr [120]) (VInt 7) (VBool true) (VInt 1) false false].
Proof. repeat split. Qed.

Example ex_new_game :
  ingame (run ex_cfg ex_s [EndGame]) = false
  /\ players (fst (step ex_cfg (run ex_cfg ex_s [EndGame]) Start)) = [first_store ex_cfg]
  /\ reads ex_cfg (fst (step ex_cfg (run ex_cfg ex_s [EndGame]) Start))
     = [Some (VLB true false (LInt 0)); Some (VLB true false (LBools [false; false]));
        Some (VInt 0); Some (VBool true)].
Proof. vm_compute. repeat split. Qed.

(* ====================================================================================== *)
(* the player number carried by events                                                    *)

Definition write_keys (c : cfg) : list name := persist_keys c ++ map vp_var (vps c).

(* the configuration never writes the built-in variable `number` *)
Definition cfg_num_ok (c : cfg) : bool := forallb (fun k => negb (k =? n_number)) (write_keys c).

Definition names_in (c : cfg) (ws : list write) : Prop := Forall (fun w => In (wname w) (write_keys c)) ws.
Definition names_ok (ws : list write) : Prop := Forall (fun w => wname w <> n_number) ws.

Lemma names_in_ok c ws : cfg_num_ok c = true -> names_in c ws -> names_ok ws.
Proof.
  unfold cfg_num_ok. intros H. rewrite forallb_forall in H. apply Forall_impl. intros w Hw.
  specialize (H _ Hw). apply negb_true_iff, Z.eqb_neq in H. exact H.
Qed.

Lemma in_pk_c c x : In x (counters c) -> In (c_var x) (write_keys c).
Proof. intros H. unfold write_keys, persist_keys. apply in_or_app; left. apply in_or_app; left. now apply in_map. Qed.
Lemma in_pk_a c x : In x (accruals c) -> In (a_var x) (write_keys c).
Proof.
  intros H. unfold write_keys, persist_keys. apply in_or_app; left. apply in_or_app; right.
  apply in_or_app; left. now apply in_map.
Qed.
Lemma in_pk_s c x : In x (shots c) -> In (s_var x) (write_keys c) /\ In (s_envar x) (write_keys c).
Proof.
  intros H. unfold write_keys, persist_keys.
  split; apply in_or_app; left; apply in_or_app; right; apply in_or_app; right;
    apply in_flat_map; exists x; (split; [exact H|]); [now left|right; now left].
Qed.

Lemma counter_handle_names x st e : Forall (fun w => wname w = c_var x) (fst (counter_handle x st e)).
Proof.
  unfold counter_handle, lb_complete.
  repeat match goal with
         | |- context [match ?t with _ => _ end] => destruct t
         end; cbn; repeat constructor.
Qed.

Lemma accrual_handle_names x st e : Forall (fun w => wname w = a_var x) (fst (accrual_handle x st e)).
Proof.
  unfold accrual_handle, lb_complete.
  repeat match goal with
         | |- context [match ?t with _ => _ end] => destruct t
         end; cbn; repeat constructor.
Qed.

Lemma shot_handle_names x st e :
  Forall (fun w => wname w = s_var x \/ wname w = s_envar x) (shot_handle x st e).
Proof.
  unfold shot_handle, shot_advance, shot_reset, shot_enable.
  repeat match goal with
         | |- context [if ?t then _ else _] => destruct t
         end; cbn; repeat first [apply Forall_nil | apply Forall_cons; [cbn; auto|]].
Qed.

Lemma device_handle_names c st e : names_in c (fst (device_handle c st e)).
Proof.
  unfold device_handle, names_in. cbn [fst]. rewrite !Forall_app. repeat split.
  - apply Forall_flat_map. apply Forall_forall. intros p Hp. apply in_map_iff in Hp as (x & <- & Hx).
    eapply Forall_impl; [|apply counter_handle_names]. intros w ->. now apply in_pk_c.
  - apply Forall_flat_map. apply Forall_forall. intros p Hp. apply in_map_iff in Hp as (x & <- & Hx).
    eapply Forall_impl; [|apply accrual_handle_names]. intros w ->. now apply in_pk_a.
  - apply Forall_concat. apply Forall_forall. intros p Hp. apply in_map_iff in Hp as (x & <- & Hx).
    eapply Forall_impl; [|apply shot_handle_names]. intros w [-> | ->]; now apply in_pk_s.
Qed.

Lemma vp_writes_names c e : names_in c (vp_writes c e).
Proof.
  unfold vp_writes, names_in. apply Forall_flat_map. apply Forall_forall. intros p Hp.
  destruct (vp_ev p =? e); [|constructor]. constructor; [|constructor].
  unfold write_keys. apply in_or_app; right.
  destruct (vp_add p); cbn; now apply in_map.
Qed.

Lemma load_writes_names c st : names_in c (load_writes c st).
Proof.
  unfold load_writes, names_in. rewrite !Forall_app. repeat split;
    apply Forall_flat_map; apply Forall_forall; intros x Hx.
  - destruct (lookup (c_var x) st); constructor; [|constructor]. now apply in_pk_c.
  - destruct (lookup (a_var x) st); constructor; [|constructor]. now apply in_pk_a.
  - destruct (lookup (s_envar x) st); constructor; [|constructor]. now apply in_pk_s.
Qed.

Definition numbers_ok (s : state) : Prop :=
  forall i st, nth_error (players s) i = Some st -> lookup n_number st = Some (VInt (Z.of_nat i + 1)).

Definition evs_num_ok (l : list event) : Prop :=
  Forall (fun e => ev_num e = VInt (Z.of_nat (ev_idx e) + 1)) l.

Lemma assign_num i st x v :
  x <> n_number -> lookup n_number st = Some (VInt (Z.of_nat i + 1)) -> evs_num_ok (snd (assign i st x v)).
Proof.
  intros N L. destruct (assign_exact_l i st x v) as (_ & _ & E). rewrite E.
  match goal with |- context [if ?b then _ else _] => destruct b end; [|constructor].
  constructor; [|constructor]. cbn. unfold numvar. rewrite lookup_sset_other by exact N. now rewrite L.
Qed.

Lemma apply_writes_store_num i : forall ws st,
  names_ok ws -> lookup n_number st = Some (VInt (Z.of_nat i + 1)) ->
  evs_num_ok (snd (apply_writes_store i st ws))
  /\ lookup n_number (fst (apply_writes_store i st ws)) = Some (VInt (Z.of_nat i + 1)).
Proof.
  induction ws as [|w ws IH]; intros st H L; cbn; [split; [constructor|exact L]|].
  inversion H as [|? ? Hw Hws]; subst.
  assert (L1 : lookup n_number (fst (apply_write i st w)) = Some (VInt (Z.of_nat i + 1)))
    by (rewrite apply_write_other; auto).
  assert (E1 : evs_num_ok (snd (apply_write i st w))).
  { destruct w as [x v|x v]; cbn in *; [now apply assign_num|].
    destruct (py_add (getvar x st) v); [now apply assign_num|constructor]. }
  destruct (apply_write i st w) as [st1 e1]. cbn [fst snd] in *.
  destruct (IH st1 Hws L1) as (E2 & L2).
  destruct (apply_writes_store i st1 ws) as [st2 e2]. cbn [fst snd] in *.
  split; [apply Forall_app; split; assumption|exact L2].
Qed.

Lemma write_to_num i ws s :
  names_ok ws -> numbers_ok s ->
  numbers_ok (fst (write_to i ws s)) /\ evs_num_ok (snd (write_to i ws s)).
Proof.
  intros H N. unfold write_to, apply_writes.
  destruct (nth_error (players s) i) as [st|] eqn:E; [|cbn; split; [exact N|constructor]].
  destruct (apply_writes_store_num i ws st H (N _ _ E)) as (E2 & L2).
  destruct (apply_writes_store i st ws) as [st' evs]. cbn [fst snd] in *.
  split; [|exact E2].
  intros j x Hj. cbn in Hj. destruct (Nat.eq_dec i j) as [<-|Nj].
  - rewrite (upd_nth_same _ _ _ _ E) in Hj. injection Hj as <-. exact L2.
  - rewrite upd_nth_other in Hj by exact Nj. now apply N.
Qed.

Lemma mode_start_num c s :
  cfg_num_ok c = true -> numbers_ok s ->
  numbers_ok (fst (mode_start c s)) /\ evs_num_ok (snd (mode_start c s)).
Proof.
  intros OK N. unfold mode_start. destruct (mplayer s) as [p|]; [|split; [exact N|constructor]].
  pose proof (write_to_num p (load_writes c (store_of s p)) s
                (names_in_ok c _ OK (load_writes_names c _)) N) as (A & B).
  destruct (write_to p (load_writes c (store_of s p)) s) as [s1 e1]. cbn in *. split; assumption.
Qed.

Lemma names_ok_builtin x v : x = n_ball \/ x = n_extra_balls -> names_ok [WAdd x v].
Proof. intros [-> | ->]; constructor; [discriminate|constructor|discriminate|constructor]. Qed.

Lemma start_turn_num c s :
  cfg_num_ok c = true -> numbers_ok s ->
  numbers_ok (fst (start_turn c s)) /\ evs_num_ok (snd (start_turn c s)).
Proof.
  intros OK N. unfold start_turn.
  pose proof (write_to_num (cur s) [WAdd n_ball (VInt 1)] s (names_ok_builtin _ _ (or_introl eq_refl)) N) as (A & B).
  destruct (write_to (cur s) [WAdd n_ball (VInt 1)] s) as [s1 e1]. cbn [fst snd] in *.
  assert (N2 : numbers_ok (set_mplayer s1 (Some (cur s1)))) by exact A.
  pose proof (mode_start_num c _ OK N2) as (A3 & B3).
  destruct (mode_start c (set_mplayer s1 (Some (cur s1)))) as [s3 e3]. cbn [fst snd] in *.
  split; [exact A3|apply Forall_app; split; assumption].
Qed.

Lemma dispatch_num c s e :
  cfg_num_ok c = true -> numbers_ok s ->
  numbers_ok (fst (fst (dispatch c s e))) /\ evs_num_ok (snd (fst (dispatch c s e))).
Proof.
  intros OK N. unfold dispatch. destruct (view s) as [v|]; [|split; [exact N|constructor]].
  pose proof (device_handle_names c (store_of s v) e) as HN.
  destruct (device_handle c (store_of s v) e) as [ws posted]. cbn [fst] in HN.
  pose proof (write_to_num v ws s (names_in_ok c _ OK HN) N) as (A1 & B1).
  destruct (write_to v ws s) as [s1 e1]. cbn [fst snd] in *.
  pose proof (write_to_num (cur s1) (vp_writes c e) s1 (names_in_ok c _ OK (vp_writes_names c e)) A1) as (A2 & B2).
  destruct (write_to (cur s1) (vp_writes c e) s1) as [s2 e2]. cbn [fst snd] in *.
  split; [exact A2|apply Forall_app; split; assumption].
Qed.

Lemma run_queue_num c : cfg_num_ok c = true -> forall fuel s q, numbers_ok s ->
  numbers_ok (fst (run_queue fuel c s q)) /\ evs_num_ok (snd (run_queue fuel c s q)).
Proof.
  intros OK. induction fuel as [|f IH]; intros s q N; cbn; [split; [exact N|constructor]|].
  destruct q as [|e r]; [split; [exact N|constructor]|].
  pose proof (dispatch_num c s e OK N) as (A1 & B1).
  destruct (dispatch c s e) as [[s1 e1] posted]. cbn [fst snd] in *.
  destruct (IH s1 (r ++ posted) A1) as (A2 & B2).
  destruct (run_queue f c s1 (r ++ posted)) as [s2 e2]. cbn [fst snd] in *.
  split; [exact A2|apply Forall_app; split; assumption].
Qed.

Lemma numbers_ok_init : numbers_ok init_state.
Proof. intros [|i] st H; discriminate H. Qed.

Lemma end_ball_num c s :
  cfg_num_ok c = true -> numbers_ok s ->
  numbers_ok (fst (end_ball c s)) /\ evs_num_ok (snd (end_ball c s)).
Proof.
  intros OK N. unfold end_ball.
  destruct (truthy (getvar n_extra_balls (store_of (mode_stop s) (cur (mode_stop s))))).
  - assert (N0 : numbers_ok (mode_stop s)) by exact N.
    pose proof (write_to_num (cur (mode_stop s)) [WAdd n_extra_balls (VInt (-1))] (mode_stop s)
                  (names_ok_builtin _ _ (or_intror eq_refl)) N0) as (A1 & B1).
    destruct (write_to (cur (mode_stop s)) [WAdd n_extra_balls (VInt (-1))] (mode_stop s)) as [s1 e1].
    cbn [fst snd] in *.
    pose proof (mode_start_num c s1 OK A1) as (A2 & B2). destruct (mode_start c s1) as [s2 e2].
    cbn [fst snd] in *. split; [exact A2|apply Forall_app; split; assumption].
  - match goal with |- context [if ?b then _ else _] => destruct b end.
    + split; [apply numbers_ok_init|constructor].
    + apply start_turn_num; [exact OK|exact N].
Qed.

Lemma announce_num c i : evs_num_ok (announce i (fresh_player c i)).
Proof.
  unfold announce, evs_num_ok. apply Forall_forall. intros e H. apply in_flat_map in H as ([k v] & _ & H).
  destruct (simple v); [|destruct H]. destruct H as [<-|[]]. reflexivity.
Qed.

Lemma add_player_num c s :
  numbers_ok s -> numbers_ok (fst (add_player c s)) /\ evs_num_ok (snd (add_player c s)).
Proof.
  intros N. unfold add_player. cbn [fst snd]. split; [|apply announce_num].
  intros j st H. cbn in H. destruct (Nat.lt_ge_cases j (length (players s))) as [Lt|Ge].
  - rewrite nth_error_app1 in H by exact Lt. now apply N.
  - rewrite nth_error_app2 in H by exact Ge.
    destruct (j - length (players s))%nat as [|k] eqn:D; cbn in H; [|destruct k; discriminate H].
    injection H as <-. assert (j = length (players s)) by lia. subst j. reflexivity.
Qed.

Lemma step_num c s o :
  cfg_num_ok c = true -> numbers_ok s ->
  numbers_ok (fst (step c s o)) /\ evs_num_ok (snd (step c s o)).
Proof.
  intros OK N. destruct o as [|e| |]; cbn [step].
  - destruct (ingame s).
    + match goal with |- context [if ?b then _ else _] => destruct b end;
        [now apply add_player_num|split; [exact N|constructor]].
    + set (s0 := mkSt [] 0 true false None None).
      assert (N0 : numbers_ok s0) by (intros [|i] st H; discriminate H).
      pose proof (add_player_num c s0 N0) as (A1 & B1).
      destruct (add_player c s0) as [s1 e1]. cbn [fst snd] in *.
      pose proof (start_turn_num c s1 OK A1) as (A2 & B2).
      destruct (start_turn c s1) as [s2 e2]. cbn [fst snd] in *.
      split; [exact A2|apply Forall_app; split; assumption].
  - destruct (ingame s); [now apply run_queue_num|split; [exact N|constructor]].
  - destruct (ingame s); [now apply end_ball_num|split; [exact N|constructor]].
  - destruct (ingame s); [apply end_ball_num; [exact OK|exact N]|split; [exact N|constructor]].
Qed.

Lemma run_numbers_ok c : cfg_num_ok c = true -> forall ops s, numbers_ok s -> numbers_ok (run c s ops).
Proof.
  intros OK. induction ops as [|o r IH]; intros s N; cbn; [exact N|].
  apply IH. now apply step_num.
Qed.

(* every event of every operation of every history carries the number (index + 1) of the player whose
   variable changed *)
Lemma player_num_correct_l c : cfg_num_ok c = true -> forall ops o,
  Forall (fun e => ev_num e = VInt (Z.of_nat (ev_idx e) + 1)) (snd (step c (run c init_state ops) o)).
Proof.
  intros OK ops o. apply step_num; [exact OK|]. apply run_numbers_ok; [exact OK|apply numbers_ok_init].
Qed.

Example ex_cfg_num_ok : cfg_num_ok ex_cfg = true.
Proof. reflexivity. Qed.

(* ====================================================================================== *)
(* the events of a history form, per player and variable, an exact chain                   *)

Definition oget (b : option value) : value := match b with Some p => p | None => VInt 0 end.
Definition onew (b : option value) : bool := match b with None => true | Some _ => false end.

(* an assignment of v to a variable currently holding b that posts nothing: v is an object, or the
   variable exists and v - b is falsy (a no-op assignment) *)
Definition silent (b : option value) (v : value) : Prop :=
  simple v && (truthy (change_of v (oget b)) || onew b) = false.

Inductive quiet : option value -> option value -> Prop :=
| q_refl b : quiet b b
| q_step b v c : silent b v -> quiet (Some v) c -> quiet b c.

Lemma quiet_trans a b c : quiet a b -> quiet b c -> quiet a c.
Proof. induction 1; intros H2; [exact H2|]. eapply q_step; eauto. Qed.

(* chain j x b evs a: the player_<x> events of player j in evs lead from value b to value a: every such
   event carries the value held just before as prev_value (0 and new=true if there was none), the change
   value - prev_value, is an effective change or a new variable, and between events only silent
   assignments happen; after the last event the variable holds a (up to silent assignments) *)
Inductive chain (j : nat) (x : name) : option value -> list event -> option value -> Prop :=
| ch_nil b a : quiet b a -> chain j x b [] a
| ch_skip b e r a : (ev_idx e <> j \/ ev_name e <> x) -> chain j x b r a -> chain j x b (e :: r) a
| ch_ev b b' e r a :
    ev_idx e = j -> ev_name e = x -> quiet b b' ->
    ev_prev e = oget b' -> ev_new e = onew b' -> ev_announce e = false ->
    ev_change e = change_of (ev_value e) (ev_prev e) -> simple (ev_value e) = true ->
    (truthy (ev_change e) = true \/ onew b' = true) ->
    chain j x (Some (ev_value e)) r a -> chain j x b (e :: r) a.

Lemma chain_quiet_l j x b b' l a : quiet b b' -> chain j x b' l a -> chain j x b l a.
Proof.
  intros Q H. revert b Q. induction H; intros b0 Q.
  - apply ch_nil. eapply quiet_trans; eauto.
  - apply ch_skip; auto.
  - eapply ch_ev with (b' := b'); eauto. eapply quiet_trans; eauto.
Qed.

Lemma chain_app j x b l1 m l2 a : chain j x b l1 m -> chain j x m l2 a -> chain j x b (l1 ++ l2) a.
Proof.
  intros H. revert l2 a. induction H; intros l2 a2 HH; cbn.
  - eapply chain_quiet_l; eauto.
  - apply ch_skip; auto.
  - eapply ch_ev; eauto.
Qed.

Lemma chain_skip_all j x b l : Forall (fun e => ev_idx e <> j) l -> chain j x b l b.
Proof.
  induction 1; [apply ch_nil, q_refl|]. apply ch_skip; auto.
Qed.

Lemma assign_chain i st x v y :
  chain i y (lookup y st) (snd (assign i st x v)) (lookup y (fst (assign i st x v))).
Proof.
  destruct (assign_exact_l i st x v) as (E1 & E2 & E3). rewrite E3.
  destruct (Z.eq_dec y x) as [->|N].
  - rewrite E1.
    destruct (simple v && (truthy (change_of v (getvar x st)) || is_absent x st)) eqn:C.
    + apply andb_true_iff in C as [C1 C2].
      eapply ch_ev with (b' := lookup x st);
        cbn [ev_idx ev_name ev_prev ev_new ev_announce ev_change ev_value].
      * reflexivity.
      * reflexivity.
      * apply q_refl.
      * unfold getvar, oget. now destruct (lookup x st).
      * unfold is_absent, onew. now destruct (lookup x st).
      * reflexivity.
      * reflexivity.
      * exact C1.
      * apply orb_true_iff in C2 as [C2|C2]; [now left|right].
        unfold is_absent, onew in *. now destruct (lookup x st).
      * apply ch_nil, q_refl.
    + apply ch_nil. eapply q_step; [|apply q_refl].
      unfold silent. unfold getvar, is_absent in C. unfold oget, onew. now destruct (lookup x st).
  - rewrite (E2 y N).
    match goal with |- context [if ?b then _ else _] => destruct b end.
    + apply ch_skip; [right; cbn; congruence|apply ch_nil, q_refl].
    + apply ch_nil, q_refl.
Qed.

Lemma apply_writes_store_chain i y : forall ws st,
  chain i y (lookup y st) (snd (apply_writes_store i st ws)) (lookup y (fst (apply_writes_store i st ws))).
Proof.
  induction ws as [|w ws IH]; intros st; cbn; [apply ch_nil, q_refl|].
  assert (H1 : chain i y (lookup y st) (snd (apply_write i st w)) (lookup y (fst (apply_write i st w)))).
  { destruct w as [x v|x v]; cbn; [apply assign_chain|].
    destruct (py_add (getvar x st) v); [apply assign_chain|apply ch_nil, q_refl]. }
  destruct (apply_write i st w) as [st1 e1]. cbn [fst snd] in H1.
  specialize (IH st1). destruct (apply_writes_store i st1 ws) as [st2 e2]. cbn [fst snd] in *.
  eapply chain_app; eauto.
Qed.

Definition chain_step (s s' : state) (evs : list event) : Prop :=
  forall j y, chain j y (lookup y (store_of s j)) evs (lookup y (store_of s' j)).

Lemma chain_step_refl s s' : players s' = players s -> chain_step s s' [].
Proof. intros E j y. unfold store_of. rewrite E. apply ch_nil, q_refl. Qed.

Lemma chain_step_trans a b c l1 l2 : chain_step a b l1 -> chain_step b c l2 -> chain_step a c (l1 ++ l2).
Proof. intros H1 H2 j y. eapply chain_app; eauto. Qed.

Lemma chain_step_eq a a' b b' l :
  players a' = players a -> players b' = players b -> chain_step a b l -> chain_step a' b' l.
Proof. intros E1 E2 H j y. unfold store_of. rewrite E1, E2. apply H. Qed.

Lemma write_to_chain i ws s : chain_step s (fst (write_to i ws s)) (snd (write_to i ws s)).
Proof.
  intros j y.
  pose proof (write_to_ok i ws s) as OKs.
  pose proof (write_to_spec i ws s) as (_ & O & _).
  destruct (nth_error (players s) i) as [st|] eqn:E.
  - destruct (Nat.eq_dec j i) as [->|N].
    + rewrite (write_to_store i ws s st E), (write_to_events i ws s st E), (store_of_nth _ _ _ E).
      apply apply_writes_store_chain.
    + rewrite (store_of_others i j s _ O N). apply chain_skip_all.
      eapply Forall_impl; [|exact OKs]. intros e [_ He]. congruence.
  - rewrite (write_to_events_none i ws s E).
    unfold write_to, apply_writes. rewrite E. cbn. apply ch_nil, q_refl.
Qed.

Lemma mode_start_chain c s : chain_step s (fst (mode_start c s)) (snd (mode_start c s)).
Proof.
  unfold mode_start. destruct (mplayer s) as [p|]; [|now apply chain_step_refl].
  pose proof (write_to_chain p (load_writes c (store_of s p)) s) as H.
  destruct (write_to p (load_writes c (store_of s p)) s) as [s1 e1]. cbn [fst snd] in *.
  eapply chain_step_eq; [reflexivity| |exact H]. reflexivity.
Qed.

Lemma start_turn_chain c s : chain_step s (fst (start_turn c s)) (snd (start_turn c s)).
Proof.
  unfold start_turn.
  pose proof (write_to_chain (cur s) [WAdd n_ball (VInt 1)] s) as H1.
  destruct (write_to (cur s) [WAdd n_ball (VInt 1)] s) as [s1 e1]. cbn [fst snd] in *.
  pose proof (mode_start_chain c (set_mplayer s1 (Some (cur s1)))) as H2.
  destruct (mode_start c (set_mplayer s1 (Some (cur s1)))) as [s3 e3]. cbn [fst snd] in *.
  eapply chain_step_trans; [exact H1|]. eapply chain_step_eq; [| |exact H2]; reflexivity.
Qed.

Lemma dispatch_chain c s e : chain_step s (fst (fst (dispatch c s e))) (snd (fst (dispatch c s e))).
Proof.
  unfold dispatch. destruct (view s) as [v|]; [|now apply chain_step_refl].
  destruct (device_handle c (store_of s v) e) as [ws posted].
  pose proof (write_to_chain v ws s) as H1. destruct (write_to v ws s) as [s1 e1]. cbn [fst snd] in *.
  pose proof (write_to_chain (cur s1) (vp_writes c e) s1) as H2.
  destruct (write_to (cur s1) (vp_writes c e) s1) as [s2 e2]. cbn [fst snd] in *.
  eapply chain_step_trans; eauto.
Qed.

Lemma run_queue_chain c : forall fuel s q,
  chain_step s (fst (run_queue fuel c s q)) (snd (run_queue fuel c s q)).
Proof.
  induction fuel as [|f IH]; intros s q; cbn; [now apply chain_step_refl|].
  destruct q as [|e r]; [now apply chain_step_refl|].
  pose proof (dispatch_chain c s e) as H1. destruct (dispatch c s e) as [[s1 e1] posted].
  specialize (IH s1 (r ++ posted)). destruct (run_queue f c s1 (r ++ posted)) as [s2 e2].
  cbn [fst snd] in *. eapply chain_step_trans; eauto.
Qed.

Lemma end_ball_chain c s :
  ingame (fst (end_ball c s)) = true -> ingame s = true ->
  chain_step s (fst (end_ball c s)) (snd (end_ball c s)).
Proof.
  unfold end_ball.
  destruct (truthy (getvar n_extra_balls (store_of (mode_stop s) (cur (mode_stop s))))).
  - intros _ _.
    pose proof (write_to_chain (cur (mode_stop s)) [WAdd n_extra_balls (VInt (-1))] (mode_stop s)) as H1.
    destruct (write_to (cur (mode_stop s)) [WAdd n_extra_balls (VInt (-1))] (mode_stop s)) as [s1 e1].
    pose proof (mode_start_chain c s1) as H2. destruct (mode_start c s1) as [s2 e2]. cbn [fst snd] in *.
    eapply chain_step_trans; [|exact H2]. eapply chain_step_eq; [| |exact H1]; reflexivity.
  - match goal with |- context [if ?b then _ else _] => destruct b end.
    + cbn. intros F; discriminate F.
    + intros _ _.
      match goal with |- context [start_turn c ?x] => pose proof (start_turn_chain c x) as H end.
      eapply chain_step_eq; [| |exact H]; reflexivity.
Qed.

(* the events of one operation, for every player that existed before it and every variable *)
Lemma step_chain_l c s o :
  ingame s = true -> ingame (fst (step c s o)) = true ->
  forall j y, (j < length (players s))%nat ->
    chain j y (lookup y (store_of s j)) (snd (step c s o)) (lookup y (store_of (fst (step c s o)) j)).
Proof.
  intros G G' j y Lj. destruct o as [|e| |]; cbn [step] in *; rewrite G in *.
  - match goal with |- context [if ?b then _ else _] => destruct b end.
    + unfold add_player. cbn [fst snd]. unfold store_of at 2. cbn [players set_players].
      rewrite nth_error_app1 by exact Lj. fold (store_of s j).
      apply chain_skip_all. apply Forall_forall. intros ev H.
      unfold announce in H. apply in_flat_map in H as ([k v] & _ & H).
      destruct (simple v); [|destruct H]. destruct H as [<-|[]]. cbn. lia.
    + apply ch_nil, q_refl.
  - apply run_queue_chain.
  - now apply end_ball_chain.
  - assert (H : chain_step (set_ending s true) (fst (end_ball c (set_ending s true)))
                            (snd (end_ball c (set_ending s true)))) by (now apply end_ball_chain).
    apply H.
Qed.

(* ====================================================================================== *)
(* a player's first ball: the devices read the configured initial values                   *)

Definition init_kvs (c : cfg) : list (name * value) :=
  map (fun x => (c_var x, VLB (c_start_enabled x) false (LInt (c_start x)))) (counters c)
  ++ map (fun x => (a_var x, VLB (a_start_enabled x) false (LBools (a_startv x)))) (accruals c)
  ++ map (fun x => (s_envar x, VBool (s_start_enabled x))) (shots c).

Definition initial_reads (c : cfg) : list (option value) :=
  map (fun x => Some (VLB (c_start_enabled x) false (LInt (c_start x)))) (counters c)
  ++ map (fun x => Some (VLB (a_start_enabled x) false (LBools (a_startv x)))) (accruals c)
  ++ flat_map (fun x => [Some (VInt 0); Some (VBool (s_start_enabled x))]) (shots c).

Definition mkW (kv : name * value) : write := WSet (fst kv) (snd kv).

Lemma init_kvs_keys c : map fst (init_kvs c) = load_keys c.
Proof. unfold init_kvs, load_keys. rewrite !map_app, !map_map. reflexivity. Qed.

Lemma load_writes_fresh c st :
  (forall k, In k (load_keys c) -> lookup k st = None) -> load_writes c st = map mkW (init_kvs c).
Proof.
  intros H. unfold load_writes, init_kvs. rewrite !map_app, !map_map.
  assert (A : forall {X} (f : X -> name) (g : X -> value) (l : list X),
             (forall x, In x l -> lookup (f x) st = None) ->
             flat_map (fun x => match lookup (f x) st with None => [WSet (f x) (g x)] | Some _ => [] end) l
             = map (fun x => mkW (f x, g x)) l).
  { intros X f g l. induction l as [|x l IH]; intros Hl; cbn; [reflexivity|].
    rewrite (Hl x (or_introl eq_refl)). cbn. f_equal. apply IH. intros y Hy. apply Hl. now right. }
  rewrite (A _ c_var), (A _ a_var), (A _ s_envar); try reflexivity;
    intros x Hx; apply H; unfold load_keys.
  - apply in_or_app; right; apply in_or_app; right. now apply in_map.
  - apply in_or_app; right; apply in_or_app; left. now apply in_map.
  - apply in_or_app; left. now apply in_map.
Qed.

Lemma writes_set_lookup i : forall kvs st k v,
  NoDup (map fst kvs) -> In (k, v) kvs ->
  lookup k (fst (apply_writes_store i st (map mkW kvs))) = Some v.
Proof.
  induction kvs as [|[k0 v0] r IH]; intros st k v ND H; [destruct H|].
  cbn [map]. inversion ND as [|? ? Hn ND']; subst.
  cbn [apply_writes_store].
  destruct (apply_write i st (mkW (k0, v0))) as [st1 e1] eqn:E1.
  destruct (apply_writes_store i st1 (map mkW r)) as [st2 e2] eqn:E2. cbn [fst].
  change st2 with (fst (st2, e2)). rewrite <- E2.
  destruct H as [H|H].
  - injection H as -> ->.
    rewrite apply_writes_store_other.
    + change st1 with (fst (st1, e1)). rewrite <- E1. cbn. rewrite assign_store. apply lookup_sset_same.
    + apply Forall_forall. intros w Hw. apply in_map_iff in Hw as ([k' v'] & <- & Hk). cbn.
      intros ->. apply Hn. cbn. apply in_map_iff. exists (k, v'). auto.
  - now apply IH.
Qed.

Lemma writes_set_other i : forall kvs st k,
  ~ In k (map fst kvs) -> lookup k (fst (apply_writes_store i st (map mkW kvs))) = lookup k st.
Proof.
  intros kvs st k H. apply apply_writes_store_other. apply Forall_forall.
  intros w Hw. apply in_map_iff in Hw as ([k' v'] & <- & Hk). cbn. intros ->. apply H.
  apply in_map_iff. exists (k, v'). auto.
Qed.

Lemma first_ball_reads_initial_l c i st :
  NoDup (load_keys c) ->
  (forall k, In k (persist_keys c) -> lookup k st = None) ->
  (forall x, In x (shots c) -> ~ In (s_var x) (load_keys c)) ->
  reads_of c (fst (apply_writes_store i st (load_writes c st))) = initial_reads c.
Proof.
  intros ND Abs Sv.
  assert (AbsL : forall k, In k (load_keys c) -> lookup k st = None).
  { intros k Hk. apply Abs. unfold load_keys, persist_keys in *.
    apply in_app_or in Hk as [Hk|Hk]; [apply in_or_app; now left|].
    apply in_app_or in Hk as [Hk|Hk]; [apply in_or_app; right; apply in_or_app; now left|].
    apply in_or_app; right; apply in_or_app; right.
    apply in_map_iff in Hk as (x & <- & Hx). apply in_flat_map. exists x. split; [exact Hx|right; now left]. }
  rewrite (load_writes_fresh c st AbsL).
  assert (NDk : NoDup (map fst (init_kvs c))) by (now rewrite init_kvs_keys).
  unfold reads_of, initial_reads. f_equal; [|f_equal].
  - apply map_ext_in. intros x Hx. apply writes_set_lookup; [exact NDk|].
    unfold init_kvs. apply in_or_app; left.
    apply in_map_iff. exists x. auto.
  - apply map_ext_in. intros x Hx. apply writes_set_lookup; [exact NDk|].
    unfold init_kvs. apply in_or_app; right; apply in_or_app; left.
    apply in_map_iff. exists x. auto.
  - rewrite !flat_map_concat_map. f_equal. apply map_ext_in. intros x Hx.
    unfold getvar. rewrite writes_set_other by (rewrite init_kvs_keys; now apply Sv).
    rewrite (Abs (s_var x)).
    + rewrite (writes_set_lookup i (init_kvs c) st (s_envar x) (VBool (s_start_enabled x)) NDk); [reflexivity|].
      unfold init_kvs. apply in_or_app; right; apply in_or_app; right. apply in_map_iff. exists x. auto.
    + unfold persist_keys. apply in_or_app; right; apply in_or_app; right.
      apply in_flat_map. exists x. split; [exact Hx|now left].
Qed.

Example ex_first_ball_hyp :
  NoDup (load_keys ex_cfg)
  /\ (forall k, In k (persist_keys ex_cfg) -> lookup k (fresh_player ex_cfg 1) = None)
  /\ (forall x, In x (shots ex_cfg) -> ~ In (s_var x) (load_keys ex_cfg)).
Proof.
  split; [|split].
  - cbn. repeat constructor; cbn; intuition discriminate.
  - cbn. intros k H. repeat (destruct H as [<-|H]; [reflexivity|]). destruct H.
  - cbn. intros x [<-|[]]. cbn. intuition discriminate.
Qed.

(* ---- the player number ----------------------------------------------------------------- *)
Lemma fresh_player_number_l c i : lookup n_number (fresh_player c i) = Some (VInt (Z.of_nat i + 1)).
Proof. reflexivity. Qed.

Lemma number_kept_l i st ws :
  Forall (fun w => wname w <> n_number) ws ->
  numvar (fst (apply_writes_store i st ws)) = numvar st.
Proof. intros H. unfold numvar. now rewrite apply_writes_store_other. Qed.

Example ex_chain :
  ingame ex_s = true /\ ingame (fst (step ex_cfg ex_s (Post 100))) = true
  /\ length (snd (step ex_cfg ex_s (Post 100))) = 2%nat
  /\ lookup n_score (store_of ex_s 0) = Some (VInt 20)
  /\ lookup n_score (store_of (fst (step ex_cfg ex_s (Post 100))) 0) = Some (VInt 30)
  /\ lookup 14 (store_of (fst (step ex_cfg ex_s (Post 100))) 0) = Some (VInt 1000).
Proof. vm_compute. repeat split. Qed.

(* adding a player: the new player's variables are announced (one event per int/str/float variable with
   prev_value = value), nothing else is posted *)
Lemma added_player_events_l c s :
  ingame s = true ->
  (players (fst (step c s Start)) = players s /\ snd (step c s Start) = [])
  \/ (players (fst (step c s Start)) = players s ++ [fresh_player c (length (players s))]
      /\ snd (step c s Start) = announce (length (players s)) (fresh_player c (length (players s)))).
Proof.
  intros H. cbn [step]. rewrite H.
  destruct (negb (ending s) && (Z.of_nat (length (players s)) <? maxp c)
            && negb (1 <? as_int (getvar n_ball (store_of s (cur s))))); cbn; auto.
Qed.

Lemma announce_names_aux i (n : value) : forall st : store,
  map ev_name (flat_map (fun kv : name * value =>
                           let '(k, v) := kv in
                           if simple v
                           then [mkEv i k v v (if is_str v then VBool false else VInt 0) n false true]
                           else []) st)
  = map fst (filter (fun kv => simple (snd kv)) st).
Proof.
  induction st as [|[k v] st IH]; [reflexivity|]. cbn.
  destruct (simple v); cbn; [f_equal|]; exact IH.
Qed.

Lemma announce_names i st :
  map ev_name (announce i st) = map fst (filter (fun kv => simple (snd kv)) st).
Proof. unfold announce. apply announce_names_aux. Qed.
