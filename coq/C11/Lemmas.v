(* C11/Lemmas.v — proofs about the per-player state model. *)
From Common Require Import Prelude.
From C11 Require Import Model.
Open Scope Z_scope.

(* ====================================================================================== *)
(* lists                                                                                  *)

Lemma upd_nth_other {A} (f : A -> A) : forall l i j, i <> j -> nth_error (upd_nth i f l) j = nth_error l j.
Proof.
  induction l as [|x l IH]; intros i j H; [destruct i; reflexivity|].
  destruct i, j; cbn; try reflexivity; try congruence. apply IH. congruence.
Qed.

Lemma upd_nth_same {A} (f : A -> A) : forall l i x, nth_error l i = Some x -> nth_error (upd_nth i f l) i = Some (f x).
Proof.
  induction l as [|y l IH]; intros [|i] x H; cbn in *; try discriminate.
  - congruence.
  - apply IH, H.
Qed.

Lemma upd_nth_length {A} (f : A -> A) : forall l i, length (upd_nth i f l) = length l.
Proof. induction l; intros [|i]; cbn; auto. Qed.

(* ====================================================================================== *)
(* stores                                                                                 *)

Lemma lookup_sset_same x v : forall st, lookup x (sset x v st) = Some v.
Proof.
  induction st as [|[k w] st IH]; cbn.
  - now rewrite Z.eqb_refl.
  - destruct (k =? x) eqn:E; cbn; rewrite E; auto.
Qed.

Lemma lookup_sset_other x y v : x <> y -> forall st, lookup y (sset x v st) = lookup y st.
Proof.
  intros N. induction st as [|[k w] st IH]; cbn.
  - destruct (x =? y) eqn:E; [apply Z.eqb_eq in E; congruence | reflexivity].
  - destruct (k =? x) eqn:E; cbn.
    + apply Z.eqb_eq in E. subst k. destruct (x =? y) eqn:E2; [apply Z.eqb_eq in E2; congruence|reflexivity].
    + destruct (k =? y); auto.
Qed.

Definition wname (w : write) : name := match w with WSet x _ => x | WAdd x _ => x end.

Lemma assign_store i st x v : fst (assign i st x v) = sset x v st.
Proof.
  unfold assign. destruct (lookup x st); cbn;
    match goal with |- context [if ?b then _ else _] => destruct b end; reflexivity.
Qed.

Lemma apply_write_other i st w y : wname w <> y -> lookup y (fst (apply_write i st w)) = lookup y st.
Proof.
  intros N. destruct w as [x v|x v]; cbn in *.
  - rewrite assign_store. now apply lookup_sset_other.
  - destruct (py_add (getvar x st) v); cbn; [|reflexivity].
    rewrite assign_store. now apply lookup_sset_other.
Qed.

Lemma apply_write_keeps i st w y : lookup y st <> None -> lookup y (fst (apply_write i st w)) <> None.
Proof.
  intros H. destruct (Z.eq_dec (wname w) y) as [E|N].
  - destruct w as [x v|x v]; cbn in *; subst.
    + rewrite assign_store, lookup_sset_same. discriminate.
    + destruct (py_add (getvar y st) v); cbn; [|exact H].
      rewrite assign_store, lookup_sset_same. discriminate.
  - now rewrite apply_write_other.
Qed.

Lemma apply_writes_store_other i y : forall ws st,
  Forall (fun w => wname w <> y) ws -> lookup y (fst (apply_writes_store i st ws)) = lookup y st.
Proof.
  induction ws as [|w ws IH]; intros st H; cbn; [reflexivity|].
  inversion H; subst.
  destruct (apply_write i st w) as [st1 e1] eqn:E1.
  destruct (apply_writes_store i st1 ws) as [st2 e2] eqn:E2. cbn.
  change st2 with (fst (st2, e2)). rewrite <- E2, IH by assumption.
  change st1 with (fst (st1, e1)). rewrite <- E1. now apply apply_write_other.
Qed.

Lemma apply_writes_store_keeps i y : forall ws st,
  lookup y st <> None -> lookup y (fst (apply_writes_store i st ws)) <> None.
Proof.
  induction ws as [|w ws IH]; intros st H; cbn; [exact H|].
  destruct (apply_write i st w) as [st1 e1] eqn:E1.
  destruct (apply_writes_store i st1 ws) as [st2 e2] eqn:E2. cbn.
  change st2 with (fst (st2, e2)). rewrite <- E2. apply IH.
  change st1 with (fst (st1, e1)). rewrite <- E1. now apply apply_write_keeps.
Qed.

Lemma apply_writes_store_sets i y v : forall ws st,
  In (WSet y v) ws -> lookup y (fst (apply_writes_store i st ws)) <> None.
Proof.
  induction ws as [|w ws IH]; intros st H; cbn; [destruct H|].
  destruct (apply_write i st w) as [st1 e1] eqn:E1.
  destruct (apply_writes_store i st1 ws) as [st2 e2] eqn:E2. cbn.
  change st2 with (fst (st2, e2)). rewrite <- E2.
  destruct H as [->|H].
  - apply apply_writes_store_keeps. change st1 with (fst (st1, e1)). rewrite <- E1. cbn.
    rewrite assign_store, lookup_sset_same. discriminate.
  - now apply IH.
Qed.

(* ====================================================================================== *)
(* writes touch one player                                                                *)

Definition same_ctl (s s' : state) : Prop :=
  cur s' = cur s /\ ingame s' = ingame s /\ ending s' = ending s /\ mplayer s' = mplayer s /\ view s' = view s.

Definition others_same (i : nat) (s s' : state) : Prop :=
  forall j, j <> i -> nth_error (players s') j = nth_error (players s) j.

Lemma same_ctl_refl s : same_ctl s s.
Proof. repeat split. Qed.
Lemma same_ctl_trans a b c : same_ctl a b -> same_ctl b c -> same_ctl a c.
Proof. unfold same_ctl. intuition congruence. Qed.
Lemma others_same_refl i s : others_same i s s.
Proof. intros j _. reflexivity. Qed.
Lemma others_same_trans i a b c : others_same i a b -> others_same i b c -> others_same i a c.
Proof. intros H1 H2 j N. rewrite H2, H1; auto. Qed.

Lemma write_to_spec i ws s :
  let s' := fst (write_to i ws s) in
  same_ctl s s' /\ others_same i s s' /\ length (players s') = length (players s).
Proof.
  unfold write_to, apply_writes. destruct (nth_error (players s) i) as [st|] eqn:E.
  - destruct (apply_writes_store i st ws) as [st' evs]. cbn.
    split; [repeat split|]. split.
    + intros j N. cbn. apply upd_nth_other. congruence.
    + apply upd_nth_length.
  - cbn. split; [repeat split|]. split; [intros j _; reflexivity|reflexivity].
Qed.

Lemma write_to_store i ws s st :
  nth_error (players s) i = Some st ->
  store_of (fst (write_to i ws s)) i = fst (apply_writes_store i st ws).
Proof.
  intros E. unfold write_to, apply_writes, store_of. rewrite E.
  destruct (apply_writes_store i st ws) as [st' evs]. cbn.
  now rewrite (upd_nth_same _ _ _ _ E).
Qed.

Lemma write_to_events i ws s st :
  nth_error (players s) i = Some st ->
  snd (write_to i ws s) = snd (apply_writes_store i st ws).
Proof.
  intros E. unfold write_to, apply_writes. rewrite E.
  now destruct (apply_writes_store i st ws).
Qed.

Lemma write_to_events_none i ws s :
  nth_error (players s) i = None -> snd (write_to i ws s) = [].
Proof. intros E. unfold write_to, apply_writes. now rewrite E. Qed.

Lemma store_of_others i j s s' : others_same i s s' -> j <> i -> store_of s' j = store_of s j.
Proof. intros H N. unfold store_of. now rewrite H. Qed.

(* ====================================================================================== *)
(* the invariant of reachable states                                                      *)

Definition load_keys (c : cfg) : list name :=
  map c_var (counters c) ++ map a_var (accruals c) ++ map s_envar (shots c).

(* every device of the game mode has its state in this player's variables *)
Definition loaded (c : cfg) (st : store) : Prop := forall k, In k (load_keys c) -> lookup k st <> None.

Definition inv (c : cfg) (s : state) : Prop :=
  if ingame s
  then view s = Some (cur s) /\ mplayer s = Some (cur s) /\ (cur s < length (players s))%nat
       /\ loaded c (store_of s (cur s))
  else s = init_state.

Lemma load_writes_cover c st k :
  In k (load_keys c) -> lookup k st = None -> exists v, In (WSet k v) (load_writes c st).
Proof.
  unfold load_keys, load_writes. intros H L.
  apply in_app_or in H as [H|H]; [|apply in_app_or in H as [H|H]];
    apply in_map_iff in H as (x & <- & Hx); eexists.
  - apply in_or_app; left. apply in_flat_map. exists x. split; [exact Hx|]. rewrite L. left; reflexivity.
  - apply in_or_app; right. apply in_or_app; left. apply in_flat_map. exists x. split; [exact Hx|].
    rewrite L. left; reflexivity.
  - apply in_or_app; right. apply in_or_app; right. apply in_flat_map. exists x. split; [exact Hx|].
    rewrite L. left; reflexivity.
Qed.

Lemma load_writes_loaded c i st : loaded c (fst (apply_writes_store i st (load_writes c st))).
Proof.
  intros k H. destruct (lookup k st) eqn:L.
  - apply apply_writes_store_keeps. congruence.
  - destruct (load_writes_cover c st k H L) as (v & Hv). eapply apply_writes_store_sets; eauto.
Qed.

Lemma load_writes_nil c st : loaded c st -> load_writes c st = [].
Proof.
  intros H. unfold load_writes.
  assert (A : forall {X} (f : X -> name) (mk : X -> list write) (l : list X),
             (forall x, In x l -> lookup (f x) st <> None) ->
             flat_map (fun x => match lookup (f x) st with None => mk x | Some _ => [] end) l = []).
  { intros X f mk l. induction l as [|x l IH]; intros Hl; cbn; [reflexivity|].
    destruct (lookup (f x) st) eqn:E; [|exfalso; apply (Hl x); [now left|exact E]].
    cbn. apply IH. intros y Hy. apply Hl. now right. }
  rewrite (A _ c_var), (A _ a_var), (A _ s_envar); try reflexivity;
    intros x Hx; apply H; unfold load_keys.
  - apply in_or_app; right; apply in_or_app; right. now apply in_map.
  - apply in_or_app; right; apply in_or_app; left. now apply in_map.
  - apply in_or_app; left. now apply in_map.
Qed.

Lemma loaded_write i st ws c : loaded c st -> loaded c (fst (apply_writes_store i st ws)).
Proof. intros H k Hk. apply apply_writes_store_keeps. now apply H. Qed.

Lemma store_of_nth s i st : nth_error (players s) i = Some st -> store_of s i = st.
Proof. unfold store_of. now intros ->. Qed.

Lemma nth_error_lt {A} (l : list A) i : (i < length l)%nat -> exists x, nth_error l i = Some x.
Proof. intros H. destruct (nth_error l i) eqn:E; [eauto|]. apply nth_error_None in E. lia. Qed.

(* Mode.start with a player: devices are bound to that player; only that player is written *)
Lemma mode_start_spec c s p :
  mplayer s = Some p -> (p < length (players s))%nat ->
  let s' := fst (mode_start c s) in
  view s' = Some p /\ cur s' = cur s /\ ingame s' = ingame s /\ ending s' = ending s /\ mplayer s' = mplayer s
  /\ others_same p s s' /\ length (players s') = length (players s)
  /\ loaded c (store_of s' p)
  /\ store_of s' p = fst (apply_writes_store p (store_of s p) (load_writes c (store_of s p))).
Proof.
  intros M L. unfold mode_start. rewrite M.
  destruct (nth_error_lt _ _ L) as (st & E).
  pose proof (write_to_spec p (load_writes c (store_of s p)) s) as (C & O & Len).
  pose proof (write_to_store p (load_writes c (store_of s p)) s st E) as S.
  destruct (write_to p (load_writes c (store_of s p)) s) as [s1 evs]. cbn in *.
  destruct C as (C1 & C2 & C3 & C4 & C5).
  repeat split; try assumption.
  - unfold store_of at 1. cbn. fold (store_of s1 p). rewrite S, <- (store_of_nth _ _ _ E) at 1.
    rewrite (store_of_nth _ _ _ E). apply load_writes_loaded.
  - unfold store_of at 1. cbn. fold (store_of s1 p). rewrite S. now rewrite (store_of_nth _ _ _ E).
Qed.

Lemma start_turn_spec c s :
  (cur s < length (players s))%nat ->
  let s' := fst (start_turn c s) in
  view s' = Some (cur s) /\ mplayer s' = Some (cur s) /\ cur s' = cur s /\ ingame s' = ingame s
  /\ ending s' = ending s /\ others_same (cur s) s s' /\ length (players s') = length (players s)
  /\ loaded c (store_of s' (cur s)).
Proof.
  intros L. unfold start_turn.
  pose proof (write_to_spec (cur s) [WAdd n_ball (VInt 1)] s) as (C & O & Len).
  destruct (write_to (cur s) [WAdd n_ball (VInt 1)] s) as [s1 e1]. cbn in C, O, Len.
  destruct C as (C1 & C2 & C3 & C4 & C5).
  set (s2 := set_mplayer s1 (Some (cur s1))).
  assert (M : mplayer s2 = Some (cur s)) by (cbn; congruence).
  assert (L2 : (cur s < length (players s2))%nat) by (cbn; lia).
  pose proof (mode_start_spec c s2 (cur s) M L2) as (A1 & A2 & A3 & A4 & A5 & A6 & A7 & A8 & _).
  destruct (mode_start c s2) as [s3 e3]. cbn in *.
  repeat split; try congruence.
  - intros j N. rewrite A6 by exact N. cbn. now apply O.
  - lia.
Qed.

Lemma inv_init c : inv c init_state.
Proof. reflexivity. Qed.

(* ====================================================================================== *)
(* events posted by handlers: dispatch and the queue                                      *)

Lemma dispatch_spec c s e :
  view s = Some (cur s) ->
  let s' := fst (fst (dispatch c s e)) in
  same_ctl s s' /\ others_same (cur s) s s' /\ length (players s') = length (players s)
  /\ (loaded c (store_of s (cur s)) -> loaded c (store_of s' (cur s))).
Proof.
  intros V. unfold dispatch. rewrite V.
  destruct (device_handle c (store_of s (cur s)) e) as [ws posted].
  pose proof (write_to_spec (cur s) ws s) as (C1 & O1 & L1).
  assert (S1 : forall st, nth_error (players s) (cur s) = Some st ->
               store_of (fst (write_to (cur s) ws s)) (cur s) = fst (apply_writes_store (cur s) st ws))
    by (intros; now apply write_to_store).
  destruct (write_to (cur s) ws s) as [s1 e1]. cbn in C1, O1, L1, S1.
  pose proof (write_to_spec (cur s1) (vp_writes c e) s1) as (C2 & O2 & L2).
  assert (S2 : forall st, nth_error (players s1) (cur s1) = Some st ->
               store_of (fst (write_to (cur s1) (vp_writes c e) s1)) (cur s1)
               = fst (apply_writes_store (cur s1) st (vp_writes c e)))
    by (intros; now apply write_to_store).
  destruct (write_to (cur s1) (vp_writes c e) s1) as [s2 e2]. cbn in *.
  assert (Ec : cur s1 = cur s) by apply C1. rewrite Ec in *.
  split; [eapply same_ctl_trans; eauto|]. split; [eapply others_same_trans; eauto|]. split; [lia|].
  intros Ld.
  destruct (nth_error (players s) (cur s)) as [st|] eqn:E.
  - specialize (S1 st eq_refl).
    assert (E1 : nth_error (players s1) (cur s) = Some (store_of s1 (cur s))).
    { unfold store_of. destruct (nth_error (players s1) (cur s)) eqn:E1; [reflexivity|].
      apply nth_error_None in E1. assert (cur s < length (players s))%nat by (apply nth_error_Some; congruence). lia. }
    rewrite (S2 _ E1). apply loaded_write. rewrite S1. apply loaded_write.
    now rewrite <- (store_of_nth _ _ _ E).
  - assert (E1 : nth_error (players s1) (cur s) = None)
      by (apply nth_error_None; apply nth_error_None in E; lia).
    assert (E2 : nth_error (players s2) (cur s) = None)
      by (apply nth_error_None; apply nth_error_None in E; lia).
    unfold store_of in *. now rewrite E2; rewrite E in Ld.
Qed.

Lemma run_queue_spec c : forall fuel s q,
  view s = Some (cur s) ->
  let s' := fst (run_queue fuel c s q) in
  same_ctl s s' /\ others_same (cur s) s s' /\ length (players s') = length (players s)
  /\ (loaded c (store_of s (cur s)) -> loaded c (store_of s' (cur s))).
Proof.
  induction fuel as [|f IH]; intros s q V; cbn.
  - split; [apply same_ctl_refl|]. split; [apply others_same_refl|]. split; [reflexivity|auto].
  - destruct q as [|e r].
    + cbn. split; [apply same_ctl_refl|]. split; [apply others_same_refl|]. split; [reflexivity|auto].
    + pose proof (dispatch_spec c s e V) as (C1 & O1 & L1 & D1).
      destruct (dispatch c s e) as [[s1 e1] posted]. cbn in C1, O1, L1, D1.
      assert (V1 : view s1 = Some (cur s1)).
      { destruct C1 as (a & _ & _ & _ & b). congruence. }
      specialize (IH s1 (r ++ posted) V1). cbn in IH. destruct IH as (C2 & O2 & L2 & D2).
      destruct (run_queue f c s1 (r ++ posted)) as [s2 e2]. cbn in *.
      assert (Ec : cur s1 = cur s) by apply C1. rewrite Ec in *.
      split; [eapply same_ctl_trans; eauto|]. split; [eapply others_same_trans; eauto|]. split; [lia|auto].
Qed.
