(* C11/XModel.v — second layer of the executable model, on top of Model.v (definitions only; proofs: XLemmas.v).

   Code modelled (see NOTES.md):
     mpf/config_players/variable_player.py  play(): one event entry with SEVERAL variables, each resolved on its
                                 own: condition on the event's arguments, action add / set / add_machine /
                                 set_machine, `player: N` (entry['player'] falsy -> game.player; player_list[N-1];
                                 IndexError -> warning and game.player), values int / float / str
     mpf/core/machine_vars.py    get_machine_var (None -> 0) / set_machine_var: the value only
     mpf/core/mode_controller.py _ball_ending: every active game mode is stopped, those with
                                 restart_on_next_ball are appended to player.restart_modes_on_next_ball;
                                 _ball_starting: the recorded modes are started, the list is replaced by list();
                                 _player_added (empty list)
     mpf/core/mode.py            start (ignored when active / no game), stop by the mode's stop event;
                                 a mode's variable_player entries only play while the mode runs
     mpf/devices/achievement.py  the state machine (enable / start / complete / stop / disable / reset / select /
                                 unselect with their guards, restart_after_stop_possible), the record
                                 player.achievements[name] = [state, selected], device_loaded_in_mode (reset() for a
                                 player without a record, _restore_state otherwise: restart_on_next_ball_when_started,
                                 enable_on_next_ball_when_enabled), device_removed_from_mode (unbound: reads nothing)

   The game itself (players, turns, balls, extra balls, end of game, the always-on game mode with its devices and
   single-variable entries) is Model.step, unchanged. *)
From Common Require Import Prelude.
From C11 Require Import Model.
Open Scope Z_scope.

Inductive vaction := AAdd | ASet | AAddM | ASetM.

Record vset := mkVS {
  vs_var : name;
  vs_act : vaction;
  vs_val : value;
  vs_player : option Z;        (* `player: N` *)
  vs_cond : option Z           (* var{n==K}: the event's argument n must equal K *)
}.
Record ventry := mkVE {
  ve_ev : Z;
  ve_mode : option Z;          (* None: entry of the always-on game mode; Some k: of the optional mode k *)
  ve_sets : list vset          (* in the order of the configuration (dict order = play() order) *)
}.
Record mcfg := mkM { m_id : Z; m_start_ev : Z; m_stop_ev : Z; m_restart : bool }.

(* achievements of the always-on game mode *)
Inductive astate := ADisabled | AEnabled | AStarted | AStopped | ACompleted.
Record hcfg := mkH {
  h_en : Z; h_start : Z; h_done : Z; h_stop : Z; h_dis : Z; h_reset : Z; h_sel : Z; h_unsel : Z;
  h_restart_started : bool;      (* restart_on_next_ball_when_started *)
  h_keep_enabled : bool;         (* enable_on_next_ball_when_enabled *)
  h_ras : bool;                  (* restart_after_stop_possible *)
  h_init : astate                (* what reset() sets: start_enabled / enable_events *)
}.
Definition arec := option (astate * bool).     (* player.achievements[name] = [state, selected]; None: no entry *)

Record xcfg := mkX {
  x_base : cfg;
  x_entries : list ventry;
  x_modes : list mcfg;         (* in the order of ModeController.active_modes (priority, descending) *)
  x_achs : list hcfg
}.

Record xstate := mkXS {
  xg : state;                  (* the game of Model.v *)
  xm : store;                  (* machine variables *)
  xrun : list Z;               (* ids of the optional game modes that run *)
  xrl : list (list Z);         (* per player index: restart_modes_on_next_ball (missing = empty) *)
  xach : list (list arec)      (* per player index: the achievement records, in the order of x_achs *)
}.

Definition xinit : xstate := mkXS init_state [] [] [] [].

Definition zmem (x : Z) (l : list Z) : bool := existsb (Z.eqb x) l.

(* _set_variable: `player = game.player; if entry['player']: try player_list[entry['player'] - 1] except IndexError`
   (domain: N >= 0; a negative N would index from the end of the list in Python and is not generated) *)
Definition target (n cur : nat) (p : option Z) : nat :=
  match p with
  | None => cur
  | Some z => if (1 <=? z) && (z <=? Z.of_nat n) then Z.to_nat (z - 1) else cur
  end.

Definition cond_ok (arg : Z) (c : option Z) : bool :=
  match c with None => true | Some k => arg =? k end.

Definition is_player_act (a : vaction) : bool :=
  match a with AAdd | ASet => true | _ => false end.

(* one variable of an entry: condition, value, action; the target player is resolved HERE, per variable *)
Definition play_set (arg : Z) (acc : state * store * list event) (v : vset) : state * store * list event :=
  let '(g, m, evs) := acc in
  if cond_ok arg (vs_cond v) then
    match vs_act v with
    | AAdd => let '(g1, e1) := write_to (target (length (players g)) (cur g) (vs_player v))
                                        [WAdd (vs_var v) (vs_val v)] g in (g1, m, evs ++ e1)
    | ASet => let '(g1, e1) := write_to (target (length (players g)) (cur g) (vs_player v))
                                        [WSet (vs_var v) (vs_val v)] g in (g1, m, evs ++ e1)
    | AAddM => (g, match py_add (getvar (vs_var v) m) (vs_val v) with
                   | Some r => sset (vs_var v) r m
                   | None => m               (* TypeError in the implementation: outside the domain *)
                   end, evs)
    | ASetM => (g, sset (vs_var v) (vs_val v) m, evs)
    end
  else acc.

Definition entry_active (run : list Z) (e : Z) (en : ventry) : bool :=
  (ve_ev en =? e) && match ve_mode en with None => true | Some k => zmem k run end.

Definition active_sets (c : xcfg) (run : list Z) (e : Z) : list vset :=
  flat_map (fun en => if entry_active run e en then ve_sets en else []) (x_entries c).

Definition play_sets (arg : Z) (sets : list vset) (g : state) (m : store) : state * store * list event :=
  fold_left (play_set arg) sets (g, m, []).

(* start / stop events of the optional modes *)
Definition mode_event (e : Z) (r : list Z) (k : mcfg) : list Z :=
  if m_start_ev k =? e then (if zmem (m_id k) r then r else m_id k :: r)
  else if m_stop_ev k =? e then filter (fun x => negb (x =? m_id k)) r
  else r.
Definition mode_events (ms : list mcfg) (e : Z) (run : list Z) : list Z := fold_left (mode_event e) ms run.

(* _ball_ending: what is appended to the player's list, in the order of active_modes *)
Definition recorded (ms : list mcfg) (run : list Z) : list Z :=
  map m_id (filter (fun k => m_restart k && zmem (m_id k) run) ms).

(* _ball_starting: mode.start() for every recorded mode (a second start of a running mode is ignored) *)
Definition start_all (l : list Z) : list Z :=
  fold_left (fun r k => if zmem k r then r else k :: r) l [].

(* a per-player list, as a total function of the player index *)
Definition rl_get {A} (j : nat) (l : list (list A)) : list A := nth j l [].
Fixpoint rl_set {A} (j : nat) (v : list A) (l : list (list A)) : list (list A) :=
  match j, l with
  | O, [] => [v]
  | O, _ :: r => v :: r
  | S k, [] => [] :: rl_set k v []
  | S k, x :: r => x :: rl_set k v r
  end.

(* ---- achievements ---------------------------------------------------------------------------- *)
Definition can_start (h : hcfg) (st : astate) : bool :=
  match st with AEnabled => true | AStopped => h_ras h | _ => false end.

(* one MPF event against one record [state, selected] (the event handlers of achievement.py) *)
Definition ach_event (h : hcfg) (e : Z) (r : astate * bool) : astate * bool :=
  let '(st, sel) := r in
  if e =? h_en h then
    match st with ADisabled | AStarted => (AEnabled, sel) | _ => r end
  else if e =? h_start h then (if can_start h st then (AStarted, false) else r)
  else if e =? h_done h then match st with AStarted => (ACompleted, false) | _ => r end
  else if e =? h_stop h then match st with AStarted => (AStopped, false) | _ => r end
  else if e =? h_dis h then (if can_start h st then (ADisabled, false) else r)
  else if e =? h_reset h then (h_init h, false)
  else if e =? h_unsel h then (if sel then (st, false) else r)
  else if e =? h_sel h then (if can_start h st && negb sel then (st, true) else r)
  else r.

Definition ach_event_rec (e : Z) (h : hcfg) (r : arec) : arec :=
  match r with
  | Some x => Some (ach_event h e x)
  | None => if e =? h_reset h then Some (h_init h, false) else None
  end.

(* device_loaded_in_mode: reset() for a player without a record, _restore_state otherwise *)
Definition ach_load (h : hcfg) (r : arec) : arec :=
  match r with
  | None => Some (h_init h, false)
  | Some (AStarted, sel) => if h_restart_started h then r else Some (AStopped, sel)
  | Some (AEnabled, sel) => if h_keep_enabled h then r else Some (ADisabled, sel)
  | _ => r
  end.

Fixpoint ach_map (f : hcfg -> arec -> arec) (hs : list hcfg) (recs : list arec) : list arec :=
  match hs with
  | [] => []
  | h :: hr => f h (hd None recs) :: ach_map f hr (tl recs)
  end.

Inductive xop :=
| XStart
| XPost (e arg : Z)       (* MPF event e posted with n=arg *)
| XDrain
| XEndGame.

Definition hand_over (c : xcfg) (xs : xstate) (o : op) : xstate * list event :=
  let g := xg xs in
  if ingame g then
    (* ball_ending: modes stop, restart_on_next_ball modes are appended to the CURRENT player's list *)
    let rl1 := rl_set (cur g) (rl_get (cur g) (xrl xs) ++ recorded (x_modes c) (xrun xs)) (xrl xs) in
    let '(g1, ev1) := step (x_base c) g o in
    if ingame g1 then
      (* ball_starting for game.player: start what was recorded for him, then replace the list by list() *)
      (* ... and the game mode starts for him: its achievements load against his records *)
      (mkXS g1 (xm xs) (start_all (rl_get (cur g1) rl1)) (rl_set (cur g1) [] rl1)
            (rl_set (cur g1) (ach_map ach_load (x_achs c) (rl_get (cur g1) (xach xs))) (xach xs)), ev1)
    else (mkXS g1 (xm xs) [] [] [], ev1)
  else (xs, []).

Definition xstep (c : xcfg) (xs : xstate) (o : xop) : xstate * list event :=
  let g := xg xs in
  match o with
  | XPost e arg =>
      let '(g1, ev1) := step (x_base c) g (Post e) in
      if ingame g1 then
        let run1 := mode_events (x_modes c) e (xrun xs) in
        let '(g2, m2, ev2) := play_sets arg (active_sets c run1 e) g1 (xm xs) in
        (* the achievements are bound to the mode's player = game.player *)
        (mkXS g2 m2 run1 (xrl xs)
              (rl_set (cur g2) (ach_map (ach_event_rec e) (x_achs c) (rl_get (cur g2) (xach xs))) (xach xs)),
         ev1 ++ ev2)
      else (mkXS g1 (xm xs) (xrun xs) (xrl xs) (xach xs), ev1)
  | XStart =>
      let '(g1, ev1) := step (x_base c) g Start in
      if ingame g then (mkXS g1 (xm xs) (xrun xs) (xrl xs) (xach xs), ev1)
      else (* new game: new Player objects, nothing recorded, nothing runs; the game mode starts for player 1 *)
           (mkXS g1 (xm xs) [] [] (rl_set (cur g1) (ach_map ach_load (x_achs c) []) []), ev1)
  | XDrain => hand_over c xs Drain
  | XEndGame => hand_over c xs EndGame
  end.

Fixpoint xrun_ops (c : xcfg) (xs : xstate) (ops : list xop) : xstate :=
  match ops with
  | [] => xs
  | o :: r => xrun_ops c (fst (xstep c xs o)) r
  end.

(* ---- observations ---------------------------------------------------------------------------- *)
(* the running optional modes in the order of active_modes *)
Definition running_obs (ms : list mcfg) (run : list Z) : list Z :=
  filter (fun k => zmem k run) (map m_id ms).

Record xsnapshot := mkXSnap {
  xs_base : snapshot;
  xs_run : list Z;
  xs_mvars : store;
  xs_rl : list (list Z);
  xs_ach : list (list arec);     (* every player's records *)
  xs_areads : list arec          (* what the achievement devices read through their binding *)
}.

Definition xsnap (c : xcfg) (xs : xstate) (evs : list event) : xsnapshot :=
  mkXSnap (snap (x_base c) (xg xs) evs)
          (running_obs (x_modes c) (xrun xs))
          (sort_store (xm xs))
          (map (fun j => rl_get j (xrl xs)) (seq 0 (length (players (xg xs)))))
          (map (fun j => ach_map (fun _ r => r) (x_achs c) (rl_get j (xach xs))) (seq 0 (length (players (xg xs)))))
          (if ingame (xg xs) then ach_map (fun _ r => r) (x_achs c) (rl_get (cur (xg xs)) (xach xs))
           else map (fun _ => None) (x_achs c)).

Fixpoint xrun_snaps (c : xcfg) (xs : xstate) (ops : list xop) : list xsnapshot :=
  match ops with
  | [] => []
  | o :: r => let '(xs1, evs) := xstep c xs o in xsnap c xs1 evs :: xrun_snaps c xs1 r
  end.

Definition c11x_run (i : xcfg * list xop) : list xsnapshot := xrun_snaps (fst i) xinit (snd i).

Definition astate_eqb (a b : astate) : bool :=
  match a, b with
  | ADisabled, ADisabled | AEnabled, AEnabled | AStarted, AStarted | AStopped, AStopped
  | ACompleted, ACompleted => true
  | _, _ => false
  end.
Definition arec_eqb : arec -> arec -> bool :=
  option_eqb (fun x y => astate_eqb (fst x) (fst y) && Bool.eqb (snd x) (snd y)).
Definition xsnap_eqb (a b : xsnapshot) : bool :=
  snap_eqb (xs_base a) (xs_base b)
  && list_eqb Z.eqb (xs_run a) (xs_run b)
  && store_eqb (xs_mvars a) (xs_mvars b)
  && list_eqb (list_eqb Z.eqb) (xs_rl a) (xs_rl b)
  && list_eqb (list_eqb arec_eqb) (xs_ach a) (xs_ach b)
  && list_eqb arec_eqb (xs_areads a) (xs_areads b).
Definition c11x_out_eqb : list xsnapshot -> list xsnapshot -> bool := list_eqb xsnap_eqb.
