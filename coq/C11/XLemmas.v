(* C11/XLemmas.v — proofs about XModel.v (multi-variable variable_player entries with `player:` overrides and
   machine scope; optional game modes with restart_on_next_ball). *)
From Common Require Import Prelude.
From C11 Require Import Model Lemmas XModel.
Open Scope Z_scope.

(* ====================================================================================== *)
(* the per-player list as a total function                                                *)

Lemma nth_nil_nil {A} (j : nat) : nth j (@nil (list A)) [] = [].
Proof. destruct j; reflexivity. Qed.

Lemma rl_get_set_same {A} : forall j (v : list A) l, rl_get j (rl_set j v l) = v.
Proof.
  unfold rl_get. induction j as [|j IH]; intros v [|x r]; cbn; auto.
Qed.

Lemma rl_get_set_other {A} : forall i j (v : list A) l, i <> j -> rl_get i (rl_set j v l) = rl_get i l.
Proof.
  unfold rl_get. induction i as [|i IH]; intros [|j] v [|x r] N; cbn; try congruence; auto.
  - now destruct i.
  - rewrite IH by congruence. apply nth_nil_nil.
Qed.

Lemma rl_get_nil {A} j : rl_get j (@nil (list A)) = [].
Proof. apply nth_nil_nil. Qed.

(* ====================================================================================== *)
(* running modes                                                                          *)

Lemma zmem_true k l : zmem k l = true <-> In k l.
Proof.
  unfold zmem. rewrite existsb_exists. split.
  - intros (x & H & E). apply Z.eqb_eq in E. now subst.
  - intros H. exists k. split; [exact H|apply Z.eqb_refl].
Qed.

Lemma start_fold_mem k : forall l acc,
  In k (fold_left (fun r x => if zmem x r then r else x :: r) l acc) <-> In k acc \/ In k l.
Proof.
  induction l as [|a l IH]; intros acc; cbn; [tauto|].
  rewrite IH. destruct (zmem a acc) eqn:E.
  - apply zmem_true in E. split; [tauto|]. intros [H|[<-|H]]; tauto.
  - cbn. tauto.
Qed.

Lemma start_all_mem k l : In k (start_all l) <-> In k l.
Proof. unfold start_all. rewrite start_fold_mem. cbn. tauto. Qed.

Lemma recorded_mem ms run k :
  In k (recorded ms run) <-> exists m, In m ms /\ m_id m = k /\ m_restart m = true /\ In k run.
Proof.
  unfold recorded. rewrite in_map_iff. split.
  - intros (m & E & H). apply filter_In in H as (H & B). apply andb_true_iff in B as (B1 & B2).
    apply zmem_true in B2. exists m. subst k. auto.
  - intros (m & H & E & B1 & B2). exists m. split; [exact E|]. apply filter_In. split; [exact H|].
    apply andb_true_iff. split; [exact B1|]. apply zmem_true. now rewrite E.
Qed.

(* ====================================================================================== *)
(* one variable of an entry                                                               *)

Definition pset_target (g : state) (v : vset) : nat := target (length (players g)) (cur g) (vs_player v).
Definition pset_touch (arg : Z) (v : vset) : bool := cond_ok arg (vs_cond v) && is_player_act (vs_act v).

Lemma play_set_cases arg g m evs v :
  (exists ws, pset_touch arg v = true /\ Forall (fun w => wname w = vs_var v) ws /\
     play_set arg (g, m, evs) v
     = (fst (write_to (pset_target g v) ws g), m, evs ++ snd (write_to (pset_target g v) ws g)))
  \/ (exists m', pset_touch arg v = false /\ play_set arg (g, m, evs) v = (g, m', evs)).
Proof.
  unfold play_set, pset_touch, pset_target. destruct (cond_ok arg (vs_cond v)); cbn [andb].
  - destruct (vs_act v); cbn [is_player_act].
    + left. exists [WAdd (vs_var v) (vs_val v)]. split; [reflexivity|]. split; [repeat constructor|].
      now destruct (write_to _ _ g).
    + left. exists [WSet (vs_var v) (vs_val v)]. split; [reflexivity|]. split; [repeat constructor|].
      now destruct (write_to _ _ g).
    + right. eexists. split; reflexivity.
    + right. eexists. split; reflexivity.
  - right. exists m. split; reflexivity.
Qed.

Lemma target_lt n c p : (c < n)%nat -> (target n c p < n)%nat.
Proof.
  intros L. unfold target. destruct p as [z|]; [|exact L].
  destruct ((1 <=? z) && (z <=? Z.of_nat n)) eqn:E; [|exact L].
  apply andb_true_iff in E as (A & B). apply Z.leb_le in A, B. lia.
Qed.

Lemma write_to_inv c i ws s : inv c s -> inv c (fst (write_to i ws s)).
Proof.
  intros I. unfold inv in *. pose proof (write_to_spec i ws s) as (C & O & Len).
  destruct C as (C1 & C2 & C3 & C4 & C5). destruct (ingame s) eqn:G.
  - rewrite C2. destruct I as (V & M & L & Ld).
    split; [congruence|]. split; [congruence|]. split; [rewrite C1, Len; exact L|].
    rewrite C1. destruct (Nat.eq_dec i (cur s)) as [->|N].
    + destruct (nth_error_lt _ _ L) as (st & E).
      rewrite (write_to_store _ ws s st E). apply loaded_write. now rewrite <- (store_of_nth _ _ _ E).
    + rewrite (store_of_others i (cur s) s _ O) by congruence. exact Ld.
  - subst s. unfold write_to, apply_writes. cbn. now destruct i.
Qed.

Lemma pset_target_eq g g' : cur g' = cur g -> length (players g') = length (players g) ->
  forall v, pset_target g' v = pset_target g v.
Proof. intros A B v. unfold pset_target. now rewrite A, B. Qed.

(* ====================================================================================== *)
(* a whole entry: fold over its variables                                                 *)

Definition pf (arg : Z) (sets : list vset) (g : state) (m : store) (evs : list event) :=
  fold_left (play_set arg) sets (g, m, evs).

Lemma pf_ctl arg : forall sets g m evs,
  let g' := fst (fst (pf arg sets g m evs)) in
  same_ctl g g' /\ length (players g') = length (players g).
Proof.
  unfold pf. induction sets as [|v r IH]; intros g m evs; cbn [fold_left].
  - split; [apply same_ctl_refl|reflexivity].
  - destruct (play_set_cases arg g m evs v) as [(ws & _ & _ & E)|(m' & _ & E)]; rewrite E.
    + pose proof (write_to_spec (pset_target g v) ws g) as (C & _ & Len).
      destruct (IH (fst (write_to (pset_target g v) ws g)) m (evs ++ snd (write_to (pset_target g v) ws g)))
        as (C2 & L2).
      split; [eapply same_ctl_trans; eauto|congruence].
    + apply IH.
Qed.

(* a player who is not the target of any variable that plays is not touched *)
Lemma pf_frame arg : forall sets g m evs j,
  ~ In j (map (pset_target g) (filter (pset_touch arg) sets)) ->
  nth_error (players (fst (fst (pf arg sets g m evs)))) j = nth_error (players g) j.
Proof.
  unfold pf. induction sets as [|v r IH]; intros g m evs j N; cbn [fold_left]; [reflexivity|].
  cbn [filter] in N.
  destruct (play_set_cases arg g m evs v) as [(ws & T & _ & E)|(m' & T & E)]; rewrite E; rewrite T in N.
  - pose proof (write_to_spec (pset_target g v) ws g) as (C & O & Len).
    cbn [map In] in N.
    rewrite IH.
    + apply O. intros ->. apply N. now left.
    + rewrite (map_ext _ _ (pset_target_eq g _ (proj1 C) Len)). intros H. apply N. now right.
  - now apply IH.
Qed.

Lemma pf_inv c arg : forall sets g m evs, inv c g -> inv c (fst (fst (pf arg sets g m evs))).
Proof.
  unfold pf. induction sets as [|v r IH]; intros g m evs I; cbn [fold_left]; [exact I|].
  destruct (play_set_cases arg g m evs v) as [(ws & _ & _ & E)|(m' & _ & E)]; rewrite E.
  - apply IH. now apply write_to_inv.
  - now apply IH.
Qed.

Lemma pf_events arg : forall sets g m evs,
  exists e1, snd (pf arg sets g m evs) = evs ++ e1 /\ all_ok e1
             /\ chain_step g (fst (fst (pf arg sets g m evs))) e1.
Proof.
  unfold pf. induction sets as [|v r IH]; intros g m evs; cbn [fold_left].
  - exists []. split; [now rewrite List.app_nil_r|]. split; [constructor|]. now apply chain_step_refl.
  - destruct (play_set_cases arg g m evs v) as [(ws & _ & _ & E)|(m' & _ & E)]; rewrite E.
    + set (t := pset_target g v) in *.
      destruct (IH (fst (write_to t ws g)) m (evs ++ snd (write_to t ws g))) as (e1 & A & B & C).
      exists (snd (write_to t ws g) ++ e1). split; [now rewrite A, <- List.app_assoc|]. split.
      * apply Forall_app. split; [apply (evs_ok_all t), write_to_ok|exact B].
      * eapply chain_step_trans; [apply write_to_chain|exact C].
    + apply IH.
Qed.

Definition sets_num_ok (sets : list vset) : Prop := Forall (fun v => vs_var v <> n_number) sets.

Lemma pf_num arg : forall sets g m evs, sets_num_ok sets -> numbers_ok g ->
  numbers_ok (fst (fst (pf arg sets g m evs)))
  /\ exists e1, snd (pf arg sets g m evs) = evs ++ e1 /\ evs_num_ok e1.
Proof.
  unfold pf. induction sets as [|v r IH]; intros g m evs S N; cbn [fold_left].
  - split; [exact N|]. exists []. split; [now rewrite List.app_nil_r|constructor].
  - inversion S as [|? ? Sv Sr]; subst.
    destruct (play_set_cases arg g m evs v) as [(ws & _ & W & E)|(m' & _ & E)]; rewrite E.
    + set (t := pset_target g v) in *.
      assert (NW : names_ok ws).
      { eapply Forall_impl; [|exact W]. cbn. intros w Hw. congruence. }
      destruct (write_to_num t ws g NW N) as (N1 & E1).
      destruct (IH (fst (write_to t ws g)) m (evs ++ snd (write_to t ws g)) Sr N1) as (N2 & e1 & A & B).
      split; [exact N2|]. exists (snd (write_to t ws g) ++ e1).
      split; [now rewrite A, <- List.app_assoc|]. apply Forall_app. split; assumption.
    + now apply IH.
Qed.

(* scope: player actions never touch machine variables, machine actions never touch a player *)
Lemma pf_player_only arg : forall sets g m evs,
  forallb (fun v => is_player_act (vs_act v)) sets = true -> snd (fst (pf arg sets g m evs)) = m.
Proof.
  unfold pf. induction sets as [|v r IH]; intros g m evs H; cbn [fold_left]; [reflexivity|].
  cbn [forallb] in H. apply andb_true_iff in H as (Hv & Hr).
  destruct (play_set_cases arg g m evs v) as [(ws & _ & _ & E)|(m' & T & E)].
  - rewrite E. now apply IH.
  - assert (E' : play_set arg (g, m, evs) v = (g, m, evs)).
    { unfold play_set. unfold pset_touch in T. rewrite Hv, andb_true_r in T. now rewrite T. }
    rewrite E'. now apply IH.
Qed.

Lemma pf_machine_only arg : forall sets g m evs,
  forallb (fun v => negb (is_player_act (vs_act v))) sets = true ->
  fst (fst (pf arg sets g m evs)) = g /\ snd (pf arg sets g m evs) = evs.
Proof.
  unfold pf. induction sets as [|v r IH]; intros g m evs H; cbn [fold_left]; [split; reflexivity|].
  cbn [forallb] in H. apply andb_true_iff in H as (Hv & Hr).
  destruct (play_set_cases arg g m evs v) as [(ws & T & _ & E)|(m' & _ & E)].
  - unfold pset_touch in T. apply andb_true_iff in T as (_ & T). rewrite T in Hv. discriminate Hv.
  - rewrite E. now apply IH.
Qed.

(* ====================================================================================== *)
(* facts about Model.step needed here                                                     *)

Lemma step_post_spec c g e : inv c g ->
  let g1 := fst (step c g (Post e)) in
  ingame g1 = ingame g /\ cur g1 = cur g /\ length (players g1) = length (players g).
Proof.
  intros I. cbn [step]. destruct (ingame g) eqn:G; [|cbn; rewrite G; auto].
  destruct (inv_ingame c g I G) as (V & _).
  destruct (run_queue_spec c 8 g [e] V) as (C & _ & L & _). destruct C as (C1 & C2 & _).
  split; [congruence|]. split; assumption.
Qed.

Lemma step_start_spec c g : ingame g = true ->
  let g1 := fst (step c g Start) in
  ingame g1 = true /\ cur g1 = cur g /\ (length (players g) <= length (players g1))%nat.
Proof.
  intros G. cbn [step]. rewrite G.
  match goal with |- context [if ?b then _ else _] => destruct b end; cbn.
  - rewrite app_length. cbn. split; [exact G|]. split; [reflexivity|lia].
  - split; [exact G|]. split; [reflexivity|lia].
Qed.

(* ====================================================================================== *)
(* the invariant of the second layer                                                      *)

Definition xinv (c : xcfg) (xs : xstate) : Prop :=
  inv (x_base c) (xg xs) /\
  if ingame (xg xs)
  then rl_get (cur (xg xs)) (xrl xs) = []
       /\ (forall j, (length (players (xg xs)) <= j)%nat -> rl_get j (xrl xs) = [] /\ rl_get j (xach xs) = [])
  else xrun xs = [] /\ xrl xs = [] /\ xach xs = [].

Lemma xinv_init c : xinv c xinit.
Proof. split; [apply inv_init|]. cbn. auto. Qed.

Definition is_hand (o : xop) : Prop := o = XDrain \/ o = XEndGame.
Definition hop (o : xop) : op := match o with XEndGame => EndGame | _ => Drain end.

Lemma xstep_hand c xs o : is_hand o -> xstep c xs o = hand_over c xs (hop o).
Proof. intros [->| ->]; reflexivity. Qed.

Lemma hand_over_inv c xs o : xinv c xs -> xinv c (fst (hand_over c xs o)).
Proof.
  intros (I & R). unfold hand_over. destruct (ingame (xg xs)) eqn:G;
    [|cbn [fst]; split; [exact I|rewrite G; exact R]].
  destruct R as (R0 & Rn).
  pose proof (step_ok_all (x_base c) (xg xs) o I) as (I1 & K).
  destruct (step (x_base c) (xg xs) o) as [g1 ev1]. cbn [fst] in *.
  destruct (ingame g1) eqn:G1; cbn [fst]; (split; [exact I1|]); cbn [xg xrun xrl xach]; rewrite G1; [|auto].
  destruct (K G eq_refl) as (Len & _).
  destruct (inv_ingame _ _ I G) as (_ & _ & L & _). destruct (inv_ingame _ _ I1 G1) as (_ & _ & L1 & _).
  split; [apply rl_get_set_same|].
  intros j Hj. rewrite !rl_get_set_other by lia. apply Rn. lia.
Qed.

Lemma xstep_inv c xs o : xinv c xs -> xinv c (fst (xstep c xs o)).
Proof.
  intros X. destruct o as [|e arg| |]; cbn [xstep];
    [| |now apply hand_over_inv|now apply hand_over_inv].
  - (* XStart *)
    destruct X as (I & R).
    pose proof (step_ok_all (x_base c) (xg xs) Start I) as (I1 & _).
    pose proof (step_start_spec (x_base c) (xg xs)) as SS.
    pose proof (fun G => new_game_initial_l (x_base c) (xg xs) G) as NG.
    destruct (step (x_base c) (xg xs) Start) as [g1 ev1]. cbn [fst] in *.
    destruct (ingame (xg xs)) eqn:G; cbn [fst]; (split; [exact I1|]); cbn [xg xrun xrl xach].
    + destruct (SS eq_refl) as (G1 & C1 & Len). rewrite G1, C1. destruct R as (R0 & Rn).
      split; [exact R0|]. intros j Hj. apply Rn. lia.
    + destruct (NG eq_refl) as (P & C0 & G1 & _). rewrite G1, C0, P. cbn [length].
      split; [apply rl_get_nil|]. intros j Hj. split; [apply rl_get_nil|].
      rewrite rl_get_set_other by lia. apply rl_get_nil.
  - (* XPost *)
    destruct X as (I & R).
    pose proof (step_ok_all (x_base c) (xg xs) (Post e) I) as (I1 & _).
    pose proof (step_post_spec (x_base c) (xg xs) e I) as (G1 & C1 & L1).
    destruct (step (x_base c) (xg xs) (Post e)) as [g1 ev1]. cbn [fst] in *.
    destruct (ingame g1) eqn:G; [|cbn [fst]; split; [exact I1|]; cbn [xg xrun xrl xach]; rewrite G;
                                    rewrite <- G1 in R; exact R].
    unfold play_sets.
    pose proof (pf_ctl arg (active_sets c (mode_events (x_modes c) e (xrun xs)) e) g1 (xm xs) []) as (C2 & L2).
    pose proof (pf_inv (x_base c) arg (active_sets c (mode_events (x_modes c) e (xrun xs)) e) g1 (xm xs) [] I1)
      as I2.
    unfold pf in *.
    destruct (fold_left (play_set arg) (active_sets c (mode_events (x_modes c) e (xrun xs)) e) (g1, xm xs, []))
      as [[g2 m2] ev2]. cbn [fst snd] in *.
    split; [exact I2|]. cbn [xg xrun xrl xach]. destruct C2 as (D1 & D2 & _).
    rewrite D2, G, D1, L2, C1, L1. rewrite <- G1 in R. destruct R as (R0 & Rn).
    split; [exact R0|]. intros j Hj. destruct (Rn j Hj) as (Ra & Rb). split; [exact Ra|].
    destruct (inv_ingame _ _ I) as (_ & _ & L & _); [congruence|].
    rewrite rl_get_set_other by lia. exact Rb.
Qed.

Lemma xreachable_inv_l c : forall ops xs, xinv c xs -> xinv c (xrun_ops c xs ops).
Proof. induction ops as [|o r IH]; intros xs X; cbn; [exact X|]. apply IH. now apply xstep_inv. Qed.

(* ====================================================================================== *)
(* restart_on_next_ball                                                                   *)

(* a ball ends (and the game goes on): the current player's list receives exactly the running
   restart_on_next_ball modes; the player who is up next gets exactly what was recorded for him started, and
   his list is emptied *)
Lemma hand_over_restart_l c xs o : xinv c xs -> ingame (xg xs) = true -> is_hand o ->
  let xs' := fst (xstep c xs o) in
  ingame (xg xs') = true ->
  let i := cur (xg xs) in let i' := cur (xg xs') in
  (i' = i -> xrun xs' = start_all (recorded (x_modes c) (xrun xs)))
  /\ (i' <> i -> rl_get i (xrl xs') = recorded (x_modes c) (xrun xs)
                 /\ xrun xs' = start_all (rl_get i' (xrl xs)))
  /\ rl_get i' (xrl xs') = [].
Proof.
  intros (I & R) G H. rewrite (xstep_hand c xs o H). unfold hand_over. rewrite G in *.
  destruct R as (R0 & _). rewrite R0. cbn [List.app].
  destruct (step (x_base c) (xg xs) (hop o)) as [g1 ev1].
  destruct (ingame g1) eqn:G1; cbv zeta; cbn [fst xg xrun xrl]; [|intros D; congruence].
  intros _. split; [|split].
  - intros ->. now rewrite rl_get_set_same.
  - intros N. rewrite rl_get_set_other by congruence. rewrite rl_get_set_same.
    split; [reflexivity|]. now rewrite rl_get_set_other by congruence.
  - apply rl_get_set_same.
Qed.

(* nothing that happens while somebody else is up changes a player's list *)
Lemma xrl_frame_l c xs o j : xinv c xs ->
  ingame (xg xs) = true -> ingame (xg (fst (xstep c xs o))) = true ->
  j <> cur (xg xs) -> j <> cur (xg (fst (xstep c xs o))) ->
  rl_get j (xrl (fst (xstep c xs o))) = rl_get j (xrl xs).
Proof.
  intros (I & R) G. destruct o as [|e arg| |]; cbn [xstep].
  - destruct (step (x_base c) (xg xs) Start) as [g1 ev1]. rewrite G. reflexivity.
  - destruct (step (x_base c) (xg xs) (Post e)) as [g1 ev1].
    destruct (ingame g1); [|reflexivity]. unfold play_sets.
    destruct (fold_left _ _ _) as [[g2 m2] ev2]. reflexivity.
  - unfold hand_over. rewrite G. destruct (step (x_base c) (xg xs) Drain) as [g1 ev1].
    destruct (ingame g1) eqn:G1; cbn [fst xg xrl]; [|intros D; congruence].
    intros _ N1 N2. now rewrite !rl_get_set_other by congruence.
  - unfold hand_over. rewrite G. destruct (step (x_base c) (xg xs) EndGame) as [g1 ev1].
    destruct (ingame g1) eqn:G1; cbn [fst xg xrl]; [|intros D; congruence].
    intros _ N1 N2. now rewrite !rl_get_set_other by congruence.
Qed.

(* "player i is away": the game runs and somebody else is up after every operation *)
Fixpoint xaway (i : nat) (c : xcfg) (xs : xstate) (ops : list xop) : Prop :=
  match ops with
  | [] => True
  | o :: r => let xs' := fst (xstep c xs o) in
              ingame (xg xs') = true /\ cur (xg xs') <> i /\ xaway i c xs' r
  end.

Lemma xaway_keeps c i : forall ops xs,
  xinv c xs -> ingame (xg xs) = true -> cur (xg xs) <> i -> xaway i c xs ops ->
  let xs2 := xrun_ops c xs ops in
  xinv c xs2 /\ ingame (xg xs2) = true /\ cur (xg xs2) <> i /\ rl_get i (xrl xs2) = rl_get i (xrl xs).
Proof.
  induction ops as [|o r IH]; intros xs X G N A; cbn [xrun_ops]; [auto|].
  cbn [xaway] in A. destruct A as (G1 & N1 & A1).
  destruct (IH _ (xstep_inv c xs o X) G1 N1 A1) as (X2 & G2 & N2 & E2).
  split; [exact X2|]. split; [exact G2|]. split; [exact N2|].
  cbn zeta in E2. rewrite E2. apply xrl_frame_l; auto.
Qed.

(* restored exactly: i's ball ends with the optional modes [xrun xs] running, the others play (any operations),
   and when a ball of i starts again exactly the restart_on_next_ball modes among them run *)
Lemma restart_exact_l c xs i o1 ops o2 :
  xinv c xs -> ingame (xg xs) = true -> cur (xg xs) = i -> is_hand o1 ->
  let xs1 := fst (xstep c xs o1) in
  ingame (xg xs1) = true -> cur (xg xs1) <> i -> xaway i c xs1 ops ->
  let xs2 := xrun_ops c xs1 ops in
  is_hand o2 ->
  let xs3 := fst (xstep c xs2 o2) in
  ingame (xg xs3) = true -> cur (xg xs3) = i ->
  xrun xs3 = start_all (recorded (x_modes c) (xrun xs)) /\ rl_get i (xrl xs3) = [].
Proof.
  intros X G C H1 xs1 G1 N1 A xs2 H2 xs3 G3 C3.
  destruct (hand_over_restart_l c xs o1 X G H1 G1) as (_ & B & _). fold xs1 in B.
  rewrite C in B. destruct (B N1) as (B1 & _).
  destruct (xaway_keeps c i ops xs1 (xstep_inv c xs o1 X) G1 N1 A) as (X2 & G2 & N2 & E2). fold xs2 in X2, G2, N2, E2.
  destruct (hand_over_restart_l c xs2 o2 X2 G2 H2 G3) as (_ & D & D0). fold xs3 in D, D0.
  rewrite C3 in D, D0. assert (N3 : i <> cur (xg xs2)) by congruence.
  destruct (D N3) as (_ & D2). split; [|exact D0]. now rewrite D2, E2, B1.
Qed.

(* the same player is up again at once (extra ball, one-player game) *)
Lemma restart_same_player_l c xs o : xinv c xs -> ingame (xg xs) = true -> is_hand o ->
  let xs' := fst (xstep c xs o) in
  ingame (xg xs') = true -> cur (xg xs') = cur (xg xs) ->
  xrun xs' = start_all (recorded (x_modes c) (xrun xs)).
Proof.
  intros X G H xs' G1 C. destruct (hand_over_restart_l c xs o X G H G1) as (A & _). now apply A.
Qed.

(* in terms of single modes *)
Lemma restarted_iff c run k :
  In k (start_all (recorded (x_modes c) run))
  <-> exists m, In m (x_modes c) /\ m_id m = k /\ m_restart m = true /\ In k run.
Proof. rewrite start_all_mem. apply recorded_mem. Qed.

(* ====================================================================================== *)
(* frame                                                                                  *)

Definition xtargets (c : xcfg) (xs : xstate) (e arg : Z) : list nat :=
  map (pset_target (xg xs))
      (filter (pset_touch arg) (active_sets c (mode_events (x_modes c) e (xrun xs)) e)).

Lemma xstep_frame_l c xs o j st : xinv c xs ->
  ingame (xg xs) = true -> ingame (xg (fst (xstep c xs o))) = true ->
  j <> cur (xg xs) -> j <> cur (xg (fst (xstep c xs o))) ->
  (forall e arg, o = XPost e arg -> ~ In j (xtargets c xs e arg)) ->
  nth_error (players (xg xs)) j = Some st ->
  nth_error (players (xg (fst (xstep c xs o)))) j = Some st.
Proof.
  intros (I & R) G.
  assert (F : forall o', ingame (fst (step (x_base c) (xg xs) o')) = true ->
              j <> cur (xg xs) -> j <> cur (fst (step (x_base c) (xg xs) o')) ->
              nth_error (players (xg xs)) j = Some st ->
              nth_error (players (fst (step (x_base c) (xg xs) o'))) j = Some st).
  { intros o' G' N N' E. destruct (step_ok_all (x_base c) (xg xs) o' I) as (_ & K).
    destruct (K G G') as (_ & F & _). now apply F. }
  destruct o as [|e arg| |]; cbn [xstep].
  - specialize (F Start). destruct (step (x_base c) (xg xs) Start) as [g1 ev1]. rewrite G. cbn [fst xg] in *.
    intros G1 N N1 _ E. now apply F.
  - pose proof (step_post_spec (x_base c) (xg xs) e I) as (G1 & C1 & L1).
    specialize (F (Post e)).
    destruct (step (x_base c) (xg xs) (Post e)) as [g1 ev1]. cbn [fst] in *.
    rewrite G1, G. unfold play_sets.
    pose proof (pf_ctl arg (active_sets c (mode_events (x_modes c) e (xrun xs)) e) g1 (xm xs) []) as (C2 & L2).
    pose proof (pf_frame arg (active_sets c (mode_events (x_modes c) e (xrun xs)) e) g1 (xm xs) [] j) as PF.
    unfold pf in *.
    destruct (fold_left (play_set arg) (active_sets c (mode_events (x_modes c) e (xrun xs)) e) (g1, xm xs, []))
      as [[g2 m2] ev2]. cbn [fst snd xg] in *.
    intros _ N N2 T E. rewrite PF.
    + destruct C2 as (D1 & _). apply F; [congruence|exact N|congruence|exact E].
    + rewrite (map_ext _ _ (pset_target_eq (xg xs) g1 C1 L1)). now apply (T e arg).
  - unfold hand_over. rewrite G. specialize (F Drain).
    destruct (step (x_base c) (xg xs) Drain) as [g1 ev1]. cbn [fst] in *.
    destruct (ingame g1) eqn:G1; cbn [fst xg]; [|intros D; congruence]. intros _ N N1 _ E. now apply F.
  - unfold hand_over. rewrite G. specialize (F EndGame).
    destruct (step (x_base c) (xg xs) EndGame) as [g1 ev1]. cbn [fst] in *.
    destruct (ingame g1) eqn:G1; cbn [fst xg]; [|intros D; congruence]. intros _ N N1 _ E. now apply F.
Qed.

(* how `player:` resolves *)
Lemma target_default n c : target n c None = c.
Proof. reflexivity. Qed.
Lemma target_zero n c : target n c (Some 0) = c.
Proof. reflexivity. Qed.
Lemma target_named n c z : 1 <= z <= Z.of_nat n -> target n c (Some z) = Z.to_nat (z - 1).
Proof.
  intros (A & B). unfold target. apply Z.leb_le in A, B. now rewrite A, B.
Qed.
Lemma target_missing n c z : Z.of_nat n < z -> target n c (Some z) = c.
Proof.
  intros A. unfold target. apply Z.leb_gt in A. rewrite A. now rewrite andb_false_r.
Qed.

(* an entry without a `player:` that names an existing player touches the current player only *)
Definition names_nobody (n : nat) (v : vset) : bool :=
  match vs_player v with
  | None => true
  | Some z => negb ((1 <=? z) && (z <=? Z.of_nat n))
  end.

Lemma default_targets_current c xs e arg :
  forallb (names_nobody (length (players (xg xs)))) (active_sets c (mode_events (x_modes c) e (xrun xs)) e) = true ->
  forall j, In j (xtargets c xs e arg) -> j = cur (xg xs).
Proof.
  intros H j Hj. unfold xtargets in Hj. apply in_map_iff in Hj as (v & <- & Hv).
  apply filter_In in Hv as (Hv & _). rewrite forallb_forall in H. specialize (H v Hv).
  unfold pset_target, target, names_nobody in *. destruct (vs_player v) as [z|]; [|reflexivity].
  apply negb_true_iff in H. now rewrite H.
Qed.

(* histories: player i is up, nothing that plays names player j *)
Fixpoint xturn_of (i j : nat) (c : xcfg) (xs : xstate) (ops : list xop) : Prop :=
  match ops with
  | [] => True
  | o :: r => let xs' := fst (xstep c xs o) in
              ingame (xg xs') = true /\ cur (xg xs') = i
              /\ (forall e arg, o = XPost e arg -> ~ In j (xtargets c xs e arg))
              /\ xturn_of i j c xs' r
  end.

Lemma x_other_player_frame_l c : forall ops xs i j st,
  xinv c xs -> ingame (xg xs) = true -> cur (xg xs) = i -> j <> i -> xturn_of i j c xs ops ->
  nth_error (players (xg xs)) j = Some st ->
  nth_error (players (xg (xrun_ops c xs ops))) j = Some st.
Proof.
  induction ops as [|o r IH]; intros xs i j st X G C N T E; cbn [xrun_ops]; [exact E|].
  cbn [xturn_of] in T. destruct T as (G1 & C1 & T0 & T1).
  apply (IH _ i j st (xstep_inv c xs o X) G1 C1 N T1).
  apply xstep_frame_l; auto; congruence.
Qed.

(* ====================================================================================== *)
(* scope of the machine variables                                                         *)

Lemma machine_vars_hand_over c xs o : o <> XStart -> (forall e arg, o <> XPost e arg) ->
  xm (fst (xstep c xs o)) = xm xs.
Proof.
  intros N1 N2. destruct o as [|e arg| |]; [congruence|exfalso; now apply (N2 e arg)| |]; cbn [xstep];
    unfold hand_over; destruct (ingame (xg xs)); try reflexivity;
    destruct (step (x_base c) (xg xs) _) as [g1 ev1]; now destruct (ingame g1).
Qed.

Lemma machine_vars_start c xs : xm (fst (xstep c xs XStart)) = xm xs.
Proof.
  cbn [xstep]. destruct (step (x_base c) (xg xs) Start) as [g1 ev1]. now destruct (ingame (xg xs)).
Qed.

Lemma machine_vars_player_actions c xs e arg :
  forallb (fun v => is_player_act (vs_act v)) (active_sets c (mode_events (x_modes c) e (xrun xs)) e) = true ->
  xm (fst (xstep c xs (XPost e arg))) = xm xs.
Proof.
  intros H. cbn [xstep]. destruct (step (x_base c) (xg xs) (Post e)) as [g1 ev1].
  destruct (ingame g1); [|reflexivity]. unfold play_sets.
  pose proof (pf_player_only arg _ g1 (xm xs) [] H) as P. unfold pf in P.
  destruct (fold_left _ _ _) as [[g2 m2] ev2]. exact P.
Qed.

Lemma players_machine_actions c xs e arg :
  forallb (fun v => negb (is_player_act (vs_act v))) (active_sets c (mode_events (x_modes c) e (xrun xs)) e) = true ->
  xg (fst (xstep c xs (XPost e arg))) = fst (step (x_base c) (xg xs) (Post e))
  /\ snd (xstep c xs (XPost e arg)) = snd (step (x_base c) (xg xs) (Post e)).
Proof.
  intros H. cbn [xstep]. destruct (step (x_base c) (xg xs) (Post e)) as [g1 ev1].
  destruct (ingame g1); [|split; reflexivity]. unfold play_sets.
  pose proof (pf_machine_only arg _ g1 (xm xs) [] H) as (P1 & P2). unfold pf in *.
  destruct (fold_left _ _ _) as [[g2 m2] ev2]. cbn [fst snd xg] in *. subst.
  split; [reflexivity|apply List.app_nil_r].
Qed.

(* ====================================================================================== *)
(* events                                                                                 *)

Lemma hand_over_events c xs o : snd (hand_over c xs o) = [] \/ snd (hand_over c xs o) = snd (step (x_base c) (xg xs) o).
Proof.
  unfold hand_over. destruct (ingame (xg xs)); [|now left]. right.
  destruct (step (x_base c) (xg xs) o) as [g1 ev1]. now destruct (ingame g1).
Qed.

Lemma xstep_events_ok_l c xs o : all_ok (snd (xstep c xs o)).
Proof.
  destruct o as [|e arg| |]; cbn [xstep].
  - pose proof (step_events_ok_l (x_base c) (xg xs) Start) as H.
    destruct (step (x_base c) (xg xs) Start) as [g1 ev1]. now destruct (ingame (xg xs)).
  - pose proof (step_events_ok_l (x_base c) (xg xs) (Post e)) as H.
    destruct (step (x_base c) (xg xs) (Post e)) as [g1 ev1]. cbn [snd] in H.
    destruct (ingame g1); [|exact H]. unfold play_sets.
    destruct (pf_events arg (active_sets c (mode_events (x_modes c) e (xrun xs)) e) g1 (xm xs) [])
      as (e1 & A & B & _). unfold pf in A.
    destruct (fold_left _ _ _) as [[g2 m2] ev2]. cbn [snd] in *. subst ev2. cbn [List.app].
    apply Forall_app. split; assumption.
  - destruct (hand_over_events c xs Drain) as [-> | ->]; [constructor|apply step_events_ok_l].
  - destruct (hand_over_events c xs EndGame) as [-> | ->]; [constructor|apply step_events_ok_l].
Qed.

(* per player and variable the events of one operation are an exact chain from the old to the new value *)
Lemma xstep_chain_l c xs o :
  xinv c xs -> ingame (xg xs) = true -> ingame (xg (fst (xstep c xs o))) = true ->
  forall j y, (j < length (players (xg xs)))%nat ->
    chain j y (lookup y (store_of (xg xs) j)) (snd (xstep c xs o))
          (lookup y (store_of (xg (fst (xstep c xs o))) j)).
Proof.
  intros (I & R) G. destruct o as [|e arg| |]; cbn [xstep].
  - pose proof (step_chain_l (x_base c) (xg xs) Start G) as H.
    destruct (step (x_base c) (xg xs) Start) as [g1 ev1]. rewrite G. cbn [fst snd xg] in *. exact H.
  - pose proof (step_chain_l (x_base c) (xg xs) (Post e) G) as H.
    pose proof (step_post_spec (x_base c) (xg xs) e I) as (G1 & _).
    destruct (step (x_base c) (xg xs) (Post e)) as [g1 ev1]. cbn [fst snd] in *.
    rewrite G1, G. unfold play_sets.
    destruct (pf_events arg (active_sets c (mode_events (x_modes c) e (xrun xs)) e) g1 (xm xs) [])
      as (e1 & A & _ & B). unfold pf in *.
    destruct (fold_left _ _ _) as [[g2 m2] ev2]. cbn [fst snd xg] in *. subst ev2. cbn [List.app].
    intros _ j y Lj. eapply chain_app; [apply H; [congruence|exact Lj]|apply B].
  - unfold hand_over. rewrite G. pose proof (step_chain_l (x_base c) (xg xs) Drain G) as H.
    destruct (step (x_base c) (xg xs) Drain) as [g1 ev1]. cbn [fst snd] in *.
    destruct (ingame g1) eqn:G1; cbn [fst snd xg]; [|intros D; congruence]. intros _. now apply H.
  - unfold hand_over. rewrite G. pose proof (step_chain_l (x_base c) (xg xs) EndGame G) as H.
    destruct (step (x_base c) (xg xs) EndGame) as [g1 ev1]. cbn [fst snd] in *.
    destruct (ingame g1) eqn:G1; cbn [fst snd xg]; [|intros D; congruence]. intros _. now apply H.
Qed.

(* player numbers *)
Definition xcfg_num_ok (c : xcfg) : bool :=
  cfg_num_ok (x_base c)
  && forallb (fun en => forallb (fun v => negb (vs_var v =? n_number)) (ve_sets en)) (x_entries c).

Lemma active_sets_num c run e : xcfg_num_ok c = true -> sets_num_ok (active_sets c run e).
Proof.
  intros H. apply andb_true_iff in H as (_ & H). rewrite forallb_forall in H.
  unfold sets_num_ok, active_sets. apply Forall_forall. intros v Hv.
  apply in_flat_map in Hv as (en & He & Hv). destruct (entry_active run e en); [|destruct Hv].
  specialize (H en He). rewrite forallb_forall in H. specialize (H v Hv).
  apply negb_true_iff, Z.eqb_neq in H. exact H.
Qed.

Lemma xstep_num c xs o : xcfg_num_ok c = true -> numbers_ok (xg xs) ->
  numbers_ok (xg (fst (xstep c xs o))) /\ evs_num_ok (snd (xstep c xs o)).
Proof.
  intros OK N. assert (OKb : cfg_num_ok (x_base c) = true) by (now apply andb_true_iff in OK).
  destruct o as [|e arg| |]; cbn [xstep].
  - pose proof (step_num (x_base c) (xg xs) Start OKb N) as H.
    destruct (step (x_base c) (xg xs) Start) as [g1 ev1]. now destruct (ingame (xg xs)).
  - pose proof (step_num (x_base c) (xg xs) (Post e) OKb N) as (H1 & H2).
    destruct (step (x_base c) (xg xs) (Post e)) as [g1 ev1]. cbn [fst snd] in *.
    destruct (ingame g1); [|split; assumption]. unfold play_sets.
    destruct (pf_num arg (active_sets c (mode_events (x_modes c) e (xrun xs)) e) g1 (xm xs) []
                     (active_sets_num c _ e OK) H1) as (A & e1 & B & D). unfold pf in *.
    destruct (fold_left _ _ _) as [[g2 m2] ev2]. cbn [fst snd xg] in *. subst ev2. cbn [List.app].
    split; [exact A|apply Forall_app; split; assumption].
  - unfold hand_over. destruct (ingame (xg xs)); [|split; [exact N|constructor]].
    pose proof (step_num (x_base c) (xg xs) Drain OKb N) as H.
    destruct (step (x_base c) (xg xs) Drain) as [g1 ev1]. now destruct (ingame g1).
  - unfold hand_over. destruct (ingame (xg xs)); [|split; [exact N|constructor]].
    pose proof (step_num (x_base c) (xg xs) EndGame OKb N) as H.
    destruct (step (x_base c) (xg xs) EndGame) as [g1 ev1]. now destruct (ingame g1).
Qed.

Lemma xrun_numbers_ok c : xcfg_num_ok c = true -> forall ops xs,
  numbers_ok (xg xs) -> numbers_ok (xg (xrun_ops c xs ops)).
Proof.
  intros OK. induction ops as [|o r IH]; intros xs N; cbn; [exact N|]. apply IH. now apply xstep_num.
Qed.

Lemma x_player_num_correct_l c : xcfg_num_ok c = true -> forall ops o,
  Forall (fun e => ev_num e = VInt (Z.of_nat (ev_idx e) + 1)) (snd (xstep c (xrun_ops c xinit ops) o)).
Proof.
  intros OK ops o. apply xstep_num; [exact OK|]. apply xrun_numbers_ok; [exact OK|apply numbers_ok_init].
Qed.

(* ====================================================================================== *)
(* achievements                                                                           *)

(* nothing that happens while somebody else is up changes a player's achievement records *)
Lemma ach_frame_l c xs o j : xinv c xs ->
  ingame (xg xs) = true -> ingame (xg (fst (xstep c xs o))) = true ->
  j <> cur (xg xs) -> j <> cur (xg (fst (xstep c xs o))) ->
  rl_get j (xach (fst (xstep c xs o))) = rl_get j (xach xs).
Proof.
  intros (I & R) G. destruct o as [|e arg| |]; cbn [xstep].
  - destruct (step (x_base c) (xg xs) Start) as [g1 ev1]. rewrite G. reflexivity.
  - destruct (step (x_base c) (xg xs) (Post e)) as [g1 ev1].
    destruct (ingame g1); [|reflexivity]. unfold play_sets.
    destruct (fold_left _ _ _) as [[g2 m2] ev2]. cbn [fst xg xach].
    intros _ _ N2. now rewrite rl_get_set_other by congruence.
  - unfold hand_over. rewrite G. destruct (step (x_base c) (xg xs) Drain) as [g1 ev1].
    destruct (ingame g1) eqn:G1; cbn [fst xg xach]; [|intros D; congruence].
    intros _ N1 N2. now rewrite rl_get_set_other by congruence.
  - unfold hand_over. rewrite G. destruct (step (x_base c) (xg xs) EndGame) as [g1 ev1].
    destruct (ingame g1) eqn:G1; cbn [fst xg xach]; [|intros D; congruence].
    intros _ N1 N2. now rewrite rl_get_set_other by congruence.
Qed.

(* a ball starts: the achievements of the game mode load against the records of the player who is up *)
Lemma hand_over_ach_l c xs o : ingame (xg xs) = true -> is_hand o ->
  let xs' := fst (xstep c xs o) in
  ingame (xg xs') = true ->
  xach xs' = rl_set (cur (xg xs')) (ach_map ach_load (x_achs c) (rl_get (cur (xg xs')) (xach xs))) (xach xs).
Proof.
  intros G H. rewrite (xstep_hand c xs o H). unfold hand_over. rewrite G.
  destruct (step (x_base c) (xg xs) (hop o)) as [g1 ev1].
  destruct (ingame g1) eqn:G1; cbv zeta; cbn [fst xg xach]; [|intros D; congruence]. reflexivity.
Qed.

Lemma xaway_keeps_ach c i : forall ops xs,
  xinv c xs -> ingame (xg xs) = true -> cur (xg xs) <> i -> xaway i c xs ops ->
  rl_get i (xach (xrun_ops c xs ops)) = rl_get i (xach xs).
Proof.
  induction ops as [|o r IH]; intros xs X G N A; cbn [xrun_ops]; [reflexivity|].
  cbn [xaway] in A. destruct A as (G1 & N1 & A1).
  rewrite (IH _ (xstep_inv c xs o X) G1 N1 A1). apply ach_frame_l; auto.
Qed.

(* restored exactly: when a ball of player i starts again, his achievement records are the configured image
   (_restore_state) of his records when his previous ball ended, whatever the others did meanwhile *)
Lemma ach_restore_exact_l c xs i o1 ops o2 :
  xinv c xs -> ingame (xg xs) = true -> cur (xg xs) = i -> is_hand o1 ->
  let xs1 := fst (xstep c xs o1) in
  ingame (xg xs1) = true -> cur (xg xs1) <> i -> xaway i c xs1 ops ->
  let xs2 := xrun_ops c xs1 ops in
  is_hand o2 ->
  let xs3 := fst (xstep c xs2 o2) in
  ingame (xg xs3) = true -> cur (xg xs3) = i ->
  rl_get i (xach xs3) = ach_map ach_load (x_achs c) (rl_get i (xach xs)).
Proof.
  intros X G C H1 xs1 G1 N1 A xs2 H2 xs3 G3 C3.
  pose proof (hand_over_ach_l c xs o1 G H1 G1) as E1. fold xs1 in E1.
  destruct (xaway_keeps c i ops xs1 (xstep_inv c xs o1 X) G1 N1 A) as (X2 & G2 & N2 & _). fold xs2 in X2, G2, N2.
  pose proof (xaway_keeps_ach c i ops xs1 (xstep_inv c xs o1 X) G1 N1 A) as E2. fold xs2 in E2.
  pose proof (hand_over_ach_l c xs2 o2 G2 H2 G3) as E3. fold xs3 in E3.
  rewrite E3, C3, rl_get_set_same, E2, E1. now rewrite rl_get_set_other by congruence.
Qed.

(* the same player is up again at once (extra ball, one-player game) *)
Lemma ach_same_player_l c xs o : ingame (xg xs) = true -> is_hand o ->
  let xs' := fst (xstep c xs o) in
  ingame (xg xs') = true -> cur (xg xs') = cur (xg xs) ->
  rl_get (cur (xg xs)) (xach xs') = ach_map ach_load (x_achs c) (rl_get (cur (xg xs)) (xach xs)).
Proof.
  intros G H xs' G1 C. pose proof (hand_over_ach_l c xs o G H G1) as E. fold xs' in E.
  rewrite E, C. apply rl_get_set_same.
Qed.

(* a player without records (first ball) starts from the configured initial state *)
Lemma ach_first_ball_l hs : ach_map ach_load hs [] = map (fun h => Some (h_init h, false)) hs.
Proof. induction hs as [|h r IH]; cbn; [reflexivity|]. now rewrite IH. Qed.

Lemma ach_new_game_l c xs : ingame (xg xs) = false ->
  let xs' := fst (xstep c xs XStart) in
  rl_get (cur (xg xs')) (xach xs') = map (fun h => Some (h_init h, false)) (x_achs c).
Proof.
  intros G. cbn [xstep]. destruct (step (x_base c) (xg xs) Start) as [g1 ev1]. rewrite G.
  cbn [fst xg xach]. rewrite rl_get_set_same. apply ach_first_ball_l.
Qed.

(* a player who is added has no records (so his first ball starts from the initial state) *)
Lemma ach_added_player_l c xs : xinv c xs -> ingame (xg xs) = true ->
  rl_get (length (players (xg xs))) (xach (fst (xstep c xs XStart))) = [].
Proof.
  intros (I & R) G. cbn [xstep]. destruct (step (x_base c) (xg xs) Start) as [g1 ev1]. rewrite G in *.
  cbn [fst xach]. destruct R as (_ & Rn). now apply Rn.
Qed.

Lemma x_reachable_inv_l c ops : xinv c (xrun_ops c xinit ops).
Proof. apply xreachable_inv_l, xinv_init. Qed.

Lemma target_resolution_l n c :
  target n c None = c /\ target n c (Some 0) = c
  /\ (forall z, 1 <= z <= Z.of_nat n -> target n c (Some z) = Z.to_nat (z - 1))
  /\ (forall z, Z.of_nat n < z -> target n c (Some z) = c).
Proof.
  split; [apply target_default|]. split; [apply target_zero|].
  split; [apply target_named|apply target_missing].
Qed.

Lemma machine_scope_l c xs :
  xm (fst (xstep c xs XStart)) = xm xs /\ xm (fst (xstep c xs XDrain)) = xm xs
  /\ xm (fst (xstep c xs XEndGame)) = xm xs
  /\ (forall e arg,
        forallb (fun v => is_player_act (vs_act v)) (active_sets c (mode_events (x_modes c) e (xrun xs)) e) = true ->
        xm (fst (xstep c xs (XPost e arg))) = xm xs)
  /\ (forall e arg,
        forallb (fun v => negb (is_player_act (vs_act v)))
                (active_sets c (mode_events (x_modes c) e (xrun xs)) e) = true ->
        xg (fst (xstep c xs (XPost e arg))) = fst (step (x_base c) (xg xs) (Post e))
        /\ snd (xstep c xs (XPost e arg)) = snd (step (x_base c) (xg xs) (Post e))).
Proof.
  split; [apply machine_vars_start|].
  split; [apply machine_vars_hand_over; [discriminate|intros e arg; discriminate]|].
  split; [apply machine_vars_hand_over; [discriminate|intros e arg; discriminate]|].
  split; [intros e arg; apply machine_vars_player_actions|intros e arg; apply players_machine_actions].
Qed.

(* ====================================================================================== *)
(* examples: the hypotheses of the theorems are satisfiable on non-trivial states          *)

(* ex_cfg with three balls per game; one entry with four variables (an explicit player first, then the current
   player's score, a machine variable, a conditional variable for a player who does not exist), one entry that
   belongs to the optional mode 2; mode 3 is not restarted on the next ball, mode 2 is *)
Definition ex_xcfg : xcfg :=
  mkX (mkCfg 3 4 (pvars ex_cfg) (counters ex_cfg) (accruals ex_cfg) (shots ex_cfg) (vps ex_cfg))
      [mkVE 200 None [mkVS 50 AAdd (VInt 1) (Some 1) None; mkVS n_score AAdd (VInt 100) None None;
                      mkVS 60 AAddM (VInt 3) None None; mkVS 52 ASet (VF8 4) (Some 7) (Some 2)];
       mkVE 210 (Some 2) [mkVS n_score AAdd (VInt 1000) None None]]
      [mkM 3 303 313 false; mkM 2 302 312 true]
      [mkH 400 401 402 403 404 405 406 407 false true true ADisabled].

(* three players, player 1 is up on ball 1 with both optional modes running *)
Definition ex_x1 : xstate := xrun_ops ex_xcfg xinit [XStart; XStart; XStart; XPost 302 0; XPost 303 0].
(* player 1 has drained, player 2 is up *)
Definition ex_x2 : xstate := fst (xstep ex_xcfg ex_x1 XDrain).

Example ex_x_shape :
  ingame (xg ex_x1) = true /\ cur (xg ex_x1) = 0%nat /\ length (players (xg ex_x1)) = 3%nat
  /\ running_obs (x_modes ex_xcfg) (xrun ex_x1) = [3; 2]
  /\ cur (xg ex_x2) = 1%nat /\ xrun ex_x2 = [] /\ rl_get 0 (xrl ex_x2) = [2].
Proof. vm_compute. repeat split. Qed.

Example ex_xcfg_num_ok : xcfg_num_ok ex_xcfg = true.
Proof. reflexivity. Qed.

(* the entry fires in player 2's turn: `player: 1` goes to player 1 and only that variable; the score and the
   variable addressed to the missing player 7 go to player 2; the machine variable is no player's; player 3 is
   not named and keeps everything *)
Example ex_vp_frame :
  xturn_of 1 2 ex_xcfg ex_x2 [XPost 200 2; XPost 210 0; XPost 200 0]
  /\ xtargets ex_xcfg ex_x2 200 2 = [0; 1; 1]%nat
  /\ (let xs' := fst (xstep ex_xcfg ex_x2 (XPost 200 2)) in
      lookup 50 (store_of (xg xs') 0) = Some (VInt 1)
      /\ lookup n_score (store_of (xg xs') 0) = lookup n_score (store_of (xg ex_x2) 0)
      /\ lookup n_score (store_of (xg xs') 1) = Some (VInt 100)
      /\ lookup 52 (store_of (xg xs') 1) = Some (VF8 4)
      /\ lookup 50 (store_of (xg xs') 1) = None
      /\ lookup 60 (xm xs') = Some (VInt 3)
      /\ nth_error (players (xg xs')) 2 = nth_error (players (xg ex_x2)) 2
      /\ map (fun e => (ev_idx e, ev_name e, ev_num e)) (snd (xstep ex_xcfg ex_x2 (XPost 200 2)))
         = [(0%nat, 50, VInt 1); (1%nat, n_score, VInt 2); (1%nat, 52, VInt 2)]).
Proof.
  split.
  { cbn [xturn_of]; cbv zeta.
    repeat match goal with
           | |- _ /\ _ => split
           | |- True => exact I
           | |- forall e arg, _ = XPost e arg -> _ =>
               let H := fresh in intros ? ? H; inversion H; subst; vm_compute; intuition discriminate
           | |- _ = _ => vm_compute; reflexivity
           end. }
  split; [reflexivity|]. vm_compute. repeat split.
Qed.

(* restart_on_next_ball over three balls of player 1: both modes run when ball 1 ends; while he is away player 2
   scores and player 3 starts mode 3; ball 2 starts with mode 2 only; he stops it; ball 3 starts with nothing *)
Definition ex_away_x : list xop := [XPost 200 2; XDrain; XPost 303 0].
Definition ex_x3 : xstate := fst (xstep ex_xcfg (xrun_ops ex_xcfg ex_x2 ex_away_x) XDrain).
Example ex_restart :
  is_hand XDrain /\ ingame (xg ex_x2) = true /\ cur (xg ex_x2) <> 0%nat /\ xaway 0 ex_xcfg ex_x2 ex_away_x
  /\ running_obs (x_modes ex_xcfg) (xrun (xrun_ops ex_xcfg ex_x2 ex_away_x)) = [3]
  /\ ingame (xg ex_x3) = true /\ cur (xg ex_x3) = 0%nat
  /\ xrun ex_x3 = [2] /\ rl_get 0 (xrl ex_x3) = []
  /\ (let b3 := xrun_ops ex_xcfg ex_x3 [XPost 312 0; XDrain; XDrain; XDrain] in
      ingame (xg b3) = true /\ cur (xg b3) = 0%nat
      /\ lookup n_ball (store_of (xg b3) 0) = Some (VInt 3) /\ xrun b3 = []).
Proof.
  split; [now left|]. vm_compute. repeat split; discriminate.
Qed.

(* achievements: player 1 enables and starts the achievement on ball 1; the others play; on his ball 2 it is
   "stopped" (restart_on_next_ball_when_started: false); player 2, who never touched it, reads "disabled" *)
Definition ex_a1 : xstate := xrun_ops ex_xcfg ex_x1 [XPost 400 0; XPost 401 0].
Definition ex_a3 : xstate :=
  fst (xstep ex_xcfg (xrun_ops ex_xcfg (fst (xstep ex_xcfg ex_a1 XDrain)) ex_away_x) XDrain).
Example ex_ach :
  ingame (xg ex_a1) = true /\ cur (xg ex_a1) = 0%nat /\ rl_get 0 (xach ex_a1) = [Some (AStarted, false)]
  /\ cur (xg (fst (xstep ex_xcfg ex_a1 XDrain))) <> 0%nat
  /\ xaway 0 ex_xcfg (fst (xstep ex_xcfg ex_a1 XDrain)) ex_away_x
  /\ ingame (xg ex_a3) = true /\ cur (xg ex_a3) = 0%nat
  /\ rl_get 0 (xach ex_a3) = [Some (AStopped, false)]
  /\ rl_get 1 (xach ex_a3) = [Some (ADisabled, false)].
Proof. vm_compute. repeat split; discriminate. Qed.
