(* C11/Model.v — executable model of per-player state in MPF.

   Code modelled (see NOTES.md):
     mpf/core/player.py          Player.__init__/__getattr__/__setattr__/enable_events/send_all_variable_events
     mpf/devices/logic_blocks.py LogicBlock.device_loaded_in_mode/device_removed_from_mode, Counter.count,
                                 Accrual.hit, complete/reset/enable/disable/restart
     mpf/core/enable_disable_mixin.py  persisted enable flag (persist_enable: true)
     mpf/devices/shot.py         hit/advance/jump(reset)/restart, state kept in player var shot_<name>
     mpf/config_players/variable_player.py   add / set on the current player
     mpf/core/mode_controller.py _player_turn_start/_player_turn_ended (Mode.player), _ball_ending (mode stop)
     mpf/modes/game/code/game.py start, request_player_add, ball end, extra balls, end_game, _rotate_players

   Names of player variables and of MPF events are numbers (the harness owns the table name <-> id);
   values are Python values of the kinds that occur: int, bool, str, float on the 1/8 grid,
   LogicBlockState objects, and "some other object" (lists/dicts: never posted as events).

   Definitions only; proofs are in Lemmas.v. *)
From Common Require Import Prelude.
Open Scope Z_scope.

Definition name := Z.

Inductive lbval := LInt (z : Z) | LBools (l : list bool).
Inductive value :=
| VInt (z : Z)
| VBool (b : bool)
| VStr (s : list Z)
| VF8 (n : Z)                       (* the float n/8 *)
| VLB (en co : bool) (v : lbval)    (* LogicBlockState(enabled, completed, value) *)
| VObj.                             (* any other object (list, dict) *)

Definition store := list (name * value).      (* Player.vars, in insertion order *)

(* well-known variable ids (the harness uses the same numbers) *)
Definition n_index : name := 1.
Definition n_number : name := 2.
Definition n_score : name := 3.
Definition n_ball : name := 4.
Definition n_extra_balls : name := 5.
Definition n_restart_modes : name := 6.

Fixpoint lookup (x : name) (st : store) : option value :=
  match st with
  | [] => None
  | (k, v) :: r => if k =? x then Some v else lookup x r
  end.

(* dict assignment: replace in place, or append *)
Fixpoint sset (x : name) (v : value) (st : store) : store :=
  match st with
  | [] => [(x, v)]
  | (k, w) :: r => if k =? x then (k, v) :: r else (k, w) :: sset x v r
  end.

(* ---- the fragment of Python arithmetic / comparison that Player.__setattr__ uses ------------ *)
Definition num8 (v : value) : option (bool * Z) :=      (* (is float, value in eighths) *)
  match v with
  | VInt z => Some (false, 8 * z)
  | VBool b => Some (false, if b then 8 else 0)
  | VF8 n => Some (true, n)
  | _ => None
  end.
Definition mknum (f : bool) (n : Z) : value := if f then VF8 n else VInt (n / 8).

(* value - prev_value; None = TypeError *)
Definition py_sub (a b : value) : option value :=
  match num8 a, num8 b with
  | Some (fa, x), Some (fb, y) => Some (mknum (fa || fb) (x - y))
  | _, _ => None
  end.
Definition py_add (a b : value) : option value :=
  match num8 a, num8 b with
  | Some (fa, x), Some (fb, y) => Some (mknum (fa || fb) (x + y))
  | _, _ => None
  end.
Definition py_eqb (a b : value) : bool :=
  match num8 a, num8 b with
  | Some (_, x), Some (_, y) => x =? y
  | _, _ => match a, b with VStr s, VStr t => zs_eqb s t | _, _ => false end
  end.
Definition truthy (v : value) : bool :=
  match v with
  | VInt z => negb (z =? 0)
  | VBool b => b
  | VStr s => match s with [] => false | _ => true end
  | VF8 n => negb (n =? 0)
  | VLB _ _ _ => true
  | VObj => true
  end.
(* isinstance(value, (int, str, float)) *)
Definition simple (v : value) : bool :=
  match v with VInt _ | VBool _ | VStr _ | VF8 _ => true | _ => false end.
Definition is_str (v : value) : bool := match v with VStr _ => true | _ => false end.

(* ---- player_<var> events ------------------------------------------------------------------- *)
Record event := mkEv {
  ev_idx : nat;          (* ghost: index of the Player object that posted it *)
  ev_name : name;
  ev_value : value;
  ev_prev : value;
  ev_change : value;
  ev_num : value;        (* self.vars['number'] at the time of posting *)
  ev_new : bool;         (* ghost: the variable did not exist before *)
  ev_announce : bool     (* ghost: posted by send_all_variable_events, not by an assignment *)
}.

Definition numvar (st : store) : value :=
  match lookup n_number st with Some v => v | None => VInt 0 end.

Definition change_of (v prev : value) : value :=
  match py_sub v prev with
  | Some c => c
  | None => VBool (negb (py_eqb prev v))
  end.

(* Player.__setattr__(name, value) with events enabled *)
Definition assign (i : nat) (st : store) (x : name) (v : value) : store * list event :=
  let '(prev, isnew) := match lookup x st with Some p => (p, false) | None => (VInt 0, true) end in
  let st' := sset x v st in
  let change := change_of v prev in
  if (truthy change || isnew) && simple v
  then (st', [mkEv i x v prev change (numvar st') isnew false])
  else (st', []).

(* Player.send_all_variable_events *)
Definition announce (i : nat) (st : store) : list event :=
  flat_map (fun kv : name * value =>
              let '(k, v) := kv in
              if simple v
              then [mkEv i k v v (if is_str v then VBool false else VInt 0) (numvar st) false true]
              else []) st.

(* ---- writes: what a handler does to ONE player's variables ----------------------------------- *)
Inductive write :=
| WSet (x : name) (v : value)      (* player[x] = v   (also: in-place update of a state object) *)
| WAdd (x : name) (v : value).     (* player[x] = player[x] + v *)

Definition getvar (x : name) (st : store) : value :=        (* Player.__getattr__: default 0 *)
  match lookup x st with Some v => v | None => VInt 0 end.

Definition apply_write (i : nat) (st : store) (w : write) : store * list event :=
  match w with
  | WSet x v => assign i st x v
  | WAdd x v => match py_add (getvar x st) v with
                | Some r => assign i st x r
                | None => (st, [])            (* TypeError in the implementation: outside the domain *)
                end
  end.

Fixpoint apply_writes_store (i : nat) (st : store) (ws : list write) : store * list event :=
  match ws with
  | [] => (st, [])
  | w :: r => let '(st1, e1) := apply_write i st w in
              let '(st2, e2) := apply_writes_store i st1 r in
              (st2, e1 ++ e2)
  end.

Fixpoint upd_nth {A} (i : nat) (f : A -> A) (l : list A) : list A :=
  match l, i with
  | [], _ => []
  | x :: r, O => f x :: r
  | x :: r, S k => x :: upd_nth k f r
  end.

Definition apply_writes (i : nat) (ws : list write) (ps : list store) : list store * list event :=
  match nth_error ps i with
  | Some st => let '(st', evs) := apply_writes_store i st ws in
               (upd_nth i (fun _ => st') ps, evs)
  | None => (ps, [])
  end.

(* ---- configuration --------------------------------------------------------------------------- *)
Record ccfg := mkC {
  c_var : name;                     (* "<name>_state" *)
  c_count_ev : Z; c_en_ev : Z; c_dis_ev : Z; c_reset_ev : Z; c_restart_ev : Z;
  c_complete_ev : Z;                (* posted on completion *)
  c_start : Z; c_complete : option Z; c_step : Z; c_down : bool;
  c_roc : bool; c_doc : bool; c_start_enabled : bool
}.
Record acfg := mkA {
  a_var : name;
  a_evs : list Z;                   (* one event per step *)
  a_en_ev : Z; a_dis_ev : Z; a_reset_ev : Z; a_restart_ev : Z;
  a_complete_ev : Z;
  a_roc : bool; a_doc : bool; a_start_enabled : bool
}.
Record scfg := mkS {
  s_var : name;                     (* "shot_<name>" *)
  s_envar : name;                   (* "shot_<name>_enabled" *)
  s_hit_ev : Z; s_en_ev : Z; s_dis_ev : Z; s_reset_ev : Z; s_adv_ev : Z; s_restart_ev : Z;
  s_nstates : Z; s_loop : bool; s_start_enabled : bool
}.
Record vpent := mkVP { vp_ev : Z; vp_var : name; vp_add : bool; vp_val : value }.
Record cfg := mkCfg {
  bpg : Z; maxp : Z;
  pvars : list (name * value);
  counters : list ccfg; accruals : list acfg; shots : list scfg;
  vps : list vpent
}.

(* ---- logic blocks ---------------------------------------------------------------------------- *)
(* LogicBlock.complete() followed by what it calls; returns new (enabled, completed, value) and posts *)
Definition lb_complete {V} (roc doc : bool) (start : V) (cev : Z) (en co : bool) (v : V)
  : (bool * bool * V) * list Z :=
  if co then ((en, co, v), [])
  else
    let '(co1, v1) := if roc then (false, start) else (true, v) in
    let en1 := if doc then false else en in
    ((en1, co1, v1), [cev]).

Definition c_check (c : ccfg) (v : Z) : bool :=
  match c_complete c with
  | Some cv => if c_down c then v <=? cv else cv <=? v
  | None => false
  end.

Definition counter_handle (c : ccfg) (st : store) (e : Z) : list write * list Z :=
  match lookup (c_var c) st with
  | Some (VLB en co (LInt v)) =>
      if e =? c_count_ev c then
        if en then
          let v' := v + c_step c in
          if c_check c v' then
            let '((en1, co1, v1), post) :=
              lb_complete (c_roc c) (c_doc c) (c_start c) (c_complete_ev c) en co v' in
            ([WSet (c_var c) (VLB en1 co1 (LInt v1))], post)
          else ([WSet (c_var c) (VLB en co (LInt v'))], [])
        else ([], [])
      else if e =? c_en_ev c then ([WSet (c_var c) (VLB true co (LInt v))], [])
      else if e =? c_dis_ev c then ([WSet (c_var c) (VLB false co (LInt v))], [])
      else if e =? c_reset_ev c then ([WSet (c_var c) (VLB en false (LInt (c_start c)))], [])
      else if e =? c_restart_ev c then ([WSet (c_var c) (VLB true false (LInt (c_start c)))], [])
      else ([], [])
  | _ => ([], [])
  end.

Fixpoint set_bool (k : nat) (l : list bool) : list bool :=
  match l, k with
  | [], _ => []
  | _ :: r, O => true :: r
  | b :: r, S k' => b :: set_bool k' r
  end.

Fixpoint index_of (e : Z) (l : list Z) : option nat :=
  match l with
  | [] => None
  | x :: r => if x =? e then Some O else option_map S (index_of e r)
  end.

Definition a_startv (a : acfg) : list bool := map (fun _ => false) (a_evs a).

Definition accrual_handle (a : acfg) (st : store) (e : Z) : list write * list Z :=
  match lookup (a_var a) st with
  | Some (VLB en co (LBools l)) =>
      match index_of e (a_evs a) with
      | Some k =>
          if en then
            let l' := set_bool k l in
            if forallb (fun b => b) l' then
              let '((en1, co1, l1), post) :=
                lb_complete (a_roc a) (a_doc a) (a_startv a) (a_complete_ev a) en co l' in
              ([WSet (a_var a) (VLB en1 co1 (LBools l1))], post)
            else ([WSet (a_var a) (VLB en co (LBools l'))], [])
          else ([], [])
      | None =>
          if e =? a_en_ev a then ([WSet (a_var a) (VLB true co (LBools l))], [])
          else if e =? a_dis_ev a then ([WSet (a_var a) (VLB false co (LBools l))], [])
          else if e =? a_reset_ev a then ([WSet (a_var a) (VLB en false (LBools (a_startv a)))], [])
          else if e =? a_restart_ev a then ([WSet (a_var a) (VLB true false (LBools (a_startv a)))], [])
          else ([], [])
      end
  | _ => ([], [])
  end.

(* ---- shots (persist_enable: true) -------------------------------------------------------------- *)
Definition is_true (v : value) : bool := match v with VBool true => true | _ => false end.
Definition is_false (v : value) : bool := match v with VBool false => true | _ => false end.
Definition as_int (v : value) : Z :=
  match v with VInt z => z | VBool b => if b then 1 else 0 | _ => 0 end.

Definition shot_advance (s : scfg) (st : store) : list write :=
  let state := as_int (getvar (s_var s) st) in
  if s_nstates s <=? state + 1 then
    if s_loop s then [WSet (s_var s) (VInt 0)] else []
  else [WSet (s_var s) (VInt (state + 1))].

Definition shot_reset (s : scfg) (st : store) : list write :=
  if py_eqb (VInt 0) (getvar (s_var s) st) then [] else [WSet (s_var s) (VInt 0)].

Definition shot_enable (s : scfg) (st : store) : list write :=
  if is_true (getvar (s_envar s) st) then [] else [WSet (s_envar s) (VBool true)].

Definition shot_handle (s : scfg) (st : store) (e : Z) : list write :=
  let en := getvar (s_envar s) st in
  if (e =? s_hit_ev s) || (e =? s_adv_ev s) then
    if truthy en then shot_advance s st else []
  else if e =? s_en_ev s then shot_enable s st
  else if e =? s_dis_ev s then
    if is_false en then [] else [WSet (s_envar s) (VBool false)]
  else if e =? s_reset_ev s then shot_reset s st
  else if e =? s_restart_ev s then shot_reset s st ++ shot_enable s st
  else [].

(* all device handlers of the game mode, run against the store the devices are bound to *)
Definition device_handle (c : cfg) (st : store) (e : Z) : list write * list Z :=
  let cs := map (fun x => counter_handle x st e) (counters c) in
  let as_ := map (fun x => accrual_handle x st e) (accruals c) in
  let ss := map (fun x => shot_handle x st e) (shots c) in
  (flat_map fst cs ++ flat_map fst as_ ++ concat ss, flat_map snd cs ++ flat_map snd as_).

Definition vp_writes (c : cfg) (e : Z) : list write :=
  flat_map (fun p => if vp_ev p =? e
                     then [if vp_add p then WAdd (vp_var p) (vp_val p) else WSet (vp_var p) (vp_val p)]
                     else []) (vps c).

(* device_loaded_in_mode for every device of the mode, against the mode's player *)
Definition load_writes (c : cfg) (st : store) : list write :=
  flat_map (fun x => match lookup (c_var x) st with
                     | None => [WSet (c_var x) (VLB (c_start_enabled x) false (LInt (c_start x)))]
                     | Some _ => [] end) (counters c)
  ++ flat_map (fun x => match lookup (a_var x) st with
                        | None => [WSet (a_var x) (VLB (a_start_enabled x) false (LBools (a_startv x)))]
                        | Some _ => [] end) (accruals c)
  ++ flat_map (fun x => match lookup (s_envar x) st with
                        | None => [WSet (s_envar x) (VBool (s_start_enabled x))]
                        | Some _ => [] end) (shots c).

(* ---- game state ------------------------------------------------------------------------------ *)
Record state := mkSt {
  players : list store;      (* game.player_list; [] when no game *)
  cur : nat;                 (* index of game.player *)
  ingame : bool;
  ending : bool;             (* game.ending *)
  mplayer : option nat;      (* Mode.player of the game mode (set at turn start, None at turn end) *)
  view : option nat          (* the player the mode's devices are bound to (mode running) *)
}.

Definition init_state : state := mkSt [] 0 false false None None.

Definition set_players (s : state) (ps : list store) : state :=
  mkSt ps (cur s) (ingame s) (ending s) (mplayer s) (view s).
Definition set_view (s : state) (v : option nat) : state :=
  mkSt (players s) (cur s) (ingame s) (ending s) (mplayer s) v.
Definition set_mplayer (s : state) (m : option nat) : state :=
  mkSt (players s) (cur s) (ingame s) (ending s) m (view s).
Definition set_cur (s : state) (c : nat) : state :=
  mkSt (players s) c (ingame s) (ending s) (mplayer s) (view s).
Definition set_ending (s : state) (b : bool) : state :=
  mkSt (players s) (cur s) (ingame s) b (mplayer s) (view s).

Definition write_to (i : nat) (ws : list write) (s : state) : state * list event :=
  let '(ps, evs) := apply_writes i ws (players s) in (set_players s ps, evs).

Definition store_of (s : state) (i : nat) : store :=
  match nth_error (players s) i with Some st => st | None => [] end.

(* Mode.start for the game mode: needs Mode.player; binds the devices to that player *)
Definition mode_start (c : cfg) (s : state) : state * list event :=
  match mplayer s with
  | Some p =>
      let '(s1, evs) := write_to p (load_writes c (store_of s p)) s in
      (set_view s1 (Some p), evs)
  | None => (s, [])
  end.

Definition mode_stop (s : state) : state := set_view s None.

(* one MPF event: device handlers act on the bound player, variable_player on game.player *)
Definition dispatch (c : cfg) (s : state) (e : Z) : state * list event * list Z :=
  match view s with
  | Some v =>
      let '(ws, posted) := device_handle c (store_of s v) e in
      let '(s1, e1) := write_to v ws s in
      let '(s2, e2) := write_to (cur s1) (vp_writes c e) s1 in
      (s2, e1 ++ e2, posted)
  | None => (s, [], [])
  end.

(* the event queue: FIFO, events posted by handlers are appended *)
Fixpoint run_queue (fuel : nat) (c : cfg) (s : state) (q : list Z) : state * list event :=
  match fuel, q with
  | O, _ => (s, [])
  | _, [] => (s, [])
  | S f, e :: r =>
      let '(s1, e1, posted) := dispatch c s e in
      let '(s2, e2) := run_queue f c s1 (r ++ posted) in
      (s2, e1 ++ e2)
  end.

Definition fresh_player (c : cfg) (i : nat) : store :=
  [(n_index, VInt (Z.of_nat i)); (n_number, VInt (Z.of_nat i + 1))]
    ++ pvars c ++ [(n_score, VInt 0); (n_restart_modes, VObj)].

(* Player(machine, index) + player_added + enable_events(True, True) *)
Definition add_player (c : cfg) (s : state) : state * list event :=
  let i := length (players s) in
  let st := fresh_player c i in
  (set_players s (players s ++ [st]), announce i st).

(* _start_player_turn + _start_ball for game.player *)
Definition start_turn (c : cfg) (s : state) : state * list event :=
  let '(s1, e1) := write_to (cur s) [WAdd n_ball (VInt 1)] s in
  let s2 := set_mplayer s1 (Some (cur s1)) in
  let '(s3, e3) := mode_start c s2 in
  (s3, e1 ++ e3).

Definition game_over (s : state) : state := init_state.

(* ball end: modes stop, extra ball or end of turn, game end or rotation, next ball *)
Definition end_ball (c : cfg) (s : state) : state * list event :=
  let s0 := mode_stop s in
  let st := store_of s0 (cur s0) in
  if truthy (getvar n_extra_balls st) then
    let '(s1, e1) := write_to (cur s0) [WAdd n_extra_balls (VInt (-1))] s0 in
    let '(s2, e2) := mode_start c s1 in
    (s2, e1 ++ e2)
  else
    let s1 := set_mplayer s0 None in
    let nump := Z.of_nat (length (players s1)) in
    let number := as_int (getvar n_number st) in
    if ending s1 || ((bpg c <=? as_int (getvar n_ball st)) && (number =? nump)) then
      (game_over s1, [])
    else
      let nxt := if number <? nump then Z.to_nat number else O in
      start_turn c (set_cur s1 nxt).

Inductive op :=
| Start            (* start button: new game, or request to add a player *)
| Post (e : Z)     (* an MPF event from the playfield / other modes *)
| Drain            (* the ball in play drains *)
| EndGame.         (* the end_game event *)

Definition step (c : cfg) (s : state) (o : op) : state * list event :=
  match o with
  | Start =>
      if ingame s then
        if negb (ending s)
           && (Z.of_nat (length (players s)) <? maxp c)
           && negb (1 <? as_int (getvar n_ball (store_of s (cur s))))
        then add_player c s
        else (s, [])
      else
        let s0 := mkSt [] 0 true false None None in
        let '(s1, e1) := add_player c s0 in
        let '(s2, e2) := start_turn c s1 in
        (s2, e1 ++ e2)
  | Post e => if ingame s then run_queue 8 c s [e] else (s, [])
  | Drain => if ingame s then end_ball c s else (s, [])
  | EndGame => if ingame s then end_ball c (set_ending s true) else (s, [])
  end.

(* ---- observations ---------------------------------------------------------------------------- *)
(* what the devices read through their binding (device.value/enabled/completed, shot.state/enabled) *)
Definition reads (c : cfg) (s : state) : list (option value) :=
  match view s with
  | Some v =>
      let st := store_of s v in
      map (fun x => lookup (c_var x) st) (counters c)
      ++ map (fun x => lookup (a_var x) st) (accruals c)
      ++ flat_map (fun x => [Some (getvar (s_var x) st); Some (getvar (s_envar x) st)]) (shots c)
  | None =>
      map (fun _ => None) (counters c) ++ map (fun _ => None) (accruals c)
      ++ flat_map (fun _ => [Some (VInt 0); Some (VBool false)]) (shots c)
  end.

(* canonical forms for the comparison with the implementation: stores sorted by variable id, events
   stably sorted by (player index, variable id) *)
Fixpoint insert_kv (kv : name * value) (l : store) : store :=
  match l with
  | [] => [kv]
  | h :: r => if fst kv <? fst h then kv :: l else h :: insert_kv kv r
  end.
Definition sort_store (st : store) : store := fold_right insert_kv [] st.

Definition ev_lt (a b : event) : bool :=
  let ia := Z.of_nat (ev_idx a) in let ib := Z.of_nat (ev_idx b) in
  (ia <? ib) || ((ia =? ib) && (ev_name a <? ev_name b)).
(* stable: sort_events folds from the right, so the element being inserted precedes (in the original order) every
   element already in l: it goes BEFORE the first element that is not smaller *)
Fixpoint insert_ev (e : event) (l : list event) : list event :=
  match l with
  | [] => [e]
  | h :: r => if ev_lt h e then h :: insert_ev e r else e :: l
  end.
Definition sort_events (l : list event) : list event := fold_right insert_ev [] l.

(* observable part of an event: (name, value, prev_value, change, player_num) *)
Definition obs_event := (name * value * value * value * value)%type.
Definition obs_ev (e : event) : obs_event := (ev_name e, ev_value e, ev_prev e, ev_change e, ev_num e).

Record snapshot := mkSnap {
  sn_events : list obs_event;
  sn_ingame : bool;
  sn_cur : Z;
  sn_players : list store;
  sn_reads : list (option value)
}.

Definition snap (c : cfg) (s : state) (evs : list event) : snapshot :=
  mkSnap (map obs_ev (sort_events evs)) (ingame s) (Z.of_nat (cur s)) (map sort_store (players s)) (reads c s).

Fixpoint run_ops (c : cfg) (s : state) (ops : list op) : list snapshot :=
  match ops with
  | [] => []
  | o :: r => let '(s1, evs) := step c s o in snap c s1 evs :: run_ops c s1 r
  end.

Definition c11_run (i : cfg * list op) : list snapshot := run_ops (fst i) init_state (snd i).

(* ---- decidable equality of observations ------------------------------------------------------ *)
Definition lbval_eqb (a b : lbval) : bool :=
  match a, b with
  | LInt x, LInt y => x =? y
  | LBools x, LBools y => list_eqb Bool.eqb x y
  | _, _ => false
  end.
Definition value_eqb (a b : value) : bool :=
  match a, b with
  | VInt x, VInt y => x =? y
  | VBool x, VBool y => Bool.eqb x y
  | VStr x, VStr y => zs_eqb x y
  | VF8 x, VF8 y => x =? y
  | VLB e1 c1 v1, VLB e2 c2 v2 => Bool.eqb e1 e2 && Bool.eqb c1 c2 && lbval_eqb v1 v2
  | VObj, VObj => true
  | _, _ => false
  end.
Definition kv_eqb (a b : name * value) : bool := (fst a =? fst b) && value_eqb (snd a) (snd b).
Definition store_eqb : store -> store -> bool := list_eqb kv_eqb.
Definition obs_ev_eqb (a b : obs_event) : bool :=
  let '(n1, v1, p1, c1, m1) := a in
  let '(n2, v2, p2, c2, m2) := b in
  (n1 =? n2) && value_eqb v1 v2 && value_eqb p1 p2 && value_eqb c1 c2 && value_eqb m1 m2.
Definition snap_eqb (a b : snapshot) : bool :=
  list_eqb obs_ev_eqb (sn_events a) (sn_events b)
  && Bool.eqb (sn_ingame a) (sn_ingame b)
  && (sn_cur a =? sn_cur b)
  && list_eqb store_eqb (sn_players a) (sn_players b)
  && list_eqb (option_eqb value_eqb) (sn_reads a) (sn_reads b).
Definition c11_out_eqb : list snapshot -> list snapshot -> bool := list_eqb snap_eqb.
