From Common Require Import Prelude.
From C11 Require Import Model Lemmas.
Open Scope Z_scope.
