(* C11/Props.v — property theorems only.  Each is closed by [exact] of a lemma from Lemmas.v and followed by
   Print Assumptions (parsed by the check: must be "Closed under the global context").

   Property C11: in a multi-player game every player variable and every piece of persisted device state
   belongs to exactly one player: it is restored exactly when that player's next ball starts, is never
   changed by anything that happens during another player's turn, a new game starts every player from the
   configured initial values, and each player-variable change posts one event with the correct value,
   previous value, change and player number.

   The statements quantify over every configuration [c : cfg] and every state reachable by any history
   (through the invariant [inv], established for all histories by [reachable_inv]). *)
From Common Require Import Prelude.
From C11 Require Import Model Lemmas XModel XLemmas GModel GLemmas.
Open Scope Z_scope.

(* every state of every history satisfies the invariant: in a running game the mode's player and the
   devices' binding are the current player, whose variables hold the state of every device *)
Theorem reachable_inv : forall c ops, inv c (run c init_state ops).
Proof. exact reachable_inv_l. Qed.
Print Assumptions reachable_inv.

Theorem view_is_current :
  forall c ops, let s := run c init_state ops in
    ingame s = true -> view s = Some (cur s) /\ mplayer s = Some (cur s).
Proof. exact view_is_current_l. Qed.
Print Assumptions view_is_current.

(* any operation sequence during player i's turn leaves every other player's variables unchanged *)
Theorem other_player_frame :
  forall c ops s i,
    inv c s -> ingame s = true -> cur s = i -> turn_of i c s ops ->
    forall j st, j <> i -> nth_error (players s) j = Some st ->
                 nth_error (players (run c s ops)) j = Some st.
Proof. exact other_player_frame_l. Qed.
Print Assumptions other_player_frame.

(* one operation of any kind (including the hand-over itself) touches at most the player whose turn it was
   and the player whose turn it is afterwards *)
Theorem step_frame :
  forall c s o, inv c s -> ingame s = true -> ingame (fst (step c s o)) = true ->
    forall j st, j <> cur s -> j <> cur (fst (step c s o)) ->
      nth_error (players s) j = Some st -> nth_error (players (fst (step c s o))) j = Some st.
Proof. exact step_frame_l. Qed.
Print Assumptions step_frame.

Example frame_hypotheses_satisfiable :
  cfg_ok ex_cfg = true /\ inv ex_cfg ex_s /\
  turn_of 0 ex_cfg ex_s [Post 100; Post 160; Post 161]
  /\ nth_error (players (run ex_cfg ex_s [Post 100; Post 160; Post 161])) 0 <> nth_error (players ex_s) 0
  /\ nth_error (players (run ex_cfg ex_s [Post 100; Post 160; Post 161])) 1 = nth_error (players ex_s) 1.
Proof. exact (conj ex_cfg_ok (conj ex_inv ex_frame_hyp)). Qed.
Print Assumptions frame_hypotheses_satisfiable.

(* when it is player i's turn again (next ball, extra ball, any number of other players' turns, players
   added meanwhile) every persisted device reads exactly what it read when i's previous ball ended: along
   the history the only operations executed while it is i's turn are hand-over operations *)
Theorem restore_exact :
  forall c, cfg_ok c = true -> forall ops s i,
    inv c s -> ingame s = true -> cur s = i -> quiet_for i c s ops ->
    ingame (run c s ops) = true -> cur (run c s ops) = i ->
    reads c (run c s ops) = reads c s.
Proof. exact restore_exact_l. Qed.
Print Assumptions restore_exact.

Example restore_hypotheses_satisfiable :
  quiet_for 0 ex_cfg ex_s ex_away
  /\ ingame (run ex_cfg ex_s ex_away) = true /\ cur (run ex_cfg ex_s ex_away) = 0%nat
  /\ nth_error (players (run ex_cfg ex_s ex_away)) 1 <> nth_error (players ex_s) 1
  /\ reads ex_cfg (run ex_cfg ex_s ex_away) = reads ex_cfg ex_s
  /\ reads ex_cfg (run ex_cfg ex_s [Drain]) <> reads ex_cfg ex_s.
Proof. exact ex_restore_hyp. Qed.
Print Assumptions restore_hypotheses_satisfiable.

(* a new game does not depend on anything that happened before, and starts from the configured values *)
Theorem new_game_independent :
  forall c s1 s2, ingame s1 = false -> ingame s2 = false -> step c s1 Start = step c s2 Start.
Proof. exact new_game_independent_l. Qed.
Print Assumptions new_game_independent.

Theorem new_game_initial :
  forall c s, ingame s = false ->
    let s' := fst (step c s Start) in
    players s' = [first_store c] /\ cur s' = 0%nat /\ ingame s' = true /\ ending s' = false
    /\ view s' = Some 0%nat.
Proof. exact new_game_initial_l. Qed.
Print Assumptions new_game_initial.

Theorem added_player_fresh :
  forall c s, ingame s = true ->
    let s' := fst (step c s Start) in
    players s' = players s \/ players s' = players s ++ [fresh_player c (length (players s))].
Proof. exact added_player_fresh_l. Qed.
Print Assumptions added_player_fresh.

Example new_game_example :
  ingame (run ex_cfg ex_s [EndGame]) = false
  /\ players (fst (step ex_cfg (run ex_cfg ex_s [EndGame]) Start)) = [first_store ex_cfg]
  /\ reads ex_cfg (fst (step ex_cfg (run ex_cfg ex_s [EndGame]) Start))
     = [Some (VLB true false (LInt 0)); Some (VLB true false (LBools [false; false]));
        Some (VInt 0); Some (VBool true)].
Proof. exact ex_new_game. Qed.
Print Assumptions new_game_example.

(* one assignment player[x] = v: x holds v, no other variable changes, and exactly one player_<x> event
   (value, prev_value, change = value - prev_value or "differs", the player's number) is posted iff v is an
   int/str/float and x is new or the change is effective; otherwise none *)
Theorem var_event_exact :
  forall i st x v,
    let prev := getvar x st in
    let change := change_of v prev in
    lookup x (fst (assign i st x v)) = Some v
    /\ (forall y, y <> x -> lookup y (fst (assign i st x v)) = lookup y st)
    /\ snd (assign i st x v)
       = if simple v && (truthy change || is_absent x st)
         then [mkEv i x v prev change (numvar (sset x v st)) (is_absent x st) false]
         else [].
Proof. exact assign_exact_l. Qed.
Print Assumptions var_event_exact.

Theorem no_event_iff_noop_int :
  forall i st x a b, lookup x st = Some (VInt b) -> (snd (assign i st x (VInt a)) = [] <-> a = b).
Proof. exact assign_int_noop_iff. Qed.
Print Assumptions no_event_iff_noop_int.

Theorem no_event_iff_noop_float :
  forall i st x a b, lookup x st = Some (VF8 b) -> (snd (assign i st x (VF8 a)) = [] <-> a = b).
Proof. exact assign_float_noop_iff. Qed.
Print Assumptions no_event_iff_noop_float.

Theorem no_event_iff_noop_str :
  forall i st x a b, lookup x st = Some (VStr b) -> (snd (assign i st x (VStr a)) = [] <-> a = b).
Proof. exact assign_str_noop_iff. Qed.
Print Assumptions no_event_iff_noop_str.

Theorem new_variable_posts :
  forall i st x v, lookup x st = None -> simple v = true ->
    snd (assign i st x v) = [mkEv i x v (VInt 0) (change_of v (VInt 0)) (numvar (sset x v st)) true false].
Proof. exact assign_new_posts. Qed.
Print Assumptions new_variable_posts.

(* every event posted by any operation in any state is well formed: an int/str/float value, and either an
   announcement of the current value (player added) or change = value - prev_value with an effective change
   or a new variable *)
Theorem step_events_ok : forall c s o, Forall ev_ok (snd (step c s o)).
Proof. exact step_events_ok_l. Qed.
Print Assumptions step_events_ok.

Example event_examples :
  snd (assign 0 [(n_number, VInt 1)] 13 (VInt 0))
  = [mkEv 0 13 (VInt 0) (VInt 0) (VInt 0) (VInt 1) true false]
  /\ snd (assign 0 [(n_number, VInt 1); (13, VInt 0)] 13 (VInt 0)) = []
  /\ snd (assign 0 [(n_number, VInt 1); (13, VInt 7)] 13 (VStr [120]))
     = [mkEv 0 13 (VStr [120]) (VInt 7) (VBool true) (VInt 1) false false].
Proof. exact ex_events. Qed.
Print Assumptions event_examples.

(* player_num: the events carry the owning Player object's own `number` variable.  It is index + 1 when
   the player is created and no write to another variable changes it (the configuration does not write
   the built-in variable `number`: assumption listed in the evidence; the oracle checks
   player_num = index + 1 on the implementation on every run). *)
Theorem player_number_initial :
  forall c i, lookup n_number (fresh_player c i) = Some (VInt (Z.of_nat i + 1)).
Proof. exact fresh_player_number_l. Qed.
Print Assumptions player_number_initial.

Theorem player_number_kept :
  forall i st ws, Forall (fun w => wname w <> n_number) ws ->
    numvar (fst (apply_writes_store i st ws)) = numvar st.
Proof. exact number_kept_l. Qed.
Print Assumptions player_number_kept.

(* for every history and every operation: every event carries player_num = index + 1 of the player
   whose variable changed (the configuration does not write the built-in variable `number`) *)
Theorem player_num_correct :
  forall c, cfg_num_ok c = true -> forall ops o,
    Forall (fun e => ev_num e = VInt (Z.of_nat (ev_idx e) + 1)) (snd (step c (run c init_state ops) o)).
Proof. exact player_num_correct_l. Qed.
Print Assumptions player_num_correct.

(* the events of one operation, for every player and every variable, are an exact chain from the value
   before to the value after: each event's prev_value is what the variable held (0 / new if absent), its
   change is value - prev_value, it is an effective change or a new variable, and whatever happens to the
   variable between two events or after the last one posts nothing only because it is a no-op assignment
   or an object ([chain], [quiet], [silent] in Lemmas.v).  Together with var_event_exact: exactly one
   player_<var> event per effective change, none otherwise, for every history. *)
Theorem step_events_chain :
  forall c s o, ingame s = true -> ingame (fst (step c s o)) = true ->
    forall j y, (j < length (players s))%nat ->
      chain j y (lookup y (store_of s j)) (snd (step c s o)) (lookup y (store_of (fst (step c s o)) j)).
Proof. exact step_chain_l. Qed.
Print Assumptions step_events_chain.

Example chain_example :
  ingame ex_s = true /\ ingame (fst (step ex_cfg ex_s (Post 100))) = true
  /\ length (snd (step ex_cfg ex_s (Post 100))) = 2%nat
  /\ lookup n_score (store_of ex_s 0) = Some (VInt 20)
  /\ lookup n_score (store_of (fst (step ex_cfg ex_s (Post 100))) 0) = Some (VInt 30)
  /\ lookup 14 (store_of (fst (step ex_cfg ex_s (Post 100))) 0) = Some (VInt 1000).
Proof. exact ex_chain. Qed.
Print Assumptions chain_example.

(* a player's first ball (no device state in their variables yet): every device reads its configured
   initial value *)
Theorem first_ball_reads_initial :
  forall c i st,
    NoDup (load_keys c) ->
    (forall k, In k (persist_keys c) -> lookup k st = None) ->
    (forall x, In x (shots c) -> ~ In (s_var x) (load_keys c)) ->
    reads_of c (fst (apply_writes_store i st (load_writes c st))) = initial_reads c.
Proof. exact first_ball_reads_initial_l. Qed.
Print Assumptions first_ball_reads_initial.

Example first_ball_hypotheses_satisfiable :
  NoDup (load_keys ex_cfg)
  /\ (forall k, In k (persist_keys ex_cfg) -> lookup k (fresh_player ex_cfg 1) = None)
  /\ (forall x, In x (shots ex_cfg) -> ~ In (s_var x) (load_keys ex_cfg)).
Proof. exact ex_first_ball_hyp. Qed.
Print Assumptions first_ball_hypotheses_satisfiable.

(* adding a player posts exactly the announcement of the new player's variables (one event per
   int/str/float variable, in the order of the variables), or nothing when the request is refused *)
Theorem added_player_events :
  forall c s, ingame s = true ->
    (players (fst (step c s Start)) = players s /\ snd (step c s Start) = [])
    \/ (players (fst (step c s Start)) = players s ++ [fresh_player c (length (players s))]
        /\ snd (step c s Start) = announce (length (players s)) (fresh_player c (length (players s)))).
Proof. exact added_player_events_l. Qed.
Print Assumptions added_player_events.

Theorem announce_one_per_variable :
  forall i st, map ev_name (announce i st) = map fst (filter (fun kv => simple (snd kv)) st).
Proof. exact announce_names. Qed.
Print Assumptions announce_one_per_variable.

(* ============================================================================================== *)
(* second layer (XModel.v): variable_player entries with several variables, `player:` overrides and machine
   scope; optional game modes with restart_on_next_ball.  [xstep] extends [step]; the statements quantify over
   every configuration [c : xcfg] and every state reachable by any history through [xinv]. *)

(* every state of every history satisfies the invariant of both layers: [inv] of the game, and in a running
   game the current player's restart list is empty and nobody beyond the player list has one; without a game
   no optional mode runs *)
Theorem x_reachable_inv : forall c ops, xinv c (xrun_ops c xinit ops).
Proof. exact x_reachable_inv_l. Qed.
Print Assumptions x_reachable_inv.

(* how one variable's `player:` setting resolves (per variable, from the current player and the number of
   players only): none / 0 -> the current player, an existing player -> that player, a missing one -> current *)
Theorem vp_target_resolution :
  forall n c, target n c None = c /\ target n c (Some 0) = c
    /\ (forall z, 1 <= z <= Z.of_nat n -> target n c (Some z) = Z.to_nat (z - 1))
    /\ (forall z, Z.of_nat n < z -> target n c (Some z) = c).
Proof. exact target_resolution_l. Qed.
Print Assumptions vp_target_resolution.

(* one operation of any kind: a player who is neither up before nor after it and whom no variable that plays
   names (xtargets: the resolved target of every variable whose condition holds, of every entry of the event
   whose mode runs) keeps every variable.  In particular the position of a variable inside its entry and the
   `player:` settings of the variables before it do not matter *)
Theorem vp_step_frame :
  forall c xs o j st, xinv c xs ->
    ingame (xg xs) = true -> ingame (xg (fst (xstep c xs o))) = true ->
    j <> cur (xg xs) -> j <> cur (xg (fst (xstep c xs o))) ->
    (forall e arg, o = XPost e arg -> ~ In j (xtargets c xs e arg)) ->
    nth_error (players (xg xs)) j = Some st ->
    nth_error (players (xg (fst (xstep c xs o)))) j = Some st.
Proof. exact xstep_frame_l. Qed.
Print Assumptions vp_step_frame.

(* variables without a `player:` that names an existing player are the current player's *)
Theorem vp_default_targets_current :
  forall c xs e arg,
    forallb (names_nobody (length (players (xg xs)))) (active_sets c (mode_events (x_modes c) e (xrun xs)) e) = true ->
    forall j, In j (xtargets c xs e arg) -> j = cur (xg xs).
Proof. exact default_targets_current. Qed.
Print Assumptions vp_default_targets_current.

(* any operation sequence during player i's turn in which no variable that plays names player j leaves
   players[j] unchanged *)
Theorem vp_other_player_frame :
  forall c ops xs i j st,
    xinv c xs -> ingame (xg xs) = true -> cur (xg xs) = i -> j <> i -> xturn_of i j c xs ops ->
    nth_error (players (xg xs)) j = Some st ->
    nth_error (players (xg (xrun_ops c xs ops))) j = Some st.
Proof. exact x_other_player_frame_l. Qed.
Print Assumptions vp_other_player_frame.

Example vp_frame_hypotheses_satisfiable :
  xturn_of 1 2 ex_xcfg ex_x2 [XPost 200 2; XPost 210 0; XPost 200 0]
  /\ xtargets ex_xcfg ex_x2 200 2 = [0; 1; 1]%nat
  /\ (let xs' := fst (xstep ex_xcfg ex_x2 (XPost 200 2)) in
      lookup 50 (store_of (xg xs') 0) = Some (VInt 1)
      /\ lookup n_score (store_of (xg xs') 0) = lookup n_score (store_of (xg ex_x2) 0)
      /\ lookup n_score (store_of (xg xs') 1) = Some (VInt 100)
      /\ lookup 52 (store_of (xg xs') 1) = Some (VF8 4)
      /\ lookup 50 (store_of (xg xs') 1) = None
      /\ lookup 60 (xm xs') = Some (VInt 3)
      /\ nth_error (players (xg xs')) 2 = nth_error (players (xg ex_x2)) 2
      /\ map (fun e => (ev_idx e, ev_name e, ev_num e)) (snd (xstep ex_xcfg ex_x2 (XPost 200 2)))
         = [(0%nat, 50, VInt 1); (1%nat, n_score, VInt 2); (1%nat, 52, VInt 2)]).
Proof. exact ex_vp_frame. Qed.
Print Assumptions vp_frame_hypotheses_satisfiable.

(* scope: machine variables change only through add_machine / set_machine variables (never by a hand-over, a
   start, or an entry of player actions), and an entry of machine actions touches no player and posts nothing *)
Theorem vp_machine_scope :
  forall c xs,
    xm (fst (xstep c xs XStart)) = xm xs /\ xm (fst (xstep c xs XDrain)) = xm xs
    /\ xm (fst (xstep c xs XEndGame)) = xm xs
    /\ (forall e arg,
          forallb (fun v => is_player_act (vs_act v)) (active_sets c (mode_events (x_modes c) e (xrun xs)) e) = true ->
          xm (fst (xstep c xs (XPost e arg))) = xm xs)
    /\ (forall e arg,
          forallb (fun v => negb (is_player_act (vs_act v)))
                  (active_sets c (mode_events (x_modes c) e (xrun xs)) e) = true ->
          xg (fst (xstep c xs (XPost e arg))) = fst (step (x_base c) (xg xs) (Post e))
          /\ snd (xstep c xs (XPost e arg)) = snd (step (x_base c) (xg xs) (Post e))).
Proof. exact machine_scope_l. Qed.
Print Assumptions vp_machine_scope.

(* events of the extended operations: well formed, an exact chain per player and variable, and carrying the
   number (index + 1) of the player whose variable changed — also when the variable was addressed by `player:` *)
Theorem x_step_events_ok : forall c xs o, Forall ev_ok (snd (xstep c xs o)).
Proof. exact xstep_events_ok_l. Qed.
Print Assumptions x_step_events_ok.

Theorem x_step_events_chain :
  forall c xs o, xinv c xs -> ingame (xg xs) = true -> ingame (xg (fst (xstep c xs o))) = true ->
    forall j y, (j < length (players (xg xs)))%nat ->
      chain j y (lookup y (store_of (xg xs) j)) (snd (xstep c xs o))
            (lookup y (store_of (xg (fst (xstep c xs o))) j)).
Proof. exact xstep_chain_l. Qed.
Print Assumptions x_step_events_chain.

Theorem x_player_num_correct :
  forall c, xcfg_num_ok c = true -> forall ops o,
    Forall (fun e => ev_num e = VInt (Z.of_nat (ev_idx e) + 1)) (snd (xstep c (xrun_ops c xinit ops) o)).
Proof. exact x_player_num_correct_l. Qed.
Print Assumptions x_player_num_correct.

(* restart_on_next_ball.  A ball ends and the game goes on: the list of the player whose ball ended holds
   exactly the running restart_on_next_ball modes; for the player who is up now exactly what was recorded for
   him is started, and his list is empty again *)
Theorem restart_recorded_at_ball_end :
  forall c xs o, xinv c xs -> ingame (xg xs) = true -> is_hand o ->
    let xs' := fst (xstep c xs o) in
    ingame (xg xs') = true ->
    let i := cur (xg xs) in let i' := cur (xg xs') in
    (i' = i -> xrun xs' = start_all (recorded (x_modes c) (xrun xs)))
    /\ (i' <> i -> rl_get i (xrl xs') = recorded (x_modes c) (xrun xs)
                   /\ xrun xs' = start_all (rl_get i' (xrl xs)))
    /\ rl_get i' (xrl xs') = [].
Proof. exact hand_over_restart_l. Qed.
Print Assumptions restart_recorded_at_ball_end.

(* nothing that happens while somebody else is up changes a player's list *)
Theorem restart_list_frame :
  forall c xs o j, xinv c xs ->
    ingame (xg xs) = true -> ingame (xg (fst (xstep c xs o))) = true ->
    j <> cur (xg xs) -> j <> cur (xg (fst (xstep c xs o))) ->
    rl_get j (xrl (fst (xstep c xs o))) = rl_get j (xrl xs).
Proof. exact xrl_frame_l. Qed.
Print Assumptions restart_list_frame.

(* restored exactly on the player's next ball: player i's ball ends while the optional modes [xrun xs] run; the
   others play any operations (any number of turns, players added); when a ball of i starts again, exactly the
   restart_on_next_ball modes among [xrun xs] run — whatever was recorded or restarted on earlier balls — and
   i's list is empty *)
Theorem restart_exact :
  forall c xs i o1 ops o2,
    xinv c xs -> ingame (xg xs) = true -> cur (xg xs) = i -> is_hand o1 ->
    let xs1 := fst (xstep c xs o1) in
    ingame (xg xs1) = true -> cur (xg xs1) <> i -> xaway i c xs1 ops ->
    let xs2 := xrun_ops c xs1 ops in
    is_hand o2 ->
    let xs3 := fst (xstep c xs2 o2) in
    ingame (xg xs3) = true -> cur (xg xs3) = i ->
    xrun xs3 = start_all (recorded (x_modes c) (xrun xs)) /\ rl_get i (xrl xs3) = [].
Proof. exact restart_exact_l. Qed.
Print Assumptions restart_exact.

(* the same player is up again at once (extra ball, one-player game) *)
Theorem restart_same_player :
  forall c xs o, xinv c xs -> ingame (xg xs) = true -> is_hand o ->
    let xs' := fst (xstep c xs o) in
    ingame (xg xs') = true -> cur (xg xs') = cur (xg xs) ->
    xrun xs' = start_all (recorded (x_modes c) (xrun xs)).
Proof. exact restart_same_player_l. Qed.
Print Assumptions restart_same_player.

(* mode by mode: k runs after the restart iff it is a restart_on_next_ball mode that ran when the ball ended
   (a mode the player stopped does not come back) *)
Theorem restarted_modes_iff :
  forall c run k,
    In k (start_all (recorded (x_modes c) run))
    <-> exists m, In m (x_modes c) /\ m_id m = k /\ m_restart m = true /\ In k run.
Proof. exact restarted_iff. Qed.
Print Assumptions restarted_modes_iff.

Example restart_hypotheses_satisfiable :
  is_hand XDrain /\ ingame (xg ex_x2) = true /\ cur (xg ex_x2) <> 0%nat /\ xaway 0 ex_xcfg ex_x2 ex_away_x
  /\ running_obs (x_modes ex_xcfg) (xrun (xrun_ops ex_xcfg ex_x2 ex_away_x)) = [3]
  /\ ingame (xg ex_x3) = true /\ cur (xg ex_x3) = 0%nat
  /\ xrun ex_x3 = [2] /\ rl_get 0 (xrl ex_x3) = []
  /\ (let b3 := xrun_ops ex_xcfg ex_x3 [XPost 312 0; XDrain; XDrain; XDrain] in
      ingame (xg b3) = true /\ cur (xg b3) = 0%nat
      /\ lookup n_ball (store_of (xg b3) 0) = Some (VInt 3) /\ xrun b3 = []).
Proof. exact ex_restart. Qed.
Print Assumptions restart_hypotheses_satisfiable.

(* achievements (player.achievements[name] = [state, selected], in XModel.v).  Frame: whatever happens while
   somebody else is up, before and after the operation, leaves a player's records alone *)
Theorem ach_other_player_frame :
  forall c xs o j, xinv c xs ->
    ingame (xg xs) = true -> ingame (xg (fst (xstep c xs o))) = true ->
    j <> cur (xg xs) -> j <> cur (xg (fst (xstep c xs o))) ->
    rl_get j (xach (fst (xstep c xs o))) = rl_get j (xach xs).
Proof. exact ach_frame_l. Qed.
Print Assumptions ach_other_player_frame.

(* restore: when a ball of player i starts again his records are the configured image (ach_load =
   Achievement._restore_state) of his records at the end of his previous ball, whatever the others did *)
Theorem ach_restore_exact :
  forall c xs i o1 ops o2,
    xinv c xs -> ingame (xg xs) = true -> cur (xg xs) = i -> is_hand o1 ->
    let xs1 := fst (xstep c xs o1) in
    ingame (xg xs1) = true -> cur (xg xs1) <> i -> xaway i c xs1 ops ->
    let xs2 := xrun_ops c xs1 ops in
    is_hand o2 ->
    let xs3 := fst (xstep c xs2 o2) in
    ingame (xg xs3) = true -> cur (xg xs3) = i ->
    rl_get i (xach xs3) = ach_map ach_load (x_achs c) (rl_get i (xach xs)).
Proof. exact ach_restore_exact_l. Qed.
Print Assumptions ach_restore_exact.

Theorem ach_restore_same_player :
  forall c xs o, ingame (xg xs) = true -> is_hand o ->
    let xs' := fst (xstep c xs o) in
    ingame (xg xs') = true -> cur (xg xs') = cur (xg xs) ->
    rl_get (cur (xg xs)) (xach xs') = ach_map ach_load (x_achs c) (rl_get (cur (xg xs)) (xach xs)).
Proof. exact ach_same_player_l. Qed.
Print Assumptions ach_restore_same_player.

(* initial values: a new game starts player 1 from the configured initial state of every achievement; a player
   who is added has no records, and loading for a player without records gives the initial state *)
Theorem ach_new_game_initial :
  forall c xs, ingame (xg xs) = false ->
    let xs' := fst (xstep c xs XStart) in
    rl_get (cur (xg xs')) (xach xs') = map (fun h => Some (h_init h, false)) (x_achs c).
Proof. exact ach_new_game_l. Qed.
Print Assumptions ach_new_game_initial.

Theorem ach_added_player_empty :
  forall c xs, xinv c xs -> ingame (xg xs) = true ->
    rl_get (length (players (xg xs))) (xach (fst (xstep c xs XStart))) = [].
Proof. exact ach_added_player_l. Qed.
Print Assumptions ach_added_player_empty.

Theorem ach_first_ball_initial :
  forall hs, ach_map ach_load hs [] = map (fun h => Some (h_init h, false)) hs.
Proof. exact ach_first_ball_l. Qed.
Print Assumptions ach_first_ball_initial.

Example ach_hypotheses_satisfiable :
  ingame (xg ex_a1) = true /\ cur (xg ex_a1) = 0%nat /\ rl_get 0 (xach ex_a1) = [Some (AStarted, false)]
  /\ cur (xg (fst (xstep ex_xcfg ex_a1 XDrain))) <> 0%nat
  /\ xaway 0 ex_xcfg (fst (xstep ex_xcfg ex_a1 XDrain)) ex_away_x
  /\ ingame (xg ex_a3) = true /\ cur (xg ex_a3) = 0%nat
  /\ rl_get 0 (xach ex_a3) = [Some (AStopped, false)]
  /\ rl_get 1 (xach ex_a3) = [Some (ADisabled, false)].
Proof. exact ex_ach. Qed.
Print Assumptions ach_hypotheses_satisfiable.

(* ======================================================================================================== *)
(* third layer (GModel.v): shot group rotation and the score queue — clients of the player object that keep a
   cursor on the device or write with a delay *)

(* every state of every history of the extended operations satisfies the invariant of the game *)
Theorem g_reachable_inv : forall c ops, ginv c (grun c ginit ops).
Proof. exact g_reachable_inv_l. Qed.
Print Assumptions g_reachable_inv.

(* one extended operation of any kind (rotation, queued scoring with or without a drain, hand-over) leaves every
   player who is not up before or after it untouched *)
Theorem g_step_frame :
  forall c gs o, ginv c gs -> ingame (gg gs) = true -> ingame (gg (fst (gstep c gs o))) = true ->
    forall j st, j <> cur (gg gs) -> j <> cur (gg (fst (gstep c gs o))) ->
      nth_error (players (gg gs)) j = Some st -> nth_error (players (gg (fst (gstep c gs o)))) j = Some st.
Proof. exact gstep_frame_l. Qed.
Print Assumptions g_step_frame.

(* every ball start (drain, end_game with an extra ball pending, queued scoring + drain, new game) puts the group's
   cursor back to the head of the configured pattern and rotation_enabled back to its configured value, whatever
   the history was *)
Theorem rotation_reset_at_ball_start :
  forall c gs o, starts_ball gs o ->
    gpos (fst (gstep c gs o)) = O /\ grot (fst (gstep c gs o)) = negb (g_enrot c).
Proof. exact rotation_reset_l. Qed.
Print Assumptions rotation_reset_at_ball_start.

(* any sequence of rotations (pattern / left / right) in a ball: the current player's variables afterwards are a
   function (rot_store) of HIS variables before, the cursor and the sequence; the cursor is a function of the cursor
   before and the sequence; nobody else's variables change.  With rotation_reset_at_ball_start the cursor at the
   start of the ball is 0: the member states depend only on the current player's stored states and the rotations of
   THIS ball *)
Theorem rotations_local :
  forall c ds gs, ginv c gs -> ingame (gg gs) = true -> grot gs = true ->
    let gs' := grun c gs (map GRotate ds) in
    store_of (gg gs') (cur (gg gs)) = rot_store c (cur (gg gs)) (store_of (gg gs) (cur (gg gs))) (gpos gs) ds
    /\ gpos gs' = rot_cursor c (gpos gs) ds /\ grot gs' = true /\ cur (gg gs') = cur (gg gs)
    /\ forall j, j <> cur (gg gs) -> store_of (gg gs') j = store_of (gg gs) j.
Proof. exact rotations_local_l. Qed.
Print Assumptions rotations_local.

(* score queue: everything queued in a turn is added to the player whose turn it is BEFORE the ball ends (the
   hand-over runs on the state that already contains the points), and to nobody else *)
Theorem sq_before_handover :
  forall c gs evs, ingame (gg gs) = true ->
    let g1 := fst (write_to (cur (gg gs)) (sq_writes c evs) (gg gs)) in
    gg (fst (gstep c gs (GSq evs true))) = fst (step (g_base c) g1 Drain)
    /\ gg (fst (gstep c gs (GSq evs false))) = g1
    /\ cur g1 = cur (gg gs)
    /\ forall j, j <> cur (gg gs) -> store_of g1 j = store_of (gg gs) j.
Proof. exact sq_before_handover_l. Qed.
Print Assumptions sq_before_handover.

(* the digit-by-digit additions of one entry add up to the entry: nothing is lost or invented *)
Theorem sq_entry_adds_sum : forall v, 0 <= v -> zsum (entry_adds v) = v.
Proof. exact entry_adds_sum. Qed.
Print Assumptions sq_entry_adds_sum.

(* every event of every extended operation is well formed (value, prev_value, change = value - prev_value) *)
Theorem g_step_events_ok : forall c gs o, all_ok (snd (gstep c gs o)).
Proof. exact gstep_events_ok_l. Qed.
Print Assumptions g_step_events_ok.

(* two players, pattern r, r, l, l: player 1 lights shot 1 and rotates twice (cursor 2, next direction l); two
   entries (2000 + 300) are queued and the ball drains: player 1 gets 2300, player 2 nothing; player 2 lights shot 1
   and rotates once: the rotation goes RIGHT (head of the pattern), player 1 keeps his states *)
Example g_hypotheses_satisfiable :
  ginv exg_cfg exg_s1 /\ ingame (gg exg_s1) = true /\ grot exg_s1 = true /\ cur (gg exg_s1) = 0%nat
  /\ gpos exg_s1 = 2%nat /\ pattern_dir exg_cfg 2 = false
  /\ map (shot_state (store_of (gg exg_s1) 0)) (g_members exg_cfg) = [0; 0; 1]
  /\ starts_ball exg_s1 (GSq [300; 301] true)
  /\ cur (gg exg_s2) = 1%nat /\ gpos exg_s2 = 1%nat
  /\ map (shot_state (store_of (gg exg_s2) 1)) (g_members exg_cfg) = [0; 1; 0]
  /\ map (shot_state (store_of (gg exg_s2) 0)) (g_members exg_cfg) = [0; 0; 1]
  /\ getvar n_score (store_of (gg exg_s2) 0) = VInt 2300
  /\ getvar n_score (store_of (gg exg_s2) 1) = VInt 0
  /\ entry_adds 2300 = [1000; 1000; 100; 100; 100].
Proof. exact ex_g. Qed.
Print Assumptions g_hypotheses_satisfiable.
