"""Entry point: ./check <Cxx> [--tier quick|thorough] [--replay f] | ./check --setup"""
import argparse
import importlib
import json
import os
import sys

import vlib


def main():
    ap = argparse.ArgumentParser()
    ap.add_argument("prop", nargs="?")
    ap.add_argument("--tier", default=os.environ.get("VERIF_TIER", "quick"), choices=["quick", "thorough"])
    ap.add_argument("--replay")
    ap.add_argument("--setup", action="store_true")
    a = ap.parse_args()
    seed = int(os.environ.get("VERIF_SEED", "20260930"))
    if a.setup:
        sys.exit(setup())
    mod = importlib.import_module("props." + a.prop.lower())
    replay = json.load(open(a.replay)) if a.replay else None
    sys.exit(vlib.run_check(mod, a.tier, seed, replay))


def setup():
    """Build every Coq project from clean (translators first)."""
    rc, out = vlib.build_common()
    if rc != 0:
        print(out[-3000:])
        return 1
    bad = 0
    pd = os.path.join(vlib.VERIF, "harness", "props")
    for fn in sorted(os.listdir(pd)):
        if not (fn.startswith("c") and fn.endswith(".py")):
            continue
        mod = importlib.import_module("props." + fn[:-3])
        if hasattr(mod, "translate"):
            try:
                mod.translate(vlib.REPO, os.path.join(vlib.COQ, mod.ID, "gen"))
            except Exception as e:
                print("translate failed for", mod.ID, e)
        r = vlib.build_proofs(mod.ID)
        print(mod.ID, "ok" if r["ok"] else "FAILED " + str(r["failed"]), r["obligations"], "theorems")
        if not r["ok"]:
            print(r["log"][-2000:])
            bad += 1
    return 1 if bad else 0


if __name__ == "__main__":
    main()
