"""Entry point: ./check <Cxx> [--tier quick|thorough] [--replay f] | ./check --setup"""
import argparse
import importlib
import json
import os
import sys

import vlib


def main():
    ap = argparse.ArgumentParser()
    ap.add_argument("prop", nargs="?")
    ap.add_argument("--tier", default=os.environ.get("VERIF_TIER", "quick"), choices=["quick", "thorough"])
    ap.add_argument("--replay")
    ap.add_argument("--setup", action="store_true")
    a = ap.parse_args()
    seed = int(os.environ.get("VERIF_SEED", "20260930"))
    if a.setup:
        sys.exit(setup())
    mod = importlib.import_module("props." + a.prop.lower())
    replay = json.load(open(a.replay)) if a.replay else None
    sys.exit(vlib.run_check(mod, a.tier, seed, replay))


def _setup_one(modname):
    try:
        mod = importlib.import_module(modname)
    except Exception as e:
        return True, "%s skipped (import failed: %s)" % (modname, e)
    if not getattr(mod, "READY", False):
        return True, "%s skipped (not READY)" % modname
    msg = ""
    if hasattr(mod, "translate"):
        try:
            mod.translate(vlib.REPO, os.path.join(vlib.COQ, mod.ID, "gen"))
        except Exception as e:
            msg += "translate failed for %s: %s\n" % (mod.ID, e)
    r = vlib.build_proofs(mod.ID)
    msg += "%s %s %d theorems" % (mod.ID, "ok" if r["ok"] else "FAILED " + str(r["failed"]), r["obligations"])
    if not r["ok"]:
        msg += "\n" + r["log"][-2000:]
    return r["ok"], msg


def setup():
    """Build every Coq project from clean (translators first), properties in parallel."""
    import multiprocessing as mp
    rc, out = vlib.build_common()
    if rc != 0:
        print(out[-3000:])
        return 1
    pd = os.path.join(vlib.VERIF, "harness", "props")
    # only what MANIFEST.json registers (builders may have unfinished modules lying around)
    reg = [c["property_id"].lower() for c in json.load(open(os.path.join(vlib.VERIF, "MANIFEST.json")))["checks"]]
    mods = ["props." + fn[:-3] for fn in sorted(os.listdir(pd))
            if fn.startswith("c") and fn.endswith(".py") and fn[1:3].isdigit() and fn[:-3] in reg]
    os.environ["VERIF_JOBS"] = "4"
    vlib.NPROC = 4
    with mp.get_context("fork").Pool(6) as pool:
        res = pool.map(_setup_one, mods)
    bad = 0
    for ok, msg in res:
        print(msg)
        bad += 0 if ok else 1
    return 1 if bad else 0


if __name__ == "__main__":
    main()
