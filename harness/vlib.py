"""Shared machinery for every property check (see DESIGN.md section 2).

Runs under /venv/bin/python with PYTHONPATH=$VERIF_REPO (default /repo) first, so that the
implementation that is exercised is the *working tree*, not the copy installed in site-packages.
"""
import hashlib
import json
import multiprocessing as mp
import os
import random
import re
import shutil
import signal
import subprocess
import sys
import time
import traceback

VERIF = os.path.dirname(os.path.dirname(os.path.abspath(__file__)))
REPO = os.environ.get("VERIF_REPO", "/repo")
COQ = os.path.join(VERIF, "coq")
NPROC = int(os.environ.get("VERIF_JOBS", "16"))

ALLOWED_AXIOMS = set()   # none: every theorem must be "Closed under the global context"

FORBIDDEN = re.compile(
    r"\b(Admitted|admit|Axiom|Axioms|Parameter|Parameters|Conjecture|Conjectures|"
    r"Unset\s+Guard|bypass_check|type-in-type|impredicative-set|Admit\s+Obligations)\b")


# ----------------------------------------------------------------------------------------------
# Gallina literal printers
def zlit(n):
    n = int(n)
    return str(n) if n >= 0 else "(%d)" % n


def zlist(xs):
    return "[" + ";".join(zlit(x) for x in xs) + "]"


def zlistlist(xss):
    return "[" + ";".join(zlist(x) for x in xss) + "]"


def blit(b):
    return "true" if b else "false"


def coqlist(items):
    return "[" + ";".join(items) + "]"


def opt(x, f=str):
    return "None" if x is None else "(Some %s)" % f(x)


def s2z(s):
    """str -> list of utf-8 byte values"""
    return list(s.encode("utf-8", "surrogatepass"))


def str_lit(s):
    return zlist(s2z(s))


# ----------------------------------------------------------------------------------------------
class Suite:
    """One correspondence + oracle stream of a property.

    gen(rng, tier, i) -> case (json-able)
    run_impl(case) -> out (json-able)                [executed in worker processes]
    coq_header: text placed at the top of each cases file; must define
        `run : I -> O` and `out_eqb : O -> O -> bool`
    coq_case(case, out) -> "(input_term, expected_output_term)" or None (case not fed to the model)
    oracle(case, out) -> list of {"sig": str, "what": str}   (property predicate on the real code)
    shrink(case) -> iterable of smaller candidate cases
    nontrivial(case, out) -> bool
    counts = {"quick": n, "thorough": m}
    """

    def __init__(self, name, gen, run_impl, coq_header=None, coq_case=None, oracle=None,
                 shrink=None, nontrivial=None, counts=None, worker_init=None, shard=400,
                 describe=None, case_timeout=60):
        self.name = name
        self.gen = gen
        self.run_impl = run_impl
        self.coq_header = coq_header
        self.coq_case = coq_case
        self.oracle = oracle or (lambda c, o: [])
        self.shrink = shrink or (lambda c: [])
        self.nontrivial = nontrivial or (lambda c, o: True)
        self.counts = counts or {"quick": 500, "thorough": 5000}
        self.worker_init = worker_init
        self.shard = shard
        self.describe = describe or (lambda c: "")
        self.case_timeout = case_timeout


# ----------------------------------------------------------------------------------------------
# implementation side, in worker processes
_W = {}


class CaseTimeout(Exception):
    pass


def _alarm(signum, frame):
    raise CaseTimeout()


def _winit(modname, suitename):
    sys.setrecursionlimit(10000)
    import importlib
    m = importlib.import_module(modname)
    s = [x for x in m.SUITES if x.name == suitename][0]
    if _W.get("suite") is s:
        return
    _W["suite"] = s
    signal.signal(signal.SIGALRM, _alarm)
    if mp.current_process().name != "MainProcess":
        # die with the parent: a worker stuck in a busy loop of a changed implementation must not survive a killed check
        try:
            import ctypes
            ctypes.CDLL("libc.so.6").prctl(1, signal.SIGKILL)   # PR_SET_PDEATHSIG
        except Exception:
            pass
        # a changed implementation may compute something enormous ('ab' * 10**10, 2 ** 10**9): let the worker get a
        # MemoryError (reported as a case that could not be run) instead of exhausting the machine
        try:
            import resource
            lim = int(os.environ.get("VERIF_WORKER_MEM_GB", "6")) << 30
            resource.setrlimit(resource.RLIMIT_AS, (lim, lim))
        except Exception:
            pass
    if s.worker_init:
        s.worker_init()


def _wrun(case):
    s = _W["suite"]
    signal.alarm(s.case_timeout)
    try:
        out = s.run_impl(case)
        try:
            big = len(json.dumps(out, default=str)) > 4_000_000
        except (MemoryError, OverflowError, ValueError, RecursionError):
            big = True
        if big:
            return {"harness_error": "output of the implementation is larger than 4 MB"}
        return out
    except CaseTimeout:
        return {"harness_error": "timeout"}
    except BaseException as e:   # noqa
        return {"harness_error": "%s: %s" % (type(e).__name__, e),
                "tb": traceback.format_exc()[-1500:]}
    finally:
        signal.alarm(0)


def run_impl_parallel(modname, suite, cases):
    if not cases:
        return []
    n = min(NPROC, max(1, len(cases) // 8))
    if n <= 1:
        _winit(modname, suite.name)
        return [_wrun(c) for c in cases]
    ctx = mp.get_context("fork")
    with ctx.Pool(n, initializer=_winit, initargs=(modname, suite.name)) as pool:
        return pool.map(_wrun, cases, chunksize=max(1, len(cases) // (n * 8)))


# ----------------------------------------------------------------------------------------------
# Coq side
def sh(cmd, cwd=None, timeout=900):
    p = subprocess.run(cmd, shell=True, cwd=cwd, stdout=subprocess.PIPE, stderr=subprocess.STDOUT,
                       timeout=timeout, text=True, errors="replace")
    return p.returncode, p.stdout


def coq_flags(pid):
    return "-Q ../Common Common -Q . %s" % pid


def build_common():
    d = os.path.join(COQ, "Common")
    # Common is small and stable: rebuild only when a source is newer than its .vo (concurrent checks share it)
    fresh = True
    for f in os.listdir(d):
        if f.endswith(".v"):
            vo = os.path.join(d, f + "o")
            if not os.path.exists(vo) or os.path.getmtime(vo) < os.path.getmtime(os.path.join(d, f)):
                fresh = False
    if fresh:
        return 0, ""
    rc, out = sh("coq_makefile -f _CoqProject -o Makefile >/dev/null 2>&1; timeout 600 make -j%d 2>&1" % NPROC, cwd=d)
    return rc, out


def scan_forbidden(pid):
    """grep the development for anything that would declare an axiom or switch off a check."""
    hits = []
    for root in (os.path.join(COQ, "Common"), os.path.join(COQ, pid)):
        for dp, dn, fn in os.walk(root):
            if "_cases" in dp or "/gen" in dp and False:
                continue
            for f in fn:
                if f.endswith(".v"):
                    txt = open(os.path.join(dp, f), errors="replace").read()
                    txt_nc = re.sub(r"\(\*.*?\*\)", "", txt, flags=re.S)
                    for m in FORBIDDEN.finditer(txt_nc):
                        hits.append("%s: %s" % (os.path.join(dp, f), m.group(0)))
    return hits


def props_theorems(pid):
    p = os.path.join(COQ, pid, "Props.v")
    if not os.path.exists(p):
        return []
    txt = re.sub(r"\(\*.*?\*\)", "", open(p).read(), flags=re.S)
    return re.findall(r"^\s*(?:Theorem|Lemma|Corollary|Example)\s+([A-Za-z0-9_']+)", txt, flags=re.M)


def build_proofs(pid):
    """Full .vo build of the property's Coq project; Props.v is always recompiled so that the
    Print Assumptions output of this run is what gets parsed.

    returns dict(ok, model_ok, obligations, discharged, failed, assumptions, log)
    """
    d = os.path.join(COQ, pid)
    res = {"ok": False, "model_ok": False, "obligations": 0, "discharged": 0, "failed": [],
           "assumptions": {}, "log": ""}
    rc, out = build_common()
    if rc != 0:
        res["log"] = out[-3000:]
        res["failed"] = ["Common"]
        return res
    for f in ("Props.vo", "Props.glob", "Props.vos", "Props.vok"):
        try:
            os.unlink(os.path.join(d, f))
        except OSError:
            pass
    sh("coq_makefile -f _CoqProject -o Makefile >/dev/null 2>&1", cwd=d)
    # model first (so that the model still runs when a proof breaks)
    rc, out = sh("timeout 900 make -j%d Model.vo 2>&1" % NPROC, cwd=d)
    res["model_ok"] = rc == 0
    if rc != 0:
        res["log"] = out[-3000:]
        res["failed"] = ["Model.v"]
        return res
    rc, out = sh("timeout 1800 make -j%d 2>&1" % NPROC, cwd=d, timeout=2000)
    res["log"] = out[-6000:]
    thms = props_theorems(pid)
    res["obligations"] = len(thms)
    if rc != 0:
        m = re.search(r'File "\./([^"]+)", line (\d+)', out)
        res["failed"] = [m.group(1) + ":" + m.group(2) if m else "build"]
        return res
    # parse Print Assumptions blocks: coqc prints either "Closed under the global context" or
    # "Axioms:\n name : type ..." once per Print Assumptions command, in file order.
    blocks = re.findall(r"(Closed under the global context|Axioms:\n(?:.+\n?)+?(?=\n|Closed|Axioms:|$))", out)
    closed = sum(1 for b in blocks if b.startswith("Closed"))
    open_ = [b for b in blocks if not b.startswith("Closed")]
    res["assumptions"] = {"closed": closed, "with_axioms": open_}
    txt = re.sub(r"\(\*.*?\*\)", "", open(os.path.join(d, "Props.v")).read(), flags=re.S)
    n_pa = len(re.findall(r"Print\s+Assumptions", txt))
    bad = []
    if n_pa < len(thms):
        bad.append("Props.v: %d theorems but only %d Print Assumptions" % (len(thms), n_pa))
    if closed != n_pa:
        bad.append("Print Assumptions: %d of %d closed; axioms: %s" % (closed, n_pa, open_))
    hits = scan_forbidden(pid)
    if hits:
        bad.append("forbidden vernacular: " + "; ".join(hits[:5]))
    res["failed"] = bad
    res["discharged"] = len(thms) if not bad else 0
    res["ok"] = not bad
    return res


def coqchk(pid):
    """Thorough tier: re-check the compiled development with the independent checker and list the axioms of
    everything Props.vo depends on.  returns (ok, summary_text)"""
    d = os.path.join(COQ, pid)
    try:
        rc, out = sh("timeout 1500 coqchk -silent -o %s %s.Props 2>&1" % (coq_flags(pid), pid), cwd=d, timeout=1600)
    except subprocess.TimeoutExpired:
        return False, "coqchk timed out"
    m = re.search(r"CONTEXT SUMMARY.*", out, flags=re.S)
    summ = m.group(0) if m else out[-1500:]
    ok = rc == 0 and all(re.search(re.escape(k) + r"\s*<none>", summ) for k in
                         ("* Axioms:", "type-in-type:", "unsafe (co)fixpoints:", "positivity is assumed:"))
    return ok, summ.strip()


_EVAL_RE = re.compile(r"=\s*(\[[^\]]*\])\s*:\s*list nat", re.S)


def _coq_shard(args):
    pid, path = args
    d = os.path.join(COQ, pid)
    rc, out = sh("ulimit -s unlimited 2>/dev/null; timeout 900 coqc %s %s 2>&1" % (coq_flags(pid), path), cwd=d,
                 timeout=1000)
    if rc != 0:
        return None, out[-2000:]
    m = _EVAL_RE.search(out)
    if not m:
        return None, out[-2000:]
    return [int(x) for x in re.findall(r"\d+", m.group(1))], ""


def run_model_shards(pid, suite, pairs):
    """pairs: list of (global_index, coq_pair_text).  Returns (set of mismatching global indices, errors)."""
    cdir = "_cases_%d" % os.getpid()          # per run: concurrent checks of one property do not collide
    d = os.path.join(COQ, pid, cdir)
    shutil.rmtree(d, ignore_errors=True)
    os.makedirs(d)
    jobs = []
    shards = []
    for k in range(0, len(pairs), suite.shard):
        chunk = pairs[k:k + suite.shard]
        name = "%s_%d.v" % (suite.name, k // suite.shard)
        with open(os.path.join(d, name), "w") as f:
            f.write("From Common Require Import Prelude.\n")
            f.write(suite.coq_header + "\n")
            f.write("Definition cases := [\n" + ";\n".join(t for _, t in chunk) + "\n].\n")
            f.write("Eval vm_compute in (mismatches run out_eqb cases).\n")
        jobs.append((pid, cdir + "/" + name))
        shards.append(chunk)
    bad, errs = set(), []
    with mp.get_context("fork").Pool(min(NPROC, max(1, len(jobs)))) as pool:
        results = pool.map(_coq_shard, jobs)
    for (idxs, err), chunk, job in zip(results, shards, jobs):
        if idxs is None:
            errs.append("%s: %s" % (job[1], err))
            continue
        for i in idxs:
            bad.add(chunk[i][0])
    if not errs:
        shutil.rmtree(d, ignore_errors=True)
    return bad, errs


def model_output_text(pid, suite, coq_pair):
    """For a replay file: print what the model computes on one input (raw Coq text)."""
    cdir = "_cases_%d" % os.getpid()
    d = os.path.join(COQ, pid, cdir)
    os.makedirs(d, exist_ok=True)
    p = os.path.join(d, "one.v")
    with open(p, "w") as f:
        f.write("From Common Require Import Prelude.\n" + suite.coq_header + "\n")
        f.write("Definition c := %s.\nEval vm_compute in (run (fst c)).\n" % coq_pair)
    rc, out = sh("timeout 300 coqc %s %s/one.v 2>&1" % (coq_flags(pid), cdir), cwd=os.path.join(COQ, pid))
    shutil.rmtree(d, ignore_errors=True)
    return out[-4000:]


# ----------------------------------------------------------------------------------------------
def load_known():
    out = []
    p = os.path.join(VERIF, "known_findings.json")
    if os.path.exists(p):
        out += json.load(open(p)).get("findings", [])
    d = os.path.join(VERIF, "known_findings.d")     # per-property staging files, merged by tools/mkmanifest.py
    if os.path.isdir(d):
        for fn in sorted(os.listdir(d)):
            if fn.endswith(".json"):
                out += json.load(open(os.path.join(d, fn))).get("findings", [])
    return out


def case_hash(obj):
    return hashlib.sha1(json.dumps(obj, sort_keys=True, default=str).encode()).hexdigest()[:12]


def write_replay(pid, obj):
    d = os.path.join(VERIF, "replays", pid)
    os.makedirs(d, exist_ok=True)
    p = os.path.join(d, case_hash(obj) + ".json")
    with open(p, "w") as f:
        json.dump(obj, f, indent=1, default=str, sort_keys=True)
    return p


def load_corpus(pid, suite):
    d = os.path.join(VERIF, "corpus", pid)
    out = []
    if os.path.isdir(d):
        for fn in sorted(os.listdir(d)):
            if fn.startswith(suite.name + ".") and fn.endswith(".json"):
                out.append(json.load(open(os.path.join(d, fn))))
    return out


def shrink_case(suite, case, still_fails, budget=150, seconds=None):
    """Greedy minimisation: keep any smaller candidate on which the failure persists (bounded in steps and time)."""
    cur = case
    steps = 0
    improved = True
    t_end = time.time() + (seconds if seconds is not None else float(os.environ.get("VERIF_SHRINK_S", "90")))
    while improved and steps < budget and time.time() < t_end:
        improved = False
        for cand in suite.shrink(cur):
            steps += 1
            if steps >= budget or time.time() >= t_end:
                break
            try:
                if still_fails(cand):
                    cur = cand
                    improved = True
                    break
            except Exception:
                continue
    return cur


# ----------------------------------------------------------------------------------------------
def run_check(mod, tier, seed, replay=None):
    """The pipeline of DESIGN.md 2.2.  Returns the process exit code."""
    t0 = time.time()
    pid = mod.ID
    modname = mod.__name__
    # the oracles and printers run in this process; a generated case whose REFERENCE value is enormous (a template such as
    # 'ab' * 10**10 computed by the oracle's own Python evaluation) must raise MemoryError here instead of getting the whole
    # check killed by the kernel's OOM killer (seen once: C16 thorough, seed 13, 61 GB). Workers have their own lower limit.
    try:
        import resource
        lim = int(os.environ.get("VERIF_MAIN_MEM_GB", "20")) << 30
        resource.setrlimit(resource.RLIMIT_AS, (lim, lim))
    except Exception:
        pass
    mem_skips = 0
    known = [k for k in load_known() if k.get("property") == pid and k.get("status") == "known"]
    known_sigs = {k["sig"]: k for k in known}
    lines = []
    violations = []          # (kind, replay_path, has_input)
    known_hits = {}
    tie_breaks = []          # descriptions of broken obligations / correspondence
    cov = {"suites": {}}

    # 1. translation (T parts) -----------------------------------------------------------------
    if hasattr(mod, "translate"):
        try:
            mod.translate(REPO, os.path.join(COQ, pid, "gen"))
        except Exception as e:   # fail-closed
            tie_breaks.append({"kind": "translate", "what": "%s: %s" % (type(e).__name__, e)})

    # 2. proofs ------------------------------------------------------------------------------
    pr = build_proofs(pid)
    cov["obligations"] = pr["obligations"]
    cov["discharged"] = pr["discharged"]
    cov["theorems"] = props_theorems(pid)
    cov["proof_build_s"] = round(time.time() - t0, 1)
    if not pr["ok"]:
        tie_breaks.append({"kind": "proof", "what": "; ".join(pr["failed"]), "log": pr["log"][-1500:]})
    elif tier == "thorough" and replay is None and os.environ.get("VERIF_COQCHK", "1") == "1":
        tc = time.time()
        ok, summ = coqchk(pid)
        cov["coqchk"] = {"ok": ok, "summary": summ[-1200:], "wall_s": round(time.time() - tc, 1)}
        if not ok:
            tie_breaks.append({"kind": "proof", "what": "coqchk -o does not accept the compiled development "
                               "axiom-free: " + summ[-600:]})

    # 3/4. correspondence and oracle ---------------------------------------------------------
    samples = []
    total_eval = 0
    total_nontrivial = 0
    total_validated = 0
    distinct = set()
    oracle_failures = []      # (suite, case, out, failure)
    mismatch_cases = []       # (suite, case, out, pairtext)
    harness_errors = []
    for suite in mod.SUITES:
        rng = random.Random((seed * 1000003) ^ hash_name(suite.name))
        n = suite.counts.get(tier, suite.counts.get("quick", 100))
        if replay is not None:
            cases = [replay["case"]] if replay.get("suite") == suite.name else []
        else:
            cases = load_corpus(pid, suite) + [suite.gen(rng, tier, i) for i in range(n)]
        if not cases:
            continue
        t_impl = time.time()
        outs = run_impl_parallel(modname, suite, cases)
        # a case that timed out under load gets one more, sequential, attempt before it counts
        retry = [i for i, o in enumerate(outs) if isinstance(o, dict) and o.get("harness_error") == "timeout"]
        if retry and len(retry) <= 20:
            _winit(modname, suite.name)
            for i in retry:
                outs[i] = _wrun(cases[i])
        t_impl = time.time() - t_impl
        pairs = []
        hist = {}
        nt = 0
        for i, (c, o) in enumerate(zip(cases, outs)):
            if isinstance(o, dict) and "harness_error" in o:
                harness_errors.append((suite.name, c, o))
                continue
            h = case_hash(c)
            isnt = bool(suite.nontrivial(c, o))
            if isnt and h not in distinct:
                distinct.add(h)
                nt += 1
            d = suite.describe(c)
            if d:
                hist[d] = hist.get(d, 0) + 1
            try:
                fs = suite.oracle(c, o)
            except MemoryError:
                # the oracle's own reference computation does not fit in memory: no verdict on this case (counted)
                fs = []
                mem_skips += 1
            for f in fs:
                oracle_failures.append((suite, c, o, f))
            if suite.coq_case and pr["model_ok"]:
                try:
                    t = suite.coq_case(c, o)
                except MemoryError:
                    t = None
                    mem_skips += 1
                except Exception as e:   # a printer that cannot express the observation is a broken tie, not a crash
                    harness_errors.append((suite.name, c, {"harness_error": "coq_case: %s: %s" % (type(e).__name__, e)}))
                    t = None
                if t is not None:
                    pairs.append((i, t))
        bad, errs = (set(), [])
        t_model = time.time()
        if pairs:
            bad, errs = run_model_shards(pid, suite, pairs)
            for e in errs:
                tie_breaks.append({"kind": "model-eval", "what": e[-800:]})
            pm = dict(pairs)
            for i in sorted(bad):
                mismatch_cases.append((suite, cases[i], outs[i], pm[i]))
            total_validated += len(pairs) - len(bad)
        total_eval += len(cases)
        total_nontrivial += nt
        cov["suites"][suite.name] = {"cases": len(cases), "fed_to_model": len(pairs),
                                     "model_disagreements": len(bad), "nontrivial_distinct": nt,
                                     "impl_s": round(t_impl, 1), "model_s": round(time.time() - t_model, 1),
                                     "distribution": dict(sorted(hist.items(), key=lambda kv: -kv[1])[:25])}
        for c, o in list(zip(cases, outs))[:2]:
            samples.append({"suite": suite.name, "case": c, "impl": o})

    if harness_errors:
        s, c, o = harness_errors[0]
        tie_breaks.append({"kind": "harness", "what": "%d cases could not be run; first: %s %s" %
                           (len(harness_errors), s, json.dumps(o)[:600]), "case": c})

    # 5. verdict -----------------------------------------------------------------------------
    seen_sigs = set()
    for suite, c, o, f in oracle_failures:
        sig = f["sig"]
        if sig in known_sigs:
            known_hits.setdefault(sig, 0)
            known_hits[sig] += 1
            continue
        if sig in seen_sigs:
            continue
        seen_sigs.add(sig)

        def still(cand, suite=suite, sig=sig):
            _winit(modname, suite.name)
            oo = _wrun(cand)
            if isinstance(oo, dict) and "harness_error" in oo:
                return False
            return any(ff["sig"] == sig for ff in suite.oracle(cand, oo))
        small = shrink_case(suite, c, still)
        _winit(modname, suite.name)
        so = _wrun(small)
        p = write_replay(pid, {"property": pid, "suite": suite.name, "kind": "oracle", "sig": sig,
                               "what": f["what"], "case": small, "impl": so, "original_case": c})
        violations.append(("oracle:" + sig, p, True))

    if mismatch_cases or tie_breaks:
        # the tie between model and code (or a proof) is broken; a failing input may already have been
        # found by the oracle above.  If not, widen the search with the oracle alone.
        found_input = any(v[2] for v in violations)
        if not found_input and replay is None and hasattr(mod, "widened_search"):
            w = mod.widened_search(seed)
            if w:
                p = write_replay(pid, dict(w, property=pid, kind="widened-search"))
                violations.append(("widened:" + w.get("sig", "?"), p, True))
                found_input = True
        for suite, c, o, t in mismatch_cases[:1]:
            def still_mis(cand, suite=suite):
                _winit(modname, suite.name)
                oo = _wrun(cand)
                if isinstance(oo, dict) and "harness_error" in oo:
                    return False
                tt = suite.coq_case(cand, oo)
                if tt is None:
                    return False
                b, e = run_model_shards(pid, suite, [(0, tt)])
                return bool(b) and not e
            small = shrink_case(suite, c, still_mis, budget=40)
            _winit(modname, suite.name)
            so = _wrun(small)
            tt = suite.coq_case(small, so) or t
            p = write_replay(pid, {"property": pid, "suite": suite.name, "kind": "correspondence",
                                   "what": "model and implementation disagree (%d cases); first shown" % len(mismatch_cases),
                                   "case": small, "impl": so, "model": model_output_text(pid, suite, tt),
                                   "failing_input_found": found_input})
            violations.append(("correspondence:" + suite.name, p, found_input))
        for tb in tie_breaks:
            p = write_replay(pid, dict(tb, property=pid, failing_input_found=found_input,
                                       theorems=cov.get("theorems")))
            violations.append((tb["kind"], p, found_input))

    for sig, n in known_hits.items():
        lines.append("KNOWN-FINDING: property=%s %s (%d failing inputs this run; %s)" %
                     (pid, sig, n, known_sigs[sig].get("what", "")))
    # findings listed but not reproduced are not an error (the generator may not have hit them)
    for kind, p, has_input in violations:
        tail = "" if has_input else " no-failing-input-found"
        lines.append("VIOLATION property=%s replay=%s%s" % (pid, p, tail))

    wall = time.time() - t0
    tb_list = getattr(mod, "TRUSTED_BASE", [])
    ev = {
        "property_id": pid, "tier": tier, "seed": seed, "level": "proof",
        "coverage": {
            "obligations": max(cov["obligations"], 1) if pr["ok"] else cov["obligations"],
            "discharged": cov["discharged"],
            "checker_cmd": "cd /verif/coq/%s && coq_makefile -f _CoqProject -o Makefile && make  (coqc 8.16.1, full .vo; "
                           "Print Assumptions under every theorem of Props.v parsed by harness/vlib.py)" % pid,
            "trusted_base": tb_list,
            "theorems": cov["theorems"],
            "print_assumptions": pr["assumptions"],
            "coqchk": cov.get("coqchk", "not run in the quick tier (thorough tier runs `coqchk -silent -o ... Cxx.Props`)"),
            "evaluations": total_eval,
            "distinct_nontrivial": total_nontrivial,
            "traces_validated_against_impl": total_validated,
            "rule": getattr(mod, "RULE", ""),
            "samples": samples[:6],
            "suites": cov["suites"],
            "proof_build_s": cov.get("proof_build_s"),
            "known_findings_reproduced": known_hits,
            "cases_without_verdict_reference_too_large": mem_skips,
            "repo": REPO,
        },
        "assumptions": getattr(mod, "ASSUMPTIONS", []),
        "wall_s": round(wall, 2),
        "violations": len(violations),
    }
    if replay is None:
        os.makedirs(os.path.join(VERIF, "evidence"), exist_ok=True)
        with open(os.path.join(VERIF, "evidence", pid + ".json"), "w") as f:
            json.dump(ev, f, indent=1, default=str)
    for l in lines:
        print(l)
    print("%s tier=%s seed=%d: %d obligations, %d discharged, %d cases, %d validated against model, "
          "%d known-finding classes, %d violations, %.1fs" %
          (pid, tier, seed, cov["obligations"], cov["discharged"], total_eval, total_validated,
           len(known_hits), len(violations), wall))
    return 1 if violations else 0


def hash_name(s):
    return int(hashlib.sha1(s.encode()).hexdigest()[:8], 16)
