"""Boot a real MPF machine on the virtual clock exactly like mpf/tests/MpfTestCase.py does, from a machine
directory generated on the fly.  Used by the correspondence harnesses (DESIGN.md 2.3).

    rig = Rig({"switches": {...}, "modes": ["m1"]}, modes={"m1": {"mode": {...}, ...}})
    rig.start()                     # setUp(): machine initialised, at virtual time ~0
    rig.machine ...                 # the real MachineController
    rig.advance(0.5)                # advance virtual time, run everything due
    rig.now()                       # virtual time (float seconds)
    rig.post("event", a=1)          # post + run
    rig.stop()                      # tearDown()

The scratch machine directory is created under $TMPDIR and removed at stop().
"""
import os
import shutil
import tempfile

import json

import mpf.tests.MpfTestCase as _mtc
from mpf.tests.MpfTestCase import MpfTestCase
from mpf.tests.MpfFakeGameTestCase import MpfFakeGameTestCase
from mpf.tests.MpfGameTestCase import MpfGameTestCase


# MpfTestCase aborts a boot that takes more than 20 s of WALL-CLOCK time ("Start took more than 20s"). On a heavily
# loaded box (many checks in parallel) that limit is hit by a perfectly healthy tree and would be reported as a case that
# could not be run. The limit says nothing about the properties; vlib's per-case timeout still bounds a boot that hangs.
_mtc.LOCAL_START_TIMEOUT = int(os.environ.get("VERIF_BOOT_TIMEOUT_S", "300"))


def _write_machine(config, modes, shows=None):
    d = tempfile.mkdtemp(prefix="verif_machine_")
    os.makedirs(os.path.join(d, "config"))
    with open(os.path.join(d, "config", "config.yaml"), "w") as f:
        f.write("#config_version=6\n")
        json.dump(config, f, indent=1)   # JSON is YAML
    for name, mc in (modes or {}).items():
        md = os.path.join(d, "modes", name, "config")
        os.makedirs(md)
        with open(os.path.join(md, name + ".yaml"), "w") as f:
            f.write("#config_version=6\n")
            json.dump(mc, f, indent=1)
    for name, sc in (shows or {}).items():
        sd = os.path.join(d, "shows")
        os.makedirs(sd, exist_ok=True)
        with open(os.path.join(sd, name + ".yaml"), "w") as f:
            f.write("#show_version=6\n")
            json.dump(sc, f, indent=1)
    return d


def _mk(base):
    class _Rig(base):
        def __init__(self, config, modes=None, shows=None, platform="virtual", patches=None, mock_data=None,
                     use_bcp=False, mock_loop=None):
            super().__init__("runTest")
            self._use_bcp = use_bcp
            self._mock_loop_fn = mock_loop
            self._dir = _write_machine(config, modes, shows)
            self._platform = platform
            self._mock_data_ = mock_data
            if patches:
                self.machine_config_patches.update(patches)
            self.expected_duration = 1e9

        def runTest(self):
            pass

        def get_config_file(self):
            return "config.yaml"

        def get_machine_path(self):
            return self._dir          # absolute: os.path.join keeps it

        def get_platform(self):
            return self._platform

        def get_use_bcp(self):
            return self._use_bcp

        def _mock_loop(self):
            if self._mock_loop_fn:
                self._mock_loop_fn(self)

        def _get_mock_data(self):
            return self._mock_data_ if self._mock_data_ is not None else super()._get_mock_data()

        # -- convenience -------------------------------------------------------------------
        def start(self):
            try:
                self.setUp()
            except BaseException:
                shutil.rmtree(self._dir, ignore_errors=True)
                raise
            return self

        def stop(self):
            try:
                self.tearDown()
            except BaseException:
                pass
            finally:
                shutil.rmtree(self._dir, ignore_errors=True)

        def advance(self, secs):
            self.advance_time_and_run(secs)

        def now(self):
            return self.machine.clock.get_time()

        def post(self, ev, **kw):
            self.machine.events.post(ev, **kw)
            self.advance_time_and_run(0)

        def exception(self):
            return self._exception

    return _Rig


Rig = _mk(MpfTestCase)
FakeGameRig = _mk(MpfFakeGameTestCase)
GameRig = _mk(MpfGameTestCase)
