"""C07 — Mode lifecycle is well-formed and leaves nothing behind."""
import functools
import os
import re

from vlib import Suite, zlist, zlit, coqlist

ID = "C07"
READY = True
RULE = ("life: a machine with the built-in attract mode (start-tagged switch) and 1-3 generated non-game modes "
        "(priorities with ties incl. a tie with attract, start/stop events shared between modes and chained to other "
        "modes' lifecycle events incl. a mode restarting on its own mode_<m>_stopped, use_wait_queue, counters with "
        "logic_block_timeout / multiple_hit_window / delayed enable_events, timers with control events, event_player and "
        "variable_player entries incl. conditional ones) is driven by a script of direct start()/stop(), posted and "
        "queue-posted events, device events, time steps on a 1/8 s grid, with reaction handlers on lifecycle events "
        "that issue start/stop requests incl. the restart idiom mode.stop(callback=mode.start) (budgeted), handlers on "
        "lifecycle events (mostly will_stop/stopping/stopped) that register delays on mode.delay, switch handlers via "
        "mode.switch_handlers and event handlers via mode.add_mode_event_handler, queue blockers on mode_<m>_starting/stopping that are released "
        "later, and trace handlers on a random subset of lifecycle events.  Every execution of Mode.start/stop/"
        "_started/_mode_started_callback/_stopped/_mode_stopped_callback is observed (status, posted lifecycle events, "
        "active_modes, the mode's flags, everything the mode owns in the event/switch/delay registries) and replayed "
        "on the model.  non-trivial = some mode completes >= 2 cycles or a request was issued from a lifecycle handler.  "
        "Every 8 cases carry a focused scenario: stop from a handler of the mode's own started event / start from a handler "
        "of its own stopped event, with and without a holder on its stopping queue; start(mode_priority) below, between and "
        "above the running modes; handlers of the mode's own started event that stop AND restart it (restart idiom, or stop + start "
        "on its stopped event), with the mode's queue events free of handlers (the callback of the first mode_<m>_started is "
        "still outstanding when the mode is up again) or with a holder on mode_<m>_starting (the stale callback arrives while "
        "the restarted mode is starting); the run of the mode_start() hook is observed per _mode_started_callback.  "
        "dev: a machine with a running (fake) game and 1-2 generated game modes (priorities 5..200, restart_on_next_ball, "
        "start on ball_started) with 1-3 shots each (shared switches, start_enabled yes/no/absent, persist_enable yes/no, "
        "enable/disable/restart/reset events immediate or delayed), counters and timers with delayed control events; script "
        "of start/stop requests, control events at any time (before, during - also behind held starting/stopping queues - "
        "and after the mode's lifetime), the same request twice, request + short wait + stop, switch hits, time steps, "
        "queue holders and releases, up to two ball ends.  Observed and replayed on coq/C07/Devices.v: every execution of "
        "the mode's lifecycle methods, every posted control event, every delivered delay, every hit; per step phase, "
        "control handlers, per shot enabled / registrations found in the EventManager / tracked keys, pending delays of "
        "Mode.delay and of the machine-wide manager; every ModeController._ball_ending against coq/C07/Controller.v.  "
        "non-trivial = a mode completed a stop and a control event reached a device.  "
        "own: ONE machine per worker with the modes pa/pb (event_player on a queue and a plain trigger, queue_relay_player, "
        "variable_player, light_player, show_player), two switches and rig handlers that hold the trigger queue events on "
        "request; script of start/stop requests, switch handlers registered through Mode.switch_handlers with ms in "
        "{0..2000}, state 0/1, while the switch is / is not in that state (catch-up), foreign registrations with the same "
        "parameters, the mode removing a handler itself, switch changes, time steps on the 1/8 s grid, queue posts with / "
        "without a holder, releases, the relay's wait_for event; some callbacks stop their mode when invoked.  Every operation "
        "of coq/C07/Own.v is observed in the order it starts (Mode methods, config_play_callback + play, switch changes, "
        "wake-ups of _process_active_timed_switches, registrations) with status, invoked callbacks, played entries, and at "
        "every quiescent point the whole state (phase, tracked keys, registered handlers, every counting entry with its "
        "deadline, player handlers, relay handlers).  non-trivial = a mode stopped and a callback was invoked or a player "
        "was called from a stale handler list.  life (second pass): generated modes may have a queue_relay_player and an "
        "event_player entry on a queue event with a rig holder in front; the mode stops while that dispatch is suspended")
TRUSTED_BASE = [
    "Coq 8.16.1 kernel (coqc), vm_compute for the _refuted witnesses and for evaluating the model in the correspondence run; no native_compute",
    "axioms: none (every Print Assumptions is 'Closed under the global context')",
    "hand-written transition-system model coq/C07/Model.v (fx=true: tree with fixes/C07-*.patch incl. "
    "C07-stale-started-callback.patch: the per-mode flag _start_hook_pending is part of the state) tied to the code by "
    "replaying every observed lifecycle step of the real Mode objects on the model (harness/props/c07.py); the status of "
    "a CbStarted step is 'the wrapped mode_start() ran during this execution of _mode_started_callback'",
    "the event bus (order and completion of queue events / callbacks) is not modelled: completions are operations of "
    "the history and the theorems quantify over all orders (C01/C02 own the bus)",
    "harness: class-level recording wrappers around six Mode methods, Mode.mode_start and EventManager._post, installed "
    "in the worker process only; attribution of registry entries to modes by the mode's own book-keeping sets",
    "hand-written model of the mode-device layer coq/C07/Devices.v (EnableDisableMixin, Shot registrations, delayed "
    "control events on Mode.delay) and of ModeController._ball_ending/_ball_starting coq/C07/Controller.v, tied by the dev "
    "suite; additional wrappers around DelayManager._process_delay_callback and ModeController._ball_ending/_ball_starting; "
    "MpfFakeGameTestCase (no ball devices: the harness empties the playfield and sets balls_in_play to end a ball)",
    "dev oracle: attribution of registry entries to a generated mode by object identity (mode= kwarg, bound callback, "
    "wrapped callback= kwarg, owner of the DelayManager)",
    "hand-written model coq/C07/Own.v of the switch-handler registry, the table of counting timed handlers, "
    "Mode.switch_handlers and the config-player guard / queue-relay wait handlers, tied by the own suite; wrappers around "
    "ConfigPlayer.config_play_callback, the play methods of five players, SwitchController._process_active_timed_switches "
    "and a second layer around EventManager._post; the own suite reuses one machine per worker (a case that does not end in "
    "the base state gets the worker a fresh machine); clock contract: the virtual clock wakes the timed-handler task at its "
    "scheduled time (checked: no counting entry is past its deadline at a quiescent point)",
]
ASSUMPTIONS = [
    "life suite: non-game modes only; dev suite: game modes inside ONE single-player game (no player change while a mode runs, no game end inside the recorded history)",
    "device layer: shots (EnableDisableMixin + own registrations) are modelled; counters/timers in game modes, the complete-dump comparison and the ball-end phase check are oracle-only supplements; ball_holds/multiballs (need ball devices) are not generated",
    "clock contract of the device layer: only a pending delay is delivered (DFire of anything else has status 2); which of several identical pending delays fires is not distinguished",
    "code running on behalf of a mode registers things only while the mode is not idle, config players only inside start() (guards of the Add operation; Own.v: a tracked OReg of an idle mode is refused)",
    "own suite: fixed mode configuration (generated histories only); the context state of light/show players and machine variables are oracle-only; a wake-up with several due deadlines is outside the model's domain (status 2, never observed)",
    "never-fire-after-stop is stated for callbacks that were only ever registered through the mode and up to their next registration",
    "mode_start() hook: 'at least once' is proved up to delivery of a started-callback before the mode's _stopped (the bus delivers every posted callback: C02); the oracle checks on the code that a mode that is up after everything settled has had the hook of its latest start",
    "liveness: proved up to delivery (nothing but the outstanding completion ends a transition; at its first delivery the mode moves on); delivery itself is the bus' job (C02) and is checked by the oracle at every quiescent point (a mode is inside a transition only while a rig handler holds that queue)",
]

PHASES = ["will_start", "starting", "started", "will_stop", "stopping", "stopped"]
NAMES = ["attract", "ma", "mb", "mc"]            # id = index; id order = name order (sort key of active_modes)
PLAYER_OUT_RE = re.compile(r"^(?:(out|out2|outq|up|down)_(ma|mb|mc)|rl_(ma|mb|mc)_start)$")
LIFE_RE = re.compile(r"^mode_(attract|ma|mb|mc)_(will_start|starting|started|will_stop|stopping|stopped)$")


# ------------------------------------------------------------------------------------------------
# generation
def gen_mode(rng, name, idx, names):
    lower = [n for n in names if NAMES.index(n) < idx] + ["attract"]
    cfg = {"priority": rng.choice([10, 10, 100, 100, 100, 200, 300]), "game_mode": False,
           "start_events": ["s_" + name], "stop_events": ["e_" + name]}
    if rng.random() < 0.5:
        cfg["start_events"].append("s_all")
    if rng.random() < 0.5:
        cfg["stop_events"].append("e_all")
    if rng.random() < 0.25:
        cfg["start_events"].append("mode_%s_%s" % (rng.choice(lower), rng.choice(["started", "stopped", "will_stop"])))
    if rng.random() < 0.2:
        cfg["start_events"].append("mode_%s_stopped" % name)          # restart on own stop
    if rng.random() < 0.25:
        cfg["stop_events"].append("mode_%s_%s" % (rng.choice(lower), rng.choice(["started", "stopped", "starting"])))
    if rng.random() < 0.12 and ("mode_%s_stopped" % name) not in cfg["start_events"]:
        cfg["stop_events"].append("mode_%s_started" % name)           # stops itself as soon as it is up
    if rng.random() < 0.3:
        cfg["use_wait_queue"] = True
    if rng.random() < 0.2:
        cfg["start_priority"] = rng.choice([1, 5])
    if rng.random() < 0.2:
        cfg["stop_priority"] = rng.choice([1, 5])
    mode = {"mode": cfg}
    if rng.random() < 0.7:
        ctrs = {}
        for k in range(rng.choice([1, 1, 2])):
            cn = "c_%s%d" % (name, k)
            c = {"count_events": "hit_" + cn, "count_complete_value": rng.choice([2, 3]),
                 "reset_on_complete": rng.random() < 0.5}
            if rng.random() < 0.7:
                c["logic_block_timeout"] = rng.choice(["2s", "500ms", "1s"])
            if rng.random() < 0.6:
                c["multiple_hit_window"] = rng.choice(["1s", "250ms"])
            if rng.random() < 0.4:
                c["enable_events"] = "en_%s|%s" % (cn, rng.choice(["1s", "500ms"]))
            if rng.random() < 0.3:
                c["reset_events"] = "rs_%s|250ms" % cn
            ctrs[cn] = c
        mode["counters"] = ctrs
    if rng.random() < 0.5:
        tn = "t_" + name
        mode["timers"] = {tn: {"start_value": 0, "end_value": rng.choice([3, 5]), "tick_interval": rng.choice(["1s", "500ms"]),
                               "start_running": rng.random() < 0.6,
                               "control_events": [{"event": "tp_" + tn, "action": "pause", "value": rng.choice([1, 2])},
                                                  {"event": "ts_" + tn, "action": "start"},
                                                  {"event": "tx_" + tn, "action": "stop"}]}}
    if rng.random() < 0.7:
        ep = {"ep_" + name: "out_" + name, "epc_%s{mode.%s.active}" % (name, name): "out2_" + name}
        if rng.random() < 0.4:
            ep["mode_%s_started" % name] = "up_" + name
        if rng.random() < 0.3:
            ep["mode_%s_stopping" % name] = "down_" + name
        mode["event_player"] = ep
    if rng.random() < 0.5:
        mode["variable_player"] = {"ep_" + name: {"v_" + name: {"int": 1, "action": "add_machine"}}}
    if rng.random() < 0.4:
        # players triggered by a QUEUE event (the dispatch can be suspended by an earlier handler while the mode stops)
        mode["queue_relay_player"] = {"qt_" + name: {"post": "rl_%s_start" % name, "wait_for": "rl_%s_done" % name}}
        mode.setdefault("event_player", {})["qt_" + name] = "outq_" + name
    return mode


def device_events(modes):
    evs = []
    for name, mc in modes.items():
        for cn, c in mc.get("counters", {}).items():
            evs += ["hit_" + cn, "hit_" + cn]
            if "enable_events" in c:
                evs += ["en_" + cn, "en_" + cn]
            if "reset_events" in c:
                evs.append("rs_" + cn)
        for tn in mc.get("timers", {}):
            evs += ["tp_" + tn, "ts_" + tn, "tx_" + tn]
        if "ep_" + name in mc.get("event_player", {}):
            evs.append("ep_" + name)
        if "queue_relay_player" in mc:
            evs.append("rl_%s_done" % name)
    return evs


def gen_life(rng, tier, i):
    names = NAMES[1:1 + rng.choice([1, 2, 2, 3, 3])]
    modes = {n: gen_mode(rng, n, NAMES.index(n), names) for n in names}
    allm = ["attract"] + names
    reactions = []
    for _ in range(rng.choice([0, 1, 2, 3, 4])):
        reactions.append({"event": "mode_%s_%s" % (rng.choice(allm), rng.choice(PHASES)),
                          "prio": rng.choice([-5, 1, 150, 1000]), "action": rng.choice(["start", "stop", "stop_restart"]),
                          "target": rng.choice(allm), "budget": rng.choice([1, 1, 2, 3])})
    # handlers of a mode's lifecycle events that register things for that mode through the mode API
    # (mode.delay, mode.switch_handlers, mode.add_mode_event_handler), mostly while it is stopping
    for _ in range(rng.choice([0, 1, 1, 2, 3])):
        m = rng.choice(allm)
        reactions.append({"event": "mode_%s_%s" % (m, rng.choice(PHASES + ["will_stop", "stopping", "stopping", "stopped"])),
                          "prio": rng.choice([-5, 1, 150, 1000]),
                          "action": rng.choice(["add_delay", "add_delay", "add_switch", "add_handler"]),
                          "ms": rng.choice([125, 500, 2000]), "target": m, "budget": rng.choice([1, 2, 3])})
    blockers = []
    for _ in range(rng.choice([0, 0, 1, 1, 2])):
        blockers.append({"event": "mode_%s_%s" % (rng.choice(allm), rng.choice(["starting", "stopping"])),
                         "prio": rng.choice([1, 1000])})
    # focused scenario classes, by case index (every run has them): a stop issued from a handler of the mode's own
    # started event / a start from a handler of its own stopped event, with and without a handler holding the
    # mode's stopping queue (without: the stop completes before the callback of mode_<m>_started runs)
    focus = i % 8
    if focus in (0, 1, 2, 3):
        fm = rng.choice(names)
        reactions.append({"event": "mode_%s_%s" % (fm, "started" if focus < 2 else "stopped"), "prio": rng.choice([1, 150, 1000]),
                          "action": "stop" if focus < 2 else "start", "target": fm, "budget": rng.choice([1, 2])})
        blockers = [b for b in blockers if b["event"] != "mode_%s_stopping" % fm]
        if focus in (1, 3):
            blockers.append({"event": "mode_%s_stopping" % fm, "prio": rng.choice([1, 1000])})
    # third pass (finding 7): handlers of the mode's own started event stop AND restart it (restart idiom, or a stop and a
    # start reaction), so that the callback of the first mode_<m>_started is still outstanding when the mode is up again
    # (focus 4), or is delivered while the restarted mode waits behind a held mode_<m>_starting queue (focus 5).  attract is
    # the mode whose mode_start() hook registers something.
    hook_focus = None
    if focus in (4, 5):
        fm = rng.choice(allm)
        hook_focus = fm
        if rng.random() < 0.7:
            reactions.append({"event": "mode_%s_started" % fm, "prio": rng.choice([1, 150, 1000]), "action": "stop_restart",
                              "target": fm, "budget": rng.choice([1, 1, 2])})
        else:
            reactions.append({"event": "mode_%s_started" % fm, "prio": 1000, "action": "stop", "target": fm, "budget": 1})
            reactions.append({"event": "mode_%s_stopped" % fm, "prio": rng.choice([1, 150]), "action": "start", "target": fm,
                              "budget": 1})
        blockers = [b for b in blockers if b["event"] not in ("mode_%s_stopping" % fm, "mode_%s_starting" % fm)]
        if focus == 5:
            blockers.append({"event": "mode_%s_starting" % fm, "prio": rng.choice([1, 1000])})
    traced = [["mode_%s_%s" % (m, p), rng.choice([2, 500])] for m in allm for p in PHASES if rng.random() < 0.6]
    if focus == 4:
        # any handler on the mode's two queue events turns their dispatch into a task of its own; the event queue then runs
        # dry and the first started-callback is delivered before the restart is complete.  Keep those events free of handlers
        # so that the whole stop + restart happens while the callback is outstanding.
        qev = ("mode_%s_stopping" % hook_focus, "mode_%s_starting" % hook_focus)
        traced = [t for t in traced if t[0] not in qev]
        reactions = [r for r in reactions if r["event"] not in qev]
    devs = device_events(modes)
    qts = ["qt_" + n for n in names if "queue_relay_player" in modes[n]]
    for q in qts:
        if rng.random() < 0.7:
            blockers.append({"event": q, "prio": 1000})
    script = []
    for _ in range(rng.choice([4, 8, 12, 18, 25, 35])):
        r = rng.random()
        m = rng.choice(allm if rng.random() < 0.25 else names)
        if r < 0.16:
            script.append(["post", "s_" + m if m != "attract" else "reset_complete"])
        elif r < 0.30:
            script.append(["post", "e_" + m if m != "attract" else "service_mode_entered"])
        elif r < 0.36:
            script.append(["post", rng.choice(["s_all", "e_all"])])
        elif r < 0.46:
            script.append(["start", m, rng.choice([None, None, None, 1, 5, 10, 100, 150, 250])])
        elif r < 0.52:
            script.append(["stop", m])
        elif r < 0.56:
            # the restart idiom: stop with a callback that starts the mode (or another one) again
            script.append(["stopcb", m, m if rng.random() < 0.8 else rng.choice(allm)])
        elif r < 0.62:
            if qts and rng.random() < 0.6:
                q = rng.choice(qts)
                script.append(["postq", q])
                if rng.random() < 0.5:
                    # the mode stops while the dispatch of its players' trigger is suspended; then the dispatch goes on
                    script.append(rng.choice([["post", "e_" + q[3:]], ["stop", q[3:]]]))
                    script.append(["release"])
            else:
                script.append(["postq", "s_" + m if m != "attract" else "reset_complete"])
        elif r < 0.78 and devs:
            script.append(["post", rng.choice(devs)])
        elif r < 0.93:
            script.append(["adv", rng.choice([1, 2, 4, 4, 8, 8, 12, 16, 17, 24])])
        else:
            script.append(["release"])
    if hook_focus is not None:
        # make sure the focused mode goes through a start early in the script (attract is up: restart it)
        kick = [["stopcb", "attract", "attract"]] if hook_focus == "attract" else [["start", hook_focus, None]]
        if focus == 5:
            kick += [["release"], ["release"]]
        at = rng.randrange(0, min(3, len(script)) + 1)
        script[at:at] = kick
    return {"modes": modes, "reactions": reactions, "blockers": blockers, "traced": traced, "script": script}


# ------------------------------------------------------------------------------------------------
# implementation side
_REC = [None]


def _install():
    from mpf.core.mode import Mode
    from mpf.core.events import EventManager
    from mpf.modes.attract.code.attract import Attract
    if getattr(Mode, "_c07_patched", False):
        return
    Mode._c07_patched = True

    def wrap(cls, meth, kind):
        orig = cls.__dict__[meth]

        @functools.wraps(orig)
        def wrapper(self, *args, **kwargs):
            rec = _REC[0]
            if rec is None or self.name not in rec.ids or rec.machine is not self.machine:
                return orig(self, *args, **kwargs)
            tok = rec.enter(kind, self, args, kwargs)
            ret = orig(self, *args, **kwargs)
            rec.leave(tok, ret)
            return ret
        setattr(cls, meth, wrapper)

    for meth, kind in (("start", "Start"), ("stop", "Stop"), ("_started", "QStarted"),
                       ("_mode_started_callback", "CbStarted"), ("_stopped", "QStopped"),
                       ("_mode_stopped_callback", "CbStopped")):
        wrap(Mode, meth, kind)

    def wrap_hook(cls):
        orig = cls.__dict__["mode_start"]

        @functools.wraps(orig)
        def hook(self, **kwargs):
            rec = _REC[0]
            if rec is not None and rec.machine is self.machine:
                rec.hook_ran = True
            return orig(self, **kwargs)
        cls.mode_start = hook
    wrap_hook(Mode)
    wrap_hook(Attract)

    orig_post = EventManager._post

    @functools.wraps(orig_post)
    def _post(self, event, ev_type, callback, **kwargs):
        rec = _REC[0]
        if rec is not None and rec.machine is self.machine:
            m = LIFE_RE.match(event)
            if m and m.group(1) in rec.ids:
                rec.posted.append([rec.ids[m.group(1)], PHASES.index(m.group(2))])
            m = PLAYER_OUT_RE.match(event)
            if m and hasattr(rec, "player_posts") and (m.group(2) or m.group(3)) in rec.ids:
                # oracle data: an output of a mode's config player, and whether the mode is active at that moment
                rec.player_posts.append([event, bool(self.machine.modes[m.group(2) or m.group(3)].active)])
        return orig_post(self, event, ev_type, callback, **kwargs)
    EventManager._post = _post


class Recorder:
    """Observes every lifecycle step of the recorded modes; see RULE."""

    def __init__(self, machine, names, devices):
        self.machine = machine
        self.ids = {n: NAMES.index(n) for n in names}
        self.devices = devices          # mode name -> {"counters": [...], "timers": [...]}
        self.steps = []                 # [opname, mode id, arg/None, status, events, active ids, phase, owned]
        self.posted = []
        self.outside_posts = []
        self.hook_ran = False
        self.kid = {}
        self.keep = []
        self.depth = 0
        self.nested = False
        self.stack = []
        self.canon = {}                 # key id -> canonical text of a handler entry
        self.start_regs = []            # [mode id, step index, canonical registrations made inside start()]
        self.regs_missing = []
        self.last = self.snapshot()
        self.prefix = self.build_prefix()
        self.sorted_bad = []            # oracle data: active list not the sorted list of active modes
        self.requests = []
        self.shared_queue_start = {}    # mode id -> its latest accepted start re-posted the caller's queue
        self.player_posts = []

    # -- attribution ---------------------------------------------------------------------------
    def key(self, kind, ident, obj=None):
        k = (kind, ident)
        if k not in self.kid:
            self.kid[k] = len(self.kid) + 1
            if obj is not None:
                self.keep.append(obj)       # keep alive: id() must not be reused
        return self.kid[k]

    def snapshot(self):
        from mpf.core.events import EventHandlerKey
        from mpf.core.mode import Mode
        from mpf.core.config_player import ConfigPlayer
        m = self.machine
        snap = set()
        dev_owner = {}
        for mn, d in self.devices.items():
            for tn in d["timers"]:
                dev_owner[id(m.timers[tn])] = mn
        for ev, hl in m.events.registered_handlers.items():
            for h in hl:
                owner = h.kwargs.get("mode")
                cb_self = getattr(h.callback, "__self__", None)
                if isinstance(owner, Mode) and owner.name in self.ids:
                    ek = EventHandlerKey(h.key, ev)
                    if ek in owner.event_handlers:
                        cls = 0
                    elif isinstance(cb_self, ConfigPlayer) and owner in cb_self.mode_event_keys and \
                            ek in cb_self.mode_event_keys[owner][0]:
                        cls = 1
                    else:
                        cls = 6         # registered for the mode but tracked nowhere
                    kid = self.key("h", h.key)
                    snap.add((cls, self.ids[owner.name], kid))
                    if kid not in self.canon:
                        self.canon[kid] = "%s %s %s" % (ev, getattr(h.callback, "__qualname__", "?"), ",".join(sorted(h.kwargs)))
                elif cb_self is not None and id(cb_self) in dev_owner:
                    mn = dev_owner[id(cb_self)]
                    cls = 4 if EventHandlerKey(h.key, ev) in cb_self.event_keys else 6
                    kid = self.key("h", h.key)
                    snap.add((cls, self.ids[mn], kid))
                    if kid not in self.canon:
                        self.canon[kid] = "%s %s %s" % (ev, getattr(h.callback, "__qualname__", "?"), ",".join(sorted(h.kwargs)))
        for sw, lists in m.switch_controller.registered_switches.items():
            for lst in lists:
                for ent in lst:
                    cb_self = getattr(ent.callback, "__self__", None)
                    if isinstance(cb_self, Mode) and cb_self.name in self.ids:
                        tracked = any(sh.switch_name in (sw, sw.name) and sh.callback == ent.callback and sh.ms == ent.ms
                                      for sh in cb_self.switch_handlers)
                        snap.add((2 if tracked else 6, self.ids[cb_self.name], self.key("s", id(ent), ent)))
        for mn in self.ids:
            mode = m.modes[mn]
            for name, d in mode.delay.delays.items():
                snap.add((3, self.ids[mn], self.key("d", id(d[0]), d[0])))
            for cn in self.devices.get(mn, {}).get("counters", []):
                for name, d in m.counters[cn].delay.delays.items():
                    snap.add((5, self.ids[mn], self.key("d", id(d[0]), d[0])))
            for tn in self.devices.get(mn, {}).get("timers", []):
                t = m.timers[tn]
                if t.delay is not None:
                    for name, d in t.delay.delays.items():
                        snap.add((4, self.ids[mn], self.key("d", id(d[0]), d[0])))
                if t.timer is not None:
                    snap.add((4, self.ids[mn], self.key("t", id(t.timer), t.timer)))
        # a delay on the MACHINE-WIDE manager whose callback belongs to a recorded mode or one of its devices is
        # covered by no bulk removal of the mode: class 6 (the model refuses it)
        for name, d in m.delay.delays.items():
            obj, _ = _cb_target(d[1])
            mn = self.obj_owner().get(id(obj)) if obj is not None else None
            if mn is not None:
                snap.add((6, self.ids[mn], self.key("d", id(d[0]), d[0])))
        return snap

    def obj_owner(self):
        if not hasattr(self, "_obj_owner"):
            m = self.machine
            oo = {}
            for mn in self.ids:
                oo[id(m.modes[mn])] = mn
                for cn in self.devices.get(mn, {}).get("counters", []):
                    oo[id(m.counters[cn])] = mn
                for tn in self.devices.get(mn, {}).get("timers", []):
                    oo[id(m.timers[tn])] = mn
            self._obj_owner = oo
        return self._obj_owner

    def phase(self, mode):
        flags = (bool(mode._active), bool(mode._starting), bool(mode.stopping),
                 bool(getattr(mode, "_cleanup_pending", False)))
        return {(False, False, False, False): 0, (False, True, False, False): 1, (True, False, False, False): 2,
                (True, False, True, False): 3, (False, False, False, True): 4}.get(flags, 9)

    def active_ids(self):
        return [self.ids.get(x.name, 99) for x in self.machine.mode_controller.active_modes]

    def check_sorted(self, where):
        """oracle data: the property's own predicate on active_modes, evaluated on the real objects"""
        mc = self.machine.mode_controller
        want = sorted([x for x in self.machine.modes.values() if x.active], key=lambda x: (x.priority, x.name),
                      reverse=True)
        if [x.name for x in mc.active_modes] != [x.name for x in want]:
            self.sorted_bad.append([where, [x.name for x in mc.active_modes], [(x.name, x.priority) for x in want]])

    def build_prefix(self):
        """operations that take the model from init_state to the state at which recording starts"""
        pre = []
        for mode in sorted(self.machine.mode_controller.active_modes, key=lambda x: x.name):
            if mode.name in self.ids:
                i = self.ids[mode.name]
                pre.append(["Start", i, mode.priority])
        for cls, own, k in sorted(self.last):
            pre.append(["Add", own, [cls, k]])
        for mode in sorted(self.machine.mode_controller.active_modes, key=lambda x: x.name):
            if mode.name in self.ids:
                pre += [["QStarted", self.ids[mode.name], None], ["CbStarted", self.ids[mode.name], None]]
        return pre

    def owned(self, snap, i):
        return sorted(cls * 64 * 1048576 + i * 1048576 + k for cls, own, k in snap if own == i)

    def env_diff(self, new, mode_hint=None):
        """explain registry changes that happened outside lifecycle steps as Add/Del operations"""
        cur = set(self.last)
        for e in sorted(self.last - new):
            cur.discard(e)
            self.emit_env("Del", e, cur)
        for e in sorted(new - self.last):
            cur.add(e)
            self.emit_env("Add", e, cur)
        self.last = set(new)

    def emit_env(self, opn, e, cur):
        cls, own, k = e
        mode = self.machine.modes[NAMES[own]]
        self.steps.append([opn, own, [cls, k], 1, [], self.active_ids(), self.phase(mode), self.owned(cur, own)])

    # -- lifecycle steps -------------------------------------------------------------------------
    def enter(self, kind, mode, args, kwargs):
        self.depth += 1
        top = self.stack[-1] if self.stack else None
        if self.depth > 1:
            if kind == "CbStopped" and top is not None and top["kind"] == "Start":
                # the fixed start() finishes a pending stop itself: part of the Start step
                self.stack.append(None)
                return None
            if kind == "Start" and top is not None and top["kind"] == "CbStopped":
                # a stop callback (mode.stop(callback=...)) starts a mode: the callbacks are the tail of
                # _mode_stopped_callback, so the CbStopped step ends here and the Start is a step of its own
                if not top["done"]:
                    self.finish(top, None)
            elif kind == "Start" and top is None and len(self.stack) >= 2 and self.stack[-2] is not None and \
                    self.stack[-2]["kind"] == "Start":
                # a stop callback run by the clean-up inside start().  Restarting the same mode must be refused (it
                # is already starting; a refused start is no step); starting another mode is a step of its own that
                # commutes with the enclosing one and is recorded right after it
                mp = kwargs.get("mode_priority", args[0] if args else None)
                tok = {"kind": "Start", "mode": mode, "was_starting": mode._starting, "inflush": self.stack[-2],
                       "arg": mp if isinstance(mp, int) else mode.config["mode"]["priority"], "done": True}
                self.stack.append(tok)
                return tok
            else:
                self.nested = True      # anything else never nests in MPF; if it does the tie is void
                self.stack.append(None)
                return None
        if len(self.steps) > 4000:
            raise RuntimeError("runaway history (generator flaw: endless start/stop chain)")
        snap = self.snapshot()
        self.env_diff(snap)
        if self.posted:
            self.outside_posts += self.posted
        self.posted = []
        self.hook_ran = False
        arg = None
        if kind == "Start":
            mp = kwargs.get("mode_priority", args[0] if args else None)
            arg = mp if isinstance(mp, int) else mode.config["mode"]["priority"]
            self.start_has_queue = "queue" in kwargs
        tok = {"kind": kind, "mode": mode, "arg": arg, "before": snap, "was_starting": mode._starting,
               "pending": bool(getattr(mode, "_cleanup_pending", False)), "has_flag": hasattr(mode, "_cleanup_pending"),
               "done": False}
        self.stack.append(tok)
        return tok

    def leave(self, tok, ret):
        self.depth -= 1
        self.stack.pop()
        if tok is None:
            return
        if tok.get("inflush"):
            m = tok["mode"]
            accepted = bool(m._starting and not tok["was_starting"])
            if m is tok["inflush"]["mode"]:
                if accepted:
                    self.nested = True          # a start inside the start of the same mode
            else:
                tok["inflush"].setdefault("deferred", []).append((m, tok["arg"], accepted))
            return
        if tok["done"]:
            self.env_diff(self.snapshot())      # whatever ran after the nested start
            self.check_sorted(len(self.steps))
            return
        self.finish(tok, ret)

    def finish(self, tok, ret):
        tok["done"] = True
        kind, mode, arg, before = tok["kind"], tok["mode"], tok["arg"], tok["before"]
        i = self.ids[mode.name]
        after = self.snapshot()
        if kind == "Start":
            status = 1 if (mode._starting and not tok["was_starting"]) else 0
            if status:
                self.shared_queue_start[i] = bool(self.start_has_queue and mode.config["mode"]["use_wait_queue"])
                # oracle data: what this start registered for the mode (event, callback, kwargs keys; no priority)
                self.start_regs.append([i, len(self.steps), sorted(self.canon[k] for c, o, k in after - before
                                                                   if o == i and k in self.canon)])
        elif kind == "Stop":
            status = 1 if ret else 0
        elif kind == "CbStarted":
            status = 1 if self.hook_ran else 0
        elif kind == "CbStopped":
            status = (1 if tok["pending"] else 0) if tok["has_flag"] else 1
        else:
            status = 1
        kept = before & after
        self.steps.append([kind, i, arg, status, [a * 8 + b for a, b in self.posted if a == i], self.active_ids(),
                           self.phase(mode), self.owned(kept, i)])
        rest = [e for e in self.posted if e[0] != i]
        for m2, arg2, acc2 in tok.get("deferred", []):
            j = self.ids[m2.name]
            self.steps.append(["Start", j, arg2, 1 if acc2 else 0, [a * 8 + b for a, b in rest if a == j],
                               self.active_ids(), self.phase(m2), self.owned(kept, j)])
            rest = [e for e in rest if e[0] != j]
        self.outside_posts += rest
        self.posted = []
        self.last = kept
        self.env_diff(after)
        self.check_sorted(len(self.steps))

    def check_regs(self, tag):
        """oracle data: a mode that is up (and not stopping) still has everything its latest start registered"""
        latest = {}
        for i, at, regs in self.start_regs:
            latest[i] = regs
        have = {}
        for c, o, k in self.last:
            if k in self.canon:
                have.setdefault(o, []).append(self.canon[k])
        for i, regs in latest.items():
            if self.phase(self.machine.modes[NAMES[i]]) == 2:
                missing = multiset_diff(regs, have.get(i, []))
                if missing:
                    self.regs_missing.append([tag, i, missing[:4]])

    def quiescent(self, tag=None):
        self.env_diff(self.snapshot())
        self.check_sorted(len(self.steps))
        self.check_regs(tag)


def canonical_dump(machine):
    """pre-start / post-stop comparison of the property: (event, priority, callback qualname, sorted kwargs keys)
    of every registered handler, every switch handler, and the number of pending delays of the machine-wide manager"""
    out = []
    for ev, hl in machine.events.registered_handlers.items():
        for h in hl:
            cb = h.callback
            q = getattr(cb, "__qualname__", None) or getattr(getattr(cb, "func", None), "__qualname__", type(cb).__name__)
            out.append("E %s %s %s %s" % (ev, h.priority, q, ",".join(sorted(h.kwargs))))
    for sw, lists in machine.switch_controller.registered_switches.items():
        for st, lst in enumerate(lists):
            for ent in lst:
                out.append("S %s %d %s %s" % (sw.name, st, getattr(ent.callback, "__qualname__", "?"), ent.ms))
    return sorted(out)


def delay_dump(machine, names, devices):
    out = []
    for mn in names:
        mode = machine.modes[mn]
        out += ["D %s.delay %s" % (mn, k) for k in mode.delay.delays]
        for cn in devices.get(mn, {}).get("counters", []):
            out += ["D %s.delay %s" % (cn, k) for k in machine.counters[cn].delay.delays]
        for tn in devices.get(mn, {}).get("timers", []):
            t = machine.timers[tn]
            if t.delay is not None:
                out += ["D %s.delay %s" % (tn, k) for k in t.delay.delays]
            if t.timer is not None:
                out.append("D %s.timer" % tn)
    objs = {}
    for mn in names:
        objs[id(machine.modes[mn])] = mn
        for cn in devices.get(mn, {}).get("counters", []):
            objs[id(machine.counters[cn])] = cn
        for tn in devices.get(mn, {}).get("timers", []):
            objs[id(machine.timers[tn])] = tn
    for k, d in machine.delay.delays.items():
        obj, meth = _cb_target(d[1])
        if obj is not None and id(obj) in objs:
            out.append("D machine.delay %s.%s" % (objs[id(obj)], meth))
    return sorted(out)


def idle_leaks(machine, names, devices):
    """independent attribution (not the mode's book-keeping): anything that refers to an idle mode or its devices"""
    from mpf.core.mode import Mode
    leaks = []
    idle = [mn for mn in names if not (machine.modes[mn]._active or machine.modes[mn]._starting or
                                       machine.modes[mn].stopping or getattr(machine.modes[mn], "_cleanup_pending", False))]
    objs = {}
    for mn in idle:
        objs[id(machine.modes[mn])] = mn
        for cn in devices.get(mn, {}).get("counters", []):
            objs[id(machine.counters[cn])] = mn
        for tn in devices.get(mn, {}).get("timers", []):
            objs[id(machine.timers[tn])] = mn
    for ev, hl in machine.events.registered_handlers.items():
        for h in hl:
            owner = h.kwargs.get("mode")
            cb_self = getattr(h.callback, "__self__", None)
            if isinstance(owner, Mode) and owner.name in idle:
                leaks.append("handler %s -> %s (mode %s)" % (ev, getattr(h.callback, "__qualname__", "?"), owner.name))
            elif cb_self is not None and id(cb_self) in objs and not isinstance(cb_self, Mode):
                leaks.append("handler %s -> %s (device of %s)" % (ev, getattr(h.callback, "__qualname__", "?"), objs[id(cb_self)]))
    for sw, lists in machine.switch_controller.registered_switches.items():
        for lst in lists:
            for ent in lst:
                cb_self = getattr(ent.callback, "__self__", None)
                if cb_self is not None and id(cb_self) in objs:
                    leaks.append("switch handler %s -> %s (%s)" % (sw.name, getattr(ent.callback, "__qualname__", "?"), objs[id(cb_self)]))
    for d in delay_dump(machine, idle, devices):
        leaks.append("delay " + d[2:])
    # counting "held for ms" entries of the switch controller (callbacks looked at through partials)
    for sw, buckets in machine.switch_controller._active_timed_switches.items():
        for t, lst in buckets.items():
            for ent in lst:
                cands = [ent.callback] + list(getattr(ent.callback, "args", ()) or ())
                for c in cands:
                    obj, meth = _cb_target(getattr(c, "callback", c))
                    if obj is not None and id(obj) in objs:
                        leaks.append("counting timed switch handler %s -> %s (%s)" % (sw.name, meth, objs[id(obj)]))
                        break
    qrp = getattr(machine, "queue_relay_player", None)
    for ev, hl in machine.events.registered_handlers.items():
        for h in hl:
            if qrp is not None and getattr(h.callback, "__self__", None) is qrp and h.kwargs.get("context") in idle:
                leaks.append("queue relay wait handler %s (context %s)" % (ev, h.kwargs.get("context")))
    for mn in idle:
        if qrp is not None and qrp.instances.get(mn, {}).get("queue_relay_player"):
            leaks.append("queue relay instance state of %s" % mn)
    return sorted(leaks)


def run_life(case):
    from rig import Rig
    _install()
    names = ["attract"] + list(case["modes"].keys())
    devices = {mn: {"counters": list(mc.get("counters", {})), "timers": list(mc.get("timers", {}))}
               for mn, mc in case["modes"].items()}
    config = {"modes": list(case["modes"].keys()),
              "switches": {"s_start": {"number": "1", "tags": "start"}}}
    rig = Rig(config, modes=case["modes"])
    out = {"steps": [], "prefix": [], "handler_trace": [], "quiescent": [], "error": None}
    try:
        rig.start()
    except BaseException as e:      # a generated configuration MPF refuses is not a lifecycle case
        return {"boot_error": "%s: %s" % (type(e).__name__, str(e)[:200])}
    try:
        machine = rig.machine
        held = []
        held_ev = {}
        trace = out["handler_trace"]
        requests = []
        adds = []
        live = []
        out["stop_event_ignored"] = []

        def settle():
            for _ in range(400):
                rig.advance(0)
                if not rig.loop._ready:
                    return
            raise RuntimeError("no quiescence")

        settle()
        # rig handlers first: they are part of the 'rest' of the registries
        for ev, prio in case["traced"]:
            def th(_ev=ev, **kwargs):
                mm = LIFE_RE.match(_ev)
                trace.append([NAMES.index(mm.group(1)), PHASES.index(mm.group(2))])
            machine.events.add_handler(ev, th, priority=prio)
        for r in case["reactions"]:
            r = dict(r, left=r["budget"])
            live.append(r)

            def rh(_r=r, **kwargs):
                if _r["left"] <= 0:
                    return
                _r["left"] -= 1
                mode = machine.modes[_r["target"]]
                act = _r["action"]
                if act.startswith("add_"):
                    # code of a mode runs only while the mode is not idle (domain of the model's Add operation)
                    if not (mode._active or mode._starting or getattr(mode, "_cleanup_pending", False)):
                        _r["left"] += 1
                        return
                    adds.append([_r["event"], act, _r["target"]])
                    if act == "add_delay":
                        mode.delay.add(ms=_r["ms"], callback=mode.mode_init)
                    elif act == "add_switch":
                        mode.switch_handlers.append(machine.switch_controller.add_switch_handler_obj(
                            machine.switches["s_start"], mode.mode_init, 1))
                    else:
                        mode.add_mode_event_handler("rig_ev_" + _r["target"], mode.mode_stop)
                    return
                requests.append([_r["event"], act, _r["target"]])
                if act == "start":
                    mode.start()
                elif act == "stop":
                    mode.stop()
                else:
                    mode.stop(callback=mode.start)
            machine.events.add_handler(r["event"], rh, priority=r["prio"])
        for b in case["blockers"]:
            def bh(queue, _b=b, **kwargs):
                if not queue.waiter:        # a queue somebody else already holds cannot be held twice
                    queue.wait()
                    held.append(queue)
                    held_ev[id(queue)] = _b["event"]
            machine.events.add_handler(b["event"], bh, priority=b["prio"])
        settle()
        out["base_phases"] = None
        base_dump = canonical_dump(machine)
        base_delays = delay_dump(machine, names, devices)
        rec = Recorder(machine, names, devices)
        out["base_phases"] = [rec.phase(machine.modes[n]) for n in names]
        out["base_prio"] = [machine.modes[n].priority for n in names]
        out["prefix"] = rec.prefix
        out["steps"] = rec.steps
        _REC[0] = rec

        def stop_events_of(n):
            return ["game_start", "service_mode_entered"] if n == "attract" else case["modes"][n]["mode"]["stop_events"]

        def accepted_stops(n):
            i = rec.ids[n]
            return sum(1 for st in rec.steps if st[0] == "Stop" and st[1] == i and st[3] == 1)

        def post_checked(ev):
            """oracle data: a mode that is up and not stopping must react to its stop event"""
            up = {n: accepted_stops(n) for n in names if rec.phase(machine.modes[n]) == 2 and ev in stop_events_of(n)}
            machine.events.post(ev)
            settle()
            for n, cnt in up.items():
                if accepted_stops(n) == cnt:
                    out["stop_event_ignored"].append([n, ev, len(rec.steps)])

        def quiet(tag):
            rec.quiescent(tag)
            leaks = idle_leaks(machine, names, devices)
            phases = [rec.phase(machine.modes[n]) for n in names]
            # liveness at EVERY quiescent point: a mode is inside a transition only while one of the rig's handlers
            # still holds the queue of exactly that transition
            holding = set(held_ev[id(q)] for q in held)
            unheld = [i for i, n in enumerate(names)
                      if (phases[i] == 1 and "mode_%s_starting" % n not in holding) or
                      (phases[i] == 3 and "mode_%s_stopping" % n not in holding) or phases[i] in (4, 9)]
            out["quiescent"].append([tag, len(rec.steps), phases, leaks, unheld])

        def do(op):
            k = op[0]
            if k == "post":
                post_checked(op[1])
            elif k == "stopcb":
                machine.modes[op[1]].stop(callback=machine.modes[op[2]].start)
            elif k == "postq":
                machine.events.post_queue(op[1], callback=lambda **kwargs: None)
            elif k == "start":
                if op[2] is None:
                    machine.modes[op[1]].start()
                else:
                    machine.modes[op[1]].start(mode_priority=op[2])
            elif k == "stop":
                machine.modes[op[1]].stop()
            elif k == "adv":
                rig.advance(op[1] / 8.0)
            elif k == "release":
                if held:
                    held.pop(0).clear()
            settle()

        n_done = 0
        for op in case["script"]:
            do(op)
            n_done += 1
            quiet(n_done)
        # wind down: release everything, let every delay expire, stop every generated mode, attract back up
        for _ in range(6):
            while held:
                held.pop(0).clear()
                settle()
            rig.advance(3.0)
            settle()
        quiet("released")
        out["final_phases_before_stop"] = [rec.phase(machine.modes[n]) for n in names]
        for r in case["reactions"]:
            pass
        out["shared_queue_start"] = sorted(i for i, v in rec.shared_queue_start.items() if v)
        # back to the configuration the machine was in when recording started
        def restore():
            moved = False
            for n, bp in zip(names, out["base_phases"]):
                mode = machine.modes[n]
                if bp == 0 and (mode._active or mode._starting):
                    if rec.phase(mode) == 2 and n != "attract":
                        post_checked("e_" + n)          # by its own stop event first
                    mode.stop()
                    moved = True
                elif bp == 2 and not (mode._active or mode._starting):
                    mode.start()
                    moved = True
                settle()
            return moved
        # modes that are up in the base configuration and got extra registrations from the rig's handlers go
        # through one more stop/start cycle (their clean-up has to remove those too)
        for r in live:
            if r["action"].startswith("add_"):
                r["left"] = 0           # no further rig registrations while winding down
        for n, bp in zip(names, out["base_phases"]):
            if bp == 2 and any(a[2] == n for a in adds) and machine.modes[n]._active:
                machine.modes[n].stop()
                settle()
        restore()
        for _ in range(4):
            while held:
                held.pop(0).clear()
                settle()
            rig.advance(3.0)
            settle()
        # generated modes chained to lifecycle events may have come up again: stop until stable (bounded)
        for _ in range(6):
            if not restore():
                break
            while held:
                held.pop(0).clear()
                settle()
            rig.advance(3.0)
            settle()
        # relays of modes that are up in the base configuration are finished (their wait handlers belong to a running mode)
        for n, mc in case["modes"].items():
            if "queue_relay_player" in mc:
                machine.events.post("rl_%s_done" % n)
                settle()
        rig.advance(3.0)
        settle()
        quiet("end")
        out["final_phases"] = [rec.phase(machine.modes[n]) for n in names]
        out["final_prio"] = [machine.modes[n].priority for n in names]
        end_dump = canonical_dump(machine)
        end_delays = delay_dump(machine, names, devices)
        at_base = out["final_phases"] == out["base_phases"] and out["final_prio"] == out["base_prio"]
        out["at_base"] = at_base
        if at_base:
            out["dump_diff"] = [["+", x] for x in multiset_diff(end_dump, base_dump)][:10] + \
                               [["-", x] for x in multiset_diff(base_dump, end_dump)][:10] + \
                               [["+", x] for x in multiset_diff(end_delays, base_delays)][:10]
        else:
            out["dump_diff"] = []
        out["final_registry"] = sorted(cls * 64 * 1048576 + own * 1048576 + k for cls, own, k in rec.last)
        out["sorted_bad"] = rec.sorted_bad[:3]
        out["nested"] = rec.nested
        out["outside_posts"] = rec.outside_posts[:5]
        out["requests"] = len(requests)
        out["adds"] = len(adds)
        out["regs_missing"] = rec.regs_missing[:3]
        cyc = {}
        for i, at, regs in rec.start_regs:
            cyc.setdefault(i, []).append(regs)
        out["cycle_regs_differ"] = [[i, multiset_diff(r, rs[0])[:3], multiset_diff(rs[0], r)[:3]]
                                    for i, rs in cyc.items() for r in rs[1:] if r != rs[0]][:3]
        out["held_left"] = len(held)
        out["late_player_posts"] = [p for p in rec.player_posts if not p[1]][:4]
        out["player_posts"] = len(rec.player_posts)
    except BaseException as e:       # what the code raises is data (e.g. a late delay callback on dropped state)
        out["error"] = "%s: %s" % (type(e).__name__, str(e)[:160])
        out["error_tail"] = str(e)[-120:]
        try:
            out["final_registry"] = None
        except Exception:
            pass
    finally:
        _REC[0] = None
        rig.stop()
    return out


def multiset_diff(a, b):
    b = list(b)
    res = []
    for x in a:
        if x in b:
            b.remove(x)
        else:
            res.append(x)
    return res


# ------------------------------------------------------------------------------------------------
# model side
def coq_op(s):
    k, i, arg = s[0], s[1], s[2]
    if k == "Start":
        return "Start %s %s" % (zlit(i), zlit(arg))
    if k in ("Add", "Del"):
        return "%s %s %s %s" % (k, zlit(arg[0]), zlit(i), zlit(arg[1]))
    return "%s %s" % (k, zlit(i))


def coq_life(case, out):
    if "boot_error" in out:
        return None
    if out.get("error") or out.get("nested") or out.get("final_registry") is None:
        return None                 # reported by the oracle; there is no complete observation to replay
    ops = coqlist(coq_op(s) for s in out["steps"])
    pre = coqlist(coq_op(s) for s in out["prefix"])
    obs = coqlist("mkO %s %s %s %s %s" % (zlit(s[3]), zlist(s[4]), zlist(s[5]), zlit(s[6]), zlist(s[7]))
                  for s in out["steps"])
    return "((%s, %s), (%s, %s))" % (pre, ops, obs, zlist(out["final_registry"]))


def oracle_life(case, out):
    fails = []
    if "boot_error" in out:
        return fails
    if out.get("error"):
        # exactly the recorded defect (fixes/C07-lifecycle-events-no-queue-forward.patch): use_wait_queue mode X is started
        # by the will_start/started event of use_wait_queue mode Y, which forwards the queue Y has already locked
        sig = "exception"
        mx = re.search(r"bound method Mode\.start of <Mode\.(\w+)>", out["error"])
        my = re.search(r"for event mode_(\w+)_(started|will_start)\. Double lock$", out.get("error_tail") or "")
        if mx and my and mx.group(1) in case["modes"] and my.group(1) in case["modes"]:
            cx, cy = case["modes"][mx.group(1)]["mode"], case["modes"][my.group(1)]["mode"]
            if cx.get("use_wait_queue") and cy.get("use_wait_queue") and \
                    "mode_%s_%s" % (my.group(1), my.group(2)) in cx["start_events"]:
                sig = "waitq-queue-forwarded-in-lifecycle-event"
        fails.append({"sig": sig, "what": "the machine raised during the history: " + out["error"] +
                      " ... " + (out.get("error_tail") or "")[-60:]})
        return fails
    if out.get("nested"):
        fails.append({"sig": "nested-lifecycle-call", "what": "lifecycle methods of recorded modes nested"})
    names = ["attract"] + list(case["modes"].keys())
    # 1. per mode, posted lifecycle events follow the cycle; so do the events as seen by handlers
    posted = {}
    for s in out["steps"]:
        for e in s[4]:
            posted.setdefault(e // 8, []).append(e % 8)
    # modes that are up when recording starts are at cycle position 3
    start_pos = {i: 3 for i, p in enumerate(out.get("base_phases") or []) if p == 2}
    stuck_known = set(out.get("shared_queue_start") or [])
    for i, seq in posted.items():
        pos = start_pos.get(i, 0)
        for e in seq:
            if e != pos:
                fails.append({"sig": "order-posted", "what": "mode %s posted %s where %s was due (sequence %s)" %
                              (NAMES[i], PHASES[e], PHASES[pos], [PHASES[x] for x in seq])})
                break
            pos = (pos + 1) % 6
        else:
            if pos not in (0, 3):
                known = pos == 2 and i in stuck_known
                fails.append({"sig": "waitq-shared-queue-start-stuck" if known else "incomplete-transition",
                              "what": "mode %s ends inside a transition after %s" % (NAMES[i], PHASES[(pos - 1) % 6])})
    seen = {}
    for i, e in out["handler_trace"]:
        seen.setdefault(i, []).append(e)
    traced = {}
    for ev, _ in case["traced"]:
        mm = LIFE_RE.match(ev)
        traced.setdefault(NAMES.index(mm.group(1)), set()).add(PHASES.index(mm.group(2)))
    for i, seq in seen.items():
        want = [e for e in posted.get(i, []) if e in traced.get(i, ())]
        if i in stuck_known and want[:len(seq)] == seq:
            continue
        # delivery is depth-first (C01): events posted from a handler overtake events already queued, so handlers
        # may see will_stop before started.  The property orders the posts; delivery must be exactly-once.
        if sorted(seq) != sorted(want):
            fails.append({"sig": "delivered-not-once", "what": "mode %s: handlers saw %s but %s was posted" %
                          (NAMES[i], [PHASES[x] for x in seq], [PHASES[x] for x in want])})
    if out.get("outside_posts"):
        fails.append({"sig": "order-posted", "what": "lifecycle event posted outside a lifecycle step: %s" % out["outside_posts"]})
    # 2. active list
    if out.get("sorted_bad"):
        fails.append({"sig": "active-list", "what": "active_modes %s but the active modes by (priority, name) are %s (step %s)" %
                      (out["sorted_bad"][0][1], out["sorted_bad"][0][2], out["sorted_bad"][0][0])})
    # 3. nothing left behind
    for tag, nsteps, phases, leaks, unheld in out["quiescent"]:
        if leaks:
            fails.append({"sig": "left-behind", "what": "after script step %s an idle mode still owns: %s" % (tag, leaks[:4])})
            break
    for tag, nsteps, phases, leaks, unheld in out["quiescent"]:
        bad = [i for i in unheld if not (phases[i] == 1 and NAMES.index(names[i]) in stuck_known)]
        if bad:
            fails.append({"sig": "transition-stuck", "what": "after script step %s mode(s) %s are inside a transition (phases %s) "
                          "although no handler holds the queue of that transition" % (tag, [names[i] for i in bad], phases)})
            break
    # the mode_start() hook is part of the start sequence: exactly once per accepted _started (finding 7, repaired by
    # fixes/C07-stale-started-callback.patch).  Direct predicate on the observed executions of _started / _stopped /
    # _mode_started_callback and of the hook itself (wrapper around Mode.mode_start / Attract.mode_start):
    #  * a hook run is legitimate only when a _started of that mode ran since the mode's last hook run and last _stopped
    #    (otherwise: second run for one start - the callback of an EARLIER start's mode_<m>_started delivered after a stop +
    #    restart - or a run on a mode that has stopped);
    #  * a mode that is up when everything has settled has had the hook of its current start.
    due = {}
    for idx, st in enumerate(out["steps"]):
        k, i = st[0], st[1]
        if k == "QStarted":
            due[i] = True
        elif k == "QStopped":
            due[i] = False
        elif k == "CbStarted" and st[3] == 1:
            if not due.get(i, False):
                fails.append({"sig": "start-hook-repeated",
                              "what": "mode %s: mode_start() ran (step %d) although no _started of the mode has run since its "
                                      "previous mode_start() / its last _stopped: the hook runs more than once for one start, "
                                      "or on a stopped mode" % (NAMES[i], idx)})
                break
            due[i] = False
    else:
        up = set(NAMES.index(n) for n, p in zip(names, out.get("final_phases") or []) if p == 2)
        missing = [i for i, d in sorted(due.items()) if d and i in up]
        if missing:
            fails.append({"sig": "start-hook-missing", "what": "mode(s) %s are up after everything settled but mode_start() of "
                          "their latest start never ran" % [NAMES[i] for i in missing]})
    if out.get("at_base") and out.get("dump_diff"):
        fails.append({"sig": "registry-not-restored", "what": "registries differ from the pre-start dump: %s" % out["dump_diff"][:6]})
    if out.get("late_player_posts"):
        fails.append({"sig": "played-after-stop", "what": "a config player of a mode that is not active played: %s" % out["late_player_posts"][:3]})
    if out.get("regs_missing"):
        tag, i, missing = out["regs_missing"][0]
        fails.append({"sig": "registrations-lost", "what": "mode %s is up but no longer has what its start registered: %s (script step %s)" %
                      (NAMES[i], missing, tag)})
    if out.get("cycle_regs_differ"):
        i, extra, lacking = out["cycle_regs_differ"][0]
        fails.append({"sig": "cycle-differs", "what": "a later start of mode %s registered something else than its first start: +%s -%s" %
                      (NAMES[i], extra, lacking)})
    if out.get("stop_event_ignored"):
        n, ev, at = out["stop_event_ignored"][0]
        fails.append({"sig": "stop-event-ignored", "what": "mode %s was up (not stopping) and did not react to its stop event %s (step %s)" % (n, ev, at)})
    # 4. every accepted start / stop completed once the blockers were released
    for key in ("final_phases_before_stop", "final_phases"):
        ph = out.get(key) or []
        bad = [i for i, p in enumerate(ph) if p not in (0, 2)]
        if bad:
            # exactly the recorded defect: a use_wait_queue mode whose start re-posted the caller's locked queue
            known = all(ph[i] == 1 and i in stuck_known for i in bad)
            fails.append({"sig": "waitq-shared-queue-start-stuck" if known else "transition-stuck",
                          "what": "after all queues were released and 18 s passed the modes are in phases %s (%s)" % (ph, key)})
            break
    return fails


def shrink_life(case):
    sc = case["script"]
    for i in range(len(sc)):
        yield dict(case, script=sc[:i] + sc[i + 1:])
    for key in ("reactions", "blockers"):
        for i in range(len(case[key])):
            yield dict(case, **{key: case[key][:i] + case[key][i + 1:]})
    for mn, mc in case["modes"].items():
        for sec in ("counters", "timers", "event_player", "variable_player", "queue_relay_player"):
            if sec in mc:
                yield dict(case, modes=dict(case["modes"], **{mn: {k: v for k, v in mc.items() if k != sec}}))
    if case["traced"]:
        yield dict(case, traced=[])


def nontrivial_life(case, out):
    if "boot_error" in out or out.get("error"):
        return False
    starts = {}
    for s in out["steps"]:
        if s[0] == "QStopped":
            starts[s[1]] = starts.get(s[1], 0) + 1
    return out.get("requests", 0) > 0 or out.get("adds", 0) > 0 or any(v >= 2 for v in starts.values())


def describe_life(case):
    return "modes=%d script=%s react=%d block=%d" % (len(case["modes"]), "<=8" if len(case["script"]) <= 8 else
                                                     "<=18" if len(case["script"]) <= 18 else ">18",
                                                     len(case["reactions"]), len(case["blockers"]))



# ================================================================================================
# suite "dev": the mode-device layer (coq/C07/Devices.v) on a machine with a running game
GMODES = ["ga", "gb"]
ACTIONS = {"disable": 0, "enable": 1, "restart": 2, "reset": 3}
ACT_PREFIX = {"disable": "di", "enable": "en", "restart": "rt", "reset": "rs"}
DEV_SWITCHES = ["s_sh0", "s_sh1", "s_sh2"]


def gen_dev_mode(rng, name):
    cfg = {"priority": rng.choice([5, 10, 20, 100, 100, 200]), "start_events": ["s_" + name],
           "stop_events": ["e_" + name]}
    if rng.random() < 0.4:
        cfg["restart_on_next_ball"] = True
    if rng.random() < 0.25:
        cfg["start_events"].append("ball_started")
    mode = {"mode": cfg, "shots": {}}
    for k in range(rng.choice([1, 2, 2, 3])):
        sn = "sh_%s%d" % (name, k)
        sh = {"switches": ", ".join(rng.sample(DEV_SWITCHES, rng.choice([1, 1, 2])))}
        r = rng.random()
        if r < 0.4:
            sh["start_enabled"] = True
        elif r < 0.6:
            sh["start_enabled"] = False
        if rng.random() < 0.3:
            sh["persist_enable"] = False
        for act, p in (("enable", 0.8), ("disable", 0.7), ("restart", 0.3), ("reset", 0.3)):
            if rng.random() < p:
                ev = "%s_%s" % (ACT_PREFIX[act], sn)
                if rng.random() < 0.45:
                    sh[act + "_events"] = {ev: rng.choice(["1s", "2s", "500ms"])}
                else:
                    sh[act + "_events"] = ev
        mode["shots"][sn] = sh
    if rng.random() < 0.5:
        cn = "c_" + name
        c = {"count_events": "hit_" + cn, "count_complete_value": 3, "reset_on_complete": True}
        if rng.random() < 0.7:
            c["logic_block_timeout"] = rng.choice(["2s", "1s"])
        if rng.random() < 0.7:
            c["enable_events"] = {"en_" + cn: rng.choice(["1s", "500ms"])}
        if rng.random() < 0.5:
            c["disable_events"] = {"di_" + cn: "1s"}
        mode["counters"] = {cn: c}
    if rng.random() < 0.4:
        tn = "t_" + name
        mode["timers"] = {tn: {"start_value": 0, "end_value": 5, "tick_interval": "1s", "start_running": rng.random() < 0.6,
                               "control_events": [{"event": "tp_" + tn, "action": "pause", "value": 2},
                                                  {"event": "ts_" + tn, "action": "start"}]}}
    if rng.random() < 0.4:
        mode["event_player"] = {"ep_" + name: "out_" + name}
    return mode


def dev_ctl_events(modes):
    """[(mode, shot, action name, event)] of every shot control event; other device events"""
    ctl, other = [], []
    for mn, mc in modes.items():
        for sn, sh in mc["shots"].items():
            for act in ACTIONS:
                evs = sh.get(act + "_events")
                if evs:
                    ctl.append([mn, sn, act, list(evs)[0] if isinstance(evs, dict) else evs])
        for cn, c in mc.get("counters", {}).items():
            other += ["hit_" + cn] + [list(c[k])[0] for k in ("enable_events", "disable_events") if k in c]
        for tn in mc.get("timers", {}):
            other += ["tp_" + tn, "ts_" + tn]
    return ctl, other


def gen_dev(rng, tier, i):
    names = GMODES[:rng.choice([1, 2, 2])]
    modes = {n: gen_dev_mode(rng, n) for n in names}
    ctl, other = dev_ctl_events(modes)
    blockers = []
    for _ in range(rng.choice([0, 0, 1, 1, 2])):
        blockers.append({"event": "mode_%s_%s" % (rng.choice(names), rng.choice(["stopping", "stopping", "starting"])),
                         "prio": rng.choice([1, 1000])})
    script = []
    balls = 0
    n = rng.choice([6, 10, 16, 24, 32])
    while len(script) < n:
        r = rng.random()
        m = rng.choice(names)
        if r < 0.14:
            script.append(["post", "s_" + m])
        elif r < 0.24:
            script.append(["post", "e_" + m])
        elif r < 0.30:
            script.append(["start", m, rng.choice([None, None, 5, 20, 150])])
        elif r < 0.35:
            script.append(["stop", m])
        elif r < 0.62 and ctl:
            c = rng.choice(ctl)
            script.append(["ctl", c[0], c[1], c[2]])
            q = rng.random()
            if q < 0.3:
                script.append(["ctl", c[0], c[1], c[2]])            # the same request again (redundant)
            elif q < 0.55:
                # a request shortly before the stop of its mode (pending delayed control events)
                script.append(["adv", rng.choice([1, 2, 4])])
                script.append(rng.choice([["post", "e_" + c[0]], ["stop", c[0]]]))
        elif r < 0.72:
            script.append(["hit", rng.choice(DEV_SWITCHES)])
        elif r < 0.78 and other:
            script.append(["post", rng.choice(other)])
        elif r < 0.91:
            script.append(["adv", rng.choice([1, 2, 4, 4, 8, 8, 12, 17, 24])])
        elif r < 0.95:
            script.append(["release"])
        elif balls < 2:
            balls += 1
            script.append(["ball_end"])
    return {"modes": modes, "blockers": blockers, "script": script}


_DEVREC = [None]


def _install_dev():
    from mpf.core.delays import DelayManager
    _install()
    if getattr(DelayManager, "_c07_patched", False):
        return
    DelayManager._c07_patched = True
    orig = DelayManager._process_delay_callback

    @functools.wraps(orig)
    def _process_delay_callback(self, name, callback, **kwargs):
        rec = _DEVREC[0]
        tok = rec.fire_enter(self, callback) if rec is not None and rec.machine is self.machine else None
        try:
            return orig(self, name, callback, **kwargs)
        finally:
            if tok is not None:
                rec.fire_leave(tok)
    DelayManager._process_delay_callback = _process_delay_callback

    from mpf.core.mode_controller import ModeController
    orig_end = ModeController._ball_ending
    orig_start = ModeController._ball_starting

    @functools.wraps(orig_end)
    def _ball_ending(self, queue, **kwargs):
        rec = _DEVREC[0]
        if rec is None or rec.machine is not self.machine:
            return orig_end(self, queue, **kwargs)
        rec.ball_enter(self)
        try:
            return orig_end(self, queue, **kwargs)
        finally:
            rec.ball_leave(self)

    @functools.wraps(orig_start)
    def _ball_starting(self, queue, **kwargs):
        rec = _DEVREC[0]
        if rec is None or rec.machine is not self.machine:
            return orig_start(self, queue, **kwargs)
        rec.in_ball_start = []
        try:
            return orig_start(self, queue, **kwargs)
        finally:
            rec.ball_starts.append(rec.in_ball_start)
            rec.in_ball_start = None
    ModeController._ball_ending = _ball_ending
    ModeController._ball_starting = _ball_starting


def _cb_target(cb):
    """(object, method name) a delay / handler callback is bound to (through functools.partial)"""
    for _ in range(4):
        if hasattr(cb, "__self__") and hasattr(cb, "__name__"):
            return cb.__self__, cb.__name__
        if hasattr(cb, "func"):
            cb = cb.func
        else:
            break
    return None, None


class DevRec:
    """Records, per generated mode, the operations of coq/C07/Devices.v and the state after each of them."""

    def __init__(self, machine, case):
        self.machine = machine
        self.case = case
        self.names = list(case["modes"])
        self.ids = {n: i for i, n in enumerate(self.names)}          # interface of the Mode wrappers of _install()
        self.posted = []
        self.hook_ran = False
        self.shots = {n: list(case["modes"][n]["shots"]) for n in self.names}
        self.owner = {sn: n for n in self.names for sn in self.shots[n]}
        self.nsw = {sn: len(machine.shots[sn].config["switches"]) for sn in self.owner}
        self.ops = {n: [] for n in self.names}       # [opname, d, a]
        self.obs = {n: [] for n in self.names}       # [status, hits, phase, hnd, devs, dly]
        self.depth = 0
        self.stack = []
        self.nested = False
        self.partial_handlers = []
        self.sorted_bad = []
        self.mode_steps = 0
        self.all_ids = {n: i for i, n in enumerate(sorted(machine.modes.keys()))}
        self.ball_log = []              # [cfg per mode id, active ids, stop requests, remembered for restart]
        self.ball_starts = []           # start requests of each _ball_starting
        self.in_ball = None
        self.in_ball_start = None
        self.ball_unobservable = False
        self.ball_leftover = []

    def ball_enter(self, mc):
        cfg = [[bool(self.machine.modes[n].is_game_mode), bool(self.machine.modes[n].auto_stop_on_ball_end),
                bool(self.machine.modes[n].restart_on_next_ball)] for n in sorted(self.machine.modes.keys())]
        for x in mc.active_modes:
            if x.name not in self.ids and x.is_game_mode:
                self.ball_unobservable = True       # stop requests are observed for the generated modes only
        if self.machine.game.player.restart_modes_on_next_ball:
            # _ball_starting empties the list: entries that survive to the next ball end are left-overs
            self.ball_leftover.append([self.all_ids[x.name] for x in self.machine.game.player.restart_modes_on_next_ball])
        self.in_ball = [cfg, [self.all_ids[x.name] for x in mc.active_modes], [], []]

    def ball_leave(self, mc):
        ent, self.in_ball = self.in_ball, None
        ent[3] = [self.all_ids[x.name] for x in (self.machine.game.player.restart_modes_on_next_ball or [])]
        self.ball_log.append(ent)

    # -- observation ---------------------------------------------------------------------------------------------
    def phase(self, mode):
        flags = (bool(mode._active), bool(mode._starting), bool(mode.stopping), bool(getattr(mode, "_cleanup_pending", False)))
        return {(False, False, False, False): 0, (False, True, False, False): 1, (True, False, False, False): 2,
                (True, False, True, False): 3, (False, False, False, True): 4}.get(flags, 9)

    def ctl_events(self, n):
        mc = self.case["modes"][n]
        evs = ["e_" + n]
        for sn, sh in mc["shots"].items():
            for act in ACTIONS:
                e = sh.get(act + "_events")
                if e:
                    evs.append(list(e)[0] if isinstance(e, dict) else e)
        return evs

    def observe(self, n, status, hits=0):
        m = self.machine
        mode = m.modes[n]
        evs = self.ctl_events(n)
        have = 0
        for ev in evs:
            have += sum(1 for h in m.events.registered_handlers.get(ev, []) if h.kwargs.get("mode") is mode)
        if have not in (0, len(evs)):
            self.partial_handlers.append([n, have, len(evs)])
        devs = []
        for sn in self.shots[n]:
            shot = m.shots[sn]
            try:
                en = 1 if shot.enabled else 0
            except Exception:       # pylint: disable=broad-except
                en = 7
            reg = 0
            for ev, hl in m.events.registered_handlers.items():
                for h in hl:
                    if getattr(h.callback, "__self__", None) is shot and getattr(h.callback, "__name__", "") == "event_hit":
                        reg += 1
            k = self.nsw[sn]
            trk = len(shot._handlers)
            devs.append([en, reg // k if reg % k == 0 else 1000 + reg, trk // k if trk % k == 0 else 1000 + trk])
        dly = []
        for name, d in mode.delay.delays.items():
            obj, meth = _cb_target(d[1])
            code = self.dev_code(n, obj, meth)
            if code is not None:
                dly.append(code)
        # delays on any OTHER manager on behalf of this mode's shots: the model has none
        for name, d in m.delay.delays.items():
            obj, meth = _cb_target(d[1])
            code = self.dev_code(n, obj, meth)
            if code is not None:
                dly.append(1000 + code)
        return [status, hits, self.phase(mode), have > 0, devs, sorted(dly)]

    def dev_code(self, n, obj, meth):
        from mpf.devices.shot import Shot
        if isinstance(obj, Shot) and obj.name in self.shots[n] and meth and meth.startswith("event_") and \
                meth[6:] in ACTIONS:
            return self.shots[n].index(obj.name) * 4 + ACTIONS[meth[6:]]
        return None

    def emit(self, n, op, status, hits=0):
        self.ops[n].append(op)
        self.obs[n].append(self.observe(n, status, hits))

    def check_sorted(self):
        mc = self.machine.mode_controller
        want = sorted([x for x in self.machine.modes.values() if x.active], key=lambda x: (x.priority, x.name), reverse=True)
        if [x.name for x in mc.active_modes] != [x.name for x in want]:
            self.sorted_bad.append([self.mode_steps, [x.name for x in mc.active_modes], [(x.name, x.priority) for x in want]])

    # -- Mode method wrappers ----------------------------------------------------------------------------------------
    def enter(self, kind, mode, args, kwargs):
        self.depth += 1
        if kind == "Stop" and self.in_ball is not None:
            self.in_ball[2].append(self.all_ids[mode.name])
        if kind == "Start" and self.in_ball_start is not None:
            self.in_ball_start.append(self.all_ids[mode.name])
        top = self.stack[-1] if self.stack else None
        if self.depth > 1:
            if not (kind == "CbStopped" and top is not None and top["kind"] == "Start" and top["mode"] is mode):
                self.nested = True
            self.stack.append(None)
            return None
        tok = {"kind": kind, "mode": mode, "was_starting": mode._starting,
               "pending": bool(getattr(mode, "_cleanup_pending", False))}
        self.stack.append(tok)
        return tok

    def leave(self, tok, ret):
        self.depth -= 1
        self.stack.pop()
        if tok is None:
            return
        kind, mode = tok["kind"], tok["mode"]
        self.mode_steps += 1
        self.check_sorted()
        if kind == "CbStarted":
            return
        if kind == "Start":
            status = 1 if (mode._starting and not tok["was_starting"]) else 0
        elif kind == "Stop":
            status = 1 if ret else 0
        elif kind == "CbStopped":
            status = 1 if tok["pending"] else 0
        else:
            status = 1
        self.emit(mode.name, ["D" + kind, None, None], status)

    # -- DelayManager wrapper --------------------------------------------------------------------------------------------
    def fire_enter(self, mgr, callback):
        obj, meth = _cb_target(callback)
        sn = getattr(obj, "name", None)
        if sn in self.owner and obj is self.machine.shots[sn]:
            code = self.dev_code(self.owner[sn], obj, meth)
            if code is not None:
                return [self.owner[sn], code]
        return None

    def fire_leave(self, tok):
        n, code = tok
        self.emit(n, ["DFire", code // 4, code % 4], 1)


def dev_attribution(machine, case):
    """independent attribution: object id -> generated mode, for the modes themselves and all their devices"""
    objs = {}
    for n, mc in case["modes"].items():
        objs[id(machine.modes[n])] = n
        for sec, coll in (("shots", "shots"), ("counters", "counters"), ("timers", "timers")):
            for dn in mc.get(sec, {}):
                objs[id(getattr(machine, coll)[dn])] = n
    return objs


def dev_full_dump(machine, case, objs):
    """every registry of the machine: [(owner mode or '', text)].  Event handlers (with priority, callback, kwargs keys),
    switch-controller handlers, pending delays of EVERY DelayManager reachable (machine-wide, every mode, every device
    that has one), timer tick tasks, shows of shots."""
    from mpf.core.mode import Mode
    from mpf.core.delays import DelayManager
    out = []

    def owner_of(cb, kwargs=None):
        m = (kwargs or {}).get("mode")
        if isinstance(m, Mode) and id(m) in objs:
            return objs[id(m)]
        obj, _ = _cb_target(cb)
        if obj is not None and id(obj) in objs:
            return objs[id(obj)]
        inner = (kwargs or {}).get("callback")
        if inner is not None:
            obj, _ = _cb_target(inner)
            if obj is not None and id(obj) in objs:
                return objs[id(obj)]
        return ""

    def qn(cb):
        obj, meth = _cb_target(cb)
        if obj is not None:
            return "%s.%s" % (getattr(obj, "name", type(obj).__name__), meth)
        return getattr(cb, "__qualname__", type(cb).__name__)

    for ev, hl in machine.events.registered_handlers.items():
        for h in hl:
            out.append([owner_of(h.callback, h.kwargs), "E %s %s %s %s" % (ev, h.priority, qn(h.callback), ",".join(sorted(h.kwargs)))])
    for sw, lists in machine.switch_controller.registered_switches.items():
        for st, lst in enumerate(lists):
            for ent in lst:
                out.append([owner_of(ent.callback), "S %s %d %s %s" % (sw.name, st, qn(ent.callback), ent.ms)])
    mgrs = [("machine", "", machine.delay)]
    for mn, mode in machine.modes.items():
        mgrs.append(("mode " + mn, objs.get(id(mode), ""), mode.delay))
    for coll in machine.device_manager.collections.values():
        for dn, dev in coll.items():
            dm = getattr(dev, "delay", None)
            if isinstance(dm, DelayManager):
                mgrs.append(("%s %s" % (coll.name, dn), objs.get(id(dev), ""), dm))
    for label, own, dm in mgrs:
        for name, d in dm.delays.items():
            out.append([own or owner_of(d[1]), "D %s %s" % (label, qn(d[1]))])
    for tn, t in machine.timers.items():
        if t.timer is not None:
            out.append([objs.get(id(t), ""), "T %s tick" % tn])
    for sn, sh in machine.shots.items():
        if sh.running_show is not None:
            out.append([objs.get(id(sh), ""), "R %s show" % sn])
    return out


def run_dev(case):
    from rig import FakeGameRig
    _install_dev()
    names = list(case["modes"])
    config = {"modes": names,
              "switches": dict({"s_start": {"number": "1", "tags": "start"}},
                               **{sw: {"number": str(i + 2)} for i, sw in enumerate(DEV_SWITCHES)})}
    rig = FakeGameRig(config, modes=case["modes"])
    out = {"error": None, "modes": {}, "quiescent": [], "dump_diff": [], "hit_counts": []}
    try:
        rig.start()
    except BaseException as e:
        return {"boot_error": "%s: %s" % (type(e).__name__, str(e)[:200])}
    try:
        machine = rig.machine
        held = []
        hits = {}

        def settle():
            for _ in range(400):
                rig.advance(0)
                if not rig.loop._ready:
                    return
            raise RuntimeError("no quiescence")

        for n in names:
            for sn in case["modes"][n]["shots"]:
                def hh(_sn=sn, **kwargs):
                    hits[_sn] = hits.get(_sn, 0) + 1
                machine.events.add_handler(sn + "_hit", hh, priority=1)
        for b in case["blockers"]:
            def bh(queue, _b=b, **kwargs):
                if not queue.waiter:
                    queue.wait()
                    held.append([_b["event"], queue])
            machine.events.add_handler(b["event"], bh, priority=b["prio"])
        ball_live = [False]

        def on_ball_started(**kwargs):
            ball_live[0] = True

        def on_ball_will_end(**kwargs):
            ball_live[0] = False
        machine.events.add_handler("ball_started", on_ball_started, priority=2)
        machine.events.add_handler("ball_will_end", on_ball_will_end, priority=2)
        rig.start_game()
        settle()
        if machine.game is None or machine.game.player is None:
            return {"boot_error": "no game"}
        machine.game.balls_in_play = 1
        objs = dev_attribution(machine, case)
        rec = DevRec(machine, case)
        # modes that came up with the game (start event ball_started) are stopped first: recording starts idle
        for _ in range(3):
            while held:
                held.pop(0)[1].clear()
                settle()
            for n in names:
                machine.modes[n].stop()
                settle()
        rig.advance(3.0)
        settle()
        out["start_phases"] = [rec.phase(machine.modes[n]) for n in names]
        if any(out["start_phases"]):
            return {"boot_error": "generated modes not idle when recording starts: %s" % out["start_phases"]}
        _REC[0] = rec
        _DEVREC[0] = rec
        seen_sig = {}
        dump0 = dev_full_dump(machine, case, objs)
        permanent = {n: sorted(t for o, t in dump0 if o == n) for n in names}
        out["all_idle_at_start"] = all(p == 0 for p in out["start_phases"])

        def quiet(tag):
            rec.check_sorted()
            phases = {n: rec.phase(machine.modes[n]) for n in names}
            idle = [n for n in names if phases[n] == 0]
            dump = dev_full_dump(machine, case, objs)
            # what an idle mode owns beyond its permanent boot-time registrations (start events, playfield-active marks)
            leaks = []
            for n in idle:
                leaks += multiset_diff(sorted(t for o, t in dump if o == n), permanent[n])
            stuck = [n for n in names if phases[n] in (1, 3) and not any(ev in ("mode_%s_starting" % n, "mode_%s_stopping" % n)
                                                                          for ev, q in held)] + \
                    [n for n in names if phases[n] in (4, 9)]
            out["quiescent"].append([tag, [phases[n] for n in names], leaks[:6], stuck])
            g = machine.game
            if g is not None and ball_live[0] and g.balls_in_play == 0:
                g.balls_in_play = 1             # the fake game has no ball devices: the next ball is "in play" at once
            sig = json_key([g is not None, g.player.ball if g and g.player else -1, g.balls_in_play if g else -1, ball_live[0],
                            [rec.phase(machine.modes[x]) for x in ("game", "attract")],
                            [len(g.player_list) if g else 0]])
            rest = sorted(t for o, t in dump if o == "")
            if sig in seen_sig:
                t0, base = seen_sig[sig]
                if rest != base and len(out["dump_diff"]) < 3:
                    out["dump_diff"].append([t0, tag, multiset_diff(rest, base)[:5], multiset_diff(base, rest)[:5]])
            else:
                seen_sig[sig] = (tag, rest)

        quiet(0)
        shot_of_switch = {}
        for n in names:
            for sn in case["modes"][n]["shots"]:
                for sw in machine.shots[sn].config["switches"]:
                    shot_of_switch.setdefault(sw.name, []).append(sn)
        balls = 0
        step = 0
        for op in case["script"]:
            step += 1
            k = op[0]
            if k == "post":
                machine.events.post(op[1])
            elif k == "start":
                if op[2] is None:
                    machine.modes[op[1]].start()
                else:
                    machine.modes[op[1]].start(mode_priority=op[2])
            elif k == "stop":
                machine.modes[op[1]].stop()
            elif k == "adv":
                rig.advance(op[1] / 8.0)
            elif k == "release":
                if held:
                    held.pop(0)[1].clear()
            elif k == "ctl":
                n, sn, act = op[1], op[2], op[3]
                sh = case["modes"][n]["shots"][sn]
                e = sh[act + "_events"]
                ev = list(e)[0] if isinstance(e, dict) else e
                listened = 1 if any(h.kwargs.get("mode") is machine.modes[n]
                                    for h in machine.events.registered_handlers.get(ev, [])) else 0
                before = len(rec.ops[n])
                machine.events.post(ev)
                settle()
                if len(rec.ops[n]) != before:
                    rec.nested = True           # nothing else may happen inside a control event
                rec.emit(n, ["DCtl", rec.shots[n].index(sn), ACTIONS[act]], listened)
            elif k == "hit":
                hits.clear()
                marks = {n: len(rec.ops[n]) for n in names}
                rig.hit_and_release_switch(op[1])
                settle()
                for sn in shot_of_switch.get(op[1], []):
                    n = rec.owner[sn]
                    if len(rec.ops[n]) != marks[n]:
                        rec.nested = True
                    rec.emit(n, ["DHit", rec.shots[n].index(sn), None], 1, hits.get(sn, 0))
                    marks[n] = len(rec.ops[n])
                    out["hit_counts"].append([sn, hits.get(sn, 0)])
            elif k == "ball_end":
                if machine.game is not None and ball_live[0] and machine.game.balls_in_play > 0 and \
                        machine.game.player.ball < 3:
                    before_ph = {n: rec.phase(machine.modes[n]) for n in names}
                    ball_no = machine.game.player.ball
                    machine.playfield.balls = 0             # as MpfFakeGameTestCase.drain_one_ball does
                    machine.playfield.available_balls = 0
                    machine.game.balls_in_play = 0          # the last ball drained: the game ends the ball
                    settle()
                    rig.advance(1.0)
                    settle()
                    balls += 1
                    if machine.game is not None and machine.game.player.ball == ball_no + 1 and ball_live[0] and not held:
                        for n in names:
                            mcfg = case["modes"][n]["mode"]
                            if before_ph[n] in (0, 2):
                                up = (before_ph[n] == 2 and mcfg.get("restart_on_next_ball", False)) or \
                                    "ball_started" in mcfg["start_events"]
                                out.setdefault("ball_checks", []).append([n, rec.phase(machine.modes[n]), 2 if up else 0,
                                                                          before_ph[n]])
            settle()
            quiet(step)
        # wind down: release every queue, stop the generated modes, let every delay run out
        for _ in range(3):
            while held:
                held.pop(0)[1].clear()
                settle()
            for n in names:
                machine.modes[n].stop()
                settle()
            rig.advance(3.0)
            settle()
        quiet("end")
        out["final_phases"] = [rec.phase(machine.modes[n]) for n in names]
        out["balls"] = balls
        out["nested"] = rec.nested
        out["partial_handlers"] = rec.partial_handlers[:3]
        out["ball_log"] = [] if rec.ball_unobservable else rec.ball_log
        out["ball_starts"] = rec.ball_starts
        out["ball_leftover"] = rec.ball_leftover[:2]
        out["sorted_bad"] = rec.sorted_bad[:3]
        for n in names:
            mc = case["modes"][n]
            cfg = []
            for sn in rec.shots[n]:
                sh = mc["shots"][sn]
                se = sh.get("start_enabled")
                cfg.append([sh.get("persist_enable", True), 2 if se is None else (1 if se else 0), bool(sh.get("enable_events")),
                            sorted(ACTIONS[a] for a in ACTIONS if isinstance(sh.get(a + "_events"), dict))])
            out["modes"][n] = {"cfg": cfg, "ops": rec.ops[n], "obs": rec.obs[n]}
    except BaseException as e:
        out["error"] = "%s: %s" % (type(e).__name__, str(e)[:200])
    finally:
        _REC[0] = None
        _DEVREC[0] = None
        rig.stop()
    if out["error"] is None and rig.exception() is not None:
        out["error"] = "loop exception: %s" % (str(rig.exception())[:200])
    return out


def json_key(x):
    import json
    return json.dumps(x, sort_keys=True)


def coq_dop(o):
    k = o[0]
    if k in ("DCtl", "DFire"):
        return "%s %s %s" % (k, zlit(o[1]), zlit(o[2]))
    if k == "DHit":
        return "DHit %s" % zlit(o[1])
    return k


def coq_dev(case, out):
    if "boot_error" in out or out.get("error") or out.get("nested"):
        return None
    ins, outs = [], []
    for n in case["modes"]:
        m = out["modes"][n]
        cfg = coqlist("(%s, %s, %s, %s)" % ("true" if c[0] else "false", zlit(c[1]), "true" if c[2] else "false", zlist(c[3]))
                      for c in m["cfg"])
        ins.append("(%s, %s)" % (cfg, coqlist(coq_dop(o) for o in m["ops"])))
        outs.append(coqlist("mkDO %s %s %s %s %s %s" % (zlit(o[0]), zlit(o[1]), zlit(o[2]), "true" if o[3] else "false",
                                                      coqlist(zlist(d) for d in o[4]), zlist(o[5])) for o in m["obs"]))
    bins = coqlist("(%s, %s)" % (coqlist("(%s, %s, %s)" % tuple("true" if b else "false" for b in c) for c in e[0]), zlist(e[1]))
                   for e in out.get("ball_log", []))
    bouts = coqlist("(%s, %s)" % (zlist(e[2]), zlist(e[3])) for e in out.get("ball_log", []))
    return "(((%s, %s) : devb_in), ((%s, %s) : devb_out))" % (coqlist(ins), bins, coqlist(outs), bouts)


def oracle_dev(case, out):
    fails = []
    if "boot_error" in out:
        return fails
    if out.get("error"):
        fails.append({"sig": "exception", "what": "the machine raised during the history: " + out["error"]})
        return fails
    if out.get("nested"):
        fails.append({"sig": "nested-lifecycle-call", "what": "lifecycle steps nested / ran inside a device control event"})
    for tag, phases, leaks, stuck in out["quiescent"]:
        if leaks:
            fails.append({"sig": "left-behind", "what": "after script step %s an idle mode (or a device of it) still owns: %s" % (tag, leaks[:4])})
            break
    for tag, phases, leaks, stuck in out["quiescent"]:
        if stuck:
            fails.append({"sig": "transition-stuck", "what": "after script step %s mode(s) %s are inside a transition (phases %s) "
                          "although no handler holds their queue" % (tag, stuck, phases)})
            break
    if out.get("dump_diff"):
        t0, t1, plus, minus = out["dump_diff"][0]
        fails.append({"sig": "registry-not-restored", "what": "registries (without what running generated modes own) at step %s "
                      "differ from step %s, same game state: +%s -%s" % (t1, t0, plus, minus)})
    for sn, cnt in out.get("hit_counts", []):
        if cnt > 1:
            fails.append({"sig": "double-registration", "what": "one switch activation hit shot %s %d times" % (sn, cnt)})
            break
    if out.get("partial_handlers"):
        fails.append({"sig": "registrations-lost", "what": "only part of a mode's stop/control-event handlers are registered: %s" % out["partial_handlers"][:2]})
    if out.get("sorted_bad"):
        fails.append({"sig": "active-list", "what": "active_modes %s but the active modes by (priority, name) are %s (step %s)" %
                      (out["sorted_bad"][0][1], out["sorted_bad"][0][2], out["sorted_bad"][0][0])})
    bad = [p for p in out.get("final_phases", []) if p != 0]
    if bad:
        fails.append({"sig": "transition-stuck", "what": "generated modes do not stop: final phases %s" % out["final_phases"]})
    # ModeController at the end / start of a ball (independent of the model): every active game mode is asked to stop,
    # exactly the active restart_on_next_ball game modes are remembered, and exactly those are started at the next ball
    for k, (cfg, act, stops, remembered) in enumerate(out.get("ball_log", [])):
        want_stop = [m for m in act if cfg[m][0] and cfg[m][1]]
        want_mem = [m for m in act if cfg[m][0] and cfg[m][2]]
        if stops != want_stop or remembered != want_mem:
            fails.append({"sig": "ball-end-modes", "what": "ball end %d with active modes %s: stop requests %s (expected %s), "
                          "remembered for the next ball %s (expected %s)" % (k, act, stops, want_stop, remembered, want_mem)})
            break
        if k < len(out.get("ball_starts", [])) and out["ball_starts"][k] != remembered:
            fails.append({"sig": "ball-end-modes", "what": "ball start %d started %s but %s were remembered" %
                          (k, out["ball_starts"][k], remembered)})
            break
    if out.get("ball_leftover"):
        fails.append({"sig": "ball-end-modes", "what": "restart_modes_on_next_ball still holds %s when the next ball ends "
                      "(the list is emptied at every ball start)" % out["ball_leftover"][0]})
    for b in out.get("ball_checks", []):
        if b[1] != b[2]:
            fails.append({"sig": "ball-end-modes", "what": "after the end of a ball mode %s is in phase %s, expected %s "
                          "(was %s; restart_on_next_ball / start event ball_started)" % (b[0], b[1], b[2], b[3])})
            break
    return fails


def shrink_dev(case):
    sc = case["script"]
    for i in range(len(sc)):
        yield dict(case, script=sc[:i] + sc[i + 1:])
    for i in range(len(case["blockers"])):
        yield dict(case, blockers=case["blockers"][:i] + case["blockers"][i + 1:])
    for mn, mc in case["modes"].items():
        for sec in ("counters", "timers", "event_player"):
            if sec in mc:
                yield dict(case, modes=dict(case["modes"], **{mn: {k: v for k, v in mc.items() if k != sec}}))


def nontrivial_dev(case, out):
    if "boot_error" in out or out.get("error"):
        return False
    n_cb = sum(1 for m in out["modes"].values() for o in m["ops"] if o[0] == "DCbStopped")
    n_ctl = sum(1 for m in out["modes"].values() for o, b in zip(m["ops"], m["obs"]) if o[0] == "DCtl" and b[0] == 1)
    return n_cb >= 1 and n_ctl >= 1


def describe_dev(case):
    return "modes=%d script=%s block=%d" % (len(case["modes"]), "<=10" if len(case["script"]) <= 10 else "<=24"
                                            if len(case["script"]) <= 24 else ">24", len(case["blockers"]))



# ================================================================================================
# suite "own": what a mode owns in the switch controller (incl. the table of counting "held for ms" handlers) and in its
# config players (coq/C07/Own.v), on ONE machine per worker (fixed configuration, generated histories)
OWN_MODES = ["pa", "pb"]
OWN_SW = ["sw_a", "sw_b"]
OWN_ENTRIES = [("event_player", "trq1"), ("event_player", "tr1"), ("queue_relay_player", "trq2"),
               ("variable_player", "trq1"), ("light_player", "tr1"), ("show_player", "trq1")]
OWN_MS = [0, 0, 250, 500, 1000, 2000]
_OWN = [None]
_OWNRIG = [None]
_OWNPLAYS = [0]


def own_mode_cfg(n, prio):
    return {"mode": {"priority": prio, "start_events": ["s_" + n], "stop_events": ["e_" + n], "game_mode": False},
            "event_player": {"trq1": "outp_%s_0" % n, "tr1": "outp_%s_1" % n},
            "queue_relay_player": {"trq2": {"post": "rly_%s_start" % n, "wait_for": "rly_%s_done" % n}},
            "variable_player": {"trq1": {"v_" + n: {"int": 1, "action": "add_machine"}}},
            "light_player": {"tr1": {"l_a": "red"}},
            "show_player": {"trq1": {"sh_own": {"loops": -1}}}}


def own_cbs(m):
    """callback ids a mode registers through Mode.switch_handlers"""
    base = OWN_MODES.index(m) * 10
    return [base, base + 1, base + 2, base + 3]


def gen_own(rng, tier, i):
    stoppers = [cb for m in OWN_MODES for cb in own_cbs(m) if rng.random() < 0.12]
    script = []
    focus = i % 6
    m0 = rng.choice(OWN_MODES)
    if focus == 0:
        # the switch is already held when the mode registers its "held for ms" handler; the mode stops before the deadline
        sw = rng.choice([0, 1])
        script += [["sw", sw, 1], ["adv", rng.choice([1, 2, 4])], ["start", m0],
                   ["reg", m0, own_cbs(m0)[0], sw, 1, rng.choice([1000, 2000]), True], ["adv", rng.choice([1, 2])],
                   rng.choice([["stop", m0], ["post", "e_" + m0]]), ["adv", 16]]
    elif focus == 1:
        # a queue event is held by an earlier handler, the mode stops completely meanwhile, then the dispatch goes on
        script += [["start", m0], ["postq", rng.choice(["trq1", "trq2"]), True], rng.choice([["stop", m0], ["post", "e_" + m0]]),
                   ["adv", rng.choice([0, 1])], ["release"]]
    if focus >= 2:
        for m in OWN_MODES:
            if rng.random() < 0.75:
                script.append(["start", m])
    for _ in range(rng.choice([5, 8, 12, 18, 26])):
        r = rng.random()
        m = rng.choice(OWN_MODES)
        if r < 0.10:
            script.append(rng.choice([["start", m], ["post", "s_" + m]]))
        elif r < 0.18:
            script.append(rng.choice([["stop", m], ["post", "e_" + m]]))
        elif r < 0.36:
            script.append(["reg", m, rng.choice(own_cbs(m)), rng.choice([0, 1]), rng.choice([1, 1, 1, 0]), rng.choice(OWN_MS), True])
        elif r < 0.41:
            script.append(["reg", "pa", rng.choice([100, 101]), rng.choice([0, 1]), rng.choice([1, 1, 0]), rng.choice(OWN_MS), False])
        elif r < 0.45:
            script.append(["unreg", m, rng.randint(0, 3)])
        elif r < 0.60:
            script.append(["sw", rng.choice([0, 1]), rng.choice([0, 1, 1])])
        elif r < 0.76:
            script.append(["adv", rng.choice([1, 2, 2, 4, 4, 8, 12, 16, 17])])
        elif r < 0.85:
            script.append(["postq", rng.choice(["trq1", "trq2"]), rng.random() < 0.6])
        elif r < 0.89:
            script.append(["post", "tr1"])
        elif r < 0.94:
            script.append(["release"])
        elif r < 0.97:
            # the mode's next stop is held in its stopping queue: registrations of the mode while it is stopping
            script += [["holdstop", m], rng.choice([["stop", m], ["post", "e_" + m]]),
                       ["reg", m, rng.choice(own_cbs(m)), rng.choice([0, 1]), 1, rng.choice(OWN_MS), True]]
        else:
            script.append(["done", m])
    return {"stoppers": stoppers, "script": script}


def _install_own():
    from mpf.core.config_player import ConfigPlayer
    from mpf.core.switch_controller import SwitchController
    from mpf.core.events import EventManager
    _install()
    if getattr(ConfigPlayer, "_c07_own_patched", False):
        return
    ConfigPlayer._c07_own_patched = True
    orig_cpc = ConfigPlayer.config_play_callback

    @functools.wraps(orig_cpc)
    def config_play_callback(self, settings, calling_context, priority=0, mode=None, **kwargs):
        rec = _OWN[0]
        if rec is None or mode is None or rec.machine is not self.machine or mode.name not in rec.ids:
            return orig_cpc(self, settings, calling_context, priority, mode, **kwargs)
        slot = rec.call_enter(self, settings, calling_context, mode)
        before = _OWNPLAYS[0]
        try:
            return orig_cpc(self, settings, calling_context, priority, mode, **kwargs)
        finally:
            rec.call_leave(slot, mode, _OWNPLAYS[0] > before)
    ConfigPlayer.config_play_callback = config_play_callback

    def wrap_play(cls):
        orig = cls.__dict__["play"]

        @functools.wraps(orig)
        def play(self, *args, **kwargs):
            _OWNPLAYS[0] += 1
            return orig(self, *args, **kwargs)
        cls.play = play
    from mpf.config_players.event_player import EventPlayer
    from mpf.config_players.queue_relay_player import QueueRelayPlayer
    from mpf.config_players.variable_player import VariablePlayer
    from mpf.config_players.light_player import LightPlayer
    from mpf.config_players.show_player import ShowPlayer
    for cls in (EventPlayer, QueueRelayPlayer, VariablePlayer, LightPlayer, ShowPlayer):
        wrap_play(cls)

    orig_fire = SwitchController._process_active_timed_switches

    @functools.wraps(orig_fire)
    def _process_active_timed_switches(self, switch):
        rec = _OWN[0]
        if rec is None or rec.machine is not self.machine or switch.name not in OWN_SW:
            return orig_fire(self, switch)
        slots = rec.fire_enter(switch)
        try:
            return orig_fire(self, switch)
        finally:
            rec.fire_leave(slots)
    SwitchController._process_active_timed_switches = _process_active_timed_switches

    prev_post = EventManager._post

    @functools.wraps(prev_post)
    def _post(self, event, ev_type, callback, **kwargs):
        rec = _OWN[0]
        if rec is not None and rec.machine is self.machine and (event.startswith("outp_") or event.startswith("rly_p")) \
                and not event.endswith("_done"):
            mn = event.split("_")[1]
            if mn in rec.ids:
                rec.outputs.append([event, bool(self.machine.modes[mn].active)])
        return prev_post(self, event, ev_type, callback, **kwargs)
    EventManager._post = _post


def _own_unwrap(cb, cbid, depth=0):
    """callback id behind a (possibly wrapped) callable: the callable itself, functools.partial func/args, and
    objects among the arguments that carry a .callback (a registration record)"""
    try:
        if cb in cbid:
            return cbid[cb]
    except TypeError:
        pass
    if depth > 3:
        return None
    for sub in [getattr(cb, "func", None), getattr(cb, "callback", None), getattr(cb, "__wrapped__", None)] + \
            list(getattr(cb, "args", None) or ()) + list((getattr(cb, "keywords", None) or {}).values()):
        if sub is not None and sub is not cb:
            r = _own_unwrap(sub, cbid, depth + 1)
            if r is not None:
                return r
    return None


class OwnRec:
    """Records the operations of coq/C07/Own.v per mode; an operation is appended when it STARTS (its own effect is
    complete before anything it triggers runs), its status / invoked callbacks / played entries are filled in when it ends."""

    def __init__(self, rig, case):
        self.rig = rig
        self.machine = rig.machine
        self.ids = {n: i for i, n in enumerate(OWN_MODES)}
        self.posted = []                # interface of the wrappers of _install()
        self.hook_ran = False
        self.ops = {n: [] for n in OWN_MODES}       # [name, args...]
        self.obs = {n: [] for n in OWN_MODES}       # [status, invoked, played, dump]
        self.depth = 0
        self.stack = []
        self.nested = False
        self.in_cb = 0
        self.open = {n: None for n in OWN_MODES}    # the switch operation that collects invocations
        self.outputs = []
        self.live_keys = {n: [] for n in OWN_MODES}  # independent book-keeping of the oracle: keys registered through the mode
        self.bad_fire = []
        self.stoppers = set(case["stoppers"])
        self.serial = 0
        self.entry_serial = {}
        self.keep = []
        self.foreign = []
        self.t0 = self.machine.clock.get_time()
        self.cbf = {}
        self.cbid = {}
        for cb in [c for m in OWN_MODES for c in own_cbs(m)] + [100, 101]:
            f = self.make_cb(cb)
            self.cbf[cb] = f
            self.cbid[f] = cb

    def inst(self, cb):
        return "pb" if 10 <= cb < 20 else "pa"

    def now(self):
        return int(round((self.machine.clock.get_time() - self.t0) * 1e6))

    def rel(self, t):
        return int(round((t - self.t0) * 1e6))

    def make_cb(self, cb):
        def handler(**kwargs):
            n = self.inst(cb)
            if self.open[n] is not None:
                self.obs[n][self.open[n]][1].append(cb)
            else:
                self.bad_fire.append(["outside", cb, self.now()])
            if cb < 100 and not any(k[0] == cb for k in self.live_keys[n]):
                # the property's own predicate: a handler registered through the mode is invoked although the mode's stop
                # was requested (or the mode's code removed it) since it was registered
                self.bad_fire.append(["after-stop", cb, self.now()])
            if cb in self.stoppers:
                self.in_cb += 1
                try:
                    self.machine.modes[n].stop()
                finally:
                    self.in_cb -= 1
        return handler

    def emit(self, n, op, status=0):
        self.ops[n].append(op)
        self.obs[n].append([status, [], [], []])
        return len(self.ops[n]) - 1

    # -- Mode wrappers (installed by _install) ---------------------------------------------------------------------------
    def phase(self, mode):
        flags = (bool(mode._active), bool(mode._starting), bool(mode.stopping), bool(getattr(mode, "_cleanup_pending", False)))
        return {(False, False, False, False): 0, (False, True, False, False): 1, (True, False, False, False): 2,
                (True, False, True, False): 3, (False, False, False, True): 4}.get(flags, 9)

    def enter(self, kind, mode, args, kwargs):
        self.depth += 1
        top = self.stack[-1] if self.stack else None
        if kind == "CbStarted":
            self.stack.append(None)
            return None
        if kind == "Stop" and self.in_cb:
            # a stop requested by a switch callback: part of the switch operation in the model (parameter stp)
            tok = {"kind": "CbStop", "mode": mode, "was_stopping": bool(mode.stopping)}
            self.stack.append(tok)
            return tok
        if top is not None and not (top["kind"] == "CbStop"):
            if not (kind == "CbStopped" and top["kind"] == "Start" and top["mode"] is mode):
                self.nested = True
            self.stack.append(None)
            return None
        tok = {"kind": kind, "mode": mode, "was_starting": mode._starting, "was_stopping": bool(mode.stopping),
               "pending": bool(getattr(mode, "_cleanup_pending", False)), "slot": self.emit(mode.name, ["O" + kind])}
        self.stack.append(tok)
        return tok

    def leave(self, tok, ret):
        self.depth -= 1
        self.stack.pop()
        if tok is None:
            return
        kind, mode = tok["kind"], tok["mode"]
        if kind in ("Stop", "CbStop"):
            # oracle book-keeping: an ACCEPTED stop request (not the redundant one of a mode that is already stopping)
            if ret and not tok["was_stopping"] and self.phase(mode) == 3:
                self.live_keys[mode.name] = []
            if kind == "CbStop":
                return
        if tok["pending"] and kind in ("CbStopped", "Start"):
            self.live_keys[mode.name] = []          # the final clean-up ran
        if kind == "Start":
            status = 1 if (mode._starting and not tok["was_starting"]) else 0
        elif kind == "Stop":
            status = 1 if ret else 0
        elif kind == "CbStopped":
            status = 1 if tok["pending"] else 0
        else:
            status = 1
        self.obs[mode.name][tok["slot"]][0] = status

    # -- switch controller -----------------------------------------------------------------------------------------------
    def table(self, switch):
        """counting entries of a switch: [deadline, cb id or 999, switch, state, ms]"""
        sc = self.machine.switch_controller
        out = []
        for t, lst in sc._active_timed_switches.get(switch, {}).items():
            for h in lst:
                try:
                    cb = self.cbid.get(h.callback, 999)
                except TypeError:
                    cb = 999
                out.append([self.rel(t), cb, OWN_SW.index(switch.name), h.state, h.ms, h.callback])
        return out

    def fire_enter(self, switch):
        now = self.now()
        slots = {}
        tab = self.table(switch)
        for n in OWN_MODES:
            due = sorted(set(e[0] for e in tab if e[0] <= now and self.inst(e[1] if e[1] != 999 else 0) == n))
            slots[n] = self.emit(n, ["OFire", OWN_SW.index(switch.name), now], 0 if not due else (1 if len(due) == 1 else 2))
        self.prev_open = dict(self.open)
        self.open = dict(slots)
        return slots

    def fire_leave(self, slots):
        self.open = {n: None for n in OWN_MODES}

    # -- config players ----------------------------------------------------------------------------------------------------
    def call_enter(self, player, settings, calling_context, mode):
        e = OWN_ENTRIES.index((player.config_file_section, calling_context)) \
            if (player.config_file_section, calling_context) in OWN_ENTRIES else 99
        live = any(h.kwargs.get("mode") is mode and h.kwargs.get("settings") is settings and
                   getattr(h.callback, "__self__", None) is player
                   for h in self.machine.events.registered_handlers.get(calling_context, []))
        return self.emit(mode.name, ["OCall", e, bool(live)])

    def call_leave(self, slot, mode, played):
        o = self.obs[mode.name][slot]
        o[0] = 1 if played else 0
        if played:
            o[2].append(self.ops[mode.name][slot][1])

    def relay_count(self, n):
        qrp = self.machine.queue_relay_player
        return sum(1 for h in self.machine.events.registered_handlers.get("rly_%s_done" % n, [])
                   if getattr(h.callback, "__self__", None) is qrp and h.kwargs.get("context") == n)

    def loaded(self, n):
        from mpf.core.config_player import ConfigPlayer
        mode = self.machine.modes[n]
        c = 0
        for ev in ("trq1", "trq2", "tr1"):
            for h in self.machine.events.registered_handlers.get(ev, []):
                if h.kwargs.get("mode") is mode and isinstance(getattr(h.callback, "__self__", None), ConfigPlayer):
                    c += 1
        return 1 if c == len(OWN_ENTRIES) else (0 if c == 0 else 7)

    # -- state dump (operation OObs) ------------------------------------------------------------------------------------------
    def dump(self, n):
        m = self.machine
        mode = m.modes[n]
        sers, cnts = [], []
        for swn in OWN_SW:
            sw = m.switches[swn]
            for st in (0, 1):
                for ent in m.switch_controller.registered_switches[sw][st]:
                    ser = self.entry_serial.get(id(ent))
                    if ser is not None:
                        if ser[1] == n:
                            sers.append(ser[0])
                    elif _own_unwrap(ent.callback, self.cbid) is not None and n == "pa":
                        sers.append(9999)
            for e in self.table(sw):
                if self.inst(e[1] if e[1] != 999 else 0) == n:
                    cnts.append(e[:5])
        return [[self.phase(mode), len(mode.switch_handlers), self.loaded(n), self.relay_count(n)], sorted(sers)] + sorted(cnts)

    def leaks(self, n):
        """independent of the mode's book-keeping: what refers to an idle mode in the switch controller / its players"""
        m = self.machine
        mode = m.modes[n]
        out = []
        mine = set(own_cbs(n))
        for swn in OWN_SW:
            sw = m.switches[swn]
            for st in (0, 1):
                for ent in m.switch_controller.registered_switches[sw][st]:
                    if _own_unwrap(ent.callback, self.cbid) in mine:
                        out.append("switch handler %s/%d ms=%s cb%s" % (swn, st, ent.ms, _own_unwrap(ent.callback, self.cbid)))
            for t, lst in m.switch_controller._active_timed_switches.get(sw, {}).items():
                for h in lst:
                    if _own_unwrap(h.callback, self.cbid) in mine:
                        out.append("counting timed handler %s ms=%s cb%s due at %s" % (swn, h.ms, _own_unwrap(h.callback, self.cbid), self.rel(t)))
        if mode.switch_handlers:
            out.append("Mode.switch_handlers has %d entries" % len(mode.switch_handlers))
        if self.relay_count(n):
            out.append("%d queue relay wait handlers (context %s)" % (self.relay_count(n), n))
        if self.loaded(n):
            out.append("config player handlers of the mode are registered")
        for pl in ("queue_relay_player", "show_player", "light_player", "event_player", "variable_player"):
            inst = getattr(m, pl).instances.get(n, {}).get(pl)
            if inst:
                out.append("%s instance state %s" % (pl, sorted(str(k)[:30] for k in inst)))
        for ln in ("l_a", "l_b"):
            for ent in m.lights[ln].stack:
                if str(ent.key).startswith(n + "."):
                    out.append("light %s stack entry %s" % (ln, ent.key))
        return out


def _own_boot():
    from rig import Rig
    cfg = {"modes": list(OWN_MODES),
           "switches": {"s_start": {"number": "1", "tags": "start"}, "sw_a": {"number": "2"}, "sw_b": {"number": "3"}},
           "lights": {"l_a": {"number": "1", "subtype": "led", "type": "rgb"}, "l_b": {"number": "2", "subtype": "led", "type": "rgb"}}}
    shows = {"sh_own": [{"time": 0, "lights": {"l_b": "blue"}}, {"time": 1, "lights": {"l_b": "green"}}]}
    rig = Rig(cfg, modes={"pa": own_mode_cfg("pa", 100), "pb": own_mode_cfg("pb", 200)}, shows=shows)
    rig.start()
    st = {"rig": rig, "held": [], "hold_next": {"trq1": False, "trq2": False, "mode_pa_stopping": False, "mode_pb_stopping": False}}

    def blocker(ev):
        def bh(queue, **kwargs):
            if st["hold_next"][ev] and not queue.waiter:
                st["hold_next"][ev] = False
                queue.wait()
                st["held"].append(queue)
        return bh
    for ev in ("trq1", "trq2", "mode_pa_stopping", "mode_pb_stopping"):
        rig.machine.events.add_handler(ev, blocker(ev), priority=1000)
    rig.advance(0)
    now = rig.now()
    import math
    rig.advance(math.ceil(now * 8) / 8.0 - now + 1.0)
    st["base"] = canonical_dump(rig.machine)
    return st


def _init_own():
    _install_own()


def run_own(case):
    _install_own()
    st = _OWNRIG[0]
    if st is None:
        try:
            st = _own_boot()
        except BaseException as e:
            return {"boot_error": "%s: %s" % (type(e).__name__, str(e)[:200])}
        _OWNRIG[0] = st
    rig = st["rig"]
    machine = rig.machine
    held = st["held"]
    out = {"error": None, "modes": {}, "quiescent": [], "grid": True}
    keep = False
    try:
        def settle():
            for _ in range(400):
                rig.advance(0)
                if not rig.loop._ready:
                    return
            raise RuntimeError("no quiescence")

        sc = machine.switch_controller
        # known start: both switches open for 10 s (no catch-up possible), machine variables reset
        for swn in OWN_SW:
            if machine.switches[swn].state:
                sc.process_switch(swn, 0, logical=True)
        rig.advance(10.0)
        settle()
        now = rig.now()
        out["grid"] = abs(now * 8 - round(now * 8)) < 1e-6
        rec = OwnRec(rig, case)
        _REC[0] = rec
        _OWN[0] = rec
        base_handlers = {n: sum(1 for hl in machine.events.registered_handlers.values() for h in hl
                                if h.kwargs.get("mode") is machine.modes[n]) for n in OWN_MODES}

        def quiet(tag):
            for n in OWN_MODES:
                slot = rec.emit(n, ["OObs"])
                rec.obs[n][slot][3] = rec.dump(n)
            leaks = []
            phases = [rec.phase(machine.modes[n]) for n in OWN_MODES]
            for n, p in zip(OWN_MODES, phases):
                if p == 0:
                    leaks += ["%s: %s" % (n, x) for x in rec.leaks(n)]
                    extra = sum(1 for hl in machine.events.registered_handlers.values() for h in hl
                                if h.kwargs.get("mode") is machine.modes[n]) - base_handlers[n]
                    if extra:
                        leaks.append("%s: %d event handlers with mode=%s beyond its boot-time ones" % (n, extra, n))
            overdue = [e[:5] for swn in OWN_SW for e in rec.table(machine.switches[swn]) if e[0] <= rec.now()]
            out["quiescent"].append([tag, phases, leaks[:6], overdue[:3]])

        step = 0
        for op in case["script"]:
            step += 1
            k = op[0]
            if k == "start":
                machine.modes[op[1]].start()
            elif k == "stop":
                machine.modes[op[1]].stop()
            elif k == "post":
                machine.events.post(op[1])
            elif k == "postq":
                st["hold_next"][op[1]] = bool(op[2])
                machine.events.post_queue(op[1], callback=lambda **kwargs: None)
                settle()
                st["hold_next"][op[1]] = False
            elif k == "release":
                if held:
                    held.pop(0).clear()
            elif k == "holdstop":
                st["hold_next"]["mode_%s_stopping" % op[1]] = True      # the next stop of the mode waits for a release
            elif k == "done":
                n = op[1]
                rec.emit(n, ["ODone", 2], rec.relay_count(n))
                machine.events.post("rly_%s_done" % n)
            elif k == "adv":
                rig.advance(op[1] / 8.0)
            elif k == "sw":
                t = rec.now()
                slots = {n: rec.emit(n, ["OChange", op[1], op[2], t], 0 if machine.switches[OWN_SW[op[1]]].state == op[2] else 1)
                         for n in OWN_MODES}
                rec.open = dict(slots)
                try:
                    sc.process_switch(OWN_SW[op[1]], op[2], logical=True)
                finally:
                    rec.open = {n: None for n in OWN_MODES}
            elif k == "reg":
                n, cb, swi, state, ms, tracked = op[1:7]
                mode = machine.modes[n]
                if not tracked or rec.phase(mode) != 0:      # code of a mode runs only while the mode is not idle
                    sw = machine.switches[OWN_SW[swi]]
                    key = sc.add_switch_handler_obj(sw, rec.cbf[cb], state, ms)
                    ent = sc.registered_switches[sw][state][-1]
                    rec.serial += 1
                    rec.entry_serial[id(ent)] = (rec.serial, n)
                    rec.keep.append(ent)
                    if tracked:
                        mode.switch_handlers.append(key)
                        rec.live_keys[n].append((cb, swi, state, ms))
                    else:
                        rec.foreign.append(key)
                    rec.emit(n, ["OReg", rec.serial, [cb, swi, state, ms], bool(tracked), rec.now()], 1)
            elif k == "unreg":
                n = op[1]
                mode = machine.modes[n]
                if mode.switch_handlers:
                    key = mode.switch_handlers[op[2] % len(mode.switch_handlers)]
                    kk = (rec.cbid[key.callback], OWN_SW.index(key.switch_name.name if hasattr(key.switch_name, "name") else key.switch_name),
                          key.state, key.ms)
                    sc.remove_switch_handler_by_key(key)
                    mode.switch_handlers.remove(key)
                    rec.live_keys[n] = [x for x in rec.live_keys[n] if x != kk]
                    rec.emit(n, ["OUnreg", list(kk)], 1)
            settle()
            quiet(step)
        # wind down: release every queue, finish the relays, stop the modes, remove the foreign handlers, let time pass
        for ev in st["hold_next"]:
            st["hold_next"][ev] = False
        for _ in range(3):
            while held:
                held.pop(0).clear()
                settle()
            for n in OWN_MODES:
                machine.events.post("rly_%s_done" % n)
                rec.emit(n, ["ODone", 2], rec.relay_count(n))
                settle()
                machine.modes[n].stop()
                settle()
        for key in rec.foreign:
            kk = [rec.cbid[key.callback], OWN_SW.index(key.switch_name.name if hasattr(key.switch_name, "name") else key.switch_name),
                  key.state, key.ms]
            sc.remove_switch_handler_by_key(key)
            rec.emit("pa", ["OUnreg", kk], 1)
        rig.advance(3.0)
        settle()
        quiet("end")
        out["final_phases"] = [rec.phase(machine.modes[n]) for n in OWN_MODES]
        end_dump = canonical_dump(machine)
        out["dump_diff"] = [["+", x] for x in multiset_diff(end_dump, st["base"])][:8] + \
                           [["-", x] for x in multiset_diff(st["base"], end_dump)][:8]
        out["nested"] = rec.nested
        out["bad_fire"] = rec.bad_fire[:4]
        out["late_outputs"] = [o for o in rec.outputs if not o[1]][:4]
        out["n_outputs"] = len(rec.outputs)
        for n in OWN_MODES:
            out["modes"][n] = {"ops": rec.ops[n], "obs": rec.obs[n]}
        keep = not (out["dump_diff"] or out["nested"] or out["bad_fire"] or out["late_outputs"] or
                    any(out["final_phases"]) or any(q[2] or q[3] for q in out["quiescent"]) or held)
    except BaseException as e:
        out["error"] = "%s: %s" % (type(e).__name__, str(e)[:200])
    finally:
        _REC[0] = None
        _OWN[0] = None
        if out["error"] is None and rig.exception() is not None:
            out["error"] = "loop exception: %s" % (str(rig.exception())[:200])
            keep = False
        if not keep:
            # the machine is not back in its base state: the next case gets a fresh one
            _OWNRIG[0] = None
            rig.stop()
    return out


def coq_oop(o):
    k = o[0]
    if k == "OReg":
        return "OReg %s (mkK %s %s %s %s) %s %s" % (zlit(o[1]), zlit(o[2][0]), zlit(o[2][1]), zlit(o[2][2]), zlit(o[2][3]),
                                                   "true" if o[3] else "false", zlit(o[4]))
    if k == "OUnreg":
        return "OUnreg (mkK %s %s %s %s)" % tuple(zlit(x) for x in o[1])
    if k == "OChange":
        return "OChange %s %s %s" % (zlit(o[1]), zlit(o[2]), zlit(o[3]))
    if k == "OFire":
        return "OFire %s %s" % (zlit(o[1]), zlit(o[2]))
    if k == "OCall":
        return "OCall %s %s" % (zlit(o[1]), "true" if o[2] else "false")
    if k == "ODone":
        return "ODone %s" % zlit(o[1])
    return k


def coq_own(case, out):
    if "boot_error" in out or out.get("error") or out.get("nested") or not out.get("grid"):
        return None
    ins, outs = [], []
    for n in OWN_MODES:
        m = out["modes"][n]
        ins.append("(%s, %s)" % (zlist([cb for cb in case["stoppers"] if (10 <= cb < 20) == (n == "pb")]),
                                 coqlist(coq_oop(o) for o in m["ops"])))
        outs.append(coqlist("mkOO %s %s %s %s" % (zlit(o[0]), zlist(o[1]), zlist(o[2]), coqlist(zlist(d) for d in o[3]))
                            for o in m["obs"]))
    return "(%s, %s)" % (coqlist(ins), coqlist(outs))


def oracle_own(case, out):
    fails = []
    if "boot_error" in out:
        return fails
    if out.get("error"):
        fails.append({"sig": "exception", "what": "the machine raised during the history: " + out["error"]})
        return fails
    if out.get("nested"):
        fails.append({"sig": "nested-lifecycle-call", "what": "lifecycle methods of the recorded modes nested"})
    for b in out.get("bad_fire", []):
        if b[0] == "after-stop":
            fails.append({"sig": "fired-after-stop", "what": "switch handler cb%d, registered through Mode.switch_handlers, was invoked at "
                          "t=%d us although the mode's stop had been requested (or the mode had removed it) since it was registered" % (b[1], b[2])})
        else:
            fails.append({"sig": "fired-outside-dispatch", "what": "switch handler cb%d invoked outside a switch change / timer wake-up" % b[1]})
        break
    if out.get("late_outputs"):
        fails.append({"sig": "played-after-stop", "what": "a config player of a mode that is not active played: %s" % out["late_outputs"][:3]})
    for tag, phases, leaks, overdue in out["quiescent"]:
        if leaks:
            fails.append({"sig": "left-behind", "what": "after script step %s an idle mode still owns: %s" % (tag, leaks[:4])})
            break
    for tag, phases, leaks, overdue in out["quiescent"]:
        if overdue:
            fails.append({"sig": "timed-handler-overdue", "what": "after script step %s counting entries are past their deadline: %s" % (tag, overdue)})
            break
    if any(out.get("final_phases", [])):
        fails.append({"sig": "transition-stuck", "what": "modes do not stop: final phases %s" % out["final_phases"]})
    if out.get("dump_diff"):
        fails.append({"sig": "registry-not-restored", "what": "registries differ from the dump taken before the first start: %s" % out["dump_diff"][:6]})
    return fails


def shrink_own(case):
    sc = case["script"]
    for i in range(len(sc)):
        yield dict(case, script=sc[:i] + sc[i + 1:])
    if case["stoppers"]:
        yield dict(case, stoppers=[])


def nontrivial_own(case, out):
    if "boot_error" in out or out.get("error"):
        return False
    n_fire = sum(1 for m in out["modes"].values() for o, b in zip(m["ops"], m["obs"]) if o[0] in ("OFire", "OChange") and b[1])
    n_stale = sum(1 for m in out["modes"].values() for o in m["ops"] if o[0] == "OCall" and not o[2])
    n_stop = sum(1 for m in out["modes"].values() for o, b in zip(m["ops"], m["obs"]) if o[0] == "OQStopped")
    return n_stop >= 1 and (n_fire >= 1 or n_stale >= 1)


def describe_own(case):
    return "script=%s stoppers=%d" % ("<=10" if len(case["script"]) <= 10 else "<=20" if len(case["script"]) <= 20 else ">20",
                                      len(case["stoppers"]))


HDR_OWN = ("From C07 Require Import Model Own.\nDefinition run := own_run.\nDefinition out_eqb := own_out_eqb.\n")

HDR_DEV = ("From C07 Require Import Model Devices Controller.\n"
           "Definition devb_in : Type := (list (list (bool * Z * bool * list Z) * list dop) * "
           "list (list (bool * bool * bool) * list Z))%type.\n"
           "Definition devb_out : Type := (list (list dobs) * list (list Z * list Z))%type.\n"
           "Definition run : devb_in -> devb_out := devb_run.\nDefinition out_eqb : devb_out -> devb_out -> bool := devb_out_eqb.\n")

HDR_LIFE = "From C07 Require Import Model.\nDefinition run := life_run.\nDefinition out_eqb := life_out_eqb.\n"

SUITES = [
    Suite("life", gen_life, run_life, HDR_LIFE, coq_life, oracle_life, shrink_life, nontrivial_life,
          {"quick": int(os.environ.get("C07_N", "264")), "thorough": 10000}, describe=describe_life, shard=35, case_timeout=120),
    Suite("dev", gen_dev, run_dev, HDR_DEV, coq_dev, oracle_dev, shrink_dev, nontrivial_dev,
          {"quick": int(os.environ.get("C07_ND", "120")), "thorough": 6000}, describe=describe_dev, shard=40, case_timeout=120),
    Suite("own", gen_own, run_own, HDR_OWN, coq_own, oracle_own, shrink_own, nontrivial_own,
          {"quick": int(os.environ.get("C07_NO", "320")), "thorough": 12000}, worker_init=_init_own, describe=describe_own,
          shard=80, case_timeout=120),
]

LEVEL_TEXT = ("Machine-checked proof (Coq) over three hand-written models, for every history: (1) the lifecycle transition system "
              "of Mode.start/_started/stop/_stopped/_mode_stopped_callback and ModeController.set_mode_state: each mode's lifecycle "
              "events follow the cycle will_start..stopped, active_modes is exactly the active modes sorted by (priority, name), an "
              "idle mode owns nothing in the registries, other owners' entries are never touched, and an open transition is ended "
              "by nothing but its completion, which is accepted when delivered; the mode_start() hook (state "
              "Mode._start_hook_pending) runs at most once per _started from any state and for any number / order of delivered "
              "started-callbacks, the first callback delivered before the mode's _stopped runs it, it never runs on a mode that "
              "is not in active_modes and a stale started-callback changes nothing; (2) the mode-device layer (persisted enable "
              "flags, shot registrations, immediate and delayed control events posted at any time): an idle mode has no loaded "
              "device, no registration, no pending delayed control event and no control handler, every registration is "
              "tracked, a shot is hit once per activation, no action reaches a removed device; (3) the controller at ball end / "
              "ball start; (4) the switch controller and config players of one mode: a callback that was only registered through "
              "Mode.switch_handlers is never invoked after the mode stopped (switch changes, timed-handler wake-ups, catch-up "
              "entries, removals in the middle of the dispatch loops), an idle mode has no registered and no counting entry, "
              "every counting entry belongs to a registered handler, players play only while the mode is active and a mode that "
              "is not active has no relay wait handler, also when config_play_callback is called from a copied handler list.  "
              "The defects of the code as found are _refuted theorems with witnesses.  Every lifecycle step, control "
              "event, delay delivery and ball end the real objects execute in generated histories is replayed on the models on "
              "every run.")
LEVEL_NOTE = ("Trusted: Coq kernel + vm_compute; no axioms. Models hand-written; event bus not modelled (completions are history "
              "operations; all orders covered; liveness proved up to delivery); in the lifecycle model registrations are inputs "
              "(Add operations) and removals are predicted, in the device model control events are inputs and registrations, "
              "delays and removals are predicted; tie = replay of observed steps + direct oracle (cycle order, sorted active list, "
              "mode_start() exactly once per _started and never on a stopped mode, "
              "idle-owns-nothing over every registry incl. the machine-wide delay manager, complete registry dump equal at equal "
              "game states, one hit per activation, no stuck transition at any quiescent point, controller requests at ball end, "
              "no exception; own suite: no handler registered through the mode is invoked after its stop was requested, no player "
              "output for a mode that is not active, nothing of an idle mode in the switch tables / player instances / light stacks).")
TECHNIQUE = "Coq proof over hand-written transition-system models + differential replay of observed lifecycle / device / controller / switch-controller / config-player steps (vm_compute) + direct oracle"
DESIGN_REF = "DESIGN.md section 3, C07"
