"""C07 — Mode lifecycle is well-formed and leaves nothing behind."""
import functools
import os
import re

from vlib import Suite, zlist, zlit, coqlist

ID = "C07"
READY = True
RULE = ("life: a machine with the built-in attract mode (start-tagged switch) and 1-3 generated non-game modes "
        "(priorities with ties incl. a tie with attract, start/stop events shared between modes and chained to other "
        "modes' lifecycle events incl. a mode restarting on its own mode_<m>_stopped, use_wait_queue, counters with "
        "logic_block_timeout / multiple_hit_window / delayed enable_events, timers with control events, event_player and "
        "variable_player entries incl. conditional ones) is driven by a script of direct start()/stop(), posted and "
        "queue-posted events, device events, time steps on a 1/8 s grid, with reaction handlers on lifecycle events "
        "that issue start/stop requests incl. the restart idiom mode.stop(callback=mode.start) (budgeted), handlers on "
        "lifecycle events (mostly will_stop/stopping/stopped) that register delays on mode.delay, switch handlers via "
        "mode.switch_handlers and event handlers via mode.add_mode_event_handler, queue blockers on mode_<m>_starting/stopping that are released "
        "later, and trace handlers on a random subset of lifecycle events.  Every execution of Mode.start/stop/"
        "_started/_mode_started_callback/_stopped/_mode_stopped_callback is observed (status, posted lifecycle events, "
        "active_modes, the mode's flags, everything the mode owns in the event/switch/delay registries) and replayed "
        "on the model.  non-trivial = some mode completes >= 2 cycles or a request was issued from a lifecycle handler")
TRUSTED_BASE = [
    "Coq 8.16.1 kernel (coqc), vm_compute for the _refuted witnesses and for evaluating the model in the correspondence run; no native_compute",
    "axioms: none (every Print Assumptions is 'Closed under the global context')",
    "hand-written transition-system model coq/C07/Model.v (fx=true: tree with fixes/C07-*.patch) tied to the code by "
    "replaying every observed lifecycle step of the real Mode objects on the model (harness/props/c07.py)",
    "the event bus (order and completion of queue events / callbacks) is not modelled: completions are operations of "
    "the history and the theorems quantify over all orders (C01/C02 own the bus)",
    "harness: class-level recording wrappers around six Mode methods, Mode.mode_start and EventManager._post, installed "
    "in the worker process only; attribution of registry entries to modes by the mode's own book-keeping sets",
]
ASSUMPTIONS = [
    "non-game modes only (game modes additionally depend on C06's game lifecycle)",
    "code running on behalf of a mode registers things only while the mode is not idle, config players only inside start() (guards of the Add operation)",
    "liveness: only 'a delivered completion is always accepted' is proved; delivery itself is the bus' job (C02) and is checked by the oracle at the end of every run",
]

PHASES = ["will_start", "starting", "started", "will_stop", "stopping", "stopped"]
NAMES = ["attract", "ma", "mb", "mc"]            # id = index; id order = name order (sort key of active_modes)
LIFE_RE = re.compile(r"^mode_(attract|ma|mb|mc)_(will_start|starting|started|will_stop|stopping|stopped)$")


# ------------------------------------------------------------------------------------------------
# generation
def gen_mode(rng, name, idx, names):
    lower = [n for n in names if NAMES.index(n) < idx] + ["attract"]
    cfg = {"priority": rng.choice([10, 10, 100, 100, 100, 200, 300]), "game_mode": False,
           "start_events": ["s_" + name], "stop_events": ["e_" + name]}
    if rng.random() < 0.5:
        cfg["start_events"].append("s_all")
    if rng.random() < 0.5:
        cfg["stop_events"].append("e_all")
    if rng.random() < 0.25:
        cfg["start_events"].append("mode_%s_%s" % (rng.choice(lower), rng.choice(["started", "stopped", "will_stop"])))
    if rng.random() < 0.2:
        cfg["start_events"].append("mode_%s_stopped" % name)          # restart on own stop
    if rng.random() < 0.25:
        cfg["stop_events"].append("mode_%s_%s" % (rng.choice(lower), rng.choice(["started", "stopped", "starting"])))
    if rng.random() < 0.12 and ("mode_%s_stopped" % name) not in cfg["start_events"]:
        cfg["stop_events"].append("mode_%s_started" % name)           # stops itself as soon as it is up
    if rng.random() < 0.3:
        cfg["use_wait_queue"] = True
    if rng.random() < 0.2:
        cfg["start_priority"] = rng.choice([1, 5])
    if rng.random() < 0.2:
        cfg["stop_priority"] = rng.choice([1, 5])
    mode = {"mode": cfg}
    if rng.random() < 0.7:
        ctrs = {}
        for k in range(rng.choice([1, 1, 2])):
            cn = "c_%s%d" % (name, k)
            c = {"count_events": "hit_" + cn, "count_complete_value": rng.choice([2, 3]),
                 "reset_on_complete": rng.random() < 0.5}
            if rng.random() < 0.7:
                c["logic_block_timeout"] = rng.choice(["2s", "500ms", "1s"])
            if rng.random() < 0.6:
                c["multiple_hit_window"] = rng.choice(["1s", "250ms"])
            if rng.random() < 0.4:
                c["enable_events"] = "en_%s|%s" % (cn, rng.choice(["1s", "500ms"]))
            if rng.random() < 0.3:
                c["reset_events"] = "rs_%s|250ms" % cn
            ctrs[cn] = c
        mode["counters"] = ctrs
    if rng.random() < 0.5:
        tn = "t_" + name
        mode["timers"] = {tn: {"start_value": 0, "end_value": rng.choice([3, 5]), "tick_interval": rng.choice(["1s", "500ms"]),
                               "start_running": rng.random() < 0.6,
                               "control_events": [{"event": "tp_" + tn, "action": "pause", "value": rng.choice([1, 2])},
                                                  {"event": "ts_" + tn, "action": "start"},
                                                  {"event": "tx_" + tn, "action": "stop"}]}}
    if rng.random() < 0.7:
        ep = {"ep_" + name: "out_" + name, "epc_%s{mode.%s.active}" % (name, name): "out2_" + name}
        if rng.random() < 0.4:
            ep["mode_%s_started" % name] = "up_" + name
        if rng.random() < 0.3:
            ep["mode_%s_stopping" % name] = "down_" + name
        mode["event_player"] = ep
    if rng.random() < 0.5:
        mode["variable_player"] = {"ep_" + name: {"v_" + name: {"int": 1, "action": "add_machine"}}}
    return mode


def device_events(modes):
    evs = []
    for name, mc in modes.items():
        for cn, c in mc.get("counters", {}).items():
            evs += ["hit_" + cn, "hit_" + cn]
            if "enable_events" in c:
                evs += ["en_" + cn, "en_" + cn]
            if "reset_events" in c:
                evs.append("rs_" + cn)
        for tn in mc.get("timers", {}):
            evs += ["tp_" + tn, "ts_" + tn, "tx_" + tn]
        if "event_player" in mc:
            evs.append("ep_" + name)
    return evs


def gen_life(rng, tier, i):
    names = NAMES[1:1 + rng.choice([1, 2, 2, 3, 3])]
    modes = {n: gen_mode(rng, n, NAMES.index(n), names) for n in names}
    allm = ["attract"] + names
    reactions = []
    for _ in range(rng.choice([0, 1, 2, 3, 4])):
        reactions.append({"event": "mode_%s_%s" % (rng.choice(allm), rng.choice(PHASES)),
                          "prio": rng.choice([-5, 1, 150, 1000]), "action": rng.choice(["start", "stop", "stop_restart"]),
                          "target": rng.choice(allm), "budget": rng.choice([1, 1, 2, 3])})
    # handlers of a mode's lifecycle events that register things for that mode through the mode API
    # (mode.delay, mode.switch_handlers, mode.add_mode_event_handler), mostly while it is stopping
    for _ in range(rng.choice([0, 1, 1, 2, 3])):
        m = rng.choice(allm)
        reactions.append({"event": "mode_%s_%s" % (m, rng.choice(PHASES + ["will_stop", "stopping", "stopping", "stopped"])),
                          "prio": rng.choice([-5, 1, 150, 1000]),
                          "action": rng.choice(["add_delay", "add_delay", "add_switch", "add_handler"]),
                          "ms": rng.choice([125, 500, 2000]), "target": m, "budget": rng.choice([1, 2, 3])})
    blockers = []
    for _ in range(rng.choice([0, 0, 1, 1, 2])):
        blockers.append({"event": "mode_%s_%s" % (rng.choice(allm), rng.choice(["starting", "stopping"])),
                         "prio": rng.choice([1, 1000])})
    traced = [["mode_%s_%s" % (m, p), rng.choice([2, 500])] for m in allm for p in PHASES if rng.random() < 0.6]
    devs = device_events(modes)
    script = []
    for _ in range(rng.choice([4, 8, 12, 18, 25, 35])):
        r = rng.random()
        m = rng.choice(allm if rng.random() < 0.25 else names)
        if r < 0.16:
            script.append(["post", "s_" + m if m != "attract" else "reset_complete"])
        elif r < 0.30:
            script.append(["post", "e_" + m if m != "attract" else "service_mode_entered"])
        elif r < 0.36:
            script.append(["post", rng.choice(["s_all", "e_all"])])
        elif r < 0.46:
            script.append(["start", m, rng.choice([None, None, None, 10, 100, 250])])
        elif r < 0.52:
            script.append(["stop", m])
        elif r < 0.56:
            # the restart idiom: stop with a callback that starts the mode (or another one) again
            script.append(["stopcb", m, m if rng.random() < 0.8 else rng.choice(allm)])
        elif r < 0.62:
            script.append(["postq", "s_" + m if m != "attract" else "reset_complete"])
        elif r < 0.78 and devs:
            script.append(["post", rng.choice(devs)])
        elif r < 0.93:
            script.append(["adv", rng.choice([1, 2, 4, 4, 8, 8, 12, 16, 17, 24])])
        else:
            script.append(["release"])
    return {"modes": modes, "reactions": reactions, "blockers": blockers, "traced": traced, "script": script}


# ------------------------------------------------------------------------------------------------
# implementation side
_REC = [None]


def _install():
    from mpf.core.mode import Mode
    from mpf.core.events import EventManager
    from mpf.modes.attract.code.attract import Attract
    if getattr(Mode, "_c07_patched", False):
        return
    Mode._c07_patched = True

    def wrap(cls, meth, kind):
        orig = cls.__dict__[meth]

        @functools.wraps(orig)
        def wrapper(self, *args, **kwargs):
            rec = _REC[0]
            if rec is None or self.name not in rec.ids or rec.machine is not self.machine:
                return orig(self, *args, **kwargs)
            tok = rec.enter(kind, self, args, kwargs)
            ret = orig(self, *args, **kwargs)
            rec.leave(tok, ret)
            return ret
        setattr(cls, meth, wrapper)

    for meth, kind in (("start", "Start"), ("stop", "Stop"), ("_started", "QStarted"),
                       ("_mode_started_callback", "CbStarted"), ("_stopped", "QStopped"),
                       ("_mode_stopped_callback", "CbStopped")):
        wrap(Mode, meth, kind)

    def wrap_hook(cls):
        orig = cls.__dict__["mode_start"]

        @functools.wraps(orig)
        def hook(self, **kwargs):
            rec = _REC[0]
            if rec is not None and rec.machine is self.machine:
                rec.hook_ran = True
            return orig(self, **kwargs)
        cls.mode_start = hook
    wrap_hook(Mode)
    wrap_hook(Attract)

    orig_post = EventManager._post

    @functools.wraps(orig_post)
    def _post(self, event, ev_type, callback, **kwargs):
        rec = _REC[0]
        if rec is not None and rec.machine is self.machine:
            m = LIFE_RE.match(event)
            if m and m.group(1) in rec.ids:
                rec.posted.append([rec.ids[m.group(1)], PHASES.index(m.group(2))])
        return orig_post(self, event, ev_type, callback, **kwargs)
    EventManager._post = _post


class Recorder:
    """Observes every lifecycle step of the recorded modes; see RULE."""

    def __init__(self, machine, names, devices):
        self.machine = machine
        self.ids = {n: NAMES.index(n) for n in names}
        self.devices = devices          # mode name -> {"counters": [...], "timers": [...]}
        self.steps = []                 # [opname, mode id, arg/None, status, events, active ids, phase, owned]
        self.posted = []
        self.outside_posts = []
        self.hook_ran = False
        self.kid = {}
        self.keep = []
        self.depth = 0
        self.nested = False
        self.stack = []
        self.canon = {}                 # key id -> canonical text of a handler entry
        self.start_regs = []            # [mode id, step index, canonical registrations made inside start()]
        self.regs_missing = []
        self.last = self.snapshot()
        self.prefix = self.build_prefix()
        self.sorted_bad = []            # oracle data: active list not the sorted list of active modes
        self.requests = []
        self.shared_queue_start = {}    # mode id -> its latest accepted start re-posted the caller's queue

    # -- attribution ---------------------------------------------------------------------------
    def key(self, kind, ident, obj=None):
        k = (kind, ident)
        if k not in self.kid:
            self.kid[k] = len(self.kid) + 1
            if obj is not None:
                self.keep.append(obj)       # keep alive: id() must not be reused
        return self.kid[k]

    def snapshot(self):
        from mpf.core.events import EventHandlerKey
        from mpf.core.mode import Mode
        from mpf.core.config_player import ConfigPlayer
        m = self.machine
        snap = set()
        dev_owner = {}
        for mn, d in self.devices.items():
            for tn in d["timers"]:
                dev_owner[id(m.timers[tn])] = mn
        for ev, hl in m.events.registered_handlers.items():
            for h in hl:
                owner = h.kwargs.get("mode")
                cb_self = getattr(h.callback, "__self__", None)
                if isinstance(owner, Mode) and owner.name in self.ids:
                    ek = EventHandlerKey(h.key, ev)
                    if ek in owner.event_handlers:
                        cls = 0
                    elif isinstance(cb_self, ConfigPlayer) and owner in cb_self.mode_event_keys and \
                            ek in cb_self.mode_event_keys[owner][0]:
                        cls = 1
                    else:
                        cls = 6         # registered for the mode but tracked nowhere
                    kid = self.key("h", h.key)
                    snap.add((cls, self.ids[owner.name], kid))
                    if kid not in self.canon:
                        self.canon[kid] = "%s %s %s" % (ev, getattr(h.callback, "__qualname__", "?"), ",".join(sorted(h.kwargs)))
                elif cb_self is not None and id(cb_self) in dev_owner:
                    mn = dev_owner[id(cb_self)]
                    cls = 4 if EventHandlerKey(h.key, ev) in cb_self.event_keys else 6
                    kid = self.key("h", h.key)
                    snap.add((cls, self.ids[mn], kid))
                    if kid not in self.canon:
                        self.canon[kid] = "%s %s %s" % (ev, getattr(h.callback, "__qualname__", "?"), ",".join(sorted(h.kwargs)))
        for sw, lists in m.switch_controller.registered_switches.items():
            for lst in lists:
                for ent in lst:
                    cb_self = getattr(ent.callback, "__self__", None)
                    if isinstance(cb_self, Mode) and cb_self.name in self.ids:
                        tracked = any(sh.switch_name in (sw, sw.name) and sh.callback == ent.callback and sh.ms == ent.ms
                                      for sh in cb_self.switch_handlers)
                        snap.add((2 if tracked else 6, self.ids[cb_self.name], self.key("s", id(ent), ent)))
        for mn in self.ids:
            mode = m.modes[mn]
            for name, d in mode.delay.delays.items():
                snap.add((3, self.ids[mn], self.key("d", id(d[0]), d[0])))
            for cn in self.devices.get(mn, {}).get("counters", []):
                for name, d in m.counters[cn].delay.delays.items():
                    snap.add((5, self.ids[mn], self.key("d", id(d[0]), d[0])))
            for tn in self.devices.get(mn, {}).get("timers", []):
                t = m.timers[tn]
                if t.delay is not None:
                    for name, d in t.delay.delays.items():
                        snap.add((4, self.ids[mn], self.key("d", id(d[0]), d[0])))
                if t.timer is not None:
                    snap.add((4, self.ids[mn], self.key("t", id(t.timer), t.timer)))
        return snap

    def phase(self, mode):
        flags = (bool(mode._active), bool(mode._starting), bool(mode.stopping),
                 bool(getattr(mode, "_cleanup_pending", False)))
        return {(False, False, False, False): 0, (False, True, False, False): 1, (True, False, False, False): 2,
                (True, False, True, False): 3, (False, False, False, True): 4}.get(flags, 9)

    def active_ids(self):
        return [self.ids.get(x.name, 99) for x in self.machine.mode_controller.active_modes]

    def check_sorted(self, where):
        """oracle data: the property's own predicate on active_modes, evaluated on the real objects"""
        mc = self.machine.mode_controller
        want = sorted([x for x in self.machine.modes.values() if x.active], key=lambda x: (x.priority, x.name),
                      reverse=True)
        if [x.name for x in mc.active_modes] != [x.name for x in want]:
            self.sorted_bad.append([where, [x.name for x in mc.active_modes], [(x.name, x.priority) for x in want]])

    def build_prefix(self):
        """operations that take the model from init_state to the state at which recording starts"""
        pre = []
        for mode in sorted(self.machine.mode_controller.active_modes, key=lambda x: x.name):
            if mode.name in self.ids:
                i = self.ids[mode.name]
                pre.append(["Start", i, mode.priority])
        for cls, own, k in sorted(self.last):
            pre.append(["Add", own, [cls, k]])
        for mode in sorted(self.machine.mode_controller.active_modes, key=lambda x: x.name):
            if mode.name in self.ids:
                pre += [["QStarted", self.ids[mode.name], None], ["CbStarted", self.ids[mode.name], None]]
        return pre

    def owned(self, snap, i):
        return sorted(cls * 64 * 1048576 + i * 1048576 + k for cls, own, k in snap if own == i)

    def env_diff(self, new, mode_hint=None):
        """explain registry changes that happened outside lifecycle steps as Add/Del operations"""
        cur = set(self.last)
        for e in sorted(self.last - new):
            cur.discard(e)
            self.emit_env("Del", e, cur)
        for e in sorted(new - self.last):
            cur.add(e)
            self.emit_env("Add", e, cur)
        self.last = set(new)

    def emit_env(self, opn, e, cur):
        cls, own, k = e
        mode = self.machine.modes[NAMES[own]]
        self.steps.append([opn, own, [cls, k], 1, [], self.active_ids(), self.phase(mode), self.owned(cur, own)])

    # -- lifecycle steps -------------------------------------------------------------------------
    def enter(self, kind, mode, args, kwargs):
        self.depth += 1
        top = self.stack[-1] if self.stack else None
        if self.depth > 1:
            if kind == "CbStopped" and top is not None and top["kind"] == "Start":
                # the fixed start() finishes a pending stop itself: part of the Start step
                self.stack.append(None)
                return None
            if kind == "Start" and top is not None and top["kind"] == "CbStopped":
                # a stop callback (mode.stop(callback=...)) starts a mode: the callbacks are the tail of
                # _mode_stopped_callback, so the CbStopped step ends here and the Start is a step of its own
                if not top["done"]:
                    self.finish(top, None)
            elif kind == "Start" and top is None and len(self.stack) >= 2 and self.stack[-2] is not None and \
                    self.stack[-2]["kind"] == "Start":
                # a stop callback run by the clean-up inside start().  Restarting the same mode must be refused (it
                # is already starting; a refused start is no step); starting another mode is a step of its own that
                # commutes with the enclosing one and is recorded right after it
                mp = kwargs.get("mode_priority", args[0] if args else None)
                tok = {"kind": "Start", "mode": mode, "was_starting": mode._starting, "inflush": self.stack[-2],
                       "arg": mp if isinstance(mp, int) else mode.config["mode"]["priority"], "done": True}
                self.stack.append(tok)
                return tok
            else:
                self.nested = True      # anything else never nests in MPF; if it does the tie is void
                self.stack.append(None)
                return None
        if len(self.steps) > 4000:
            raise RuntimeError("runaway history (generator flaw: endless start/stop chain)")
        snap = self.snapshot()
        self.env_diff(snap)
        if self.posted:
            self.outside_posts += self.posted
        self.posted = []
        self.hook_ran = False
        arg = None
        if kind == "Start":
            mp = kwargs.get("mode_priority", args[0] if args else None)
            arg = mp if isinstance(mp, int) else mode.config["mode"]["priority"]
            self.start_has_queue = "queue" in kwargs
        tok = {"kind": kind, "mode": mode, "arg": arg, "before": snap, "was_starting": mode._starting,
               "pending": bool(getattr(mode, "_cleanup_pending", False)), "has_flag": hasattr(mode, "_cleanup_pending"),
               "done": False}
        self.stack.append(tok)
        return tok

    def leave(self, tok, ret):
        self.depth -= 1
        self.stack.pop()
        if tok is None:
            return
        if tok.get("inflush"):
            m = tok["mode"]
            accepted = bool(m._starting and not tok["was_starting"])
            if m is tok["inflush"]["mode"]:
                if accepted:
                    self.nested = True          # a start inside the start of the same mode
            else:
                tok["inflush"].setdefault("deferred", []).append((m, tok["arg"], accepted))
            return
        if tok["done"]:
            self.env_diff(self.snapshot())      # whatever ran after the nested start
            self.check_sorted(len(self.steps))
            return
        self.finish(tok, ret)

    def finish(self, tok, ret):
        tok["done"] = True
        kind, mode, arg, before = tok["kind"], tok["mode"], tok["arg"], tok["before"]
        i = self.ids[mode.name]
        after = self.snapshot()
        if kind == "Start":
            status = 1 if (mode._starting and not tok["was_starting"]) else 0
            if status:
                self.shared_queue_start[i] = bool(self.start_has_queue and mode.config["mode"]["use_wait_queue"])
                # oracle data: what this start registered for the mode (event, callback, kwargs keys; no priority)
                self.start_regs.append([i, len(self.steps), sorted(self.canon[k] for c, o, k in after - before
                                                                   if o == i and k in self.canon)])
        elif kind == "Stop":
            status = 1 if ret else 0
        elif kind == "CbStarted":
            status = 1 if self.hook_ran else 0
        elif kind == "CbStopped":
            status = (1 if tok["pending"] else 0) if tok["has_flag"] else 1
        else:
            status = 1
        kept = before & after
        self.steps.append([kind, i, arg, status, [a * 8 + b for a, b in self.posted if a == i], self.active_ids(),
                           self.phase(mode), self.owned(kept, i)])
        rest = [e for e in self.posted if e[0] != i]
        for m2, arg2, acc2 in tok.get("deferred", []):
            j = self.ids[m2.name]
            self.steps.append(["Start", j, arg2, 1 if acc2 else 0, [a * 8 + b for a, b in rest if a == j],
                               self.active_ids(), self.phase(m2), self.owned(kept, j)])
            rest = [e for e in rest if e[0] != j]
        self.outside_posts += rest
        self.posted = []
        self.last = kept
        self.env_diff(after)
        self.check_sorted(len(self.steps))

    def check_regs(self, tag):
        """oracle data: a mode that is up (and not stopping) still has everything its latest start registered"""
        latest = {}
        for i, at, regs in self.start_regs:
            latest[i] = regs
        have = {}
        for c, o, k in self.last:
            if k in self.canon:
                have.setdefault(o, []).append(self.canon[k])
        for i, regs in latest.items():
            if self.phase(self.machine.modes[NAMES[i]]) == 2:
                missing = multiset_diff(regs, have.get(i, []))
                if missing:
                    self.regs_missing.append([tag, i, missing[:4]])

    def quiescent(self, tag=None):
        self.env_diff(self.snapshot())
        self.check_sorted(len(self.steps))
        self.check_regs(tag)


def canonical_dump(machine):
    """pre-start / post-stop comparison of the property: (event, priority, callback qualname, sorted kwargs keys)
    of every registered handler, every switch handler, and the number of pending delays of the machine-wide manager"""
    out = []
    for ev, hl in machine.events.registered_handlers.items():
        for h in hl:
            cb = h.callback
            q = getattr(cb, "__qualname__", None) or getattr(getattr(cb, "func", None), "__qualname__", type(cb).__name__)
            out.append("E %s %s %s %s" % (ev, h.priority, q, ",".join(sorted(h.kwargs))))
    for sw, lists in machine.switch_controller.registered_switches.items():
        for st, lst in enumerate(lists):
            for ent in lst:
                out.append("S %s %d %s %s" % (sw.name, st, getattr(ent.callback, "__qualname__", "?"), ent.ms))
    return sorted(out)


def delay_dump(machine, names, devices):
    out = []
    for mn in names:
        mode = machine.modes[mn]
        out += ["D %s.delay %s" % (mn, k) for k in mode.delay.delays]
        for cn in devices.get(mn, {}).get("counters", []):
            out += ["D %s.delay %s" % (cn, k) for k in machine.counters[cn].delay.delays]
        for tn in devices.get(mn, {}).get("timers", []):
            t = machine.timers[tn]
            if t.delay is not None:
                out += ["D %s.delay %s" % (tn, k) for k in t.delay.delays]
            if t.timer is not None:
                out.append("D %s.timer" % tn)
    return sorted(out)


def idle_leaks(machine, names, devices):
    """independent attribution (not the mode's book-keeping): anything that refers to an idle mode or its devices"""
    from mpf.core.mode import Mode
    leaks = []
    idle = [mn for mn in names if not (machine.modes[mn]._active or machine.modes[mn]._starting or
                                       machine.modes[mn].stopping or getattr(machine.modes[mn], "_cleanup_pending", False))]
    objs = {}
    for mn in idle:
        objs[id(machine.modes[mn])] = mn
        for cn in devices.get(mn, {}).get("counters", []):
            objs[id(machine.counters[cn])] = mn
        for tn in devices.get(mn, {}).get("timers", []):
            objs[id(machine.timers[tn])] = mn
    for ev, hl in machine.events.registered_handlers.items():
        for h in hl:
            owner = h.kwargs.get("mode")
            cb_self = getattr(h.callback, "__self__", None)
            if isinstance(owner, Mode) and owner.name in idle:
                leaks.append("handler %s -> %s (mode %s)" % (ev, getattr(h.callback, "__qualname__", "?"), owner.name))
            elif cb_self is not None and id(cb_self) in objs and not isinstance(cb_self, Mode):
                leaks.append("handler %s -> %s (device of %s)" % (ev, getattr(h.callback, "__qualname__", "?"), objs[id(cb_self)]))
    for sw, lists in machine.switch_controller.registered_switches.items():
        for lst in lists:
            for ent in lst:
                cb_self = getattr(ent.callback, "__self__", None)
                if cb_self is not None and id(cb_self) in objs:
                    leaks.append("switch handler %s -> %s (%s)" % (sw.name, getattr(ent.callback, "__qualname__", "?"), objs[id(cb_self)]))
    for d in delay_dump(machine, idle, devices):
        leaks.append("delay " + d[2:])
    return sorted(leaks)


def run_life(case):
    from rig import Rig
    _install()
    names = ["attract"] + list(case["modes"].keys())
    devices = {mn: {"counters": list(mc.get("counters", {})), "timers": list(mc.get("timers", {}))}
               for mn, mc in case["modes"].items()}
    config = {"modes": list(case["modes"].keys()),
              "switches": {"s_start": {"number": "1", "tags": "start"}}}
    rig = Rig(config, modes=case["modes"])
    out = {"steps": [], "prefix": [], "handler_trace": [], "quiescent": [], "error": None}
    try:
        rig.start()
    except BaseException as e:      # a generated configuration MPF refuses is not a lifecycle case
        return {"boot_error": "%s: %s" % (type(e).__name__, str(e)[:200])}
    try:
        machine = rig.machine
        held = []
        trace = out["handler_trace"]
        requests = []
        adds = []
        live = []
        out["stop_event_ignored"] = []

        def settle():
            for _ in range(400):
                rig.advance(0)
                if not rig.loop._ready:
                    return
            raise RuntimeError("no quiescence")

        settle()
        # rig handlers first: they are part of the 'rest' of the registries
        for ev, prio in case["traced"]:
            def th(_ev=ev, **kwargs):
                mm = LIFE_RE.match(_ev)
                trace.append([NAMES.index(mm.group(1)), PHASES.index(mm.group(2))])
            machine.events.add_handler(ev, th, priority=prio)
        for r in case["reactions"]:
            r = dict(r, left=r["budget"])
            live.append(r)

            def rh(_r=r, **kwargs):
                if _r["left"] <= 0:
                    return
                _r["left"] -= 1
                mode = machine.modes[_r["target"]]
                act = _r["action"]
                if act.startswith("add_"):
                    # code of a mode runs only while the mode is not idle (domain of the model's Add operation)
                    if not (mode._active or mode._starting or getattr(mode, "_cleanup_pending", False)):
                        _r["left"] += 1
                        return
                    adds.append([_r["event"], act, _r["target"]])
                    if act == "add_delay":
                        mode.delay.add(ms=_r["ms"], callback=mode.mode_init)
                    elif act == "add_switch":
                        mode.switch_handlers.append(machine.switch_controller.add_switch_handler_obj(
                            machine.switches["s_start"], mode.mode_init, 1))
                    else:
                        mode.add_mode_event_handler("rig_ev_" + _r["target"], mode.mode_stop)
                    return
                requests.append([_r["event"], act, _r["target"]])
                if act == "start":
                    mode.start()
                elif act == "stop":
                    mode.stop()
                else:
                    mode.stop(callback=mode.start)
            machine.events.add_handler(r["event"], rh, priority=r["prio"])
        for b in case["blockers"]:
            def bh(queue, _b=b, **kwargs):
                if not queue.waiter:        # a queue somebody else already holds cannot be held twice
                    queue.wait()
                    held.append(queue)
            machine.events.add_handler(b["event"], bh, priority=b["prio"])
        settle()
        out["base_phases"] = None
        base_dump = canonical_dump(machine)
        base_delays = delay_dump(machine, names, devices)
        rec = Recorder(machine, names, devices)
        out["base_phases"] = [rec.phase(machine.modes[n]) for n in names]
        out["base_prio"] = [machine.modes[n].priority for n in names]
        out["prefix"] = rec.prefix
        out["steps"] = rec.steps
        _REC[0] = rec

        def stop_events_of(n):
            return ["game_start", "service_mode_entered"] if n == "attract" else case["modes"][n]["mode"]["stop_events"]

        def accepted_stops(n):
            i = rec.ids[n]
            return sum(1 for st in rec.steps if st[0] == "Stop" and st[1] == i and st[3] == 1)

        def post_checked(ev):
            """oracle data: a mode that is up and not stopping must react to its stop event"""
            up = {n: accepted_stops(n) for n in names if rec.phase(machine.modes[n]) == 2 and ev in stop_events_of(n)}
            machine.events.post(ev)
            settle()
            for n, cnt in up.items():
                if accepted_stops(n) == cnt:
                    out["stop_event_ignored"].append([n, ev, len(rec.steps)])

        def quiet(tag):
            rec.quiescent(tag)
            leaks = idle_leaks(machine, names, devices)
            out["quiescent"].append([tag, len(rec.steps), [rec.phase(machine.modes[n]) for n in names], leaks])

        def do(op):
            k = op[0]
            if k == "post":
                post_checked(op[1])
            elif k == "stopcb":
                machine.modes[op[1]].stop(callback=machine.modes[op[2]].start)
            elif k == "postq":
                machine.events.post_queue(op[1], callback=lambda **kwargs: None)
            elif k == "start":
                if op[2] is None:
                    machine.modes[op[1]].start()
                else:
                    machine.modes[op[1]].start(mode_priority=op[2])
            elif k == "stop":
                machine.modes[op[1]].stop()
            elif k == "adv":
                rig.advance(op[1] / 8.0)
            elif k == "release":
                if held:
                    held.pop(0).clear()
            settle()

        n_done = 0
        for op in case["script"]:
            do(op)
            n_done += 1
            quiet(n_done)
        # wind down: release everything, let every delay expire, stop every generated mode, attract back up
        for _ in range(6):
            while held:
                held.pop(0).clear()
                settle()
            rig.advance(3.0)
            settle()
        quiet("released")
        out["final_phases_before_stop"] = [rec.phase(machine.modes[n]) for n in names]
        for r in case["reactions"]:
            pass
        out["shared_queue_start"] = sorted(i for i, v in rec.shared_queue_start.items() if v)
        # back to the configuration the machine was in when recording started
        def restore():
            moved = False
            for n, bp in zip(names, out["base_phases"]):
                mode = machine.modes[n]
                if bp == 0 and (mode._active or mode._starting):
                    if rec.phase(mode) == 2 and n != "attract":
                        post_checked("e_" + n)          # by its own stop event first
                    mode.stop()
                    moved = True
                elif bp == 2 and not (mode._active or mode._starting):
                    mode.start()
                    moved = True
                settle()
            return moved
        # modes that are up in the base configuration and got extra registrations from the rig's handlers go
        # through one more stop/start cycle (their clean-up has to remove those too)
        for r in live:
            if r["action"].startswith("add_"):
                r["left"] = 0           # no further rig registrations while winding down
        for n, bp in zip(names, out["base_phases"]):
            if bp == 2 and any(a[2] == n for a in adds) and machine.modes[n]._active:
                machine.modes[n].stop()
                settle()
        restore()
        for _ in range(4):
            while held:
                held.pop(0).clear()
                settle()
            rig.advance(3.0)
            settle()
        # generated modes chained to lifecycle events may have come up again: stop until stable (bounded)
        for _ in range(6):
            if not restore():
                break
            while held:
                held.pop(0).clear()
                settle()
            rig.advance(3.0)
            settle()
        rig.advance(3.0)
        settle()
        quiet("end")
        out["final_phases"] = [rec.phase(machine.modes[n]) for n in names]
        out["final_prio"] = [machine.modes[n].priority for n in names]
        end_dump = canonical_dump(machine)
        end_delays = delay_dump(machine, names, devices)
        at_base = out["final_phases"] == out["base_phases"] and out["final_prio"] == out["base_prio"]
        out["at_base"] = at_base
        if at_base:
            out["dump_diff"] = [["+", x] for x in multiset_diff(end_dump, base_dump)][:10] + \
                               [["-", x] for x in multiset_diff(base_dump, end_dump)][:10] + \
                               [["+", x] for x in multiset_diff(end_delays, base_delays)][:10]
        else:
            out["dump_diff"] = []
        out["final_registry"] = sorted(cls * 64 * 1048576 + own * 1048576 + k for cls, own, k in rec.last)
        out["sorted_bad"] = rec.sorted_bad[:3]
        out["nested"] = rec.nested
        out["outside_posts"] = rec.outside_posts[:5]
        out["requests"] = len(requests)
        out["adds"] = len(adds)
        out["regs_missing"] = rec.regs_missing[:3]
        cyc = {}
        for i, at, regs in rec.start_regs:
            cyc.setdefault(i, []).append(regs)
        out["cycle_regs_differ"] = [[i, multiset_diff(r, rs[0])[:3], multiset_diff(rs[0], r)[:3]]
                                    for i, rs in cyc.items() for r in rs[1:] if r != rs[0]][:3]
        out["held_left"] = len(held)
    except BaseException as e:       # what the code raises is data (e.g. a late delay callback on dropped state)
        out["error"] = "%s: %s" % (type(e).__name__, str(e)[:160])
        try:
            out["final_registry"] = None
        except Exception:
            pass
    finally:
        _REC[0] = None
        rig.stop()
    return out


def multiset_diff(a, b):
    b = list(b)
    res = []
    for x in a:
        if x in b:
            b.remove(x)
        else:
            res.append(x)
    return res


# ------------------------------------------------------------------------------------------------
# model side
def coq_op(s):
    k, i, arg = s[0], s[1], s[2]
    if k == "Start":
        return "Start %s %s" % (zlit(i), zlit(arg))
    if k in ("Add", "Del"):
        return "%s %s %s %s" % (k, zlit(arg[0]), zlit(i), zlit(arg[1]))
    return "%s %s" % (k, zlit(i))


def coq_life(case, out):
    if "boot_error" in out:
        return None
    if out.get("error") or out.get("nested") or out.get("final_registry") is None:
        return None                 # reported by the oracle; there is no complete observation to replay
    ops = coqlist(coq_op(s) for s in out["steps"])
    pre = coqlist(coq_op(s) for s in out["prefix"])
    obs = coqlist("mkO %s %s %s %s %s" % (zlit(s[3]), zlist(s[4]), zlist(s[5]), zlit(s[6]), zlist(s[7]))
                  for s in out["steps"])
    return "((%s, %s), (%s, %s))" % (pre, ops, obs, zlist(out["final_registry"]))


def oracle_life(case, out):
    fails = []
    if "boot_error" in out:
        return fails
    if out.get("error"):
        fails.append({"sig": "exception", "what": "the machine raised during the history: " + out["error"]})
        return fails
    if out.get("nested"):
        fails.append({"sig": "nested-lifecycle-call", "what": "lifecycle methods of recorded modes nested"})
    names = ["attract"] + list(case["modes"].keys())
    # 1. per mode, posted lifecycle events follow the cycle; so do the events as seen by handlers
    posted = {}
    for s in out["steps"]:
        for e in s[4]:
            posted.setdefault(e // 8, []).append(e % 8)
    # modes that are up when recording starts are at cycle position 3
    start_pos = {i: 3 for i, p in enumerate(out.get("base_phases") or []) if p == 2}
    stuck_known = set(out.get("shared_queue_start") or [])
    for i, seq in posted.items():
        pos = start_pos.get(i, 0)
        for e in seq:
            if e != pos:
                fails.append({"sig": "order-posted", "what": "mode %s posted %s where %s was due (sequence %s)" %
                              (NAMES[i], PHASES[e], PHASES[pos], [PHASES[x] for x in seq])})
                break
            pos = (pos + 1) % 6
        else:
            if pos not in (0, 3):
                known = pos == 2 and i in stuck_known
                fails.append({"sig": "waitq-shared-queue-start-stuck" if known else "incomplete-transition",
                              "what": "mode %s ends inside a transition after %s" % (NAMES[i], PHASES[(pos - 1) % 6])})
    seen = {}
    for i, e in out["handler_trace"]:
        seen.setdefault(i, []).append(e)
    traced = {}
    for ev, _ in case["traced"]:
        mm = LIFE_RE.match(ev)
        traced.setdefault(NAMES.index(mm.group(1)), set()).add(PHASES.index(mm.group(2)))
    for i, seq in seen.items():
        want = [e for e in posted.get(i, []) if e in traced.get(i, ())]
        if i in stuck_known and want[:len(seq)] == seq:
            continue
        # delivery is depth-first (C01): events posted from a handler overtake events already queued, so handlers
        # may see will_stop before started.  The property orders the posts; delivery must be exactly-once.
        if sorted(seq) != sorted(want):
            fails.append({"sig": "delivered-not-once", "what": "mode %s: handlers saw %s but %s was posted" %
                          (NAMES[i], [PHASES[x] for x in seq], [PHASES[x] for x in want])})
    if out.get("outside_posts"):
        fails.append({"sig": "order-posted", "what": "lifecycle event posted outside a lifecycle step: %s" % out["outside_posts"]})
    # 2. active list
    if out.get("sorted_bad"):
        fails.append({"sig": "active-list", "what": "active_modes %s but the active modes by (priority, name) are %s (step %s)" %
                      (out["sorted_bad"][0][1], out["sorted_bad"][0][2], out["sorted_bad"][0][0])})
    # 3. nothing left behind
    for tag, nsteps, phases, leaks in out["quiescent"]:
        if leaks:
            fails.append({"sig": "left-behind", "what": "after script step %s an idle mode still owns: %s" % (tag, leaks[:4])})
            break
    if out.get("at_base") and out.get("dump_diff"):
        fails.append({"sig": "registry-not-restored", "what": "registries differ from the pre-start dump: %s" % out["dump_diff"][:6]})
    if out.get("regs_missing"):
        tag, i, missing = out["regs_missing"][0]
        fails.append({"sig": "registrations-lost", "what": "mode %s is up but no longer has what its start registered: %s (script step %s)" %
                      (NAMES[i], missing, tag)})
    if out.get("cycle_regs_differ"):
        i, extra, lacking = out["cycle_regs_differ"][0]
        fails.append({"sig": "cycle-differs", "what": "a later start of mode %s registered something else than its first start: +%s -%s" %
                      (NAMES[i], extra, lacking)})
    if out.get("stop_event_ignored"):
        n, ev, at = out["stop_event_ignored"][0]
        fails.append({"sig": "stop-event-ignored", "what": "mode %s was up (not stopping) and did not react to its stop event %s (step %s)" % (n, ev, at)})
    # 4. every accepted start / stop completed once the blockers were released
    for key in ("final_phases_before_stop", "final_phases"):
        ph = out.get(key) or []
        bad = [i for i, p in enumerate(ph) if p not in (0, 2)]
        if bad:
            # exactly the recorded defect: a use_wait_queue mode whose start re-posted the caller's locked queue
            known = all(ph[i] == 1 and i in stuck_known for i in bad)
            fails.append({"sig": "waitq-shared-queue-start-stuck" if known else "transition-stuck",
                          "what": "after all queues were released and 18 s passed the modes are in phases %s (%s)" % (ph, key)})
            break
    return fails


def shrink_life(case):
    sc = case["script"]
    for i in range(len(sc)):
        yield dict(case, script=sc[:i] + sc[i + 1:])
    for key in ("reactions", "blockers"):
        for i in range(len(case[key])):
            yield dict(case, **{key: case[key][:i] + case[key][i + 1:]})
    for mn, mc in case["modes"].items():
        for sec in ("counters", "timers", "event_player", "variable_player"):
            if sec in mc:
                yield dict(case, modes=dict(case["modes"], **{mn: {k: v for k, v in mc.items() if k != sec}}))
    if case["traced"]:
        yield dict(case, traced=[])


def nontrivial_life(case, out):
    if "boot_error" in out or out.get("error"):
        return False
    starts = {}
    for s in out["steps"]:
        if s[0] == "QStopped":
            starts[s[1]] = starts.get(s[1], 0) + 1
    return out.get("requests", 0) > 0 or out.get("adds", 0) > 0 or any(v >= 2 for v in starts.values())


def describe_life(case):
    return "modes=%d script=%s react=%d block=%d" % (len(case["modes"]), "<=8" if len(case["script"]) <= 8 else
                                                     "<=18" if len(case["script"]) <= 18 else ">18",
                                                     len(case["reactions"]), len(case["blockers"]))


HDR_LIFE = "From C07 Require Import Model.\nDefinition run := life_run.\nDefinition out_eqb := life_out_eqb.\n"

SUITES = [
    Suite("life", gen_life, run_life, HDR_LIFE, coq_life, oracle_life, shrink_life, nontrivial_life,
          {"quick": int(os.environ.get("C07_N", "280")), "thorough": 10000}, describe=describe_life, shard=40, case_timeout=120),
]

LEVEL_TEXT = ("Machine-checked proof (Coq) over a transition-system model of Mode.start/_started/stop/_stopped/"
              "_mode_stopped_callback and ModeController.set_mode_state, for every history of requests and completions: "
              "each mode's lifecycle events follow the cycle will_start..stopped, active_modes is exactly the active modes "
              "sorted by (priority, name), an idle mode owns nothing in the registries and other owners' entries are never "
              "touched; the defects of the code as found are _refuted theorems with witnesses.  Every lifecycle step the real "
              "Mode objects execute in generated histories is replayed on the model on every run.")
LEVEL_NOTE = ("Trusted: Coq kernel + vm_compute; no axioms. Model hand-written; event bus not modelled (completions are "
              "history operations; all orders covered); registrations are inputs (Add operations), removals are predicted; "
              "tie = replay of observed steps + direct oracle (cycle order, sorted active list, idle-owns-nothing, "
              "registry equals pre-start dump, no stuck transition, no exception).")
TECHNIQUE = "Coq proof over hand-written transition-system model + differential replay of observed lifecycle steps (vm_compute) + direct oracle"
DESIGN_REF = "DESIGN.md section 3, C07"
